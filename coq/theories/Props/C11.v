(* C11 — Cell boundary is a well-formed ring.
   Property theorems only: full statement, `exact <lemma>`, Print Assumptions.

   FIRST PART.  What is proved here holds for EVERY number instance [ops T] (ideal reals, interval enclosures, ...),
   purely from the list / integer structure of the model of cell_to_boundary (Geo/Cell.v):
   - point count: vertices * n (+ 1 when a closed ring is requested), vertices = 3 for the
     resolution-1 (quintant) cells and 5 otherwise, n = requested subdivision or the default;
   - a closed ring repeats its first point at the end; the open ring is the closed one without it;
   - the corner points (positions 0, n, 2n, ...) are the unprojected pentagon vertices, the same for
     every n (raw boundary: exactly; final ring: latitudes exactly, longitudes up to whole turns);
   - longitude normalisation keeps the point count and the latitudes and moves each longitude by
     whole turns only;
   - the world cell has the empty boundary.
   A result [None] of the model means "a comparison was undecided" and occurs only in the interval
   instance; all statements are about the successful answers [Some (Ok _)].

   PLANAR HALF of "the ring is counter-clockwise and the reported centre lies inside it" (second part of this
   file, theorems C11_planar_*; exact rational instance QInst, face coordinates; Geo/RingPlanar.v).
   Conventions of the code, proved as C11_planar_area_convention / C11_planar_cross_convention:
     get_area l = - sum (xi * yj - xj * yi), so the winding kept by the shape constructor (get_area > 0, called
     "counter-clockwise" in pentagon.rs) is CLOCKWISE for x to the right and y upwards (shoelace l < 0); every entry
     of [crosses l p] is - (v2 - v1) x (p - v1), positive when p is to the right of the edge v1 -> v2; the two agree.
   Proved for the outline of EVERY cell of resolution >= 0 (face pentagon, quintant triangles q = 0..4 with the f64
   rotation matrices, pentagons of every curve depth >= 0, every anchor - in particular s_to_anchor s n o for all
   n, o, s - and every quintant 0..4):
   - get_area > 0 (shoelace < 0): one and the same winding for all cells, never re-wound;
   - strictly convex with that winding: the sign matrix of (edge j) x (vertex i) is the circulant pattern [pat n]
     (zero on the two edges through the vertex, positive on all others); in particular every vertex is on the inner
     side of every edge line;
   - the centre [get_center] (vertex mean; for the triangle the centroid) has all cross products > 0 (strictly
     inside), hence contains_point = Some true;
   - subdivision (split_edges, any n): the subdivided outline is NOT reversed by the winding check, it has the same
     signed area, and each of its points lies on the boundary of the outline (all cross products >= 0, one = 0);
     every sub-edge is a positive fraction of an outline edge, so a point strictly inside the outline - in
     particular the centre - is strictly inside the subdivided outline (all cross products > 0, contains_point).
   Method: all signs are invariant under p |-> M ((p + t) * k) with det M > 0, k > 0; 32 local shapes (five boolean
   tests of the anchor), 5 triangles and the face are checked by computation.

   List level, any number instance (C11_ring_reversed_outline): the open ring is the REVERSE of
     outline -> split_edges -> unprojection point by point -> longitude normalisation (whole turns only).
   So: the planar list is clockwise in face coordinates (x right, y up), and the reported lon/lat ring is the image
   of that list read backwards (the `reverse()` patch in cell_to_boundary).

   NOT proved (what remains for the spherical statement):
   - the unprojection face plane -> (longitude, latitude), v |-> to_lon_lat (dodec_inverse v origin), is injective on
     the cell and orientation-PRESERVING from (x, y) to (lon, lat) (positive Jacobian; for the two polar faces and
     cells that contain a pole or cross the antimeridian the statement has to be made on the sphere, seen from
     outside, not in the lon/lat chart).  With it the clockwise planar outline maps to a clockwise curve and the
     final reversal makes the ring counter-clockwise; without it nothing is claimed about the ring's orientation;
   - the image of the straight subdivided edges is only sampled: the ring is the polygon through the unprojected
     subdivision points, not the image of the planar outline;
   - that the reported centre cell_to_lonlat = unprojection of get_center lies inside that spherical polygon
     (follows from the planar containment once the unprojection is shown to be an orientation-preserving
     homeomorphism of the cell onto its image, up to the sampling error of the edges);
   - for the interval/real instances: that the shape constructor takes the same branch as in QInst (the rational
     instance uses the exact f64 constants, so get_area is far from 0: A0 / 4^hr * det);
   - all longitudes of a ring lie in one 180-degree window around the ring centre;
   - latitudes are in [-90, 90];
   - that the answer is not [None] / that decisions are settled (real instance: by totality of the
     real comparisons; interval instance: per sample).
   Orientation and containment on the sphere are covered by the certified samples and by search only. *)
From Coq Require Import ZArith List Bool.
From A5 Require Import Base.Outcome Num.NumOps Id.Codec Geo.Tiling Geo.Cell Geo.BoundaryProofs.
Import ListNotations.

(* Number of points of a successful boundary, for a requested subdivision n >= 1 or the default
   ([segs_of segs c] is n, or default_segments of the cell's resolution). *)
Theorem C11_ring_length :
  forall (T : Type) (OP : ops T) (id : Z) (segs : option Z) (closed : bool) (ring : list (T * T)),
  cell_to_boundary OP id segs closed = Some (Ok ring) -> get_resolution id <> (-1)%Z ->
  exists c, deserialize id = Ok c /\ resolution c = get_resolution id /\
    ((1 <= segs_of segs c)%Z ->
     length ring = (nverts c * Z.to_nat (segs_of segs c) + (if closed then 1 else 0))%nat).
Proof. exact (@cell_to_boundary_length). Qed.
Print Assumptions C11_ring_length.

(* With the default subdivision there is no side condition. *)
Theorem C11_ring_length_default :
  forall (T : Type) (OP : ops T) (id : Z) (closed : bool) (ring : list (T * T)),
  cell_to_boundary OP id None closed = Some (Ok ring) -> get_resolution id <> (-1)%Z ->
  exists c, deserialize id = Ok c /\ resolution c = get_resolution id /\
    length ring = (nverts c * Z.to_nat (default_segments (resolution c)) + (if closed then 1 else 0))%nat.
Proof. exact (@cell_to_boundary_length_default). Qed.
Print Assumptions C11_ring_length_default.

(* Any requested n, including n <= 0, which behaves as n = 1. *)
Theorem C11_ring_length_any :
  forall (T : Type) (OP : ops T) (id : Z) (segs : option Z) (closed : bool) (ring : list (T * T)),
  cell_to_boundary OP id segs closed = Some (Ok ring) -> get_resolution id <> (-1)%Z ->
  exists c, deserialize id = Ok c /\ resolution c = get_resolution id /\
    length ring = (nverts c * Nat.max 1 (Z.to_nat (segs_of segs c)) + (if closed then 1 else 0))%nat.
Proof. exact (@cell_to_boundary_length_gen). Qed.
Print Assumptions C11_ring_length_any.

(* nverts: 3 for the quintant cells, 5 otherwise (definitional). *)
Theorem C11_nverts : forall c, nverts c = if (resolution c =? 1)%Z then 3%nat else 5%nat.
Proof. exact (fun c => eq_refl). Qed.
Print Assumptions C11_nverts.

(* Default subdivision: at least 1; 64 at resolution 0; 2^(6-r) up to resolution 6; 1 from there on. *)
Theorem C11_default_segments_pos : forall r, (1 <= default_segments r)%Z.
Proof. exact default_segments_pos. Qed.
Print Assumptions C11_default_segments_pos.

Theorem C11_default_segments_0 : default_segments 0 = 64%Z.
Proof. exact default_segments_0. Qed.
Print Assumptions C11_default_segments_0.

Theorem C11_default_segments_low : forall r, (0 <= r <= 6)%Z -> default_segments r = (2 ^ (6 - r))%Z.
Proof. exact default_segments_low. Qed.
Print Assumptions C11_default_segments_low.

Theorem C11_default_segments_high : forall r, (6 <= r)%Z -> default_segments r = 1%Z.
Proof. exact default_segments_high. Qed.
Print Assumptions C11_default_segments_high.

(* A closed ring starts and ends with the same point. *)
Theorem C11_closed :
  forall (T : Type) (OP : ops T) (id : Z) (segs : option Z) (ring : list (T * T)) (d : T * T),
  cell_to_boundary OP id segs true = Some (Ok ring) -> hd d ring = last ring d.
Proof. exact (@cell_to_boundary_closed). Qed.
Print Assumptions C11_closed.

(* The closed ring is the open ring with its last point repeated in front. *)
Theorem C11_open_closed :
  forall (T : Type) (OP : ops T) (id : Z) (segs : option Z) (r_open r_closed : list (T * T)),
  cell_to_boundary OP id segs false = Some (Ok r_open) ->
  cell_to_boundary OP id segs true = Some (Ok r_closed) ->
  r_closed = firstn 1 (rev r_open) ++ r_open.
Proof. exact (@cell_to_boundary_open_closed). Qed.
Print Assumptions C11_open_closed.

(* The world cell has no boundary. *)
Theorem C11_world :
  forall (T : Type) (OP : ops T) (id : Z) (segs : option Z) (closed : bool),
  get_resolution id = (-1)%Z -> cell_to_boundary OP id segs closed = Some (Ok []).
Proof. exact (@cell_to_boundary_world). Qed.
Print Assumptions C11_world.

(* The outline of a cell has 3 (quintant cells) or 5 vertices. *)
Theorem C11_outline_vertices :
  forall (T : Type) (OP : ops T) (c : cell) (l : list (T * T)),
  get_pentagon OP c = Some l -> length l = nverts c.
Proof. exact (@get_pentagon_length). Qed.
Print Assumptions C11_outline_vertices.

(* Edge subdivision: n points per edge; the corners sit at positions 0, n, 2n, ... of the
   subdivided outline [sp], which the shape constructor keeps or reverses (winding check). *)
Theorem C11_split_length :
  forall (T : Type) (OP : ops T) (l l' : list (T * T)) (n : nat),
  split_edges OP l n = Some l' -> (1 <= n)%nat -> length l' = (length l * n)%nat.
Proof. exact (@split_edges_length). Qed.
Print Assumptions C11_split_length.

Theorem C11_split_corners :
  forall (T : Type) (OP : ops T) (l l' : list (T * T)) (n : nat),
  split_edges OP l n = Some l' -> (1 <= n)%nat ->
  exists sp, (l' = sp \/ l' = rev sp) /\
             length sp = (length l * n)%nat /\
             every_nth n sp = l /\
             (forall j d, (j < length l)%nat -> nth (j * n) sp d = nth j l d).
Proof. exact (@split_edges_corners). Qed.
Print Assumptions C11_split_corners.

(* [every_nth n l] is the list of the elements number 0, n, 2n, ... of l. *)
Theorem C11_every_nth_spec :
  forall (A : Type) (n : nat) (x : A) (blk rest : list A),
  length blk = (n - 1)%nat -> every_nth n ((x :: blk) ++ rest) = x :: every_nth n rest.
Proof. exact (@every_nth_block). Qed.
Print Assumptions C11_every_nth_spec.

(* Raw boundary (before longitude normalisation): count and corners. *)
Theorem C11_raw_length :
  forall (T : Type) (OP : ops T) (id : Z) (segs : option Z) (pts : list (T * T)),
  cell_boundary_raw OP id segs = Some (Ok pts) -> get_resolution id <> (-1)%Z ->
  exists c, deserialize id = Ok c /\ resolution c = get_resolution id /\
            ((1 <= segs_of segs c)%Z ->
             length pts = (nverts c * Z.to_nat (segs_of segs c))%nat).
Proof. exact (@cell_boundary_raw_length). Qed.
Print Assumptions C11_raw_length.

(* The corners of the raw boundary are the unprojected vertices of the cell outline: they do not
   depend on n. *)
Theorem C11_raw_corners :
  forall (T : Type) (OP : ops T) (id : Z) (segs : option Z) (pts : list (T * T)),
  cell_boundary_raw OP id segs = Some (Ok pts) -> get_resolution id <> (-1)%Z ->
  exists c pent, deserialize id = Ok c /\ get_pentagon OP c = Some pent /\
    ((1 <= segs_of segs c)%Z ->
     exists cs, (cs = pts \/ cs = rev pts) /\
       Forall2 (fun v p => unproject OP c v = Some p) pent (every_nth (Z.to_nat (segs_of segs c)) cs)).
Proof. exact (@cell_boundary_raw_corners). Qed.
Print Assumptions C11_raw_corners.

Theorem C11_raw_corners_same_for_every_n :
  forall (T : Type) (OP : ops T) (id n1 n2 : Z) (p1 p2 : list (T * T)),
  cell_boundary_raw OP id (Some n1) = Some (Ok p1) ->
  cell_boundary_raw OP id (Some n2) = Some (Ok p2) ->
  get_resolution id <> (-1)%Z -> (1 <= n1)%Z -> (1 <= n2)%Z ->
  exists c1 c2, (c1 = p1 \/ c1 = rev p1) /\ (c2 = p2 \/ c2 = rev p2) /\
                every_nth (Z.to_nat n1) c1 = every_nth (Z.to_nat n2) c2.
Proof. exact (@cell_boundary_raw_corners_indep). Qed.
Print Assumptions C11_raw_corners_same_for_every_n.

(* Longitude normalisation: same number of points, same latitudes, each longitude moved by
   repeatedly subtracting / adding 360 ([shifted360]). *)
Theorem C11_normalize_length :
  forall (T : Type) (OP : ops T) (contour nb : list (T * T)),
  normalize_longitudes OP contour = Some nb -> length nb = length contour.
Proof. exact (@normalize_longitudes_length). Qed.
Print Assumptions C11_normalize_length.

Theorem C11_normalize_lat :
  forall (T : Type) (OP : ops T) (contour nb : list (T * T)),
  normalize_longitudes OP contour = Some nb ->
  Forall2 (fun p q => shifted360 OP (fst p) (fst q) /\ snd q = snd p) contour nb.
Proof. exact (@normalize_longitudes_lat). Qed.
Print Assumptions C11_normalize_lat.

(* finer: at most 7 subtractions then at most 7 additions, with the loop exit tests *)
Theorem C11_normalize_spec :
  forall (T : Type) (OP : ops T) (contour nb : list (T * T)),
  normalize_longitudes OP contour = Some nb ->
  exists c, Forall2 (wrapped OP c) contour nb.
Proof. exact (@normalize_longitudes_spec). Qed.
Print Assumptions C11_normalize_spec.

(* The ring is the raw boundary in reverse order, latitudes untouched, longitudes moved by whole turns. *)
Theorem C11_ring_points :
  forall (T : Type) (OP : ops T) (id : Z) (segs : option Z) (ring : list (T * T)),
  cell_to_boundary OP id segs false = Some (Ok ring) -> get_resolution id <> (-1)%Z ->
  exists pts, cell_boundary_raw OP id segs = Some (Ok pts) /\
    Forall2 (fun p q => shifted360 OP (fst p) (fst q) /\ snd q = snd p) pts (rev ring).
Proof. exact (@cell_to_boundary_points). Qed.
Print Assumptions C11_ring_points.

(* Corners of the final ring: the unprojected outline vertices, longitudes up to whole turns. *)
Theorem C11_ring_corners :
  forall (T : Type) (OP : ops T) (id : Z) (segs : option Z) (ring : list (T * T)),
  cell_to_boundary OP id segs false = Some (Ok ring) -> get_resolution id <> (-1)%Z ->
  exists c pent, deserialize id = Ok c /\ get_pentagon OP c = Some pent /\
    ((1 <= segs_of segs c)%Z ->
     exists cs, (cs = ring \/ cs = rev ring) /\
       Forall2 (fun v q => exists p, unproject OP c v = Some p /\
                                     shifted360 OP (fst p) (fst q) /\ snd q = snd p)
               pent (every_nth (Z.to_nat (segs_of segs c)) cs)).
Proof. exact (@cell_to_boundary_corners). Qed.
Print Assumptions C11_ring_corners.

(* ---- Interval model soundness: the executable interval instance (used by the correspondence check) encloses the
   ideal-real instance about which the theorems of this file speak.  [encl i x] = the real x lies in the interval i;
   [sound_opt rel a b] = whenever the interval run answers [Some], the real run answers [Some] with a related value
   (the interval run may give up with [None], never answer differently). ---- *)
From A5 Require Import Num.IvInst Num.IvSound Geo.IvSoundGeo Geo.IvSoundCell.

Theorem C11_interval_boundary_sound : forall id segs closed,
  sound_opt (rout (Forall2 encl2)) (cell_to_boundary IvInst id segs closed) (cell_to_boundary RInst id segs closed).
Proof. exact cell_to_boundary_sound. Qed.
Print Assumptions C11_interval_boundary_sound.

(* ================================================================== planar half: orientation and centre *)
From Coq Require Import QArith.
From A5 Require Import Num.QInst Hilbert.Hilbert Hilbert.ChildProofs Geo.RingPlanar.
Local Open Scope Q_scope.

(* The conventions.  [shoelace l] = sum (xi * yj - xj * yi) over the closed cycle: twice the signed area,
   counter-clockwise positive for x to the right and y upwards. *)
Theorem C11_planar_area_convention : forall l : list (Q * Q), get_area QInst l == - shoelace l.
Proof. exact area_shoelace. Qed.
Print Assumptions C11_planar_area_convention.

(* [crosses l p] lists, edge by edge (v1, v2), the number - ((v2 - v1) x (p - v1)). *)
Theorem C11_planar_cross_convention : forall (l : list (Q * Q)) (p : Q * Q),
  crosses QInst l p = map (fun e => cross_e e p) (edges l) /\
  forall e : (Q * Q) * (Q * Q),
    cross_e e p == - ((fst (snd e) - fst (fst e)) * (snd p - snd (fst e)) - (snd (snd e) - snd (fst e)) * (fst p - fst (fst e))).
Proof. exact (fun l p => conj (crosses_edges l p) (fun e => cross_e_std e p)). Qed.
Print Assumptions C11_planar_cross_convention.

(* Cell pentagons: every curve depth hr >= 0, every quintant 0..4, EVERY anchor. *)
Theorem C11_planar_cell_outline : forall (hr q : Z) (a : anchor), (0 <= hr)%Z -> (0 <= q <= 4)%Z ->
  exists l, get_pentagon_vertices QInst hr q a = Some l /\
    length l = 5%nat /\ 0 < get_area QInst l /\ shoelace l < 0 /\
    Forall (fun v => Forall (fun c => 0 <= c) (crosses QInst l v)) l /\
    vertex_signs l = pat 5 /\
    Forall (fun c => 0 < c) (crosses QInst l (get_center QInst l)) /\
    contains_point QInst l (get_center QInst l) = Some true.
Proof. exact cell_pentagon_facts. Qed.
Print Assumptions C11_planar_cell_outline.

(* The cells of the property: curve depth n (1..29), orientation o (0..5), position s (< 4^n), quintant q.
   No condition on n, o, s is needed. *)
Theorem C11_planar_cell_outline_s : forall (n : nat) (q o s : Z), (0 <= q <= 4)%Z ->
  exists l, get_pentagon_vertices QInst (Z.of_nat n) q (s_to_anchor s n o) = Some l /\
    length l = 5%nat /\ 0 < get_area QInst l /\ shoelace l < 0 /\
    Forall (fun v => Forall (fun c => 0 <= c) (crosses QInst l v)) l /\
    vertex_signs l = pat 5 /\
    Forall (fun c => 0 < c) (crosses QInst l (get_center QInst l)) /\
    contains_point QInst l (get_center QInst l) = Some true.
Proof. exact cell_pentagon_facts_s. Qed.
Print Assumptions C11_planar_cell_outline_s.

(* The strict-convexity pattern, written out: row i = vertex i against the edges 0..n-1. *)
Theorem C11_planar_pattern :
  pat 5 = [[Eq; Gt; Gt; Gt; Eq]; [Eq; Eq; Gt; Gt; Gt]; [Gt; Eq; Eq; Gt; Gt]; [Gt; Gt; Eq; Eq; Gt]; [Gt; Gt; Gt; Eq; Eq]] /\
  pat 3 = [[Eq; Gt; Eq]; [Eq; Eq; Gt]; [Gt; Eq; Eq]] /\
  (forall (l : list (Q * Q)), vertex_signs l = map (fun v => map (fun c => c ?= 0) (crosses QInst l v)) l).
Proof. exact (conj eq_refl (conj eq_refl (fun l => eq_refl))). Qed.
Print Assumptions C11_planar_pattern.

(* Quintant triangles (resolution 1), f64 rotation matrices. *)
Theorem C11_planar_quintant_outline : forall q : Z, (0 <= q <= 4)%Z ->
  exists l, get_quintant_vertices QInst q = Some l /\
    length l = 3%nat /\ 0 < get_area QInst l /\ shoelace l < 0 /\
    Forall (fun v => Forall (fun c => 0 <= c) (crosses QInst l v)) l /\
    vertex_signs l = pat 3 /\
    Forall (fun c => 0 < c) (crosses QInst l (get_center QInst l)) /\
    contains_point QInst l (get_center QInst l) = Some true.
Proof. exact quintant_triangle_facts. Qed.
Print Assumptions C11_planar_quintant_outline.

(* Face pentagon (resolution 0). *)
Theorem C11_planar_face_outline :
  exists l, get_face_vertices QInst = Some l /\
    length l = 5%nat /\ 0 < get_area QInst l /\ shoelace l < 0 /\
    Forall (fun v => Forall (fun c => 0 <= c) (crosses QInst l v)) l /\
    vertex_signs l = pat 5 /\
    Forall (fun c => 0 < c) (crosses QInst l (get_center QInst l)) /\
    contains_point QInst l (get_center QInst l) = Some true.
Proof. exact face_pentagon_facts. Qed.
Print Assumptions C11_planar_face_outline.

(* Subdivision of a clockwise (get_area > 0) convex outline: not re-wound, same signed area, every point on the
   boundary.  ([subdivide l n] is split_from started at the first vertex.) *)
Theorem C11_planar_subdivision : forall (l : list (Q * Q)) (n : nat) (l' : list (Q * Q)),
  0 < get_area QInst l ->
  Forall (fun v => Forall (fun c => 0 <= c) (crosses QInst l v)) l ->
  split_edges QInst l n = Some l' ->
  l' = (if Nat.leb n 1 then l else match l with [] => [] | a :: _ => split_from QInst a l n end) /\
  get_area QInst l' == get_area QInst l /\
  (forall p, In p l' ->
     Forall (fun c => 0 <= c) (crosses QInst l p) /\ Exists (fun c => c == 0) (crosses QInst l p)).
Proof. exact split_edges_good. Qed.
Print Assumptions C11_planar_subdivision.

(* All of it for the outline of a cell as get_pentagon (cell.rs) computes it: any cell record with resolution >= 0. *)
Theorem C11_planar_cell : forall (c : cell) (n : nat), (0 <= resolution c)%Z ->
  exists pent sp, get_pentagon QInst c = Some pent /\
    (length pent = nverts c /\ 0 < get_area QInst pent /\ shoelace pent < 0 /\
     Forall (fun v => Forall (fun c => 0 <= c) (crosses QInst pent v)) pent /\
     vertex_signs pent = pat (nverts c) /\
     Forall (fun c => 0 < c) (crosses QInst pent (get_center QInst pent)) /\
     contains_point QInst pent (get_center QInst pent) = Some true) /\
    split_edges QInst pent n = Some sp /\
    sp = (if Nat.leb n 1 then pent else subdivide pent n) /\
    get_area QInst sp == get_area QInst pent /\
    (forall p, In p sp ->
       Forall (fun c => 0 <= c) (crosses QInst pent p) /\ Exists (fun c => c == 0) (crosses QInst pent p)).
Proof. exact cell_outline_facts. Qed.
Print Assumptions C11_planar_cell.

(* A point strictly inside the outline is strictly inside the subdivided outline. *)
Theorem C11_planar_subdivision_inside : forall (l : list (Q * Q)) (n : nat) (l' : list (Q * Q)) (w : Q * Q),
  0 < get_area QInst l -> split_edges QInst l n = Some l' ->
  Forall (fun c => 0 < c) (crosses QInst l w) -> Forall (fun c => 0 < c) (crosses QInst l' w).
Proof. exact split_edges_inside. Qed.
Print Assumptions C11_planar_subdivision_inside.

(* The planar ring of any cell (subdivided outline, any n) is clockwise and has the outline's centre strictly inside. *)
Theorem C11_planar_centre_in_ring : forall (c : cell) (n : nat), (0 <= resolution c)%Z ->
  exists pent sp, get_pentagon QInst c = Some pent /\ split_edges QInst pent n = Some sp /\
    0 < get_area QInst sp /\
    Forall (fun c => 0 < c) (crosses QInst sp (get_center QInst pent)) /\
    contains_point QInst sp (get_center QInst pent) = Some true.
Proof. exact cell_centre_in_subdivided. Qed.
Print Assumptions C11_planar_centre_in_ring.

(* List level, any number instance: the open ring is the reverse of the unprojected, longitude-normalised,
   subdivided outline. *)
Theorem C11_ring_reversed_outline :
  forall (T : Type) (OP : ops T) (id : Z) (segs : option Z) (ring : list (T * T)),
  cell_to_boundary OP id segs false = Some (Ok ring) -> get_resolution id <> (-1)%Z ->
  exists c pent sp pts nb,
    deserialize id = Ok c /\ get_pentagon OP c = Some pent /\
    split_edges OP pent (Z.to_nat (segs_of segs c)) = Some sp /\
    Forall2 (fun v p => unproject OP c v = Some p) sp pts /\
    Forall2 (fun p q => shifted360 OP (fst p) (fst q) /\ snd q = snd p) pts nb /\
    ring = rev nb.
Proof. exact (@ring_is_reversed_outline). Qed.
Print Assumptions C11_ring_reversed_outline.

(* ---- Latitude range of the reported points (ideal-real instance; Geo/RingLatRange.v).  The f64 constants standing in
   for pi are slightly smaller than pi, so the ideal-real latitude can leave [-90, 90] by about 2e-14 degrees at the
   poles ("to rounding" in the property); the slack proved is 1e-12 degrees.  The polar angle handed to to_lon_lat is
   an atan2 of a square root, hence in [0, PI] (C11_polar_angle_range); the authalic inverse maps [-PI/2, PI/2] into
   itself (C19_authalic_inv_range) and stays within 2e-16 of it on the sliver the constants add. ---- *)
From Coq Require Import Reals.
From A5 Require Import Geo.Authalic Geo.Projection Geo.RingLatRange.
Open Scope R_scope.

Theorem C11_polar_angle_range :
  forall (c : R * R * R) (theta phi : R),
  to_spherical RInst c = Some (theta, phi) -> 0 <= phi <= PI.
Proof. exact to_spherical_phi_range. Qed.
Print Assumptions C11_polar_angle_range.

Theorem C11_to_lon_lat_latitude_range :
  forall theta phi lon lat : R,
  0 <= phi <= PI -> to_lon_lat RInst theta phi = (lon, lat) ->
  -90 - 1 / 10 ^ 12 <= lat <= 90 + 1 / 10 ^ 12.
Proof. exact to_lon_lat_lat_range'. Qed.
Print Assumptions C11_to_lon_lat_latitude_range.

Theorem C11_centre_latitude_range :
  forall (id : Z) (lon lat : R),
  cell_to_lonlat RInst id = Some (Ok (lon, lat)) ->
  -90 - 1 / 10 ^ 12 <= lat <= 90 + 1 / 10 ^ 12.
Proof. exact cell_to_lonlat_lat_range. Qed.
Print Assumptions C11_centre_latitude_range.

Theorem C11_ring_latitude_range :
  forall (id : Z) (segs : option Z) (closed : bool) (ring : list (R * R)),
  cell_to_boundary RInst id segs closed = Some (Ok ring) ->
  Forall (fun p => -90 - 1 / 10 ^ 12 <= snd p <= 90 + 1 / 10 ^ 12) ring.
Proof. exact cell_to_boundary_lat_range. Qed.
Print Assumptions C11_ring_latitude_range.

(* ---- Longitude window (ideal-real instance; Geo/RingLonWindow.v).  After normalisation every longitude of a ring lies
   within 180 degrees of one centre longitude (the model's center_lon), hence any two differ by at most 360: a cell
   crossing the antimeridian is reported unwrapped in one 360-degree window, never split.  (That the extent of a cell
   away from the poles is below 180 degrees is geometric and not proved.) ---- *)
From A5 Require Import Geo.RingLonWindow.

Theorem C11_normalize_window :
  forall contour nb : list (R * R),
  normalize_longitudes RInst contour = Some nb ->
  exists c : R, Forall (fun q => -180 <= fst q - c <= 180) nb.
Proof. exact normalize_longitudes_window. Qed.
Print Assumptions C11_normalize_window.

Theorem C11_ring_longitude_window :
  forall (id : Z) (segs : option Z) (closed : bool) (ring : list (R * R)),
  cell_to_boundary RInst id segs closed = Some (Ok ring) ->
  exists c : R, Forall (fun q => -180 <= fst q - c <= 180) ring.
Proof. exact cell_to_boundary_lon_window. Qed.
Print Assumptions C11_ring_longitude_window.

Theorem C11_ring_longitude_spread :
  forall (id : Z) (segs : option Z) (closed : bool) (ring : list (R * R)),
  cell_to_boundary RInst id segs closed = Some (Ok ring) ->
  forall p q, In p ring -> In q ring -> Rabs (fst p - fst q) <= 360.
Proof. exact cell_to_boundary_lon_spread. Qed.
Print Assumptions C11_ring_longitude_spread.
