(* C15 — Dodecahedron projection is invertible and maps each face onto its pentagon
   (ideal-real model RInst; kernel-checked PARTS only)
   Property theorems only: full statement, `exact <lemma>`, Print Assumptions.

   PROVED LATE IN THE BUILD (C15_polyhedral_roundtrip_main_branch, end of this file): for ANY spherical
   triangle of unit vectors with positive pairwise dot products and positive orientation, any planar
   triangle and any point strictly inside the spherical triangle, polyhedral_inverse undoes
   polyhedral_forward EXACTLY whenever the code's numerical short-cuts do not fire (main branch).
   Also proved (C15_polyhedral_converse_main_branch ...): the converse, forward after inverse, with the
   constructed point strictly inside the spherical triangle; injectivity of both maps; the forward image is
   strictly inside the planar triangle.  On the main branch the map is thus a bijection between the open triangles.
   STILL NOT PROVED (named premise ProjInverse in the design): the short-cut branches, the
   instantiation to the 10 + 10 face triangles of the twelve faces (dodec_inverse (dodec_forward x) = x),
   and that the image of a face is its pentagon.  Also not proved: the 1e-12 / 1e-11 round-trip tolerances under f64 arithmetic.
   These gaps are covered only by certified interval samples and search, not by theorems.
   Note that over the ideal reals the model is NOT exactly invertible where the code switches to
   small-argument formulas (barycentric coordinate > 1 - 1e-14 returns the corner itself;
   safe_acos uses a cubic below 1e-3; vector_difference / slerp / triangle_area have switches at
   1e-8 / 1e-12 / 1e-8): ProjInverse can only hold up to those approximations, two of which are
   bounded below (theorems C15_safe_acos_small, C15_safe_acos_RInst_spec).

   PROVED here, for every real input:
   - the libm functions the model defines itself (atan2, acos, asin, round, clamp) are correct;
   - barycentric <-> planar coordinates are exact mutual inverses;
   - gnomonic (tan/atan), polar (to_polar/to_face) and spherical (to_spherical/to_cartesian)
     conversions are exact mutual inverses on their domains;
   - sector index, gamma normalisation and the reflect test are total and compute what they claim;
   - the ten planar base triangles are non-degenerate, and every unreflected point lies (within
     1e-14) in the triangle the sector logic selects for it: the triangles cover the pentagon;
   - the planar triangle's corners are sent to the spherical triangle's vertices;
   - the table constants are the dodecahedron's within 1e-15; the 62 frame vertices are unit
     vectors, pairwise >= 0.3 apart, so snapping within 1e-5 is a function;
   - the two branches of safe_acos agree. *)
From Coq Require Import ZArith Reals List.
From A5 Require Import Num.NumOps Num.Derived Geo.Sphere Geo.Tiling Geo.Projection Geo.ProjectionProofs.
From A5gen Require Import TablesCur.
Import ListNotations.
Open Scope R_scope.

(* ---- 1. derived libm functions over R *)

(* atan2 is total; away from the origin its value is the polar angle in (-pi, pi] *)
Theorem C15_atan2_RInst_spec : forall y x, (x <> 0 \/ y <> 0) ->
  exists a, atan2 RInst y x = Some a /\ - PI < a <= PI /\
    cos a * sqrt (x * x + y * y) = x /\ sin a * sqrt (x * x + y * y) = y.
Proof. exact atan2_RInst_spec. Qed.
Print Assumptions C15_atan2_RInst_spec.

(* at the origin the value is 0, as in IEEE *)
Theorem C15_atan2_RInst_origin : atan2 RInst 0 0 = Some 0.
Proof. exact atan2_RInst_origin. Qed.
Print Assumptions C15_atan2_RInst_origin.

Theorem C15_acos_RInst_spec : forall x, -1 <= x <= 1 ->
  exists a, acos RInst x = Some a /\ 0 <= a <= PI /\ cos a = x.
Proof. exact acos_RInst_spec. Qed.
Print Assumptions C15_acos_RInst_spec.

Theorem C15_asin_RInst_spec : forall x, -1 <= x <= 1 ->
  exists a, asin RInst x = Some a /\ - (PI / 2) <= a <= PI / 2 /\ sin a = x.
Proof. exact asin_RInst_spec. Qed.
Print Assumptions C15_asin_RInst_spec.

(* they are the standard library's acos / asin *)
Theorem C15_acos_RInst_is_acos : forall x, -1 <= x <= 1 -> acos RInst x = Some (Ratan.acos x).
Proof. exact acos_RInst_is_acos. Qed.
Print Assumptions C15_acos_RInst_is_acos.

Theorem C15_asin_RInst_is_asin : forall x, -1 <= x <= 1 -> asin RInst x = Some (Ratan.asin x).
Proof. exact asin_RInst_is_asin. Qed.
Print Assumptions C15_asin_RInst_is_asin.

(* round is total and returns a nearest integer *)
Theorem C15_round_RInst_spec : forall x, exists n, round RInst x = Some n /\ Rabs (x - IZR n) <= 1 / 2.
Proof. exact round_RInst_spec. Qed.
Print Assumptions C15_round_RInst_spec.

(* ties go away from zero *)
Theorem C15_round_ties_away : forall x, round RInst x = Some (roundR x) /\
  (Rabs (x - IZR (roundR x)) = 1 / 2 -> Rabs x < Rabs (IZR (roundR x))).
Proof. exact (fun x => conj (round_RInst_total x) (roundR_ties_away x)). Qed.
Print Assumptions C15_round_ties_away.

Theorem C15_clamp1_RInst : forall x, clamp1 RInst x = Rmax (-1) (Rmin 1 x).
Proof. exact clamp1_RInst. Qed.
Print Assumptions C15_clamp1_RInst.

(* ---- 2. barycentric coordinates *)

Theorem C15_bary_roundtrip : forall (p : ptR) (tri : triR), tri_det tri <> 0 ->
  barycentric_to_face RInst (face_to_barycentric RInst p tri) tri = p.
Proof. exact bary_roundtrip. Qed.
Print Assumptions C15_bary_roundtrip.

Theorem C15_bary_roundtrip_inv : forall (u v w : R) (tri : triR), tri_det tri <> 0 -> u + v + w = 1 ->
  face_to_barycentric RInst (barycentric_to_face RInst (u, v, w) tri) tri = (u, v, w).
Proof. exact bary_roundtrip_inv. Qed.
Print Assumptions C15_bary_roundtrip_inv.

Theorem C15_bary_sum_one : forall (p : ptR) (tri : triR),
  let '(u, v, w) := face_to_barycentric RInst p tri in u + v + w = 1.
Proof. exact bary_sum_one. Qed.
Print Assumptions C15_bary_sum_one.

(* the determinant the code divides by is twice the signed area of the planar triangle *)
Theorem C15_tri_det_area : forall tri, tri_det tri = 2 * area2 tri.
Proof. exact tri_det_area. Qed.
Print Assumptions C15_tri_det_area.

(* ---- 3. gnomonic, polar and spherical maps *)

Theorem C15_gnomonic_inverse_forward : forall rho, tan (atan rho) = rho.
Proof. exact gnomonic_inverse_forward. Qed.
Print Assumptions C15_gnomonic_inverse_forward.

Theorem C15_gnomonic_forward_inverse : forall phi, - (PI / 2) < phi < PI / 2 -> atan (tan phi) = phi.
Proof. exact gnomonic_forward_inverse. Qed.
Print Assumptions C15_gnomonic_forward_inverse.

Theorem C15_gnomonic_range : forall rho, 0 <= rho -> 0 <= atan rho < PI / 2.
Proof. exact gnomonic_range. Qed.
Print Assumptions C15_gnomonic_range.

Theorem C15_to_polar_to_face : forall rho gamma, 0 < rho -> - PI < gamma <= PI ->
  to_polar RInst (to_face RInst rho gamma) = Some (rho, gamma).
Proof. exact to_polar_to_face. Qed.
Print Assumptions C15_to_polar_to_face.

Theorem C15_to_face_to_polar : forall (p : ptR) rho gamma, p <> (0, 0) ->
  to_polar RInst p = Some (rho, gamma) ->
  to_face RInst rho gamma = p /\ 0 < rho /\ - PI < gamma <= PI.
Proof. exact to_face_to_polar. Qed.
Print Assumptions C15_to_face_to_polar.

Theorem C15_to_polar_origin : to_polar RInst (0, 0) = Some (0, 0).
Proof. exact to_polar_origin. Qed.
Print Assumptions C15_to_polar_origin.

Theorem C15_to_spherical_to_cartesian : forall theta phi, - PI < theta <= PI -> 0 < phi < PI ->
  to_spherical RInst (to_cartesian RInst theta phi) = Some (theta, phi).
Proof. exact to_spherical_to_cartesian. Qed.
Print Assumptions C15_to_spherical_to_cartesian.

Theorem C15_to_cartesian_to_spherical : forall (c : vecR) theta phi, unitv c ->
  (fst (fst c) <> 0 \/ snd (fst c) <> 0) ->
  to_spherical RInst c = Some (theta, phi) ->
  to_cartesian RInst theta phi = c /\ - PI < theta <= PI /\ 0 < phi < PI.
Proof. exact to_cartesian_to_spherical. Qed.
Print Assumptions C15_to_cartesian_to_spherical.

(* ---- 4. sector logic *)

(* for EVERY real gamma the index is floor(gamma / PI_OVER_5) mod 10 (table constant) *)
Theorem C15_face_triangle_index_total : forall gamma,
  face_triangle_index RInst gamma = Some (Rfloor (gamma / dy2R PI_OVER_5) mod 10)%Z.
Proof. exact face_triangle_index_total. Qed.
Print Assumptions C15_face_triangle_index_total.

Theorem C15_face_triangle_index_exists : forall gamma, exists i, face_triangle_index RInst gamma = Some i.
Proof. exact face_triangle_index_exists. Qed.
Print Assumptions C15_face_triangle_index_exists.

Theorem C15_face_triangle_index_range : forall gamma i,
  face_triangle_index RInst gamma = Some i -> (0 <= i <= 9)%Z.
Proof. exact face_triangle_index_range. Qed.
Print Assumptions C15_face_triangle_index_range.

Theorem C15_face_triangle_index_spec : forall gamma i, - PI <= gamma < PI ->
  face_triangle_index RInst gamma = Some i ->
  i = (Rfloor (gamma / dy2R PI_OVER_5) mod 10)%Z /\
  (-6 <= Rfloor (gamma / dy2R PI_OVER_5) <= 5)%Z.
Proof. exact face_triangle_index_spec. Qed.
Print Assumptions C15_face_triangle_index_spec.

Theorem C15_face_triangle_index_sector : forall gamma,
  let f := Rfloor (gamma / dy2R PI_OVER_5) in
  IZR f * dy2R PI_OVER_5 <= gamma < (IZR f + 1) * dy2R PI_OVER_5.
Proof. exact face_triangle_index_sector. Qed.
Print Assumptions C15_face_triangle_index_sector.

Theorem C15_normalize_gamma_range : forall gamma b,
  normalize_gamma RInst gamma = Some b -> Rabs b <= dy2R TWO_PI_OVER_5 / 2.
Proof. exact normalize_gamma_range. Qed.
Print Assumptions C15_normalize_gamma_range.

Theorem C15_normalize_gamma_shift : forall gamma b,
  normalize_gamma RInst gamma = Some b -> exists k : Z, b = gamma - IZR k * dy2R TWO_PI_OVER_5.
Proof. exact normalize_gamma_shift. Qed.
Print Assumptions C15_normalize_gamma_shift.

Theorem C15_should_reflect_spec : forall rho gamma b,
  normalize_gamma RInst gamma = Some b ->
  should_reflect RInst rho gamma = Some (Rltb (dy2R DISTANCE_TO_EDGE) (rho * cos b)).
Proof. exact should_reflect_spec. Qed.
Print Assumptions C15_should_reflect_spec.

Theorem C15_should_reflect_total : forall rho gamma, exists r, should_reflect RInst rho gamma = Some r.
Proof. exact should_reflect_total. Qed.
Print Assumptions C15_should_reflect_total.

(* ---- planar consistency of the sector logic with the triangle table *)

(* the ten base triangles: a corner at the face centre, all of area (1/2) e^2 tan(pi/5) with
   e = (sqrt 5 - 1)/2, so the determinant face_to_barycentric divides by is not zero *)
Theorem C15_base_face_triangle_nondegenerate : forall idx, (0 <= idx <= 9)%Z ->
  exists tri : triR, base_face_triangle RInst idx = Some tri /\ fst (fst tri) = (0, 0) /\
    Rabs (tri_det tri - ((sqrt 5 - 1) / 2) ^ 2 * tan (PI / 5)) <= 1 / 10 ^ 15 /\ tri_det tri <> 0.
Proof. exact base_face_triangle_nondegenerate. Qed.
Print Assumptions C15_base_face_triangle_nondegenerate.

(* the angle of the reflect test is measured from the axis of the sector's quintant *)
Theorem C15_normalize_gamma_cos : forall gamma b, normalize_gamma RInst gamma = Some b ->
  cos b = cos (gamma - IZR ((Rfloor (gamma / PI5r) + 1) / 2) * TWOPI5r).
Proof. exact normalize_gamma_cos. Qed.
Print Assumptions C15_normalize_gamma_cos.

(* for EVERY point (rho, gamma) of the face plane: with respect to the base triangle selected by
   the sector index, v, w >= 0 up to 1e-14 rho, and u = 1 - rho cos(beta) / DISTANCE_TO_EDGE,
   the quantity the reflect test compares with 0 *)
Theorem C15_sector_in_triangle : forall rho gamma idx tri, 0 <= rho -> - PI <= gamma <= PI ->
  face_triangle_index RInst gamma = Some idx -> base_face_triangle RInst idx = Some tri ->
  let '(u, v, w) := face_to_barycentric RInst (to_face RInst rho gamma) tri in
  - (rho / 10 ^ 14) <= v /\ - (rho / 10 ^ 14) <= w /\
  forall b, normalize_gamma RInst gamma = Some b ->
    Rabs (u - (1 - rho * cos b / dy2R DISTANCE_TO_EDGE)) <= rho / 10 ^ 14.
Proof. exact sector_in_triangle. Qed.
Print Assumptions C15_sector_in_triangle.

(* a point that is not reflected lies in the triangle selected for it (tolerance 1e-14 rho,
   rho < 4/5): the ten base triangles cover the face pentagon consistently with the sector logic *)
Theorem C15_unreflected_point_in_triangle : forall rho gamma idx tri, 0 <= rho -> - PI <= gamma <= PI ->
  face_triangle_index RInst gamma = Some idx -> base_face_triangle RInst idx = Some tri ->
  should_reflect RInst rho gamma = Some false ->
  let '(u, v, w) := face_to_barycentric RInst (to_face RInst rho gamma) tri in
  rho < 4 / 5 /\ - (rho / 10 ^ 14) <= u /\ - (rho / 10 ^ 14) <= v /\ - (rho / 10 ^ 14) <= w.
Proof. exact unreflected_point_in_triangle. Qed.
Print Assumptions C15_unreflected_point_in_triangle.

(* ---- corners of the planar triangle go to the vertices of the spherical triangle *)
Theorem C15_polyhedral_inverse_corners : forall (tri : triR) (a b c : vecR), tri_det tri <> 0 ->
  let '(p1, p2, p3) := tri in
  polyhedral_inverse RInst p1 tri (a, b, c) = Some a /\
  polyhedral_inverse RInst p2 tri (a, b, c) = Some b /\
  polyhedral_inverse RInst p3 tri (a, b, c) = Some c.
Proof. exact polyhedral_inverse_corners. Qed.
Print Assumptions C15_polyhedral_inverse_corners.

(* ---- 6. constants *)

Theorem C15_edge_vertex_constants :
  Rabs (dy2R DISTANCE_TO_EDGE - (sqrt 5 - 1) / 2) <= 1 / 10 ^ 15 /\
  Rabs (dy2R DISTANCE_TO_VERTEX - (3 - sqrt 5)) <= 1 / 10 ^ 15.
Proof. exact edge_vertex_constants. Qed.
Print Assumptions C15_edge_vertex_constants.

Theorem C15_pi5_constants :
  Rabs (dy2R PI_OVER_5 - PI / 5) <= 1 / 10 ^ 15 /\
  Rabs (dy2R TWO_PI_OVER_5 - 2 * PI / 5) <= 1 / 10 ^ 15.
Proof. exact pi5_constants. Qed.
Print Assumptions C15_pi5_constants.

(* the f64 constants are BELOW pi/5 and 2pi/5 *)
Theorem C15_pi5_below : dy2R PI_OVER_5 < PI / 5 /\ 5 * dy2R TWO_PI_OVER_5 < 2 * PI.
Proof. exact pi5_below. Qed.
Print Assumptions C15_pi5_below.

Theorem C15_interhedral_constant :
  Rabs (dy2R INTERHEDRAL_ANGLE - (PI - 2 * atan ((1 + sqrt 5) / 2))) <= 1 / 10 ^ 15.
Proof. exact interhedral_constant. Qed.
Print Assumptions C15_interhedral_constant.

Theorem C15_crs_length : length crs_vertices = 62%nat.
Proof. exact crs_length. Qed.
Print Assumptions C15_crs_length.

Theorem C15_crs_unit : forall v, In v crs_vertices ->
  Rabs (vdot RInst (vec_of v) (vec_of v) - 1) <= 1 / 10 ^ 15.
Proof. exact crs_unit. Qed.
Print Assumptions C15_crs_unit.

Theorem C15_crs_separated : forall u v, In u crs_vertices -> In v crs_vertices -> u <> v ->
  3 / 10 <= vlen RInst (vsub RInst (vec_of u) (vec_of v)).
Proof. exact crs_separated. Qed.
Print Assumptions C15_crs_separated.

Theorem C15_crs_nodup : NoDup crs_vertices.
Proof. exact crs_nodup. Qed.
Print Assumptions C15_crs_nodup.

(* snapping: the result is a table vertex within 1e-5, it is the only one, and it is found *)
Theorem C15_crs_snap_spec : forall (p : vecR) l w, crs_snap RInst p l = Some w ->
  exists e, In e l /\ w = vec_of e /\ vlen RInst (vsub RInst p w) < 1 / 100000.
Proof. exact crs_snap_spec. Qed.
Print Assumptions C15_crs_snap_spec.

Theorem C15_crs_snap_unique : forall (p : vecR) u v, In u crs_vertices -> In v crs_vertices ->
  vlen RInst (vsub RInst p (vec_of u)) < 1 / 100000 ->
  vlen RInst (vsub RInst p (vec_of v)) < 1 / 100000 -> u = v.
Proof. exact crs_snap_unique. Qed.
Print Assumptions C15_crs_snap_unique.

Theorem C15_crs_snap_complete : forall (p : vecR) e, In e crs_vertices ->
  vlen RInst (vsub RInst p (vec_of e)) < 1 / 100000 ->
  crs_snap RInst p crs_vertices = Some (vec_of e).
Proof. exact crs_snap_complete. Qed.
Print Assumptions C15_crs_snap_complete.

(* ---- 7. safe_acos *)

(* safe_acos(x) stands for acos(1 - 2 x^2) = 2 asin x *)
Theorem C15_two_asin_acos : forall x, 0 <= x <= 1 -> 2 * Ratan.asin x = Ratan.acos (1 - 2 * x * x).
Proof. exact two_asin_acos. Qed.
Print Assumptions C15_two_asin_acos.

(* both branches agree at the switch *)
Theorem C15_safe_acos_switch : forall x, x = 1 / 1000 ->
  Rabs ((2 * x + x ^ 3 / 3) - Ratan.acos (1 - 2 * x * x)) <= 1 / 10 ^ 13.
Proof. exact safe_acos_switch. Qed.
Print Assumptions C15_safe_acos_switch.

(* the cubic branch: 2e-16 (1e-16 is false: 3 x^5 / 20 = 1.5e-16 at x = 1e-3) *)
Theorem C15_safe_acos_small : forall x, 0 <= x <= 1 / 1000 ->
  Rabs ((2 * x + x * x * x / 3) - 2 * Ratan.asin x) <= 2 / 10 ^ 16.
Proof. exact safe_acos_small. Qed.
Print Assumptions C15_safe_acos_small.

(* the model function on its whole domain *)
Theorem C15_safe_acos_RInst_spec : forall x, 0 <= x <= 1 ->
  exists a, safe_acos RInst x = Some a /\
    Rabs (a - Ratan.acos (1 - 2 * x * x)) <= 2 / 10 ^ 16 /\
    (1 / 1000 <= x -> a = Ratan.acos (1 - 2 * x * x)).
Proof. exact safe_acos_RInst_spec. Qed.
Print Assumptions C15_safe_acos_RInst_spec.

(* ---- The IVEA map: inverse after forward is the identity on the main branch (Geo/PolyhedralRoundTrip.v).
   dt = dot product, tp = triple product; isect a b c v is the point P where the great circle through a and v
   meets the arc bc; hR = sin(angle(a,v)/2) / sin(angle(a,P)/2); areaR = spherical excess as the code computes
   it.  The hypotheses below the `let`s say that none of the numerical short-cuts of the code fires
   (triangle_area: asin branch; slerp: sine-weights branch; safe_acos: acos branch; no barycentric coordinate
   above 1 - 1e-14); vector_difference needs no such hypothesis (both branches return the same real). ---- *)
From A5 Require Import Geo.PolyhedralRoundTrip.

Theorem C15_polyhedral_roundtrip_main_branch :
  forall (a b c v : vecR) (ft : triR), tri_det ft <> 0 ->
  unitv a -> unitv b -> unitv c -> unitv v ->
  0 < vdot RInst a b -> 0 < vdot RInst b c -> 0 < vdot RInst c a ->
  0 < triple_product RInst a b c -> 0 < triple_product RInst a b v ->
  0 < triple_product RInst b c v -> 0 < triple_product RInst c a v ->
  let P := isect a b c v in
  let h := hR a b c v in
  1 / 100000000 <= Rabs (half_excess_sine a b c) ->
  1 / 100000000 <= Rabs (half_excess_sine a P c) ->
  1 / 100000000 <= Rabs (half_excess_sine a b P) ->
  1 / 1000000000000 <= Ratan.acos (vdot RInst b c) ->
  1 / 1000000000000 <= Ratan.acos (vdot RInst a P) ->
  1 / 1000 <= sqrt ((1 - vdot RInst a v) / 2) ->
  1 / 1000 <= sqrt ((1 - vdot RInst a P) / 2) ->
  1 - h <= 1 - 1 / 100000000000000 ->
  h / areaR a b c * areaR a P c <= 1 - 1 / 100000000000000 ->
  h / areaR a b c * areaR a b P <= 1 - 1 / 100000000000000 ->
  exists fp, polyhedral_forward RInst v (a, b, c) ft = Some fp /\
             polyhedral_inverse RInst fp ft (a, b, c) = Some v.
Proof. exact polyhedral_roundtrip_main_branch. Qed.
Print Assumptions C15_polyhedral_roundtrip_main_branch.

(* what the forward map computes on the main branch, and additivity of the spherical excess along the arc bc *)
Theorem C15_polyhedral_forward_main_branch :
  forall (a b c v : vecR) (ft : triR),
  unitv a -> unitv b -> unitv c -> unitv v ->
  0 < vdot RInst a b -> 0 < vdot RInst b c -> 0 < vdot RInst c a ->
  0 < triple_product RInst a b c -> 0 < triple_product RInst a b v ->
  0 < triple_product RInst b c v -> 0 < triple_product RInst c a v -> vdot RInst a v < 1 ->
  let P := isect a b c v in
  let h := hR a b c v in
  1 / 100000000 <= Rabs (half_excess_sine a b c) ->
  1 / 100000000 <= Rabs (half_excess_sine a P c) ->
  1 / 100000000 <= Rabs (half_excess_sine a b P) ->
  polyhedral_forward RInst v (a, b, c) ft =
    Some (barycentric_to_face RInst
            (1 - h, h / areaR a b c * areaR a P c, h / areaR a b c * areaR a b P) ft) /\
  areaR a b P + areaR a P c = areaR a b c /\ 0 < areaR a b c.
Proof. exact polyhedral_forward_main_branch. Qed.
Print Assumptions C15_polyhedral_forward_main_branch.

(* the hypotheses of the round-trip theorem are jointly satisfiable: a concrete triangle and point *)
Theorem C15_polyhedral_roundtrip_instance :
  exists fp, polyhedral_forward RInst ex_v (ex_a, ex_b, ex_c) ex_ft = Some fp /\
             polyhedral_inverse RInst fp ex_ft (ex_a, ex_b, ex_c) = Some ex_v.
Proof. exact polyhedral_roundtrip_instance. Qed.
Print Assumptions C15_polyhedral_roundtrip_instance.

(* ---- The converse: forward after inverse is the identity on the main branch, so that on the main branch the IVEA map
   is a bijection between the open spherical triangle and the open planar triangle (Geo/PolyhedralRoundTripConverse.v).
   inv_alpha = (w / (1 - u)) * area(abc) is the excess the inverse aims for; inv_P is the point of the arc bc the
   inverse constructs for it; inv_k a P = sin(angle(a,P)/2); thr = 1 - 1e-14. ---- *)
From A5 Require Import Geo.PolyhedralRoundTripConverse.

Theorem C15_polyhedral_converse_main_branch :
  forall (a b c : vecR) (fp : ptR) (ft : triR) (u v w : R),
  tri_det ft <> 0 -> face_to_barycentric RInst fp ft = (u, v, w) ->
  unitv a -> unitv b -> unitv c ->
  0 < vdot RInst a b -> 0 < vdot RInst b c -> 0 < vdot RInst c a -> 0 < triple_product RInst a b c ->
  0 < u <= thr -> 0 < v <= thr -> 0 < w <= thr ->
  let h := 1 - u in let al := inv_alpha a b c u w in let P := inv_P a b c al in
  1 / 100000000 <= Rabs (half_excess_sine a b c) ->
  1 / 1000 <= h * inv_k a P ->
  1 / 100000000 <= Rabs (half_excess_sine a P c) ->
  1 / 100000000 <= Rabs (half_excess_sine a b P) ->
  exists x, polyhedral_inverse RInst fp ft (a, b, c) = Some x /\
            unitv x /\ 0 < triple_product RInst a b x /\ 0 < triple_product RInst b c x /\
            0 < triple_product RInst c a x /\
            polyhedral_forward RInst x (a, b, c) ft = Some fp.
Proof. exact polyhedral_converse_main_branch. Qed.
Print Assumptions C15_polyhedral_converse_main_branch.

(* injectivity of both maps on the main branch (sph_tri, fwd_main, inv_main bundle the hypotheses of the two round-trip
   theorems) and the image of the forward map: strictly inside the planar triangle *)
Theorem C15_forward_injective_main_branch : forall (a b c v1 v2 : vecR) (ft : triR),
  tri_det ft <> 0 -> sph_tri a b c -> fwd_main a b c v1 -> fwd_main a b c v2 ->
  polyhedral_forward RInst v1 (a, b, c) ft = polyhedral_forward RInst v2 (a, b, c) ft -> v1 = v2.
Proof. exact forward_injective_main_branch. Qed.
Print Assumptions C15_forward_injective_main_branch.

Theorem C15_inverse_injective_main_branch : forall (a b c : vecR) (ft : triR) (fp1 fp2 : ptR),
  tri_det ft <> 0 -> sph_tri a b c -> inv_main a b c ft fp1 -> inv_main a b c ft fp2 ->
  polyhedral_inverse RInst fp1 ft (a, b, c) = polyhedral_inverse RInst fp2 ft (a, b, c) -> fp1 = fp2.
Proof. exact inverse_injective_main_branch. Qed.
Print Assumptions C15_inverse_injective_main_branch.

Theorem C15_forward_image_interior : forall (a b c v : vecR) (ft : triR), tri_det ft <> 0 ->
  unitv a -> unitv b -> unitv c -> unitv v ->
  0 < vdot RInst a b -> 0 < vdot RInst b c -> 0 < vdot RInst c a ->
  0 < triple_product RInst a b c -> 0 < triple_product RInst a b v ->
  0 < triple_product RInst b c v -> 0 < triple_product RInst c a v -> vdot RInst a v < 1 ->
  1/100000000 <= Rabs (half_excess_sine a b c) ->
  1/100000000 <= Rabs (half_excess_sine a (isect a b c v) c) ->
  1/100000000 <= Rabs (half_excess_sine a b (isect a b c v)) ->
  exists fp bu bv bw, polyhedral_forward RInst v (a, b, c) ft = Some fp /\
    face_to_barycentric RInst fp ft = (bu, bv, bw) /\ bu + bv + bw = 1 /\
    0 < bu < 1 /\ 0 < bv < 1 /\ 0 < bw < 1 /\ bu = 1 - hR a b c v /\ 0 < hR a b c v < 1.
Proof. exact forward_image_interior. Qed.
Print Assumptions C15_forward_image_interior.

(* satisfiable: the planar point with barycentric coordinates (1/2, 1/5, 3/10) of the example triangle *)
Theorem C15_polyhedral_converse_instance :
  exists x, polyhedral_inverse RInst ex2_fp ex_ft (ex_a, ex_b, ex_c) = Some x /\
            unitv x /\ 0 < triple_product RInst ex_a ex_b x /\ 0 < triple_product RInst ex_b ex_c x /\
            0 < triple_product RInst ex_c ex_a x /\
            polyhedral_forward RInst x (ex_a, ex_b, ex_c) ex_ft = Some ex2_fp.
Proof. exact polyhedral_converse_instance. Qed.
Print Assumptions C15_polyhedral_converse_instance.

(* ---- Interval model soundness: the executable interval instance (used by the correspondence check) encloses the
   ideal-real instance about which the theorems of this file speak.  [encl i x] = the real x lies in the interval i;
   [sound_opt rel a b] = whenever the interval run answers [Some], the real run answers [Some] with a related value
   (the interval run may give up with [None], never answer differently). ---- *)
From A5 Require Import Num.IvInst Num.IvSound Geo.IvSoundGeo Geo.IvSoundCell.

Theorem C15_interval_forward_sound : forall th ph o th' ph',
  encl th th' -> encl ph ph' ->
  sound_opt encl2 (dodec_forward IvInst th ph o) (dodec_forward RInst th' ph' o).
Proof. exact dodec_forward_sound. Qed.
Print Assumptions C15_interval_forward_sound.

Theorem C15_interval_inverse_sound : forall face o face',
  encl2 face face' ->
  sound_opt encl2 (dodec_inverse IvInst face o) (dodec_inverse RInst face' o).
Proof. exact dodec_inverse_sound. Qed.
Print Assumptions C15_interval_inverse_sound.
