(* C08 — Compaction never changes the covered set of cells.
   Property theorems only: full statement, `exact <lemma>`, Print Assumptions. *)
From Coq Require Import ZArith List Bool.
From A5 Require Import Base.Outcome Base.Word Id.Codec Id.CodecSpec Id.Tree Id.TreeSpec Id.Compact
  Id.CompactSpec Id.CompactProofs.
Import ListNotations.
Open Scope Z_scope.

(* compact terminates with a result on every list of canonical IDs: any order, duplicates,
   mixed resolutions, overlapping or not *)
Theorem C08_compact_total : forall l, all_canonical l -> exists out, compact l = Ok out.
Proof. exact compact_total. Qed.
Print Assumptions C08_compact_total.

(* expanding the result to any resolution R at least as fine as every input yields exactly the same set
   of resolution-R cells as expanding the input *)
Theorem C08_compact_cover : forall l out R,
  all_canonical l -> compact l = Ok out -> res_le R l -> R <= 29 ->
  forall x, covers R out x <-> covers R l x.
Proof. exact compact_cover. Qed.
Print Assumptions C08_compact_cover.

(* the result contains no duplicates *)
Theorem C08_compact_nodup : forall l out, all_canonical l -> compact l = Ok out -> NoDup out.
Proof. exact compact_nodup. Qed.
Print Assumptions C08_compact_nodup.

(* ... is sorted ascending and consists of canonical IDs *)
Theorem C08_compact_sorted : forall l out, all_canonical l -> compact l = Ok out -> sorted_lt out.
Proof. exact compact_sorted. Qed.
Print Assumptions C08_compact_sorted.

Theorem C08_compact_canonical_out : forall l out, all_canonical l -> compact l = Ok out -> all_canonical out.
Proof. exact compact_canonical_out. Qed.
Print Assumptions C08_compact_canonical_out.

(* the result does not depend on the order or multiplicity of the input (any lists, canonical or not) *)
Theorem C08_compact_order_multiplicity : forall l l', same_set l l' -> compact l = compact l'.
Proof. exact compact_order_multiplicity. Qed.
Print Assumptions C08_compact_order_multiplicity.

(* the merge step is sound: a run that the scan replaces is exactly the complete set of children of the parent *)
Theorem C08_group_is_children : forall (c : cell) (stride : Z) (rest : list Z),
  canon c -> 0 <= resolution c ->
  is_first_child (layout c) (resolution c) = Ok true ->
  get_stride (resolution c) = Ok stride ->
  siblings_follow (layout c) stride 1 (Z.to_nat (expected_children (resolution c)) - 1) rest = true ->
  let p := anc c (resolution c - 1) in
  let grp := firstn (Z.to_nat (expected_children (resolution c))) (layout c :: rest) in
  canon p /\ resolution p = resolution c - 1 /\
  cell_to_parent (layout c) None = Ok (layout p) /\
  (forall x, In x grp <-> In x (map layout (desc_cells p (resolution c)))) /\
  NoDup grp /\ length grp = Z.to_nat (expected_children (resolution c)) /\
  (Z.to_nat (expected_children (resolution c)) - 1 <= length rest)%nat.
Proof. exact group_is_children. Qed.
Print Assumptions C08_group_is_children.
