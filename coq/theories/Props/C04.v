(* C04 — All cells of a resolution have equal area: sphere area / number of cells (12, then
   60 * 4^(r-1)); the per-resolution area reported by the metadata call equals that quotient of
   the authalic Earth area.
   Property theorems only: full statement, `exact <lemma>`, Print Assumptions.

   PROVED HERE (planar and tabular half, exact rational instance QInst of the model Tiling.v):
   - in face (plane) coordinates every cell pentagon of curve depth hr is congruent to the base
     pentagon scaled by 2^-hr (rigid motions + one scaling; quintant rotations are f64 matrices with
     determinant 1 +- 1.1e-16), so all planar cells of a resolution have the same planar area,
     = (face area) / (5 * 4^(r-1)), = (12 faces) / N r, within 1e-15 relative;
   - the metadata tables: cell_area_tab[r] * N r = Earth area within 1e-15 relative (2^-52),
     num_cells_tab[r] = N r exactly for r <= 27 and JavaScript-rounded (2^-53 relative) for 28..30;
     the table's Earth area is 4 pi R^2 for R = 6371007.2 m within 0.05 m^2.

   NOT PROVED: that the projection from the plane to the sphere (the polyhedral / dodecahedron
   projection, Projection.v) multiplies areas by ONE constant (ProjEqualArea).  That statement is
   what would turn the planar congruence below into equal SPHERICAL areas; it is covered only by
   certified numerical samples, not by a theorem.  Hence nothing here is a statement about areas
   on the sphere.

   [get_area] is the implementation's functional  sum (xj - xi) * (yj + yi)  over the closed vertex
   cycle = minus twice the counter-clockwise shoelace area; true planar areas are |get_area| / 2. *)
From Coq Require Import ZArith QArith Qabs List Reals.
From A5 Require Import Num.NumOps Num.QInst Hilbert.Hilbert Geo.Tiling Id.Compact Geo.AreaProofs Geo.AreaAuthalic.
From A5gen Require Import TablesCur.
Import ListNotations.
Open Scope Q_scope.

(* --- algebra of the area functional (any vertex list) --- *)
Theorem C04_area_translate : forall t l, get_area QInst (translate QInst t l) == get_area QInst l.
Proof. exact area_translate. Qed.
Print Assumptions C04_area_translate.

Theorem C04_area_rotate180 : forall l, get_area QInst (rotate180 QInst l) == get_area QInst l.
Proof. exact area_rotate180. Qed.
Print Assumptions C04_area_rotate180.

Theorem C04_area_reflect_y : forall l, get_area QInst (reflect_y QInst l) == get_area QInst l.
Proof. exact area_reflect_y. Qed.
Print Assumptions C04_area_reflect_y.

Theorem C04_area_rev : forall l, get_area QInst (rev l) == - get_area QInst l.
Proof. exact area_rev. Qed.
Print Assumptions C04_area_rev.

Theorem C04_area_scale : forall k l, get_area QInst (scale QInst k l) == k * k * get_area QInst l.
Proof. exact area_scale. Qed.
Print Assumptions C04_area_scale.

Theorem C04_area_mat : forall m l, get_area QInst (map (mat_apply QInst m) l) == detQ m * get_area QInst l.
Proof. exact area_mat. Qed.
Print Assumptions C04_area_mat.

(* --- planar pentagons --- *)
(* Quintant 0, EVERY anchor (no restriction on k, offset, flips is needed), every curve depth:
   the functional is exactly that of the base pentagon / 4^hr, with the sign shape_new wants (> 0). *)
Theorem C04_pentagon_planar_area : forall (hr : Z) (a : anchor) (l : list (pt (T := Q))),
  (0 <= hr)%Z ->
  get_pentagon_vertices QInst hr 0 a = Some l ->
  get_area QInst l == A0 / inject_Z (4 ^ hr) /\
  Qabs (get_area QInst l) == Qabs (get_area QInst (base_pentagon QInst)) / inject_Z (4 ^ hr).
Proof. exact pentagon_planar_area. Qed.
Print Assumptions C04_pentagon_planar_area.

Theorem C04_A0_pos : 0 < A0.   (* A0 := get_area QInst (base_pentagon QInst), see Geo/AreaProofs.v *)
Proof. exact A0_pos. Qed.
Print Assumptions C04_A0_pos.

(* all decisions are decided over Q *)
Theorem C04_pentagon_vertices_total : forall hr q a, exists l, get_pentagon_vertices QInst hr q a = Some l.
Proof. exact pentagon_vertices_total. Qed.
Print Assumptions C04_pentagon_vertices_total.

Theorem C04_rotation0_identity : rotation QInst 0 = (1, 0, 0, 1).
Proof. exact rotation0_identity. Qed.
Print Assumptions C04_rotation0_identity.

Theorem C04_rotation_det : forall q, (0 <= q <= 4)%Z ->
  Qabs (detQ (rotation QInst q) - 1) <= 1 # (10 ^ 15) /\ 0 < detQ (rotation QInst q).
Proof. exact rotation_det. Qed.
Print Assumptions C04_rotation_det.

(* Any quintant: area = det(rotation) * A0 / 4^hr, within 1e-15 relative of the quintant-0 value. *)
Theorem C04_pentagon_planar_area_quintant : forall (hr q : Z) (a : anchor) (l : list (pt (T := Q))),
  (0 <= hr)%Z -> (0 <= q <= 4)%Z ->
  get_pentagon_vertices QInst hr q a = Some l ->
  let area0 := A0 / inject_Z (4 ^ hr) in
  get_area QInst l == detQ (rotation QInst q) * area0 /\
  Qabs (get_area QInst l - area0) <= (1 # (10 ^ 15)) * area0.
Proof. exact pentagon_planar_area_quintant. Qed.
Print Assumptions C04_pentagon_planar_area_quintant.

(* --- constants --- *)
Theorem C04_pentagon_triangle_area : Qabs (A_pent - A_tri) <= 1 # (10 ^ 15).
Proof. exact pentagon_triangle_area. Qed.
Print Assumptions C04_pentagon_triangle_area.

Theorem C04_five_triangles_face_area : Qabs (5 * A_tri - A_face) <= 1 # (10 ^ 15).
Proof. exact five_triangles_face_area. Qed.
Print Assumptions C04_five_triangles_face_area.

(* resolution r >= 2 (curve depth r - 1 as in Cell.get_pentagon): planar area = face / (5 * 4^(r-1)) *)
Theorem C04_planar_cell_area : forall (r q : Z) (a : anchor) (l : list (pt (T := Q))),
  (2 <= r)%Z -> (0 <= q <= 4)%Z ->
  get_pentagon_vertices QInst (r - 1) q a = Some l ->
  let expected := A_face / (5 * inject_Z (4 ^ (r - 1))) in
  Qabs (get_area QInst l / 2 - expected) <= (1 # (10 ^ 15)) * expected.
Proof. exact planar_cell_area. Qed.
Print Assumptions C04_planar_cell_area.

(* resolution 1 *)
Theorem C04_planar_quintant_area : forall q l, (0 <= q <= 4)%Z ->
  get_quintant_vertices QInst q = Some l ->
  Qabs (get_area QInst l / 2 - A_face / 5) <= (1 # (10 ^ 15)) * (A_face / 5).
Proof. exact planar_quintant_area. Qed.
Print Assumptions C04_planar_quintant_area.

(* resolution 0 *)
Theorem C04_planar_face_area : forall l, get_face_vertices QInst = Some l -> get_area QInst l / 2 == A_face.
Proof. exact planar_face_area. Qed.
Print Assumptions C04_planar_face_area.

Theorem C04_A_face_pos : 0 < A_face.
Proof. exact A_face_pos. Qed.
Print Assumptions C04_A_face_pos.

(* the same three, as "planar area * N r = 12 faces" *)
Theorem C04_planar_area_times_count_cell : forall (r q : Z) (a : anchor) (l : list (pt (T := Q))),
  (2 <= r)%Z -> (0 <= q <= 4)%Z ->
  get_pentagon_vertices QInst (r - 1) q a = Some l ->
  Qabs (get_area QInst l / 2 * inject_Z (N r) - 12 * A_face) <= (1 # (10 ^ 15)) * (12 * A_face).
Proof. exact planar_area_times_count_cell. Qed.
Print Assumptions C04_planar_area_times_count_cell.

Theorem C04_planar_area_times_count_quintant : forall q l, (0 <= q <= 4)%Z ->
  get_quintant_vertices QInst q = Some l ->
  Qabs (get_area QInst l / 2 * inject_Z (N 1) - 12 * A_face) <= (1 # (10 ^ 15)) * (12 * A_face).
Proof. exact planar_area_times_count_quintant. Qed.
Print Assumptions C04_planar_area_times_count_quintant.

Theorem C04_planar_area_times_count_face : forall l, get_face_vertices QInst = Some l ->
  get_area QInst l / 2 * inject_Z (N 0) == 12 * A_face.
Proof. exact planar_area_times_count_face. Qed.
Print Assumptions C04_planar_area_times_count_face.

(* --- metadata tables --- *)
Remark C04_N_def : forall r, N r = if (r =? 0)%Z then 12%Z else (60 * 4 ^ (r - 1))%Z.
Proof. reflexivity. Qed.

Theorem C04_cell_area_times_count : forall r, (0 <= r <= 30)%Z ->
  Qabs (cell_area r * inject_Z (N r) - earth_area) <= (1 # (10 ^ 15)) * earth_area.
Proof. exact cell_area_times_count. Qed.
Print Assumptions C04_cell_area_times_count.

Theorem C04_cell_area_times_count_ulp : forall r, (0 <= r <= 30)%Z ->
  Qabs (cell_area r * inject_Z (N r) - earth_area) <= (1 # 2 ^ 52) * earth_area.
Proof. exact cell_area_times_count_ulp. Qed.
Print Assumptions C04_cell_area_times_count_ulp.

Theorem C04_num_cells_exact : forall r, (0 <= r <= 27)%Z -> get_num_cells r = N r.
Proof. exact num_cells_exact. Qed.
Print Assumptions C04_num_cells_exact.

Theorem C04_num_cells_rounded : forall r, (28 <= r <= 30)%Z ->
  (Z.abs (get_num_cells r - N r) * 2 ^ 53 <= N r)%Z /\ get_num_cells r <> N r.
Proof. exact num_cells_rounded. Qed.
Print Assumptions C04_num_cells_rounded.

Theorem C04_num_cells_world : get_num_cells (-1) = 0%Z.
Proof. exact num_cells_world. Qed.
Print Assumptions C04_num_cells_world.

(* real-number statement (Coq-Interval): the table's Earth area is 4 pi R^2, R = 6371007.2 m *)
Theorem C04_authalic_area_value :
  (Rabs (4 * PI * (authalic_radius * authalic_radius) - earth_area_R) <= 5 / 100)%R.
Proof. exact authalic_area_value. Qed.
Print Assumptions C04_authalic_area_value.
