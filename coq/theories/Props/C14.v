(* C14 — Total API: every public function of the integer (cell-ID) layer returns normally for every
   64-bit word and every requested resolution.  It either reports an error or returns a result that
   is itself valid; it never panics, overflows or fails to terminate.  Resolutions outside -1..29 and
   bit patterns that are not a cell are rejected or treated as the canonical cell they alias.
   Property theorems only: full statement, `exact <lemma>`, Print Assumptions.

   NOT covered by theorems here:
   - the floating-point layer (lonlat_to_cell, cell_to_lonlat, cell_to_boundary): NaN and rounding
     behaviour has no counterpart in the ideal-real model; that part of C14 is covered by the
     implementation-side search, run in both build profiles (overflow-checked and wrapping);
   - allocation failure (Vec growth aborts the process; the model only has the "capacity overflow"
     panic of Vec::with_capacity, see uncompact below);
   - serialize is total only on the records the library itself builds (face < 12, quintant < 5):
     an out-of-table face number or a quintant >= 2^64 - 5 panics, see C14_serialize_panics_iff. *)
From Coq Require Import ZArith List Lia.
From A5 Require Import Base.Outcome Base.Word Id.Codec Id.CodecSpec Id.Tree Id.TreeSpec
  Id.Compact Id.CompactSpec Id.CompactProofs Id.Hex Id.HexProofs Id.TotalProofs.
Import ListNotations.
Open Scope Z_scope.

(* ---------- resolution of a word *)

(* Every integer has a resolution in -1..29. *)
Theorem C14_get_resolution_total : forall i, -1 <= get_resolution i <= 29.
Proof. exact get_resolution_total. Qed.
Print Assumptions C14_get_resolution_total.

(* ---------- decoding *)

(* Decoding a 64-bit word never panics ... *)
Theorem C14_deserialize_no_panic : forall i, 0 <= i < two64 ->
  deserialize i <> Panic /\ deserialize i <> Diverge.
Proof. exact deserialize_no_panic. Qed.
Print Assumptions C14_deserialize_no_panic.

(* ... and every successfully decoded word is a canonical cell description. *)
Theorem C14_deserialize_canon : forall i c, 0 <= i < two64 -> deserialize i = Ok c -> canon c.
Proof. exact deserialize_canon. Qed.
Print Assumptions C14_deserialize_canon.

(* ---------- aliasing: a word is handled exactly as the canonical cell it decodes to *)

Theorem C14_alias_parent : forall i c k, deserialize i = Ok c -> canon c ->
  cell_to_parent i k = cell_to_parent (layout c) k.
Proof. exact alias_parent. Qed.
Print Assumptions C14_alias_parent.

Theorem C14_alias_children : forall i c k, deserialize i = Ok c -> canon c ->
  cell_to_children i k = cell_to_children (layout c) k.
Proof. exact alias_children. Qed.
Print Assumptions C14_alias_children.

(* A word that does not decode is rejected by both hierarchy calls. *)
Theorem C14_alias_rejected : forall i k, deserialize i = Err ->
  cell_to_parent i k = Err /\ cell_to_children i k = Err.
Proof. exact alias_rejected. Qed.
Print Assumptions C14_alias_rejected.

(* ---------- cell_to_parent *)

(* A normal result is a canonical ID of the requested resolution, which lies in -1..29. *)
Theorem C14_parent_valid_any : forall i k j, 0 <= i < two64 -> cell_to_parent i (Some k) = Ok j ->
  canonical_id j /\ get_resolution j = k /\ -1 <= k <= 29.
Proof. exact parent_valid_any. Qed.
Print Assumptions C14_parent_valid_any.

(* Default level: one level coarser than the word (its resolution - 1). *)
Theorem C14_parent_default_valid_any : forall i j, 0 <= i < two64 -> cell_to_parent i None = Ok j ->
  canonical_id j /\ get_resolution j = get_resolution i - 1 /\ 0 <= get_resolution i <= 29.
Proof. exact parent_default_valid_any. Qed.
Print Assumptions C14_parent_default_valid_any.

(* Never a panic, for every 64-bit word and every integer level (explicit or default). *)
Theorem C14_parent_no_panic_any : forall i k, 0 <= i < two64 ->
  cell_to_parent i k <> Panic /\ cell_to_parent i k <> Diverge.
Proof. exact parent_no_panic_any. Qed.
Print Assumptions C14_parent_no_panic_any.

(* ---------- cell_to_children *)

(* A normal result is a duplicate-free list of canonical IDs of the requested resolution. *)
Theorem C14_children_valid_any : forall i k l, 0 <= i < two64 -> cell_to_children i (Some k) = Ok l ->
  (forall x, In x l -> canonical_id x /\ get_resolution x = k) /\ NoDup l /\ -1 <= k <= 29.
Proof. exact children_valid_any. Qed.
Print Assumptions C14_children_valid_any.

(* Default level: one level finer than the word (its resolution + 1). *)
Theorem C14_children_default_valid_any : forall i l, 0 <= i < two64 -> cell_to_children i None = Ok l ->
  (forall x, In x l -> canonical_id x /\ get_resolution x = get_resolution i + 1) /\ NoDup l /\
  -1 <= get_resolution i <= 28.
Proof. exact children_default_valid_any. Qed.
Print Assumptions C14_children_default_valid_any.

Theorem C14_children_no_panic_any : forall i k, 0 <= i < two64 ->
  cell_to_children i k <> Panic /\ cell_to_children i k <> Diverge.
Proof. exact children_no_panic_any. Qed.
Print Assumptions C14_children_no_panic_any.

(* ---------- base cells *)

Theorem C14_res0_valid : exists l, get_res0_cells = Ok l /\ length l = 12%nat /\ NoDup l /\
  forall x, In x l -> canonical_id x /\ get_resolution x = 0.
Proof. exact res0_valid. Qed.
Print Assumptions C14_res0_valid.

(* ---------- serialize *)

(* Whatever record (with unsigned fields) is encoded successfully, the result is a canonical ID of the
   record's resolution. *)
Theorem C14_serialize_valid_any : forall c i, 0 <= segment c -> 0 <= s c -> serialize c = Ok i ->
  canonical_id i /\ get_resolution i = resolution c.
Proof. exact serialize_valid_any. Qed.
Print Assumptions C14_serialize_valid_any.

(* No panic on the records the library builds itself (face < 12, quintant < 5), for every i32 resolution. *)
Theorem C14_serialize_no_panic : forall c,
  0 <= origin_id c < 12 -> 0 <= segment c < 5 -> 0 <= s c < two64 -> - 2 ^ 31 <= resolution c < 2 ^ 31 ->
  serialize c <> Panic /\ serialize c <> Diverge.
Proof. exact serialize_no_panic. Qed.
Print Assumptions C14_serialize_no_panic.

(* Exactly when it does panic: valid resolution, and a face number outside the table or a quintant
   number for which `segment + 5` overflows. *)
Theorem C14_serialize_panics_iff : forall c, 0 <= segment c -> 0 <= s c ->
  (serialize c = Panic <->
   0 <= resolution c <= 29 /\ (~ (0 <= origin_id c < 12) \/ two64 <= segment c + 5)) /\
  serialize c <> Diverge.
Proof. exact serialize_panics_iff. Qed.
Print Assumptions C14_serialize_panics_iff.

(* ---------- uncompact / compact *)

(* No panic for any list of 64-bit words and any i32 target, as long as the pre-counted output size
   is within the allocation limit (beyond it Vec::with_capacity panics: C10). *)
Theorem C14_uncompact_no_panic_any : forall l t,
  (forall x, In x l -> 0 <= x < two64) -> - 2 ^ 31 <= t < 2 ^ 31 ->
  cap_sum_any l t <= capacity_limit ->
  uncompact l t <> Panic /\ uncompact l t <> Diverge.
Proof. exact uncompact_no_panic_any. Qed.
Print Assumptions C14_uncompact_no_panic_any.

(* A target outside -1..29 is rejected. *)
Theorem C14_uncompact_bad_target : forall l t, (t < -1 \/ 29 < t) -> uncompact l t = Err.
Proof. exact uncompact_bad_target. Qed.
Print Assumptions C14_uncompact_bad_target.

(* Every output has the target resolution and is canonical, except that inputs already at the target
   resolution are returned unchanged. *)
Theorem C14_uncompact_valid_any : forall l t out,
  (forall x, In x l -> 0 <= x < two64) -> uncompact l t = Ok out ->
  -1 <= t <= 29 /\ forall y, In y out -> get_resolution y = t /\ (In y l \/ canonical_id y).
Proof. exact uncompact_valid_any. Qed.
Print Assumptions C14_uncompact_valid_any.

Theorem C14_uncompact_valid_canonical : forall l t out,
  (forall x, In x l -> canonical_id x) -> uncompact l t = Ok out ->
  forall y, In y out -> canonical_id y /\ get_resolution y = t.
Proof. exact uncompact_valid_canonical. Qed.
Print Assumptions C14_uncompact_valid_canonical.

Theorem C14_compact_total_u64 : forall l,
  (forall x, In x l -> is_u64 x) -> compact l <> Panic /\ compact l <> Diverge.
Proof. exact compact_total_u64. Qed.
Print Assumptions C14_compact_total_u64.

(* ---------- hex form and counts *)

Theorem C14_hex_total : forall s, hex_to_u64 s <> Panic /\ hex_to_u64 s <> Diverge.
Proof. exact hex_total. Qed.
Print Assumptions C14_hex_total.

Theorem C14_num_cells_total : forall r, 0 <= get_num_cells r.
Proof. exact num_cells_total. Qed.
Print Assumptions C14_num_cells_total.

(* ---------- non-vacuity: non-canonical words that alias a cell, and rejected words, exist *)

Example C14_alias_example :
  let c := mkCell 7 3 123456789 17 in
  let i := layout c + 1 in
  canon c /\ 0 <= i < two64 /\ ~ canonical_id i /\ deserialize i = Ok c /\
  cell_to_parent i (Some 16) = cell_to_parent (layout c) (Some 16).
Proof. exact alias_example. Qed.

Example C14_rejected_example :
  let i := 60 * 2 ^ 58 + 2 ^ 55 in
  0 <= i < two64 /\ deserialize i = Err /\ cell_to_parent i None = Err /\ cell_to_children i None = Err.
Proof. exact rejected_example. Qed.
