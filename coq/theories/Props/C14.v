(* C14 — Total API: every public function of the integer (cell-ID) layer returns normally for every
   64-bit word and every requested resolution.  It either reports an error or returns a result that
   is itself valid; it never panics, overflows or fails to terminate.  Resolutions outside -1..29 and
   bit patterns that are not a cell are rejected or treated as the canonical cell they alias.
   Property theorems only: full statement, `exact <lemma>`, Print Assumptions.

   The floating-point layer (lonlat_to_cell, cell_to_lonlat, cell_to_boundary; last part of the file)
   is covered as far as its control structure goes, for EVERY number instance [ops T] (ideal reals,
   interval enclosures): the outcome is never Panic / Diverge, for every word (every integer >= 0),
   every integer resolution, every subdivision request; Err is returned exactly for a word that
   does not decode, resp. a resolution outside -1..29; the world cell and its aliases are answered
   without any arithmetic.  The third possible answer, [None] (a comparison could not be settled
   from the enclosures), exists only in the interval instance.

   NOT covered by theorems here:
   - in the floating-point layer: NaN, infinities and rounding have no counterpart in the model (a
     number operation of [ops T] always returns a number), so "no panic" says that no integer
     operation, table access guarded by the model, or loop of the floating-point functions panics
     or runs away, not that the f64 values are finite; the model reads the geometry tables with a
     default entry (Geo/Cell.v [tab2], origin tables), so an out-of-table index would not show up as
     Panic: for a decoded word the indices are in the tables by [C14_decoded_indices_in_bounds], for
     the quintant of a lookup estimate see the header of Props/C01.v; a huge subdivision request
     exhausts memory (allocation failure, next item).  That part of C14 is covered by the
     implementation-side search, run in both build profiles (overflow-checked and wrapping);
   - allocation failure (Vec growth aborts the process; the model only has the "capacity overflow"
     panic of Vec::with_capacity, see uncompact below);
   - serialize is total only on the records the library itself builds (face < 12, quintant < 5):
     an out-of-table face number or a quintant >= 2^64 - 5 panics, see C14_serialize_panics_iff. *)
From Coq Require Import ZArith List Lia.
From A5 Require Import Base.Outcome Base.Word Id.Codec Id.CodecSpec Id.Tree Id.TreeSpec
  Id.Compact Id.CompactSpec Id.CompactProofs Id.Hex Id.HexProofs Id.TotalProofs.
From A5 Require Import Num.NumOps Geo.Authalic Geo.Tiling Geo.Projection Geo.Cell Geo.TotalGeoProofs.
From A5 Require Geo.BoundaryProofs Geo.LookupProofs.
Import ListNotations.
Open Scope Z_scope.

(* ---------- resolution of a word *)

(* Every integer has a resolution in -1..29. *)
Theorem C14_get_resolution_total : forall i, -1 <= get_resolution i <= 29.
Proof. exact get_resolution_total. Qed.
Print Assumptions C14_get_resolution_total.

(* ---------- decoding *)

(* Decoding a 64-bit word never panics ... *)
Theorem C14_deserialize_no_panic : forall i, 0 <= i < two64 ->
  deserialize i <> Panic /\ deserialize i <> Diverge.
Proof. exact deserialize_no_panic. Qed.
Print Assumptions C14_deserialize_no_panic.

(* ... and every successfully decoded word is a canonical cell description. *)
Theorem C14_deserialize_canon : forall i c, 0 <= i < two64 -> deserialize i = Ok c -> canon c.
Proof. exact deserialize_canon. Qed.
Print Assumptions C14_deserialize_canon.

(* ---------- aliasing: a word is handled exactly as the canonical cell it decodes to *)

Theorem C14_alias_parent : forall i c k, deserialize i = Ok c -> canon c ->
  cell_to_parent i k = cell_to_parent (layout c) k.
Proof. exact alias_parent. Qed.
Print Assumptions C14_alias_parent.

Theorem C14_alias_children : forall i c k, deserialize i = Ok c -> canon c ->
  cell_to_children i k = cell_to_children (layout c) k.
Proof. exact alias_children. Qed.
Print Assumptions C14_alias_children.

(* A word that does not decode is rejected by both hierarchy calls. *)
Theorem C14_alias_rejected : forall i k, deserialize i = Err ->
  cell_to_parent i k = Err /\ cell_to_children i k = Err.
Proof. exact alias_rejected. Qed.
Print Assumptions C14_alias_rejected.

(* ---------- cell_to_parent *)

(* A normal result is a canonical ID of the requested resolution, which lies in -1..29. *)
Theorem C14_parent_valid_any : forall i k j, 0 <= i < two64 -> cell_to_parent i (Some k) = Ok j ->
  canonical_id j /\ get_resolution j = k /\ -1 <= k <= 29.
Proof. exact parent_valid_any. Qed.
Print Assumptions C14_parent_valid_any.

(* Default level: one level coarser than the word (its resolution - 1). *)
Theorem C14_parent_default_valid_any : forall i j, 0 <= i < two64 -> cell_to_parent i None = Ok j ->
  canonical_id j /\ get_resolution j = get_resolution i - 1 /\ 0 <= get_resolution i <= 29.
Proof. exact parent_default_valid_any. Qed.
Print Assumptions C14_parent_default_valid_any.

(* Never a panic, for every 64-bit word and every integer level (explicit or default). *)
Theorem C14_parent_no_panic_any : forall i k, 0 <= i < two64 ->
  cell_to_parent i k <> Panic /\ cell_to_parent i k <> Diverge.
Proof. exact parent_no_panic_any. Qed.
Print Assumptions C14_parent_no_panic_any.

(* ---------- cell_to_children *)

(* A normal result is a duplicate-free list of canonical IDs of the requested resolution. *)
Theorem C14_children_valid_any : forall i k l, 0 <= i < two64 -> cell_to_children i (Some k) = Ok l ->
  (forall x, In x l -> canonical_id x /\ get_resolution x = k) /\ NoDup l /\ -1 <= k <= 29.
Proof. exact children_valid_any. Qed.
Print Assumptions C14_children_valid_any.

(* Default level: one level finer than the word (its resolution + 1). *)
Theorem C14_children_default_valid_any : forall i l, 0 <= i < two64 -> cell_to_children i None = Ok l ->
  (forall x, In x l -> canonical_id x /\ get_resolution x = get_resolution i + 1) /\ NoDup l /\
  -1 <= get_resolution i <= 28.
Proof. exact children_default_valid_any. Qed.
Print Assumptions C14_children_default_valid_any.

Theorem C14_children_no_panic_any : forall i k, 0 <= i < two64 ->
  cell_to_children i k <> Panic /\ cell_to_children i k <> Diverge.
Proof. exact children_no_panic_any. Qed.
Print Assumptions C14_children_no_panic_any.

(* ---------- base cells *)

Theorem C14_res0_valid : exists l, get_res0_cells = Ok l /\ length l = 12%nat /\ NoDup l /\
  forall x, In x l -> canonical_id x /\ get_resolution x = 0.
Proof. exact res0_valid. Qed.
Print Assumptions C14_res0_valid.

(* ---------- serialize *)

(* Whatever record (with unsigned fields) is encoded successfully, the result is a canonical ID of the
   record's resolution. *)
Theorem C14_serialize_valid_any : forall c i, 0 <= segment c -> 0 <= s c -> serialize c = Ok i ->
  canonical_id i /\ get_resolution i = resolution c.
Proof. exact serialize_valid_any. Qed.
Print Assumptions C14_serialize_valid_any.

(* No panic on the records the library builds itself (face < 12, quintant < 5), for every i32 resolution. *)
Theorem C14_serialize_no_panic : forall c,
  0 <= origin_id c < 12 -> 0 <= segment c < 5 -> 0 <= s c < two64 -> - 2 ^ 31 <= resolution c < 2 ^ 31 ->
  serialize c <> Panic /\ serialize c <> Diverge.
Proof. exact serialize_no_panic. Qed.
Print Assumptions C14_serialize_no_panic.

(* Exactly when it does panic: valid resolution, and a face number outside the table or a quintant
   number for which `segment + 5` overflows. *)
Theorem C14_serialize_panics_iff : forall c, 0 <= segment c -> 0 <= s c ->
  (serialize c = Panic <->
   0 <= resolution c <= 29 /\ (~ (0 <= origin_id c < 12) \/ two64 <= segment c + 5)) /\
  serialize c <> Diverge.
Proof. exact serialize_panics_iff. Qed.
Print Assumptions C14_serialize_panics_iff.

(* ---------- uncompact / compact *)

(* No panic for any list of 64-bit words and any i32 target, as long as the pre-counted output size
   is within the allocation limit (beyond it Vec::with_capacity panics: C10). *)
Theorem C14_uncompact_no_panic_any : forall l t,
  (forall x, In x l -> 0 <= x < two64) -> - 2 ^ 31 <= t < 2 ^ 31 ->
  cap_sum_any l t <= capacity_limit ->
  uncompact l t <> Panic /\ uncompact l t <> Diverge.
Proof. exact uncompact_no_panic_any. Qed.
Print Assumptions C14_uncompact_no_panic_any.

(* A target outside -1..29 is rejected. *)
Theorem C14_uncompact_bad_target : forall l t, (t < -1 \/ 29 < t) -> uncompact l t = Err.
Proof. exact uncompact_bad_target. Qed.
Print Assumptions C14_uncompact_bad_target.

(* Every output has the target resolution and is canonical, except that inputs already at the target
   resolution are returned unchanged. *)
Theorem C14_uncompact_valid_any : forall l t out,
  (forall x, In x l -> 0 <= x < two64) -> uncompact l t = Ok out ->
  -1 <= t <= 29 /\ forall y, In y out -> get_resolution y = t /\ (In y l \/ canonical_id y).
Proof. exact uncompact_valid_any. Qed.
Print Assumptions C14_uncompact_valid_any.

Theorem C14_uncompact_valid_canonical : forall l t out,
  (forall x, In x l -> canonical_id x) -> uncompact l t = Ok out ->
  forall y, In y out -> canonical_id y /\ get_resolution y = t.
Proof. exact uncompact_valid_canonical. Qed.
Print Assumptions C14_uncompact_valid_canonical.

Theorem C14_compact_total_u64 : forall l,
  (forall x, In x l -> is_u64 x) -> compact l <> Panic /\ compact l <> Diverge.
Proof. exact compact_total_u64. Qed.
Print Assumptions C14_compact_total_u64.

(* ---------- hex form and counts *)

Theorem C14_hex_total : forall s, hex_to_u64 s <> Panic /\ hex_to_u64 s <> Diverge.
Proof. exact hex_total. Qed.
Print Assumptions C14_hex_total.

Theorem C14_num_cells_total : forall r, 0 <= get_num_cells r.
Proof. exact num_cells_total. Qed.
Print Assumptions C14_num_cells_total.

(* ---------- non-vacuity: non-canonical words that alias a cell, and rejected words, exist *)

Example C14_alias_example :
  let c := mkCell 7 3 123456789 17 in
  let i := layout c + 1 in
  canon c /\ 0 <= i < two64 /\ ~ canonical_id i /\ deserialize i = Ok c /\
  cell_to_parent i (Some 16) = cell_to_parent (layout c) (Some 16).
Proof. exact alias_example. Qed.

Example C14_rejected_example :
  let i := 60 * 2 ^ 58 + 2 ^ 55 in
  0 <= i < two64 /\ deserialize i = Err /\ cell_to_parent i None = Err /\ cell_to_children i None = Err.
Proof. exact rejected_example. Qed.

(* ====================================================================================== *)
(* ---------- the floating-point layer, for every number instance [OP : ops T] *)
(* Outcomes are [option (out _)]: [None] = a comparison was not settled (interval instance only). *)

(* Decoding never panics on any non-negative integer (not only below 2^64) ... *)
Theorem C14_deserialize_no_panic_nonneg : forall id, 0 <= id ->
  deserialize id <> Panic /\ deserialize id <> Diverge.
Proof. exact deserialize_no_panic_nonneg. Qed.
Print Assumptions C14_deserialize_no_panic_nonneg.

(* ... and the face / quintant numbers it returns are inside the 12-row, 5-column geometry tables. *)
Theorem C14_decoded_indices_in_bounds : forall id c, 0 <= id -> deserialize id = Ok c ->
  0 <= origin_id c < 12 /\ 0 <= segment c < 5 /\ 0 <= s c < 2 ^ 58 /\ resolution c = get_resolution id.
Proof. exact deserialize_indices_in_bounds. Qed.
Print Assumptions C14_decoded_indices_in_bounds.

(* ---------- cell_to_lonlat *)

(* Never a panic, never divergence. *)
Theorem C14_cell_to_lonlat_no_panic :
  forall (T : Type) (OP : ops T) (id : Z), 0 <= id ->
  cell_to_lonlat OP id <> Some Panic /\ cell_to_lonlat OP id <> Some Diverge.
Proof. exact (@cell_to_lonlat_no_panic). Qed.
Print Assumptions C14_cell_to_lonlat_no_panic.

(* The error is returned exactly for a word that is not a cell (any integer). *)
Theorem C14_cell_to_lonlat_err_iff :
  forall (T : Type) (OP : ops T) (id : Z),
  cell_to_lonlat OP id = Some Err <-> deserialize id = Err.
Proof. exact (@cell_to_lonlat_err_iff). Qed.
Print Assumptions C14_cell_to_lonlat_err_iff.

(* All outcomes: undecided, the decoder's error, or a point. *)
Theorem C14_cell_to_lonlat_total :
  forall (T : Type) (OP : ops T) (id : Z), 0 <= id ->
  cell_to_lonlat OP id = None \/
  (cell_to_lonlat OP id = Some Err /\ deserialize id = Err) \/
  exists p, cell_to_lonlat OP id = Some (Ok p).
Proof. exact (@cell_to_lonlat_total). Qed.
Print Assumptions C14_cell_to_lonlat_total.

(* A word without resolution marker (the world cell 0 and every alias of it) is answered (0, 0). *)
Theorem C14_cell_to_lonlat_world :
  forall (T : Type) (OP : ops T) (id : Z),
  get_resolution id = -1 -> cell_to_lonlat OP id = Some (Ok (o_ofZ OP 0, o_ofZ OP 0)).
Proof. exact (@cell_to_lonlat_world). Qed.
Print Assumptions C14_cell_to_lonlat_world.

(* A point is returned only for a word that decodes; other than for the world cell it is the
   unprojected centre of the decoded cell's outline. *)
Theorem C14_cell_to_lonlat_ok_inv :
  forall (T : Type) (OP : ops T) (id : Z) (p : T * T),
  cell_to_lonlat OP id = Some (Ok p) ->
  (get_resolution id = -1 /\ p = (o_ofZ OP 0, o_ofZ OP 0)) \/
  (get_resolution id <> -1 /\
   exists c pent theta phi, deserialize id = Ok c /\ get_pentagon OP c = Some pent /\
     dodec_inverse OP (get_center OP pent) (origin_id c) = Some (theta, phi) /\
     p = to_lon_lat OP theta phi).
Proof. exact (@cell_to_lonlat_ok_inv). Qed.
Print Assumptions C14_cell_to_lonlat_ok_inv.

(* ---------- cell_to_boundary: every subdivision request (none, 0, negative, any size), open or closed *)

Theorem C14_cell_to_boundary_no_panic :
  forall (T : Type) (OP : ops T) (id : Z) (segs : option Z) (closed : bool), 0 <= id ->
  cell_to_boundary OP id segs closed <> Some Panic /\ cell_to_boundary OP id segs closed <> Some Diverge.
Proof. exact (@cell_to_boundary_no_panic). Qed.
Print Assumptions C14_cell_to_boundary_no_panic.

Theorem C14_cell_to_boundary_err_iff :
  forall (T : Type) (OP : ops T) (id : Z) (segs : option Z) (closed : bool),
  cell_to_boundary OP id segs closed = Some Err <-> deserialize id = Err.
Proof. exact (@cell_to_boundary_err_iff). Qed.
Print Assumptions C14_cell_to_boundary_err_iff.

Theorem C14_cell_to_boundary_total :
  forall (T : Type) (OP : ops T) (id : Z) (segs : option Z) (closed : bool), 0 <= id ->
  cell_to_boundary OP id segs closed = None \/
  (cell_to_boundary OP id segs closed = Some Err /\ deserialize id = Err) \/
  exists ring, cell_to_boundary OP id segs closed = Some (Ok ring).
Proof. exact (@cell_to_boundary_total). Qed.
Print Assumptions C14_cell_to_boundary_total.

(* The world cell and its aliases: the empty ring (same statement as C11_world). *)
Theorem C14_cell_to_boundary_world :
  forall (T : Type) (OP : ops T) (id : Z) (segs : option Z) (closed : bool),
  get_resolution id = -1 -> cell_to_boundary OP id segs closed = Some (Ok []).
Proof. exact (@BoundaryProofs.cell_to_boundary_world). Qed.
Print Assumptions C14_cell_to_boundary_world.

(* A ring is returned only for a word that decodes. *)
Theorem C14_cell_to_boundary_ok_decodes :
  forall (T : Type) (OP : ops T) (id : Z) (segs : option Z) (closed : bool) (ring : list (T * T)),
  cell_to_boundary OP id segs closed = Some (Ok ring) -> exists c, deserialize id = Ok c.
Proof. exact (@cell_to_boundary_ok_decodes). Qed.
Print Assumptions C14_cell_to_boundary_ok_decodes.

(* ---------- lonlat_to_cell: every pair of numbers, every integer resolution (restated from C01) *)

Theorem C14_lookup_no_panic :
  forall (T : Type) (OP : ops T) (lon lat : T) (r : Z),
  lonlat_to_cell OP lon lat r <> Some Panic /\ lonlat_to_cell OP lon lat r <> Some Diverge.
Proof. exact (@LookupProofs.lookup_no_panic). Qed.
Print Assumptions C14_lookup_no_panic.

(* The error is returned exactly for a resolution outside -1..29. *)
Theorem C14_lookup_err_iff_range :
  forall (T : Type) (OP : ops T) (lon lat : T) (r : Z),
  lonlat_to_cell OP lon lat r = Some Err <-> (r < -1 \/ 29 < r).
Proof. exact (@lookup_err_iff_range). Qed.
Print Assumptions C14_lookup_err_iff_range.

(* In range: undecided or an ID. *)
Theorem C14_lookup_total :
  forall (T : Type) (OP : ops T) (lon lat : T) (r : Z),
  -1 <= r <= 29 ->
  lonlat_to_cell OP lon lat r = None \/ exists id, lonlat_to_cell OP lon lat r = Some (Ok id).
Proof. exact (@LookupProofs.lookup_total). Qed.
Print Assumptions C14_lookup_total.

(* The ID is valid: canonical, of the requested resolution ... *)
Theorem C14_lookup_valid :
  forall (T : Type) (OP : ops T) (lon lat : T) (r id : Z),
  lonlat_to_cell OP lon lat r = Some (Ok id) -> get_resolution id = r /\ canonical_id id.
Proof. exact (@LookupProofs.lookup_resolution). Qed.
Print Assumptions C14_lookup_valid.

(* ... and therefore accepted by the two inverse calls. *)
Theorem C14_lookup_id_accepted :
  forall (T : Type) (OP : ops T) (lon lat : T) (r id : Z),
  lonlat_to_cell OP lon lat r = Some (Ok id) ->
  cell_to_lonlat OP id <> Some Err /\
  forall segs closed, cell_to_boundary OP id segs closed <> Some Err.
Proof. exact (@lookup_id_accepted). Qed.
Print Assumptions C14_lookup_id_accepted.

(* cell_contains_point OP c lon lat : option T has no Err / Panic / Diverge outcome by its type: it
   returns a number or is undecided; in the implementation its only fallible step, get_pentagon on
   the world cell, is excluded by the resolution test made first (Geo/Cell.v, fixed defect D16). *)

(* Non-vacuity of the hypothesis-free direction: a non-negative word that is rejected by all three. *)
Example C14_geo_rejected_example :
  forall (T : Type) (OP : ops T),
  let i := 60 * 2 ^ 58 + 2 ^ 55 in
  cell_to_lonlat OP i = Some Err /\ cell_to_boundary OP i None true = Some Err.
Proof.
  intros T OP i. destruct rejected_example as (_ & Hd & _).
  split; [apply cell_to_lonlat_err_iff|apply cell_to_boundary_err_iff]; exact Hd.
Qed.
