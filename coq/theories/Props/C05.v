(* C05 — Cell-ID codec (bits and hex) is a bijection with the documented layout.
   Property theorems only: full statement, `exact <lemma>`, Print Assumptions. *)
From Coq Require Import ZArith List Lia.
From A5 Require Import Base.Outcome Base.Word Id.Codec Id.CodecSpec Id.CodecProofs Id.Hex Id.HexProofs.
Import ListNotations.
Open Scope Z_scope.

(* Encoding a canonical description yields exactly the documented bit layout. *)
Theorem C05_serialize_layout : forall c, canon c -> serialize c = Ok (layout c).
Proof. exact serialize_layout. Qed.
Print Assumptions C05_serialize_layout.

(* Decoding the layout gives the description back (every face, quintant, position, resolution -1..29). *)
Theorem C05_decode_encode : forall c, canon c -> deserialize (layout c) = Ok c.
Proof. exact deserialize_layout. Qed.
Print Assumptions C05_decode_encode.

(* The resolution read from an ID is the encoded one. *)
Theorem C05_resolution : forall c, canon c -> get_resolution (layout c) = resolution c.
Proof. exact resolution_layout. Qed.
Print Assumptions C05_resolution.

(* Different cells never share an ID. *)
Theorem C05_injective : forall c1 c2, canon c1 -> canon c2 -> layout c1 = layout c2 -> c1 = c2.
Proof. exact layout_injective. Qed.
Print Assumptions C05_injective.

(* Every canonical ID decodes to a description that encodes to it again. *)
Theorem C05_encode_decode :
  forall i, canonical_id i -> exists c, canon c /\ deserialize i = Ok c /\ serialize c = Ok i.
Proof. exact decode_encode. Qed.
Print Assumptions C05_encode_decode.

(* IDs are 64-bit words. *)
Theorem C05_layout_u64 : forall c, canon c -> 0 <= layout c < two64.
Proof. exact layout_u64. Qed.
Print Assumptions C05_layout_u64.

(* Non-vacuity: a deep cell satisfies the premises. *)
Example C05_canon_example : canon (mkCell 7 3 123456789 17) /\ canon (mkCell 0 0 0 (-1)) /\ canon (mkCell 11 0 0 0).
Proof. unfold canon; cbn [resolution origin_id segment s]; repeat split; intros; lia. Qed.

(* Hex form: formatting then parsing any 64-bit value returns it. *)
Theorem C05_hex_roundtrip : forall v, 0 <= v < two64 -> hex_to_u64 (u64_to_hex v) = Ok v.
Proof. exact hex_roundtrip. Qed.
Print Assumptions C05_hex_roundtrip.

(* 1-16 lower-case digits, no leading zero unless the value is 0. *)
Theorem C05_hex_shape : forall v, 0 <= v < two64 ->
  (1 <= length (u64_to_hex v) <= 16)%nat /\ Forall is_lower_hex (u64_to_hex v) /\
  (v = 0 -> u64_to_hex v = [48]) /\ (v <> 0 -> hd 48 (u64_to_hex v) <> 48).
Proof. exact hex_shape. Qed.
Print Assumptions C05_hex_shape.

Theorem C05_hex_injective : forall a b, 0 <= a < two64 -> 0 <= b < two64 -> u64_to_hex a = u64_to_hex b -> a = b.
Proof. exact hex_injective. Qed.
Print Assumptions C05_hex_injective.

(* Parsing is sound: an accepted string is a non-empty hex digit string (one optional '+') whose value fits. *)
Theorem C05_hex_parse_sound : forall s v, hex_to_u64 s = Ok v ->
  0 <= v < two64 /\ s <> [] /\ strip_plus s <> [] /\ Forall is_hex (strip_plus s) /\ v = hex_value (strip_plus s).
Proof. exact hex_parse_sound. Qed.
Print Assumptions C05_hex_parse_sound.

(* Errors, never truncated values and never a panic. *)
Theorem C05_hex_rejects_empty : hex_to_u64 [] = Err.
Proof. exact hex_rejects_empty. Qed.
Print Assumptions C05_hex_rejects_empty.

Theorem C05_hex_rejects_nonhex : forall s, (exists b, In b (strip_plus s) /\ hex_digit_val b = None) -> hex_to_u64 s = Err.
Proof. exact hex_rejects_nonhex. Qed.
Print Assumptions C05_hex_rejects_nonhex.

Theorem C05_hex_rejects_wide : forall s, Forall is_hex (strip_plus s) -> strip_plus s <> [] ->
  two64 <= hex_value (strip_plus s) -> hex_to_u64 s = Err.
Proof. exact hex_rejects_wide. Qed.
Print Assumptions C05_hex_rejects_wide.

Theorem C05_hex_total : forall s, hex_to_u64 s <> Panic /\ hex_to_u64 s <> Diverge.
Proof. exact hex_total. Qed.
Print Assumptions C05_hex_total.
