(* C16 — The face projection is area-preserving at every point
   (ideal-real model RInst; kernel-checked PARTS only)
   Property theorems only: full statement, `exact <lemma>`, Print Assumptions.

   NOT PROVED (named premise ProjEqualArea): that polyhedral_forward / polyhedral_inverse multiply
   area by the constant 4*pi / (12 * planar face area) AT EVERY POINT, i.e. that the Jacobian
   determinant of the IVEA map is constant (the infinitesimal form), and its integrated form for
   arbitrary regions.  Also not proved: Girard's theorem, i.e. the identification of the spherical
   excess 2 asin [half_excess_sine] with the spherical AREA; the derivative dE = (1 - cos rho) dtheta
   of the excess of the apex wedge; that the arc bc is mapped ONTO the edge B'C' (needs continuity of
   the excess along the arc) and hence the triangle onto the triangle; the instantiation to the
   10 + 10 face triangles of the twelve faces; the short-cut branches; f64 arithmetic.
   These gaps are covered only by certified interval samples and search.
   Over the ideal reals the model is not EXACTLY equal-area where triangle_area returns 2 s instead
   of 2 asin s (|s| < 1e-8) and where safe_acos / vector_difference / slerp switch formulas.

   PROVED here:
   - the planar half: barycentric_to_face is affine, so planar area ratios are barycentric
     determinants, and sub-triangle areas are the barycentric coordinates;
   - the algebraic half of the spherical area: for unit vectors the number triangle_area feeds to
     asin is det[v1,v2,v3] / sqrt(2 (1+v1.v2)(1+v2.v3)(1+v3.v1)), it lies in [-1,1], and
     triangle_area returns 2 asin of it (2 s below 1e-8);
   - PROVED LATE IN THE BUILD (end of this file, Geo/EqualAreaStructure.v), for ANY spherical triangle
     a, b, c of unit vectors with positive pairwise dot products and positive orientation and any planar
     triangle ft = (A', B', C'), on the main branch of polyhedral_forward (triangle_area on its asin
     branch; hypotheses on a, b, c and the arc point P only), the integral-free STRUCTURE from which the
     equal-area property follows:
     (W1) each great-circle arc from the apex a to a point P of the arc bc is mapped onto the straight
          segment from A' to P' (C16_forward_ray_segment, C16_ray_onto_segment), P itself to the point P'
          of the edge B'C' at the fraction excess(abP)/excess(abc) (C16_forward_arc_point,
          C16_edge_pt_on_edge), with radial fraction h = sin(angle(a,v)/2)/sin(angle(a,P)/2) in (0,1];
     (W2) for EVERY P of the arc, planar area (A',B',P') : area ft = excess(abP) : excess(abc), likewise
          (A',P',C') (C16_apex_wedge_area): the angular half of equal-area;
     (W3) h^2 = (1 - cos angle(a,v)) / (1 - cos angle(a,P)), the ratio of the areas of the spherical caps
          about a (C16_radial_law, C16_radial_law_angles), while cutting a planar triangle at the fractions
          h1, h2 along its sides at the apex multiplies its area by h1 h2 (C16_planar_scale): the radial
          half of equal-area;
     (W4) for P1 before P2 on the arc bc: planar area (A',P1',P2') = excess(a,P1,P2) * area2 ft / excess(abc)
          (C16_apex_subtriangle_area; so P -> P' is strictly monotone, C16_arc_frac_monotone), and
          area (A', forward v1, forward v2) = h1 h2 times that
          (C16_truncated_wedge_image): every apex sub-triangle is mapped with the SAME area factor;
     with a concrete triangle and two points showing that the hypotheses are satisfiable.
     How equal-area follows (NOT formalised): in coordinates (theta, d) about a the sphere's area form is
     d(1 - cos d) /\ dtheta = (1 - cos rho(theta)) d(h^2) /\ dtheta by (W3); the image has planar coordinates
     (w, h) by (W1) with area form area2 ft d(h^2) /\ dw, and dw = (1 - cos rho) dtheta / excess(abc) by (W4). *)
From Coq Require Import ZArith Reals List.
From A5 Require Import Num.NumOps Num.Derived Geo.Sphere Geo.Tiling Geo.Projection Geo.ProjectionProofs.
From A5gen Require Import TablesCur.
Import ListNotations.
Open Scope R_scope.

(* ---- planar half *)

Theorem C16_bary_affine : forall (t u v w u' v' w' : R) (tri : triR),
  barycentric_to_face RInst
    (t * u + (1 - t) * u', t * v + (1 - t) * v', t * w + (1 - t) * w') tri =
  (t * fst (barycentric_to_face RInst (u, v, w) tri)
     + (1 - t) * fst (barycentric_to_face RInst (u', v', w') tri),
   t * snd (barycentric_to_face RInst (u, v, w) tri)
     + (1 - t) * snd (barycentric_to_face RInst (u', v', w') tri)).
Proof. exact bary_affine. Qed.
Print Assumptions C16_bary_affine.

(* signed area of the image of a barycentric triangle = det(barycentric matrix) * area(tri) *)
Theorem C16_bary_area : forall (b1 b2 b3 : R * R * R) (tri : triR),
  bsum b1 = 1 -> bsum b2 = 1 -> bsum b3 = 1 ->
  area2 (barycentric_to_face RInst b1 tri, barycentric_to_face RInst b2 tri,
         barycentric_to_face RInst b3 tri) = det3 b1 b2 b3 * area2 tri.
Proof. exact bary_area. Qed.
Print Assumptions C16_bary_area.

(* the three sub-triangles at P have areas u, v, w times the whole: the planar side of
   "barycentric coordinates are area ratios", which polyhedral_forward matches with spherical
   area ratios *)
Theorem C16_bary_subareas : forall (u v w : R) (tri : triR), u + v + w = 1 ->
  let '(p1, p2, p3) := tri in
  let p := barycentric_to_face RInst (u, v, w) tri in
  area2 (p, p2, p3) = u * area2 tri /\
  area2 (p1, p, p3) = v * area2 tri /\
  area2 (p1, p2, p) = w * area2 tri.
Proof. exact bary_subareas. Qed.
Print Assumptions C16_bary_subareas.

Theorem C16_bary_vertices : forall (tri : triR),
  let '(p1, p2, p3) := tri in
  barycentric_to_face RInst (1, 0, 0) tri = p1 /\
  barycentric_to_face RInst (0, 1, 0) tri = p2 /\
  barycentric_to_face RInst (0, 0, 1) tri = p3.
Proof. exact bary_vertices. Qed.
Print Assumptions C16_bary_vertices.

(* ---- spherical half: algebra of triangle_area *)

Theorem C16_triple_sum_pairs : forall v1 v2 v3 : vecR,
  triple_product RInst (vadd RInst v2 v3) (vadd RInst v3 v1) (vadd RInst v1 v2) =
  2 * triple_product RInst v1 v2 v3.
Proof. exact triple_sum_pairs. Qed.
Print Assumptions C16_triple_sum_pairs.

Theorem C16_norm_sum_unit : forall a b : vecR, unitv a -> unitv b ->
  vdot RInst (vadd RInst a b) (vadd RInst a b) = 2 * (1 + vdot RInst a b).
Proof. exact norm_sum_unit. Qed.
Print Assumptions C16_norm_sum_unit.

(* the edge midpoints computed by vlerp 1/2 + normalize *)
Theorem C16_midpoint_normalize : forall a b : vecR, unitv a -> unitv b -> -1 < vdot RInst a b ->
  let L := sqrt ((1 + vdot RInst a b) / 2) in
  0 < L /\
  vnormalize RInst (vlerp RInst a b (lit RInst 1 2)) = Some (vscale RInst (vadd RInst a b) (/ (2 * L))).
Proof. exact midpoint_normalize. Qed.
Print Assumptions C16_midpoint_normalize.

Theorem C16_triple_unit_le_1 : forall a b c : vecR, unitv a -> unitv b -> unitv c ->
  Rabs (triple_product RInst a b c) <= 1.
Proof. exact triple_unit_le_1. Qed.
Print Assumptions C16_triple_unit_le_1.

(* s = det / sqrt(2 (1+c12)(1+c23)(1+c31)), the classical sin(E/2) *)
Theorem C16_triple_product_midpoints : forall v1 v2 v3 : vecR,
  unitv v1 -> unitv v2 -> unitv v3 ->
  -1 < vdot RInst v1 v2 -> -1 < vdot RInst v2 v3 -> -1 < vdot RInst v3 v1 ->
  exists ma mb mc,
    vnormalize RInst (vlerp RInst v2 v3 (lit RInst 1 2)) = Some ma /\
    vnormalize RInst (vlerp RInst v3 v1 (lit RInst 1 2)) = Some mb /\
    vnormalize RInst (vlerp RInst v1 v2 (lit RInst 1 2)) = Some mc /\
    unitv ma /\ unitv mb /\ unitv mc /\
    triple_product RInst ma mb mc =
      triple_product RInst v1 v2 v3 /
      sqrt (2 * (1 + vdot RInst v1 v2) * (1 + vdot RInst v2 v3) * (1 + vdot RInst v3 v1)) /\
    -1 <= triple_product RInst v1 v2 v3 /
      sqrt (2 * (1 + vdot RInst v1 v2) * (1 + vdot RInst v2 v3) * (1 + vdot RInst v3 v1)) <= 1.
Proof. exact triple_product_midpoints. Qed.
Print Assumptions C16_triple_product_midpoints.

(* the whole function over the reals *)
Theorem C16_triangle_area_closed_form : forall v1 v2 v3 : vecR,
  unitv v1 -> unitv v2 -> unitv v3 ->
  -1 < vdot RInst v1 v2 -> -1 < vdot RInst v2 v3 -> -1 < vdot RInst v3 v1 ->
  let s := triple_product RInst v1 v2 v3 /
           sqrt (2 * (1 + vdot RInst v1 v2) * (1 + vdot RInst v2 v3) * (1 + vdot RInst v3 v1)) in
  triangle_area RInst v1 v2 v3 =
  Some (if Rltb (Rabs s) (1 / 100000000) then 2 * s else Ratan.asin s * 2).
Proof. exact triangle_area_closed_form. Qed.
Print Assumptions C16_triangle_area_closed_form.

Theorem C16_triangle_area_sine : forall v1 v2 v3 : vecR,
  unitv v1 -> unitv v2 -> unitv v3 ->
  -1 < vdot RInst v1 v2 -> -1 < vdot RInst v2 v3 -> -1 < vdot RInst v3 v1 ->
  let s := triple_product RInst v1 v2 v3 /
           sqrt (2 * (1 + vdot RInst v1 v2) * (1 + vdot RInst v2 v3) * (1 + vdot RInst v3 v1)) in
  1 / 100000000 <= Rabs s ->
  exists E, triangle_area RInst v1 v2 v3 = Some E /\ - PI <= E <= PI /\ sin (E / 2) = s.
Proof. exact triangle_area_sine. Qed.
Print Assumptions C16_triangle_area_sine.

(* ---- The structure of the equal-area property of the IVEA map on the main branch (Geo/EqualAreaStructure.v).
   a, b, c: unit vectors, pairwise dot products positive, positively oriented; a is the apex (face centre).
   P = be b + ga c (be, ga > 0, unit): a point of the open arc bc;  v = la a + mu P (la >= 0, mu > 0, unit): a point
   of the great-circle arc from a to P (la = 0: v = P).  lc2 x y k l = k x + l y.
   hrad a P v = sin(angle(a,v)/2)/sin(angle(a,P)/2); edge_pt a b c P ft = the point of ft with barycentric
   coordinates (0, area(aPc)/area(abc), area(abP)/area(abc)); arc_frac a b c P = area(abP)/area(abc);
   pt_lerp A Q h = A + h (Q - A); apex/vtxB/vtxC ft = the three corners; areaR = the spherical excess as the code
   computes it.  The three hypotheses 1e-8 <= |half_excess_sine ..| say that triangle_area is on its asin branch;
   they concern a, b, c and P only, not v.  From (W1)-(W4) the equal-area property follows by a limit argument
   that is NOT formalised (see the header). ---- *)
From A5 Require Import Geo.PolyhedralRoundTrip Geo.EqualAreaStructure.

(* the definitions used below, spelled out *)
Theorem C16_equal_area_defs : forall (a b c P v : vecR) (A' B' C' Q : ptR) (h : R),
  hrad a P v = sqrt ((1 - vdot RInst a v) / 2) / sqrt ((1 - vdot RInst a P) / 2) /\
  hR a b c v = hrad a (isect a b c v) v /\
  apex (A', B', C') = A' /\ vtxB (A', B', C') = B' /\ vtxC (A', B', C') = C' /\
  pt_lerp A' Q h = (fst A' + h * (fst Q - fst A'), snd A' + h * (snd Q - snd A')) /\
  edge_pt a b c P (A', B', C') =
    barycentric_to_face RInst (0, areaR a P c / areaR a b c, areaR a b P / areaR a b c) (A', B', C') /\
  arc_frac a b c P = areaR a b P / areaR a b c /\
  areaR a b c = Ratan.asin (half_excess_sine a b c) * 2.
Proof. exact equal_area_defs. Qed.
Print Assumptions C16_equal_area_defs.

(* (W1) radial arcs go to radial segments: forward v = A' + h (P' - A') *)
Theorem C16_forward_ray_segment :
  forall (a b c P v : vecR) (ft : triR) be ga la mu,
  unitv a -> unitv b -> unitv c -> unitv P -> unitv v ->
  0 < vdot RInst a b -> 0 < vdot RInst b c -> 0 < vdot RInst c a -> 0 < triple_product RInst a b c ->
  P = lc2 b c be ga -> 0 < be -> 0 < ga ->
  v = lc2 a P la mu -> 0 <= la -> 0 < mu ->
  1 / 100000000 <= Rabs (half_excess_sine a b c) ->
  1 / 100000000 <= Rabs (half_excess_sine a P c) ->
  1 / 100000000 <= Rabs (half_excess_sine a b P) ->
  polyhedral_forward RInst v (a, b, c) ft =
    Some (pt_lerp (apex ft) (edge_pt a b c P ft) (hrad a P v)).
Proof. exact forward_ray_segment. Qed.
Print Assumptions C16_forward_ray_segment.

(* (W1) the arc point itself: forward P = P' *)
Theorem C16_forward_arc_point :
  forall (a b c P : vecR) (ft : triR) be ga,
  unitv a -> unitv b -> unitv c -> unitv P ->
  0 < vdot RInst a b -> 0 < vdot RInst b c -> 0 < vdot RInst c a -> 0 < triple_product RInst a b c ->
  P = lc2 b c be ga -> 0 < be -> 0 < ga ->
  1 / 100000000 <= Rabs (half_excess_sine a b c) ->
  1 / 100000000 <= Rabs (half_excess_sine a P c) ->
  1 / 100000000 <= Rabs (half_excess_sine a b P) ->
  polyhedral_forward RInst P (a, b, c) ft = Some (edge_pt a b c P ft).
Proof. exact forward_arc_point. Qed.
Print Assumptions C16_forward_arc_point.

(* (W1) the arc bc goes into the edge B'C', at the fraction area(abP)/area(abc) *)
Theorem C16_edge_pt_on_edge :
  forall (a b c P : vecR) (ft : triR) be ga,
  unitv a -> unitv b -> unitv c -> unitv P ->
  0 < vdot RInst a b -> 0 < vdot RInst b c -> 0 < vdot RInst c a -> 0 < triple_product RInst a b c ->
  P = lc2 b c be ga -> 0 < be -> 0 < ga ->
  edge_pt a b c P ft = pt_lerp (vtxB ft) (vtxC ft) (arc_frac a b c P) /\
  0 < arc_frac a b c P < 1.
Proof. exact edge_pt_on_edge. Qed.
Print Assumptions C16_edge_pt_on_edge.

(* (W1) strictly between a and P the radial fraction is strictly between 0 and 1 *)
Theorem C16_hrad_range :
  forall (a b c P v : vecR) be ga la mu,
  unitv a -> unitv b -> unitv c -> unitv P -> unitv v ->
  0 < vdot RInst a b -> 0 < vdot RInst b c -> 0 < vdot RInst c a -> 0 < triple_product RInst a b c ->
  P = lc2 b c be ga -> 0 < be -> 0 < ga ->
  v = lc2 a P la mu -> 0 < la -> 0 < mu ->
  0 < hrad a P v < 1.
Proof. exact hrad_range. Qed.
Print Assumptions C16_hrad_range.

(* (W1) every point of the planar segment (A', P'] is the image of a point of the spherical arc (a, P] *)
Theorem C16_ray_onto_segment :
  forall (a b c P : vecR) (ft : triR) be ga h,
  unitv a -> unitv b -> unitv c -> unitv P ->
  0 < vdot RInst a b -> 0 < vdot RInst b c -> 0 < vdot RInst c a -> 0 < triple_product RInst a b c ->
  P = lc2 b c be ga -> 0 < be -> 0 < ga ->
  1 / 100000000 <= Rabs (half_excess_sine a b c) ->
  1 / 100000000 <= Rabs (half_excess_sine a P c) ->
  1 / 100000000 <= Rabs (half_excess_sine a b P) ->
  0 < h <= 1 ->
  exists v : vecR, unitv v /\ (exists la mu, v = lc2 a P la mu /\ 0 <= la /\ 0 < mu) /\
    vdot RInst a v = 1 - h * h * (1 - vdot RInst a P) /\ hrad a P v = h /\
    polyhedral_forward RInst v (a, b, c) ft = Some (pt_lerp (apex ft) (edge_pt a b c P ft) h).
Proof. exact ray_onto_segment. Qed.
Print Assumptions C16_ray_onto_segment.

(* (W2) the apex wedge has proportional area, for EVERY P of the arc: the angular half of equal-area *)
Theorem C16_apex_wedge_area :
  forall (a b c P : vecR) (ft : triR) be ga,
  unitv a -> unitv b -> unitv c -> unitv P ->
  0 < vdot RInst a b -> 0 < vdot RInst b c -> 0 < vdot RInst c a -> 0 < triple_product RInst a b c ->
  P = lc2 b c be ga -> 0 < be -> 0 < ga ->
  area2 (apex ft, vtxB ft, edge_pt a b c P ft) = areaR a b P / areaR a b c * area2 ft /\
  area2 (apex ft, edge_pt a b c P ft, vtxC ft) = areaR a P c / areaR a b c * area2 ft.
Proof. exact apex_wedge_area. Qed.
Print Assumptions C16_apex_wedge_area.

(* (W3) the radial law is the equal-area one: h^2 = (1 - a.v)/(1 - a.P) = (1 - cos d)/(1 - cos rho), the ratio of the
   areas 2 pi (1 - cos .) of the spherical caps about a of angular radii d = angle(a,v) and rho = angle(a,P) *)
Theorem C16_radial_law : forall a P v : vecR, unitv a -> unitv P -> unitv v -> vdot RInst a P < 1 ->
  hrad a P v * hrad a P v = (1 - vdot RInst a v) / (1 - vdot RInst a P).
Proof. exact radial_law. Qed.
Print Assumptions C16_radial_law.

Theorem C16_radial_law_angles : forall a P v : vecR, unitv a -> unitv P -> unitv v -> vdot RInst a P < 1 ->
  let d := Ratan.acos (vdot RInst a v) in
  let rho := Ratan.acos (vdot RInst a P) in
  hrad a P v = sin (d / 2) / sin (rho / 2) /\
  hrad a P v * hrad a P v = (1 - cos d) / (1 - cos rho).
Proof. exact radial_law_angles. Qed.
Print Assumptions C16_radial_law_angles.

(* (W3) planar side: cutting the two sides at the apex at the fractions h1, h2 multiplies the area by h1 h2
   (h1 = h2 = h: by h^2) *)
Theorem C16_planar_scale : forall (A Q1 Q2 : ptR) (h1 h2 : R),
  area2 (A, pt_lerp A Q1 h1, pt_lerp A Q2 h2) = h1 * h2 * area2 (A, Q1, Q2).
Proof. exact planar_scale. Qed.
Print Assumptions C16_planar_scale.

Theorem C16_planar_wedge : forall (ft : triR) (w1 w2 : R),
  area2 (apex ft, pt_lerp (vtxB ft) (vtxC ft) w1, pt_lerp (vtxB ft) (vtxC ft) w2)
  = (w2 - w1) * area2 ft.
Proof. exact planar_wedge. Qed.
Print Assumptions C16_planar_wedge.

(* (W4) excess of the apex sub-triangle between two arc points (P1 nearer to b): additivity used twice *)
Theorem C16_arc_excess_between :
  forall (a b c P1 P2 : vecR) be1 ga1 be2 ga2,
  unitv a -> unitv b -> unitv c -> unitv P1 -> unitv P2 ->
  0 < vdot RInst a b -> 0 < vdot RInst b c -> 0 < vdot RInst c a -> 0 < triple_product RInst a b c ->
  P1 = lc2 b c be1 ga1 -> 0 < be1 -> 0 < ga1 ->
  P2 = lc2 b c be2 ga2 -> 0 < be2 -> 0 < ga2 ->
  be2 * ga1 < be1 * ga2 ->
  areaR a b P1 + areaR a P1 P2 = areaR a b P2 /\ 0 < areaR a P1 P2.
Proof. exact arc_excess_between. Qed.
Print Assumptions C16_arc_excess_between.

(* (W4) hence the arc bc is mapped into the edge B'C' in an order-preserving, injective way *)
Theorem C16_arc_frac_monotone :
  forall (a b c P1 P2 : vecR) be1 ga1 be2 ga2,
  unitv a -> unitv b -> unitv c -> unitv P1 -> unitv P2 ->
  0 < vdot RInst a b -> 0 < vdot RInst b c -> 0 < vdot RInst c a -> 0 < triple_product RInst a b c ->
  P1 = lc2 b c be1 ga1 -> 0 < be1 -> 0 < ga1 ->
  P2 = lc2 b c be2 ga2 -> 0 < be2 -> 0 < ga2 ->
  be2 * ga1 < be1 * ga2 ->
  arc_frac a b c P1 < arc_frac a b c P2.
Proof. exact arc_frac_monotone. Qed.
Print Assumptions C16_arc_frac_monotone.

(* (W4) the apex sub-triangle (a, P1, P2) has its vertices P1, P2 sent to P1', P2' (C16_forward_arc_point), its sides
   a-P1, a-P2 onto the segments A'-P1', A'-P2' (C16_forward_ray_segment, C16_ray_onto_segment), and the planar
   triangle (A', P1', P2') has area = spherical excess * the constant area2 ft / area(abc) *)
Theorem C16_apex_subtriangle_area :
  forall (a b c P1 P2 : vecR) (ft : triR) be1 ga1 be2 ga2,
  unitv a -> unitv b -> unitv c -> unitv P1 -> unitv P2 ->
  0 < vdot RInst a b -> 0 < vdot RInst b c -> 0 < vdot RInst c a -> 0 < triple_product RInst a b c ->
  P1 = lc2 b c be1 ga1 -> 0 < be1 -> 0 < ga1 ->
  P2 = lc2 b c be2 ga2 -> 0 < be2 -> 0 < ga2 ->
  be2 * ga1 < be1 * ga2 ->
  area2 (apex ft, edge_pt a b c P1 ft, edge_pt a b c P2 ft)
  = areaR a P1 P2 * (area2 ft / areaR a b c).
Proof. exact apex_subtriangle_area. Qed.
Print Assumptions C16_apex_subtriangle_area.

(* (W1)-(W4) combined: the images of v1 on the ray a-P1 and v2 on the ray a-P2 span with A' a triangle of area
   h1 h2 * excess(a,P1,P2) * area2 ft / area(abc); with h1 = h2 = h the factor is h^2 = (1 - cos d)/(1 - cos rho) *)
Theorem C16_truncated_wedge_image :
  forall (a b c P1 P2 v1 v2 : vecR) (ft : triR) be1 ga1 be2 ga2 la1 mu1 la2 mu2,
  unitv a -> unitv b -> unitv c -> unitv P1 -> unitv P2 -> unitv v1 -> unitv v2 ->
  0 < vdot RInst a b -> 0 < vdot RInst b c -> 0 < vdot RInst c a -> 0 < triple_product RInst a b c ->
  P1 = lc2 b c be1 ga1 -> 0 < be1 -> 0 < ga1 ->
  P2 = lc2 b c be2 ga2 -> 0 < be2 -> 0 < ga2 ->
  be2 * ga1 < be1 * ga2 ->
  v1 = lc2 a P1 la1 mu1 -> 0 <= la1 -> 0 < mu1 ->
  v2 = lc2 a P2 la2 mu2 -> 0 <= la2 -> 0 < mu2 ->
  1 / 100000000 <= Rabs (half_excess_sine a b c) ->
  1 / 100000000 <= Rabs (half_excess_sine a P1 c) ->
  1 / 100000000 <= Rabs (half_excess_sine a b P1) ->
  1 / 100000000 <= Rabs (half_excess_sine a P2 c) ->
  1 / 100000000 <= Rabs (half_excess_sine a b P2) ->
  exists q1 q2 : ptR,
    polyhedral_forward RInst v1 (a, b, c) ft = Some q1 /\
    polyhedral_forward RInst v2 (a, b, c) ft = Some q2 /\
    area2 (apex ft, q1, q2)
    = hrad a P1 v1 * hrad a P2 v2 * (areaR a P1 P2 * (area2 ft / areaR a b c)).
Proof. exact truncated_wedge_image. Qed.
Print Assumptions C16_truncated_wedge_image.

(* (W1) for a point strictly inside the spherical triangle, in the terms of C15_polyhedral_forward_main_branch:
   P = isect a b c v, h = hR a b c v *)
Theorem C16_forward_ray_segment_interior :
  forall (a b c v : vecR) (ft : triR),
  unitv a -> unitv b -> unitv c -> unitv v ->
  0 < vdot RInst a b -> 0 < vdot RInst b c -> 0 < vdot RInst c a ->
  0 < triple_product RInst a b c -> 0 < triple_product RInst a b v ->
  0 < triple_product RInst b c v -> 0 < triple_product RInst c a v ->
  let P := isect a b c v in
  1 / 100000000 <= Rabs (half_excess_sine a b c) ->
  1 / 100000000 <= Rabs (half_excess_sine a P c) ->
  1 / 100000000 <= Rabs (half_excess_sine a b P) ->
  polyhedral_forward RInst v (a, b, c) ft = Some (pt_lerp (apex ft) (edge_pt a b c P ft) (hR a b c v)) /\
  polyhedral_forward RInst P (a, b, c) ft = Some (edge_pt a b c P ft) /\
  edge_pt a b c P ft = pt_lerp (vtxB ft) (vtxC ft) (arc_frac a b c P) /\
  0 < arc_frac a b c P < 1 /\ 0 < hR a b c v < 1.
Proof. exact forward_ray_segment_interior. Qed.
Print Assumptions C16_forward_ray_segment_interior.

(* the hypotheses are jointly satisfiable: the triangle ex_a, ex_b, ex_c and the points ex_v, ex_v2 *)
Theorem C16_forward_ray_segment_instance :
  let P := isect ex_a ex_b ex_c ex_v in
  polyhedral_forward RInst ex_v (ex_a, ex_b, ex_c) ex_ft
    = Some (pt_lerp (apex ex_ft) (edge_pt ex_a ex_b ex_c P ex_ft) (hR ex_a ex_b ex_c ex_v)) /\
  polyhedral_forward RInst P (ex_a, ex_b, ex_c) ex_ft = Some (edge_pt ex_a ex_b ex_c P ex_ft) /\
  edge_pt ex_a ex_b ex_c P ex_ft = pt_lerp (vtxB ex_ft) (vtxC ex_ft) (arc_frac ex_a ex_b ex_c P) /\
  0 < arc_frac ex_a ex_b ex_c P < 1 /\ 0 < hR ex_a ex_b ex_c ex_v < 1.
Proof. exact forward_ray_segment_instance. Qed.
Print Assumptions C16_forward_ray_segment_instance.

Theorem C16_truncated_wedge_instance :
  let P1 := isect ex_a ex_b ex_c ex_v in
  let P2 := isect ex_a ex_b ex_c ex_v2 in
  exists q1 q2 : ptR,
    polyhedral_forward RInst ex_v (ex_a, ex_b, ex_c) ex_ft = Some q1 /\
    polyhedral_forward RInst ex_v2 (ex_a, ex_b, ex_c) ex_ft = Some q2 /\
    area2 (apex ex_ft, q1, q2)
    = hrad ex_a P1 ex_v * hrad ex_a P2 ex_v2 *
      (areaR ex_a P1 P2 * (area2 ex_ft / areaR ex_a ex_b ex_c)).
Proof. exact truncated_wedge_instance. Qed.
Print Assumptions C16_truncated_wedge_instance.
