(* C16 — The face projection is area-preserving at every point
   (ideal-real model RInst; kernel-checked PARTS only)
   Property theorems only: full statement, `exact <lemma>`, Print Assumptions.

   NOT PROVED (named premise ProjEqualArea): that polyhedral_forward / polyhedral_inverse multiply
   area by the constant 4*pi / (12 * planar face area), i.e. that the Jacobian determinant of the
   IVEA map is constant.  Also not proved: the spherical-trigonometry identification of
   [half_excess_sine] with sin(E/2) for the spherical excess E (so that 2 asin of it IS the
   spherical area).  These gaps are covered only by certified interval samples and search.
   Over the ideal reals the model is not EXACTLY equal-area where triangle_area returns 2 s instead
   of 2 asin s (|s| < 1e-8) and where safe_acos / vector_difference / slerp switch formulas.

   PROVED here:
   - the planar half: barycentric_to_face is affine, so planar area ratios are barycentric
     determinants, and sub-triangle areas are the barycentric coordinates;
   - the algebraic half of the spherical area: for unit vectors the number triangle_area feeds to
     asin is det[v1,v2,v3] / sqrt(2 (1+v1.v2)(1+v2.v3)(1+v3.v1)), it lies in [-1,1], and
     triangle_area returns 2 asin of it (2 s below 1e-8). *)
From Coq Require Import ZArith Reals List.
From A5 Require Import Num.NumOps Num.Derived Geo.Sphere Geo.Tiling Geo.Projection Geo.ProjectionProofs.
From A5gen Require Import TablesCur.
Import ListNotations.
Open Scope R_scope.

(* ---- planar half *)

Theorem C16_bary_affine : forall (t u v w u' v' w' : R) (tri : triR),
  barycentric_to_face RInst
    (t * u + (1 - t) * u', t * v + (1 - t) * v', t * w + (1 - t) * w') tri =
  (t * fst (barycentric_to_face RInst (u, v, w) tri)
     + (1 - t) * fst (barycentric_to_face RInst (u', v', w') tri),
   t * snd (barycentric_to_face RInst (u, v, w) tri)
     + (1 - t) * snd (barycentric_to_face RInst (u', v', w') tri)).
Proof. exact bary_affine. Qed.
Print Assumptions C16_bary_affine.

(* signed area of the image of a barycentric triangle = det(barycentric matrix) * area(tri) *)
Theorem C16_bary_area : forall (b1 b2 b3 : R * R * R) (tri : triR),
  bsum b1 = 1 -> bsum b2 = 1 -> bsum b3 = 1 ->
  area2 (barycentric_to_face RInst b1 tri, barycentric_to_face RInst b2 tri,
         barycentric_to_face RInst b3 tri) = det3 b1 b2 b3 * area2 tri.
Proof. exact bary_area. Qed.
Print Assumptions C16_bary_area.

(* the three sub-triangles at P have areas u, v, w times the whole: the planar side of
   "barycentric coordinates are area ratios", which polyhedral_forward matches with spherical
   area ratios *)
Theorem C16_bary_subareas : forall (u v w : R) (tri : triR), u + v + w = 1 ->
  let '(p1, p2, p3) := tri in
  let p := barycentric_to_face RInst (u, v, w) tri in
  area2 (p, p2, p3) = u * area2 tri /\
  area2 (p1, p, p3) = v * area2 tri /\
  area2 (p1, p2, p) = w * area2 tri.
Proof. exact bary_subareas. Qed.
Print Assumptions C16_bary_subareas.

Theorem C16_bary_vertices : forall (tri : triR),
  let '(p1, p2, p3) := tri in
  barycentric_to_face RInst (1, 0, 0) tri = p1 /\
  barycentric_to_face RInst (0, 1, 0) tri = p2 /\
  barycentric_to_face RInst (0, 0, 1) tri = p3.
Proof. exact bary_vertices. Qed.
Print Assumptions C16_bary_vertices.

(* ---- spherical half: algebra of triangle_area *)

Theorem C16_triple_sum_pairs : forall v1 v2 v3 : vecR,
  triple_product RInst (vadd RInst v2 v3) (vadd RInst v3 v1) (vadd RInst v1 v2) =
  2 * triple_product RInst v1 v2 v3.
Proof. exact triple_sum_pairs. Qed.
Print Assumptions C16_triple_sum_pairs.

Theorem C16_norm_sum_unit : forall a b : vecR, unitv a -> unitv b ->
  vdot RInst (vadd RInst a b) (vadd RInst a b) = 2 * (1 + vdot RInst a b).
Proof. exact norm_sum_unit. Qed.
Print Assumptions C16_norm_sum_unit.

(* the edge midpoints computed by vlerp 1/2 + normalize *)
Theorem C16_midpoint_normalize : forall a b : vecR, unitv a -> unitv b -> -1 < vdot RInst a b ->
  let L := sqrt ((1 + vdot RInst a b) / 2) in
  0 < L /\
  vnormalize RInst (vlerp RInst a b (lit RInst 1 2)) = Some (vscale RInst (vadd RInst a b) (/ (2 * L))).
Proof. exact midpoint_normalize. Qed.
Print Assumptions C16_midpoint_normalize.

Theorem C16_triple_unit_le_1 : forall a b c : vecR, unitv a -> unitv b -> unitv c ->
  Rabs (triple_product RInst a b c) <= 1.
Proof. exact triple_unit_le_1. Qed.
Print Assumptions C16_triple_unit_le_1.

(* s = det / sqrt(2 (1+c12)(1+c23)(1+c31)), the classical sin(E/2) *)
Theorem C16_triple_product_midpoints : forall v1 v2 v3 : vecR,
  unitv v1 -> unitv v2 -> unitv v3 ->
  -1 < vdot RInst v1 v2 -> -1 < vdot RInst v2 v3 -> -1 < vdot RInst v3 v1 ->
  exists ma mb mc,
    vnormalize RInst (vlerp RInst v2 v3 (lit RInst 1 2)) = Some ma /\
    vnormalize RInst (vlerp RInst v3 v1 (lit RInst 1 2)) = Some mb /\
    vnormalize RInst (vlerp RInst v1 v2 (lit RInst 1 2)) = Some mc /\
    unitv ma /\ unitv mb /\ unitv mc /\
    triple_product RInst ma mb mc =
      triple_product RInst v1 v2 v3 /
      sqrt (2 * (1 + vdot RInst v1 v2) * (1 + vdot RInst v2 v3) * (1 + vdot RInst v3 v1)) /\
    -1 <= triple_product RInst v1 v2 v3 /
      sqrt (2 * (1 + vdot RInst v1 v2) * (1 + vdot RInst v2 v3) * (1 + vdot RInst v3 v1)) <= 1.
Proof. exact triple_product_midpoints. Qed.
Print Assumptions C16_triple_product_midpoints.

(* the whole function over the reals *)
Theorem C16_triangle_area_closed_form : forall v1 v2 v3 : vecR,
  unitv v1 -> unitv v2 -> unitv v3 ->
  -1 < vdot RInst v1 v2 -> -1 < vdot RInst v2 v3 -> -1 < vdot RInst v3 v1 ->
  let s := triple_product RInst v1 v2 v3 /
           sqrt (2 * (1 + vdot RInst v1 v2) * (1 + vdot RInst v2 v3) * (1 + vdot RInst v3 v1)) in
  triangle_area RInst v1 v2 v3 =
  Some (if Rltb (Rabs s) (1 / 100000000) then 2 * s else Ratan.asin s * 2).
Proof. exact triangle_area_closed_form. Qed.
Print Assumptions C16_triangle_area_closed_form.

Theorem C16_triangle_area_sine : forall v1 v2 v3 : vecR,
  unitv v1 -> unitv v2 -> unitv v3 ->
  -1 < vdot RInst v1 v2 -> -1 < vdot RInst v2 v3 -> -1 < vdot RInst v3 v1 ->
  let s := triple_product RInst v1 v2 v3 /
           sqrt (2 * (1 + vdot RInst v1 v2) * (1 + vdot RInst v2 v3) * (1 + vdot RInst v3 v1)) in
  1 / 100000000 <= Rabs s ->
  exists E, triangle_area RInst v1 v2 v3 = Some E /\ - PI <= E <= PI /\ sin (E / 2) = s.
Proof. exact triangle_area_sine. Qed.
Print Assumptions C16_triangle_area_sine.
