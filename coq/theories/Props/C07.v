(* C07 — Parent/children form one consistent tree over all resolutions
   Property theorems only: full statement, `exact <lemma>`, Print Assumptions. *)
From Coq Require Import ZArith List Bool.
From A5 Require Import Base.Outcome Base.Word Id.Codec Id.CodecSpec Id.Tree Id.TreeSpec Id.TreeProofs.
Import ListNotations.
Open Scope Z_scope.

(* the children call returns exactly the spec-level descendants, in order (all canonical cells, all targets the code accepts) *)
Theorem C07_children_spec c k :
  canon c -> resolution c <= k <= 29 -> span_ok (resolution c) k ->
  cell_to_children (layout c) (Some k) = Ok (map layout (desc_cells c k)).
Proof. exact (children_spec c k). Qed.
Print Assumptions C07_children_spec.

(* complete classification of the children call: Ok with the descendants, or Err (too deep / out of range); never a panic *)
Theorem C07_children_outcome c k :
  canon c ->
  cell_to_children (layout c) (Some k) =
  if (resolution c <=? k) && (k <=? 29) && (k - Z.max (resolution c) 1 <=? 20)
  then Ok (map layout (desc_cells c k)) else Err.
Proof. exact (children_outcome c k). Qed.
Print Assumptions C07_children_outcome.

(* the ancestor call returns the spec-level ancestor *)
Theorem C07_parent_spec c k :
  canon c -> -1 <= k <= resolution c -> cell_to_parent (layout c) (Some k) = Ok (layout (anc c k)).
Proof. exact (parent_spec c k). Qed.
Print Assumptions C07_parent_spec.

(* default parent level *)
Theorem C07_parent_default_spec c :
  canon c -> 0 <= resolution c ->
  cell_to_parent (layout c) None = Ok (layout (anc c (resolution c - 1))).
Proof. exact (parent_default_spec c). Qed.
Print Assumptions C07_parent_default_spec.

(* default child level *)
Theorem C07_children_default_spec c :
  canon c -> resolution c < 29 ->
  cell_to_children (layout c) None = Ok (map layout (desc_cells c (resolution c + 1))).
Proof. exact (children_default_spec c). Qed.
Print Assumptions C07_children_default_spec.

(* the 12 base cells *)
Theorem C07_res0_spec : get_res0_cells = Ok (map layout (desc_cells world 0)).
Proof. exact res0_spec. Qed.
Print Assumptions C07_res0_spec.

(* exactly as many as the hierarchy dictates: 12 under the world cell, 5 per base cell, 4 per level after that *)
Theorem C07_desc_length c k :
  canon c -> resolution c <= k <= 29 -> Z.of_nat (length (desc_cells c k)) = fanout (resolution c) k.
Proof. exact (desc_length c k). Qed.
Print Assumptions C07_desc_length.

(* children are pairwise distinct IDs *)
Theorem C07_children_NoDup c k : canon c -> resolution c <= k <= 29 -> NoDup (map layout (desc_cells c k)).
Proof. exact (children_NoDup c k). Qed.
Print Assumptions C07_children_NoDup.

(* d is among the descendants of c at level k  iff  d is a canonical cell of resolution k whose ancestor at res(c) is c *)
Theorem C07_desc_char c k d :
  canon c -> resolution c <= k <= 29 ->
  (In d (desc_cells c k) <-> canon d /\ resolution d = k /\ anc d (resolution c) = c).
Proof. exact (desc_char c k d). Qed.
Print Assumptions C07_desc_char.

(* ancestors are canonical cells of the requested resolution *)
Theorem C07_anc_canon c k : canon c -> -1 <= k <= resolution c -> canon (anc c k) /\ resolution (anc c k) = k.
Proof. exact (anc_canon c k). Qed.
Print Assumptions C07_anc_canon.

(* ancestor lookup composes *)
Theorem C07_anc_compose c a b : canon c -> -1 <= b <= a -> a <= resolution c -> anc (anc c a) b = anc c b.
Proof. exact (anc_compose c a b). Qed.
Print Assumptions C07_anc_compose.

(* children of children are the children at the deeper level *)
Theorem C07_desc_compose c k1 k2 d :
  canon c -> resolution c <= k1 <= k2 -> k2 <= 29 ->
  (In d (desc_cells c k2) <-> exists m, In m (desc_cells c k1) /\ In d (desc_cells m k2)).
Proof. exact (desc_compose c k1 k2 d). Qed.
Print Assumptions C07_desc_compose.

(* every cell has exactly one parent; hence the children of all cells at r enumerate r+1 exactly once *)
Theorem C07_unique_parent d :
  canon d -> 0 <= resolution d ->
  exists! c, canon c /\ resolution c = resolution d - 1 /\ In d (desc_cells c (resolution d)).
Proof. exact (unique_parent d). Qed.
Print Assumptions C07_unique_parent.

