(* C12 — Children geometrically overlap their parent and stay within its reach (planar half).
   Property theorems only: full statement, `exact <lemma>`, Print Assumptions.

   Setting: exact rational model (QInst) of the planar layer, quintant 0, true face coordinates.
   A cell of curve depth n (cell resolution n+1) at curve position s with orientation o is the pentagon
   get_pentagon_vertices QInst n 0 (s_to_anchor s n o); its four children are the positions 4s+t,
   t = 0..3, at depth n+1 (same quintant, same orientation).  get_area is twice the planar area, so
   the planar area of a pentagon l is get_area QInst l / 2.  "c strictly inside l" is stated as: every
   edge cross product of Tiling.crosses is positive (contains_point accepts when none is negative).
   The bound  dist <= 0.8 * sqrt(area)  is stated in squared form  25 * dist^2 <= 16 * area.

   Covering clause (ChildCover.v): the four children together cover more than half (more than 0.58) of
   the parent's planar area, witnessed by four pairwise interior-disjoint strictly convex polygons W t,
   W t inside parent /\ child t; see the statements below for the exact reading.

   NOT proved here:
   - the transfer from the plane to the sphere (distance/area distortion of the polyhedral projection);
   - quintants 1..4 (their rotation matrices are f64 approximations of rotations);
   - parents of depth 29 (cell resolution 30 has no children in the library). *)
From Coq Require Import ZArith QArith Qabs List Bool.
From A5 Require Import Num.NumOps Num.QInst Hilbert.Hilbert Hilbert.LocateProofs Geo.Tiling Geo.AreaProofs
  Hilbert.ChildProofs Hilbert.ChildCover.
Import ListNotations.
Open Scope Q_scope.

(* Digits: the forward-shifted digit string of the child 4s+t is the parent's string with its last digit q
   replaced by the pair shift_pair q t' F, where F is the product of the flips of the unchanged digits and
   t' = t (3 - t for the reversed orientations). *)
Theorem C12_child_digits_prefix : forall (n : nat) (o s t : Z),
  (1 <= n <= 28)%nat -> (0 <= s < 4 ^ Z.of_nat n)%Z -> (0 <= t < 4)%Z ->
  let sh := shifted_digits n o s in
  let pre := removelast sh in
  let '(q', c') := shift_pair (last sh 0%Z) (adj_t o t) (DigitsProofs.total pre) (o_invert_j o)
                     (DigitsProofs.cur_pat (o_flip_ij o)) in
  shifted_digits (S n) o (4 * s + t) = pre ++ [q'; c'].
Proof. exact child_digits_prefix. Qed.
Print Assumptions C12_child_digits_prefix.

(* Anchors: parent and child anchors are one of 192 normalised pairs, translated by G and 2G. *)
Theorem C12_child_offset_finite : forall (n : nat) (o s t : Z),
  (1 <= n <= 28)%nat -> (0 <= o < 6)%Z -> (0 <= s < 4 ^ Z.of_nat n)%Z -> (0 <= t < 4)%Z ->
  exists G st, In st all_states /\
    s_to_anchor s n o = shift_anchor G (st_parent st) /\
    s_to_anchor (4 * s + t) (S n) o = shift_anchor (vsc 2 G) (st_child st).
Proof. exact child_offset_finite. Qed.
Print Assumptions C12_child_offset_finite.

(* In lattice coordinates the child's offset is twice the parent's up to 2 per coordinate. *)
Theorem C12_child_offset_close : forall (n : nat) (o s t : Z),
  (1 <= n <= 28)%nat -> (0 <= o < 6)%Z -> (0 <= s < 4 ^ Z.of_nat n)%Z -> (0 <= t < 4)%Z ->
  let p := a_off (s_to_anchor s n o) in let c := a_off (s_to_anchor (4 * s + t) (S n) o) in
  (Z.abs (fst c - 2 * fst p) <= 2 /\ Z.abs (snd c - 2 * snd p) <= 2)%Z.
Proof. exact child_offset_close. Qed.
Print Assumptions C12_child_offset_close.

(* Reach: each child's centre lies within 0.8 * sqrt(parent area) of the parent's centre
   (and within 0.35 / 2^n; the parent's planar area is A_pent / 4^n). *)
Theorem C12_child_centre_reach : forall (n : nat) (o s t : Z),
  (1 <= n <= 28)%nat -> (0 <= o < 6)%Z -> (0 <= s < 4 ^ Z.of_nat n)%Z -> (0 <= t < 4)%Z ->
  exists lp lc,
    get_pentagon_vertices QInst (Z.of_nat n) 0 (s_to_anchor s n o) = Some lp /\
    get_pentagon_vertices QInst (Z.of_nat (S n)) 0 (s_to_anchor (4 * s + t) (S n) o) = Some lc /\
    get_area QInst lp / 2 == A_pent / inject_Z (4 ^ Z.of_nat n) /\
    25 * dist2 (get_center QInst lc) (get_center QInst lp) <= 16 * (get_area QInst lp / 2) /\
    dist2 (get_center QInst lc) (get_center QInst lp) <= (R0 / pw n) * (R0 / pw n).
Proof. exact child_centre_reach. Qed.
Print Assumptions C12_child_centre_reach.

(* Overlap: some point is strictly inside both the child and the parent. *)
Theorem C12_child_overlaps_parent : forall (n : nat) (o s t : Z),
  (1 <= n <= 28)%nat -> (0 <= o < 6)%Z -> (0 <= s < 4 ^ Z.of_nat n)%Z -> (0 <= t < 4)%Z ->
  exists lp lc w,
    get_pentagon_vertices QInst (Z.of_nat n) 0 (s_to_anchor s n o) = Some lp /\
    get_pentagon_vertices QInst (Z.of_nat (S n)) 0 (s_to_anchor (4 * s + t) (S n) o) = Some lc /\
    Forall (fun c => 0 < c) (crosses QInst lp w) /\ Forall (fun c => 0 < c) (crosses QInst lc w) /\
    contains_point QInst lp w = Some true /\ contains_point QInst lc w = Some true.
Proof. exact child_overlaps_parent. Qed.
Print Assumptions C12_child_overlaps_parent.

(* Descendants: a descendant m levels down (position s*4^m+u) stays within 0.7 / 2^n of the cell's centre,
   which is at most 1.6 * sqrt(cell area)  (squared form: 100 * dist^2 <= 256 * area). *)
Theorem C12_descendants_bounded : forall (n m : nat) (o s u : Z),
  (1 <= n)%nat -> (n + m <= 29)%nat -> (0 <= o < 6)%Z ->
  (0 <= s < 4 ^ Z.of_nat n)%Z -> (0 <= u < 4 ^ Z.of_nat m)%Z ->
  exists lp ld,
    get_pentagon_vertices QInst (Z.of_nat n) 0 (s_to_anchor s n o) = Some lp /\
    get_pentagon_vertices QInst (Z.of_nat (n + m)) 0 (s_to_anchor (s * 4 ^ Z.of_nat m + u) (n + m) o) = Some ld /\
    dist2 (get_center QInst ld) (get_center QInst lp) <= (2 * R0 / pw n) * (2 * R0 / pw n) /\
    100 * dist2 (get_center QInst ld) (get_center QInst lp) <= 256 * (get_area QInst lp / 2).
Proof. exact descendants_bounded. Qed.
Print Assumptions C12_descendants_bounded.

(* Resolution 0 -> 1: the quintant-0 triangle and the face pentagon. *)
Theorem C12_face_to_quintant :
  exists lf lq w, get_face_vertices QInst = Some lf /\ get_quintant_vertices QInst 0 = Some lq /\
    25 * dist2 (get_center QInst lq) (get_center QInst lf) <= 16 * (get_area QInst lf / 2) /\
    Forall (fun c => 0 < c) (crosses QInst lf w) /\ Forall (fun c => 0 < c) (crosses QInst lq w).
Proof. exact face_to_quintant. Qed.
Print Assumptions C12_face_to_quintant.

(* Resolution 1 -> 2: the four depth-1 pentagons and the quintant-0 triangle, six orientations. *)
Theorem C12_quintant_to_depth1 : forall (o s : Z), (0 <= o < 6)%Z -> (0 <= s < 4)%Z ->
  exists lq lc w, get_quintant_vertices QInst 0 = Some lq /\
    get_pentagon_vertices QInst 1 0 (s_to_anchor s 1 o) = Some lc /\
    25 * dist2 (get_center QInst lc) (get_center QInst lq) <= 16 * (get_area QInst lq / 2) /\
    Forall (fun c => 0 < c) (crosses QInst lq w) /\ Forall (fun c => 0 < c) (crosses QInst lc w).
Proof. exact quintant_to_depth1. Qed.
Print Assumptions C12_quintant_to_depth1.

(* Non-vacuity and meaning of the constants: R0 = 7/20, and 0.64 * A_pent bounds R0^2 from above. *)
Example C12_constants : R0 == 7 # 20 /\ 25 * (R0 * R0) <= 16 * A_pent /\ 0 < A_pent.
Proof. repeat split; try reflexivity. apply Qle_bool_iff. vm_compute. reflexivity. Qed.

(* ---------------------------------------------------------------------------------------------------
   Covering: the children of a cell together cover more than half of the parent's area (planar model).

   Reading.  inside_closed l w: no edge cross product of Tiling.crosses QInst l w is negative (this is the
   acceptance condition of contains_point).  poly_in l W: every vertex of W is inside_closed l; by
   C12_inside_closed_convex every convex combination of the vertices of W is then inside_closed l too.
   convex_pos W: W has at least 3 vertices, every vertex of W is on the inner side of every edge line of W,
   and lies on exactly two edge lines (its own): W is a strictly convex polygon with the library's winding,
   so get_area QInst W / 2 is its planar area.  separated W1 W2: some line u1 -> u2 (u1 <> u2) has W1 on
   one closed side and W2 on the other, so the interiors of W1 and W2 are disjoint.
   Hence: the four regions W t are pairwise interior-disjoint, W t lies in parent /\ child t, and their
   areas add up to more than 29/50 (resp. 1/2) of the parent's area.

   Remark (model-level finding).  In the exact rational reading of the f64 constants the four child
   pentagons are NOT pairwise interior-disjoint: neighbouring children overlap in slivers whose cross
   products are about 4e-18 (far below f64 resolution).  This is why disjointness is stated for the witness
   polygons (each inside a child shrunk by the factor 1 - 2^-24 about its centre) and not for the children.
   Likewise the quintant-0 triangle is not vertex-wise inside the face pentagon (cross product -1.1e-16). *)
Theorem C12_inside_closed_convex : forall (l : list qp) (ws : list (Q * qp)),
  wsum ws == 1 -> (forall wp, In wp ws -> 0 <= fst wp) ->
  (forall wp, In wp ws -> inside_closed l (snd wp)) ->
  inside_closed l (wpt ws).
Proof. exact inside_closed_convex. Qed.
Print Assumptions C12_inside_closed_convex.

(* Parent and the four children share one of 48 normalised parent states and one translation. *)
Theorem C12_children_offset_finite : forall (n : nat) (o s : Z),
  (1 <= n <= 28)%nat -> (0 <= o < 6)%Z -> (0 <= s < 4 ^ Z.of_nat n)%Z ->
  exists G st, In st parent_states /\
    s_to_anchor s n o = shift_anchor G (st_parent st) /\
    forall t, (0 <= t < 4)%Z ->
      s_to_anchor (4 * s + t) (S n) o = shift_anchor (vsc 2 G) (st_child (st_with st (adj_t o t))).
Proof. exact children_offset_finite. Qed.
Print Assumptions C12_children_offset_finite.

(* Covering with the certified bound 29/50 = 0.58 (the minimum over the 48 states is 0.58197...). *)
Theorem C12_children_cover : forall (n : nat) (o s : Z),
  (1 <= n <= 28)%nat -> (0 <= o < 6)%Z -> (0 <= s < 4 ^ Z.of_nat n)%Z ->
  exists (lp : list qp) (lc W : Z -> list qp),
    get_pentagon_vertices QInst (Z.of_nat n) 0 (s_to_anchor s n o) = Some lp /\
    (forall t, (0 <= t < 4)%Z ->
       get_pentagon_vertices QInst (Z.of_nat (S n)) 0 (s_to_anchor (4 * s + t) (S n) o) = Some (lc t) /\
       poly_in lp (W t) /\ poly_in (lc t) (W t) /\ convex_pos (W t)) /\
    (forall t1 t2, (0 <= t1 < 4)%Z -> (0 <= t2 < 4)%Z -> t1 <> t2 -> separated (W t1) (W t2)) /\
    (29 # 50) * (get_area QInst lp / 2) <
      get_area QInst (W 0%Z) / 2 + get_area QInst (W 1%Z) / 2 + get_area QInst (W 2%Z) / 2 + get_area QInst (W 3%Z) / 2.
Proof. exact children_cover. Qed.
Print Assumptions C12_children_cover.

(* The property as stated: more than half of the parent's planar area. *)
Theorem C12_children_cover_half : forall (n : nat) (o s : Z),
  (1 <= n <= 28)%nat -> (0 <= o < 6)%Z -> (0 <= s < 4 ^ Z.of_nat n)%Z ->
  exists (lp : list qp) (lc W : Z -> list qp),
    get_pentagon_vertices QInst (Z.of_nat n) 0 (s_to_anchor s n o) = Some lp /\
    (forall t, (0 <= t < 4)%Z ->
       get_pentagon_vertices QInst (Z.of_nat (S n)) 0 (s_to_anchor (4 * s + t) (S n) o) = Some (lc t) /\
       poly_in lp (W t) /\ poly_in (lc t) (W t) /\ convex_pos (W t)) /\
    (forall t1 t2, (0 <= t1 < 4)%Z -> (0 <= t2 < 4)%Z -> t1 <> t2 -> separated (W t1) (W t2)) /\
    (get_area QInst lp / 2) / 2 <
      get_area QInst (W 0%Z) / 2 + get_area QInst (W 1%Z) / 2 + get_area QInst (W 2%Z) / 2 + get_area QInst (W 3%Z) / 2.
Proof. exact children_cover_half. Qed.
Print Assumptions C12_children_cover_half.

(* Resolution 1 -> 2: the four depth-1 pentagons cover more than 0.79 of the quintant-0 triangle. *)
Theorem C12_quintant_children_cover : forall (o : Z), (0 <= o < 6)%Z ->
  exists (lq : list qp) (lc W : Z -> list qp),
    get_quintant_vertices QInst 0 = Some lq /\
    (forall s, (0 <= s < 4)%Z ->
       get_pentagon_vertices QInst 1 0 (s_to_anchor s 1 o) = Some (lc s) /\
       poly_in lq (W s) /\ poly_in (lc s) (W s) /\ convex_pos (W s)) /\
    (forall s1 s2, (0 <= s1 < 4)%Z -> (0 <= s2 < 4)%Z -> s1 <> s2 -> separated (W s1) (W s2)) /\
    (79 # 100) * (get_area QInst lq / 2) <
      get_area QInst (W 0%Z) / 2 + get_area QInst (W 1%Z) / 2 + get_area QInst (W 2%Z) / 2 + get_area QInst (W 3%Z) / 2.
Proof. exact quintant_children_cover. Qed.
Print Assumptions C12_quintant_children_cover.

(* Resolution 0 -> 1, quintant 0's share: a convex polygon inside both the face pentagon and the quintant-0
   triangle has more than 0.1999 of the face's area; the triangle's area is 1/5 of the face's within 1e-15. *)
Theorem C12_face_quintant_cover :
  exists (lf lq W : list qp),
    get_face_vertices QInst = Some lf /\ get_quintant_vertices QInst 0 = Some lq /\
    poly_in lf W /\ poly_in lq W /\ convex_pos W /\
    (1999 # 10000) * (get_area QInst lf / 2) < get_area QInst W / 2 /\
    Qabs (get_area QInst lq / 2 - (get_area QInst lf / 2) / 5) <= eps15 * ((get_area QInst lf / 2) / 5).
Proof. exact face_quintant_cover. Qed.
Print Assumptions C12_face_quintant_cover.

(* Non-vacuity of the predicates: the unit-like triangle is convex_pos in the library's winding, and two
   triangles on either side of a line are separated. *)
Example C12_cover_predicates :
  convex_pos [(0, 0); (0, 1); (1, 0)] /\ ~ convex_pos [(0, 0); (1, 0); (0, 1)] /\
  ~ convex_pos [(0, 0); (0, 1); (1, 0); (0, 0); (0, 1); (1, 0)] /\
  separated [(0, 0); (0, 1); (1, 0)] [(0, 0); (-1, 0); (0, 1)] /\
  0 < get_area QInst [(0, 0); (0, 1); (1, 0)].
Proof.
  split; [apply convex_pos_b_ok; vm_compute; reflexivity|].
  split; [intros [_ [H _]]; apply Forall_inv_tail in H; apply Forall_inv_tail in H; apply Forall_inv in H;
          apply Forall_inv in H; vm_compute in H; apply H; reflexivity|].
  split; [intros [_ [_ H]]; apply Forall_inv in H; vm_compute in H; discriminate|].
  split; [apply (separated_b_ok ((0, 0), (0, 1))); vm_compute; reflexivity|].
  vm_compute. reflexivity.
Qed.

(* ---- Every quintant 0..4 (Geo/ChildQuintants.v, exact rationals, axiom-free).  The outline of a cell in quintant q is
   the image of its outline in quintant 0 under the quintant's 2x2 matrix M_q (an f64 rotation matrix: determinant
   positive, M_q^T M_q within 1e-15 of the identity, both checked on the five matrices of the current tables).  Sign,
   inclusion, convexity, separation and area-fraction statements transfer because every cross product of images is
   det M_q times the original; the two metric statements (centre reach, descendant bound) transfer because the
   quintant-0 tables hold with a factor 1.01 to spare against a stretch of at most 1 + 2e-15.  Same constants as the
   quintant-0 theorems above; the only change is the factor det M_q in the area clause of the centre-reach theorem. ---- *)
From A5 Require Import Geo.ChildQuintants.

Theorem C12_child_overlaps_parent_q : forall (n : nat) (q o s t : Z), (0 <= q <= 4)%Z ->
  (1 <= n <= 28)%nat -> (0 <= o < 6)%Z -> (0 <= s < 4 ^ Z.of_nat n)%Z -> (0 <= t < 4)%Z ->
  exists lp lc w,
    get_pentagon_vertices QInst (Z.of_nat n) q (s_to_anchor s n o) = Some lp /\
    get_pentagon_vertices QInst (Z.of_nat (S n)) q (s_to_anchor (4 * s + t) (S n) o) = Some lc /\
    Forall (fun c => 0 < c) (crosses QInst lp w) /\ Forall (fun c => 0 < c) (crosses QInst lc w) /\
    contains_point QInst lp w = Some true /\ contains_point QInst lc w = Some true.
Proof. exact child_overlaps_parent_q. Qed.
Print Assumptions C12_child_overlaps_parent_q.

Theorem C12_child_centre_reach_q : forall (n : nat) (q o s t : Z), (0 <= q <= 4)%Z ->
  (1 <= n <= 28)%nat -> (0 <= o < 6)%Z -> (0 <= s < 4 ^ Z.of_nat n)%Z -> (0 <= t < 4)%Z ->
  exists lp lc,
    get_pentagon_vertices QInst (Z.of_nat n) q (s_to_anchor s n o) = Some lp /\
    get_pentagon_vertices QInst (Z.of_nat (S n)) q (s_to_anchor (4 * s + t) (S n) o) = Some lc /\
    get_area QInst lp / 2 == detQ (rotation QInst q) * (A_pent / inject_Z (4 ^ Z.of_nat n)) /\
    25 * dist2 (get_center QInst lc) (get_center QInst lp) <= 16 * (get_area QInst lp / 2) /\
    dist2 (get_center QInst lc) (get_center QInst lp) <= (R0 / pw n) * (R0 / pw n).
Proof. exact child_centre_reach_q. Qed.
Print Assumptions C12_child_centre_reach_q.

Theorem C12_children_cover_q : forall (n : nat) (q o s : Z), (0 <= q <= 4)%Z ->
  (1 <= n <= 28)%nat -> (0 <= o < 6)%Z -> (0 <= s < 4 ^ Z.of_nat n)%Z ->
  exists (lp : list qp) (lc W : Z -> list qp),
    get_pentagon_vertices QInst (Z.of_nat n) q (s_to_anchor s n o) = Some lp /\
    (forall t, (0 <= t < 4)%Z ->
       get_pentagon_vertices QInst (Z.of_nat (S n)) q (s_to_anchor (4 * s + t) (S n) o) = Some (lc t) /\
       poly_in lp (W t) /\ poly_in (lc t) (W t) /\ convex_pos (W t)) /\
    (forall t1 t2, (0 <= t1 < 4)%Z -> (0 <= t2 < 4)%Z -> t1 <> t2 -> separated (W t1) (W t2)) /\
    (29 # 50) * (get_area QInst lp / 2) <
      get_area QInst (W 0%Z) / 2 + get_area QInst (W 1%Z) / 2 + get_area QInst (W 2%Z) / 2 + get_area QInst (W 3%Z) / 2.
Proof. exact children_cover_q. Qed.
Print Assumptions C12_children_cover_q.

Theorem C12_children_cover_half_q : forall (n : nat) (q o s : Z), (0 <= q <= 4)%Z ->
  (1 <= n <= 28)%nat -> (0 <= o < 6)%Z -> (0 <= s < 4 ^ Z.of_nat n)%Z ->
  exists (lp : list qp) (lc W : Z -> list qp),
    get_pentagon_vertices QInst (Z.of_nat n) q (s_to_anchor s n o) = Some lp /\
    (forall t, (0 <= t < 4)%Z ->
       get_pentagon_vertices QInst (Z.of_nat (S n)) q (s_to_anchor (4 * s + t) (S n) o) = Some (lc t) /\
       poly_in lp (W t) /\ poly_in (lc t) (W t) /\ convex_pos (W t)) /\
    (forall t1 t2, (0 <= t1 < 4)%Z -> (0 <= t2 < 4)%Z -> t1 <> t2 -> separated (W t1) (W t2)) /\
    (get_area QInst lp / 2) / 2 <
      get_area QInst (W 0%Z) / 2 + get_area QInst (W 1%Z) / 2 + get_area QInst (W 2%Z) / 2 + get_area QInst (W 3%Z) / 2.
Proof. exact children_cover_half_q. Qed.
Print Assumptions C12_children_cover_half_q.

Theorem C12_descendants_bounded_q : forall (n m : nat) (q o s u : Z), (0 <= q <= 4)%Z ->
  (1 <= n)%nat -> (n + m <= 29)%nat -> (0 <= o < 6)%Z ->
  (0 <= s < 4 ^ Z.of_nat n)%Z -> (0 <= u < 4 ^ Z.of_nat m)%Z ->
  exists lp ld,
    get_pentagon_vertices QInst (Z.of_nat n) q (s_to_anchor s n o) = Some lp /\
    get_pentagon_vertices QInst (Z.of_nat (n + m)) q (s_to_anchor (s * 4 ^ Z.of_nat m + u) (n + m) o) = Some ld /\
    dist2 (get_center QInst ld) (get_center QInst lp) <= (2 * R0 / pw n) * (2 * R0 / pw n) /\
    100 * dist2 (get_center QInst ld) (get_center QInst lp) <= 256 * (get_area QInst lp / 2).
Proof. exact descendants_bounded_q. Qed.
Print Assumptions C12_descendants_bounded_q.

Theorem C12_face_to_quintant_q : forall q : Z, (0 <= q <= 4)%Z ->
  exists lf lq w, get_face_vertices QInst = Some lf /\ get_quintant_vertices QInst q = Some lq /\
    25 * dist2 (get_center QInst lq) (get_center QInst lf) <= 16 * (get_area QInst lf / 2) /\
    Forall (fun c => 0 < c) (crosses QInst lf w) /\ Forall (fun c => 0 < c) (crosses QInst lq w).
Proof. exact face_to_quintant_q. Qed.
Print Assumptions C12_face_to_quintant_q.

Theorem C12_quintant_to_depth1_q : forall (q o s : Z), (0 <= q <= 4)%Z -> (0 <= o < 6)%Z -> (0 <= s < 4)%Z ->
  exists lq lc w, get_quintant_vertices QInst q = Some lq /\
    get_pentagon_vertices QInst 1 q (s_to_anchor s 1 o) = Some lc /\
    25 * dist2 (get_center QInst lc) (get_center QInst lq) <= 16 * (get_area QInst lq / 2) /\
    Forall (fun c => 0 < c) (crosses QInst lq w) /\ Forall (fun c => 0 < c) (crosses QInst lc w).
Proof. exact quintant_to_depth1_q. Qed.
Print Assumptions C12_quintant_to_depth1_q.

Theorem C12_quintant_to_depth1_overlap_q : forall (q o s : Z), (0 <= q <= 4)%Z -> (0 <= o < 6)%Z -> (0 <= s < 4)%Z ->
  exists lq lc w, get_quintant_vertices QInst q = Some lq /\
    get_pentagon_vertices QInst 1 q (s_to_anchor s 1 o) = Some lc /\
    Forall (fun c => 0 < c) (crosses QInst lq w) /\ Forall (fun c => 0 < c) (crosses QInst lc w) /\
    contains_point QInst lq w = Some true /\ contains_point QInst lc w = Some true.
Proof. exact quintant_to_depth1_overlap_q. Qed.
Print Assumptions C12_quintant_to_depth1_overlap_q.

Theorem C12_quintant_children_cover_q : forall (q o : Z), (0 <= q <= 4)%Z -> (0 <= o < 6)%Z ->
  exists (lq : list qp) (lc W : Z -> list qp),
    get_quintant_vertices QInst q = Some lq /\
    (forall s, (0 <= s < 4)%Z ->
       get_pentagon_vertices QInst 1 q (s_to_anchor s 1 o) = Some (lc s) /\
       poly_in lq (W s) /\ poly_in (lc s) (W s) /\ convex_pos (W s)) /\
    (forall s1 s2, (0 <= s1 < 4)%Z -> (0 <= s2 < 4)%Z -> s1 <> s2 -> separated (W s1) (W s2)) /\
    (79 # 100) * (get_area QInst lq / 2) <
      get_area QInst (W 0%Z) / 2 + get_area QInst (W 1%Z) / 2 + get_area QInst (W 2%Z) / 2 + get_area QInst (W 3%Z) / 2.
Proof. exact quintant_children_cover_q. Qed.
Print Assumptions C12_quintant_children_cover_q.

Theorem C12_face_quintant_cover_q : forall q : Z, (0 <= q <= 4)%Z ->
  exists (lf lq W : list qp),
    get_face_vertices QInst = Some lf /\ get_quintant_vertices QInst q = Some lq /\
    poly_in lf W /\ poly_in lq W /\ convex_pos W /\
    (1999 # 10000) * (get_area QInst lf / 2) < get_area QInst W / 2 /\
    Qabs (get_area QInst lq / 2 - (get_area QInst lf / 2) / 5) <= eps15 * ((get_area QInst lf / 2) / 5).
Proof. exact face_quintant_cover_q. Qed.
Print Assumptions C12_face_quintant_cover_q.
