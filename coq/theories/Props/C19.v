(* C19 — Geodetic <-> authalic and lon/lat <-> sphere conversions are exact inverses (ideal-real model)
   Property theorems only: full statement, `exact <lemma>`, Print Assumptions. *)
From Coq Require Import ZArith Reals List.
From A5 Require Import Num.NumOps Geo.Authalic Geo.AuthalicProofs.
From A5gen Require Import TablesCur.
Open Scope R_scope.

(* geodetic -> authalic -> geodetic returns the input within 1e-12 rad, for EVERY latitude in [-pi/2, pi/2] *)
Theorem C19_authalic_roundtrip_fwd :
  forall x, - PI / 2 <= x <= PI / 2 -> Rabs (inv (fwd x) - x) <= 1 / 10 ^ 12.
Proof. exact authalic_roundtrip_fwd. Qed.
Print Assumptions C19_authalic_roundtrip_fwd.

(* and the other way round *)
Theorem C19_authalic_roundtrip_inv :
  forall x, - PI / 2 <= x <= PI / 2 -> Rabs (fwd (inv x) - x) <= 1 / 10 ^ 12.
Proof. exact authalic_roundtrip_inv. Qed.
Print Assumptions C19_authalic_roundtrip_inv.

(* odd *)
Theorem C19_authalic_fwd_odd : forall x, fwd (- x) = - fwd x.
Proof. exact authalic_fwd_odd. Qed.
Print Assumptions C19_authalic_fwd_odd.

(* odd *)
Theorem C19_authalic_inv_odd : forall x, inv (- x) = - inv x.
Proof. exact authalic_inv_odd. Qed.
Print Assumptions C19_authalic_inv_odd.

(* fixes the equator and the poles exactly *)
Theorem C19_authalic_fixes :
  fwd 0 = 0 /\ fwd (PI / 2) = PI / 2 /\ fwd (- PI / 2) = - PI / 2 /\
  inv 0 = 0 /\ inv (PI / 2) = PI / 2 /\ inv (- PI / 2) = - PI / 2.
Proof. exact authalic_fixes. Qed.
Print Assumptions C19_authalic_fixes.

(* strictly increasing on the whole interval *)
Theorem C19_authalic_fwd_increasing :
  forall x y, - PI / 2 <= x -> x < y -> y <= PI / 2 -> fwd x < fwd y.
Proof. exact authalic_fwd_increasing. Qed.
Print Assumptions C19_authalic_fwd_increasing.

(* strictly increasing *)
Theorem C19_authalic_inv_increasing :
  forall x y, - PI / 2 <= x -> x < y -> y <= PI / 2 -> inv x < inv y.
Proof. exact authalic_inv_increasing. Qed.
Print Assumptions C19_authalic_inv_increasing.

(* maps the interval into itself *)
Theorem C19_authalic_fwd_range :
  forall x, - PI / 2 <= x <= PI / 2 -> - PI / 2 <= fwd x <= PI / 2.
Proof. exact authalic_fwd_range. Qed.
Print Assumptions C19_authalic_fwd_range.

(* maps the interval into itself *)
Theorem C19_authalic_inv_range :
  forall x, - PI / 2 <= x <= PI / 2 -> - PI / 2 <= inv x <= PI / 2.
Proof. exact authalic_inv_range. Qed.
Print Assumptions C19_authalic_inv_range.

(* the correction is at most 2.3e-3 rad for every real argument *)
Theorem C19_authalic_fwd_close : forall x, Rabs (fwd x - x) <= 23 / 10000.
Proof. exact authalic_fwd_close. Qed.
Print Assumptions C19_authalic_fwd_close.

(* same for the inverse series *)
Theorem C19_authalic_inv_close : forall x, Rabs (inv x - x) <= 23 / 10000.
Proof. exact authalic_inv_close. Qed.
Print Assumptions C19_authalic_inv_close.

(* agreement with the closed-form WGS84 authalic latitude asin(q/q_p): |sin(fwd x) - q(x)/q(pi/2)| <= 1e-15 on the whole quadrant (this is what notices a consistent edit of both series) *)
Theorem C19_authalic_closed_form_strong :
  forall x, Rabs x <= PI / 2 -> Rabs (sin (fwd x) - q x / q (PI / 2)) <= 1 / 10 ^ 15.
Proof. exact authalic_closed_form_strong. Qed.
Print Assumptions C19_authalic_closed_form_strong.

(* the instance quoted in the property (|lat| <= 89 deg, 1e-12) *)
Theorem C19_authalic_closed_form :
  forall x, Rabs x <= 89 * PI / 180 -> Rabs (sin (fwd x) - q x / q (PI / 2)) <= 1 / 10 ^ 12.
Proof. exact authalic_closed_form. Qed.
Print Assumptions C19_authalic_closed_form.

(* the f64 constant PI used by the code is within 2e-16 of pi *)
Theorem C19_f64_pi_close : Rabs (dy2R F64_PI - PI) <= 2 / 10 ^ 16.
Proof. exact f64_pi_close. Qed.
Print Assumptions C19_f64_pi_close.

(* lon/lat -> sphere -> lon/lat returns the same point: longitude exactly, latitude within 2e-12 rad, incl. poles and any longitude *)
Theorem C19_lonlat_roundtrip :
  forall lon lat, -90 <= lat <= 90 ->
  let '(theta, phi) := from_lon_lat RInst lon lat in
  let '(lon', lat') := to_lon_lat RInst theta phi in
  lon' = lon /\ Rabs (lat' - lat) * (PI / 180) <= 2 / 10 ^ 12.
Proof. exact lonlat_roundtrip. Qed.
Print Assumptions C19_lonlat_roundtrip.

(* longitudes differing by 360k give theta differing by 2k*(f64 PI) and the same phi *)
Theorem C19_lon_periodic :
  forall lon lat k,
  fst (from_lon_lat RInst (lon + 360 * IZR k) lat) =
    fst (from_lon_lat RInst lon lat) + 2 * IZR k * dy2R F64_PI /\
  snd (from_lon_lat RInst (lon + 360 * IZR k) lat) = snd (from_lon_lat RInst lon lat).
Proof. exact lon_periodic. Qed.
Print Assumptions C19_lon_periodic.

(* ---- Interval model soundness: the executable interval instance (used by the correspondence check) encloses the
   ideal-real instance about which the theorems of this file speak.  [encl i x] = the real x lies in the interval i;
   [sound_opt rel a b] = whenever the interval run answers [Some], the real run answers [Some] with a related value
   (the interval run may give up with [None], never answer differently). ---- *)
From A5 Require Import Num.IvInst Num.IvSound Geo.IvSoundGeo Geo.IvSoundCell.

Theorem C19_interval_authalic_forward_sound : forall phi phi',
  encl phi phi' -> encl (authalic_forward IvInst phi) (authalic_forward RInst phi').
Proof. exact authalic_forward_sound. Qed.
Print Assumptions C19_interval_authalic_forward_sound.

Theorem C19_interval_authalic_inverse_sound : forall phi phi',
  encl phi phi' -> encl (authalic_inverse IvInst phi) (authalic_inverse RInst phi').
Proof. exact authalic_inverse_sound. Qed.
Print Assumptions C19_interval_authalic_inverse_sound.

Theorem C19_interval_from_lon_lat_sound : forall lon lat lon' lat',
  encl lon lon' -> encl lat lat' ->
  encl2 (from_lon_lat IvInst lon lat) (from_lon_lat RInst lon' lat').
Proof. exact from_lon_lat_sound. Qed.
Print Assumptions C19_interval_from_lon_lat_sound.

Theorem C19_interval_to_lon_lat_sound : forall th ph th' ph',
  encl th th' -> encl ph ph' ->
  encl2 (to_lon_lat IvInst th ph) (to_lon_lat RInst th' ph').
Proof. exact to_lon_lat_sound. Qed.
Print Assumptions C19_interval_to_lon_lat_sound.
