(* C17 — Within a quintant the curve position <-> cell mapping is a bijection (exact rational model with the implementation constants; quintant 0, unscaled lattice)
   Property theorems only: full statement, `exact <lemma>`, Print Assumptions. *)
From Coq Require Import ZArith QArith List Bool.
From A5 Require Import Num.NumOps Num.QInst Hilbert.Hilbert Hilbert.DigitsProofs Hilbert.LocateProofs Hilbert.CurveBijection Geo.Tiling.
From A5gen Require Import TablesCur.
Import ListNotations.
Open Scope Z_scope.

(* locating the centre of the pentagon at position s returns s: EVERY depth 1..29, all six orientations, every position (no sampling) *)
Theorem C17_locate_centre (n : nat) (o s : Z) :
  (1 <= n <= 29)%nat -> 0 <= o < 6 -> 0 <= s < 4 ^ Z.of_nat n ->
  exists l, get_pentagon_vertices QInst 0 0 (s_to_anchor s n o) = Some l /\
    let ij := face_to_ij QInst (get_center QInst l) in
    ij_to_s QInst (fst ij) (snd ij) n o = Some s.
Proof. exact (locate_centre n o s). Qed.
Print Assumptions C17_locate_centre.

(* distinct positions give pentagons with distinct centres: no cell is reachable twice (with 4^n positions and 4^n cells: no position unused) *)
Theorem C17_positions_injective (n : nat) (o s1 s2 : Z) (l1 l2 : list (Q * Q)) :
  (1 <= n <= 29)%nat -> 0 <= o < 6 -> 0 <= s1 < 4 ^ Z.of_nat n -> 0 <= s2 < 4 ^ Z.of_nat n ->
  get_pentagon_vertices QInst 0 0 (s_to_anchor s1 n o) = Some l1 ->
  get_pentagon_vertices QInst 0 0 (s_to_anchor s2 n o) = Some l2 ->
  s1 <> s2 ->
  ~ ((fst (get_center QInst l1) == fst (get_center QInst l2))%Q /\
     (snd (get_center QInst l1) == snd (get_center QInst l2))%Q).
Proof. exact (positions_injective n o s1 s2 l1 l2). Qed.
Print Assumptions C17_positions_injective.

(* every centre lies strictly inside the quintant triangle (lattice coordinates i, j >= 0.1, i + j <= 2^n - 0.1) *)
Theorem C17_centre_in_triangle (n : nat) (o s : Z) :
  (1 <= n <= 29)%nat -> 0 <= o < 6 -> 0 <= s < 4 ^ Z.of_nat n ->
  exists l, get_pentagon_vertices QInst 0 0 (s_to_anchor s n o) = Some l /\
    let ij := face_to_ij QInst (get_center QInst l) in
    ((1#10) <= fst ij /\ (1#10) <= snd ij /\ fst ij + snd ij <= inject_Z (2 ^ Z.of_nat n) - (1#10))%Q.
Proof. exact (centre_in_triangle n o s). Qed.
Print Assumptions C17_centre_in_triangle.

(* the digits located for the centre are exactly the shifted digits computed by s_to_anchor *)
Theorem C17_locate_centre_digits_model (n : nat) (o s : Z) :
  (1 <= n <= 29)%nat -> 0 <= o < 6 -> 0 <= s < 4 ^ Z.of_nat n ->
  exists l, get_pentagon_vertices QInst 0 0 (s_to_anchor s n o) = Some l /\
    let c := get_center QInst l in
    let ij := face_to_ij QInst c in
    let '(i, j) := if o_flip_ij o then (snd ij, fst ij) else (fst ij, snd ij) in
    let '(x, y) := if o_invert_j o
                   then (i, o_sub QInst (o_ofZ QInst (2 ^ Z.of_nat n)) (o_add QInst i j))
                   else (i, j) in
    let ds := shift_forward NOF (o_invert_j o) (if o_flip_ij o then pattern_flipped else pattern)
                (digits_msb (if o_reverse o then 2 ^ (2 * Z.of_nat n) - s - 1 else s) n) in
    locate_digits QInst n x y (inject_Z 0) (inject_Z 0) NOF =
      Some (ds, fold_left (fun f d => fmul f (q2flips d)) ds NOF).
Proof. exact (locate_centre_digits_model n o s). Qed.
Print Assumptions C17_locate_centre_digits_model.

(* digit part, unbounded length: the backward digit pass undoes the forward pass for ANY pattern table that is a permutation of 0..7 *)
Theorem C17_shift_backward_forward_generic :
  forall pat, is_perm8 pat = true ->
  forall (f0 : flips) (invert_j : bool) (msb : list Z), digits msb ->
  let sh := shift_forward f0 invert_j pat msb in
  digits sh /\
  shift_backward (fmul f0 (total sh)) invert_j (reverse_pattern pat) [] (rev sh) = msb.
Proof. exact shift_backward_forward_generic. Qed.
Print Assumptions C17_shift_backward_forward_generic.

(* and conversely: the two passes are mutually inverse bijections on digit strings of each length *)
Theorem C17_shift_forward_backward_generic :
  forall pat, is_perm8 pat = true ->
  forall (f0 : flips) (invert_j : bool) (sh : list Z), digits sh ->
  let msb := shift_backward (fmul f0 (total sh)) invert_j (reverse_pattern pat) [] (rev sh) in
  digits msb /\ length msb = length sh /\ shift_forward f0 invert_j pat msb = sh.
Proof. exact shift_forward_backward_generic. Qed.
Print Assumptions C17_shift_forward_backward_generic.

(* local inverse of one digit-pair shift *)
Theorem C17_shift_pair_inverse_generic :
  forall pat, is_perm8 pat = true ->
  forall (f : flips) (invert_j : bool) (p c : Z), digit p -> digit c ->
  let '(p', c') := shift_pair p c f invert_j pat in
  digit p' /\ digit c' /\ shift_pair p' c' f invert_j (reverse_pattern pat) = (p, c).
Proof. exact shift_pair_inverse_generic. Qed.
Print Assumptions C17_shift_pair_inverse_generic.

(* the current pattern tables are permutations of 0..7 (re-evaluated on the regenerated tables) *)
Theorem C17_pattern_perm : is_perm8 pattern = true /\ is_perm8 pattern_flipped = true.
Proof. exact pattern_perm. Qed.
Print Assumptions C17_pattern_perm.

(* table-dependent finite facts, re-evaluated on the regenerated tables: sub-triangle nesting *)
Theorem C17_nesting_ok : nesting_check = true.
Proof. exact nesting_ok. Qed.
Print Assumptions C17_nesting_ok.

(* ... the 48 local centre offsets lie in their unit cell with margin >= 1/8 *)
Theorem C17_delta_margin_ok :
  forallb (fun f => forallb (fun k => delta_pred f k) [0; 1; 2; 3]%Z) all_flips = true.
Proof. exact delta_margin_ok. Qed.
Print Assumptions C17_delta_margin_ok.

(* ... BASIS_INVERSE * BASIS differs from the identity by less than 1e-3 / 2^30 *)
Theorem C17_basis_defect_small : defect_check = true.
Proof. exact basis_defect_small. Qed.
Print Assumptions C17_basis_defect_small.


(* ---- Locating is stable around a cell's centre, and works in every quintant at the true scale (Geo/LocateQuintants.v,
   exact rationals, axiom-free).  [C17_locate_robust]: every lattice point within 1/20 (in each coordinate) of the centre
   of cell s is located at s; [C17_locate_face_robust] / [C17_locate_scaled_robust]: the same for face points within 1/40,
   unscaled and at the true scale 2^-n; [C17_locate_quintant]: in every quintant q = 0..4, for EVERY matrix N that
   inverts the quintant's f64 rotation matrix to within 1e-11 entrywise (the code un-rotates with f64 cos / sin, which
   is only approximately the inverse), un-rotating the centre of cell (q, n, s), scaling by 2^n and locating returns s -
   the computation of lonlat_to_estimate.  The two corollaries instantiate N by the exact rational inverse and by the
   transpose (an f64-valued witness, so the hypothesis is satisfiable by what the code can compute). ---- *)
From Coq Require Import Qabs.
From A5 Require Import Geo.AreaProofs Geo.ChildQuintants Geo.LocateQuintants.
Open Scope Q_scope.

Theorem C17_locate_robust (n : nat) (o s : Z) :
  (1 <= n <= 29)%nat -> (0 <= o < 6)%Z -> (0 <= s < 4 ^ Z.of_nat n)%Z ->
  exists l, get_pentagon_vertices QInst 0 0 (s_to_anchor s n o) = Some l /\
    let c := face_to_ij QInst (get_center QInst l) in
    forall i j : Q, Qabs (i - fst c) <= 1 # 20 -> Qabs (j - snd c) <= 1 # 20 ->
      ij_to_s QInst i j n o = Some s.
Proof. exact (locate_robust n o s). Qed.
Print Assumptions C17_locate_robust.

Theorem C17_locate_face_robust (n : nat) (o s : Z) :
  (1 <= n <= 29)%nat -> (0 <= o < 6)%Z -> (0 <= s < 4 ^ Z.of_nat n)%Z ->
  exists l, get_pentagon_vertices QInst 0 0 (s_to_anchor s n o) = Some l /\
    let c := get_center QInst l in
    forall p : Q * Q, Qabs (fst p - fst c) <= 1 # 40 -> Qabs (snd p - snd c) <= 1 # 40 ->
      let ij := face_to_ij QInst p in ij_to_s QInst (fst ij) (snd ij) n o = Some s.
Proof. exact (locate_face_robust n o s). Qed.
Print Assumptions C17_locate_face_robust.

Theorem C17_locate_scaled_robust (n : nat) (o s : Z) :
  (1 <= n <= 29)%nat -> (0 <= o < 6)%Z -> (0 <= s < 4 ^ Z.of_nat n)%Z ->
  exists ln, get_pentagon_vertices QInst (Z.of_nat n) 0 (s_to_anchor s n o) = Some ln /\
    let c := get_center QInst ln in
    let sf := inject_Z (2 ^ Z.of_nat n) in
    forall dx dy : Q, Qabs dx <= 1 # 40 -> Qabs dy <= 1 # 40 ->
      let ij := face_to_ij QInst (fst c * sf + dx, snd c * sf + dy) in
      ij_to_s QInst (fst ij) (snd ij) n o = Some s.
Proof. exact (locate_scaled_robust n o s). Qed.
Print Assumptions C17_locate_scaled_robust.

Theorem C17_locate_quintant (n : nat) (q o s : Z) (N : mat (T := Q)) :
  (0 <= q <= 4)%Z -> (1 <= n <= 29)%nat -> (0 <= o < 6)%Z -> (0 <= s < 4 ^ Z.of_nat n)%Z ->
  near_inverse N (rotation QInst q) ->
  exists lq, get_pentagon_vertices QInst (Z.of_nat n) q (s_to_anchor s n o) = Some lq /\
    let c := get_center QInst lq in
    let dp := mat_apply QInst N c in
    let sf := o_ofZ QInst (2 ^ Z.of_nat n) in
    let ij := face_to_ij QInst (o_mul QInst (fst dp) sf, o_mul QInst (snd dp) sf) in
    ij_to_s QInst (fst ij) (snd ij) n o = Some s.
Proof. exact (locate_quintant n q o s N). Qed.
Print Assumptions C17_locate_quintant.

Theorem C17_locate_quintant_exact_inverse (n : nat) (q o s : Z) :
  (0 <= q <= 4)%Z -> (1 <= n <= 29)%nat -> (0 <= o < 6)%Z -> (0 <= s < 4 ^ Z.of_nat n)%Z ->
  exists lq, get_pentagon_vertices QInst (Z.of_nat n) q (s_to_anchor s n o) = Some lq /\
    let c := get_center QInst lq in
    let dp := mat_apply QInst (mat_inverse (rotation QInst q)) c in
    let sf := o_ofZ QInst (2 ^ Z.of_nat n) in
    let ij := face_to_ij QInst (o_mul QInst (fst dp) sf, o_mul QInst (snd dp) sf) in
    ij_to_s QInst (fst ij) (snd ij) n o = Some s.
Proof. exact (locate_quintant_exact_inverse n q o s). Qed.
Print Assumptions C17_locate_quintant_exact_inverse.

Theorem C17_locate_quintant_transpose (n : nat) (q o s : Z) :
  (0 <= q <= 4)%Z -> (1 <= n <= 29)%nat -> (0 <= o < 6)%Z -> (0 <= s < 4 ^ Z.of_nat n)%Z ->
  exists lq, get_pentagon_vertices QInst (Z.of_nat n) q (s_to_anchor s n o) = Some lq /\
    let c := get_center QInst lq in
    let dp := mat_apply QInst (mat_transpose (rotation QInst q)) c in
    let sf := o_ofZ QInst (2 ^ Z.of_nat n) in
    let ij := face_to_ij QInst (o_mul QInst (fst dp) sf, o_mul QInst (snd dp) sf) in
    ij_to_s QInst (fst ij) (snd ij) n o = Some s.
Proof. exact (locate_quintant_transpose n q o s). Qed.
Print Assumptions C17_locate_quintant_transpose.
