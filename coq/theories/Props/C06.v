(* C06 — Cell IDs keep denoting the same place as in the reference release (v0.6.2).
   C06 is itself a correspondence statement: the kernel-checked part is that every table fixing the
   assignment ID <-> place equals the frozen reference; the structural theorems (C05 codec, C17 curve,
   C18 frame) say that the assignment is a function of these tables and of the modelled algorithms; the
   algorithms are tied to the code by the correspondence check (model vs implementation, and model vs
   the rows of the frozen golden table) and the implementation is compared with EVERY row of the
   golden table on each run. *)
From Coq Require Import ZArith List.
From A5 Require Import Geo.FrozenRef.
From A5 Require Base.TablesRef.
From A5gen Require TablesCur.

Theorem C06_id_place_tables_frozen :
  TablesCur.pattern = TablesRef.pattern /\
  TablesCur.pattern_flipped = TablesRef.pattern_flipped /\
  TablesCur.q2flips_tab = TablesRef.q2flips_tab /\
  TablesCur.q2kj_tab = TablesRef.q2kj_tab /\
  TablesCur.first_quintant = TablesRef.first_quintant /\
  TablesCur.orientations = TablesRef.orientations /\
  TablesCur.quintant_to_segment_tab = TablesRef.quintant_to_segment_tab /\
  TablesCur.segment_to_quintant_tab = TablesRef.segment_to_quintant_tab /\
  TablesCur.origin_axis = TablesRef.origin_axis /\
  TablesCur.origin_quat = TablesRef.origin_quat /\
  TablesCur.origin_inv_quat = TablesRef.origin_inv_quat /\
  TablesCur.origin_angle = TablesRef.origin_angle /\
  TablesCur.crs_vertices = TablesRef.crs_vertices /\
  TablesCur.pentagon_shape = TablesRef.pentagon_shape /\
  TablesCur.triangle_shape = TablesRef.triangle_shape /\
  TablesCur.triangle_uvw = TablesRef.triangle_uvw /\
  TablesCur.basis = TablesRef.basis /\
  TablesCur.basis_inverse = TablesRef.basis_inverse /\
  TablesCur.quintant_rotations = TablesRef.quintant_rotations /\
  TablesCur.geodetic_to_authalic = TablesRef.geodetic_to_authalic /\
  TablesCur.authalic_to_geodetic = TablesRef.authalic_to_geodetic /\
  TablesCur.longitude_offset = TablesRef.longitude_offset /\
  TablesCur.PI_OVER_5 = TablesRef.PI_OVER_5 /\
  TablesCur.TWO_PI_OVER_5 = TablesRef.TWO_PI_OVER_5 /\
  TablesCur.INTERHEDRAL_ANGLE = TablesRef.INTERHEDRAL_ANGLE /\
  TablesCur.DISTANCE_TO_EDGE = TablesRef.DISTANCE_TO_EDGE /\
  TablesCur.FIRST_HILBERT_RESOLUTION = TablesRef.FIRST_HILBERT_RESOLUTION /\
  TablesCur.MAX_RESOLUTION = TablesRef.MAX_RESOLUTION /\
  TablesCur.HILBERT_START_BIT = TablesRef.HILBERT_START_BIT /\
  TablesCur.REMOVAL_MASK = TablesRef.REMOVAL_MASK.
Proof. exact id_place_tables_frozen. Qed.
Print Assumptions C06_id_place_tables_frozen.

(* ---- Interval model soundness: the executable interval instance (used by the correspondence check) encloses the
   ideal-real instance about which the theorems of this file speak.  [encl i x] = the real x lies in the interval i;
   [sound_opt rel a b] = whenever the interval run answers [Some], the real run answers [Some] with a related value
   (the interval run may give up with [None], never answer differently). ---- *)
From A5 Require Import Num.NumOps Num.IvInst Num.IvSound Geo.Authalic Geo.Sphere Geo.Projection Geo.Cell Geo.IvSoundGeo Geo.IvSoundCell.

Theorem C06_interval_lookup_sound : forall lon lat lon' lat' res,
  encl lon lon' -> encl lat lat' ->
  sound_opt eq (lonlat_to_cell IvInst lon lat res) (lonlat_to_cell RInst lon' lat' res).
Proof. exact lonlat_to_cell_sound. Qed.
Print Assumptions C06_interval_lookup_sound.

Theorem C06_interval_centre_sound : forall id,
  sound_opt (rout encl2) (cell_to_lonlat IvInst id) (cell_to_lonlat RInst id).
Proof. exact cell_to_lonlat_sound. Qed.
Print Assumptions C06_interval_centre_sound.
