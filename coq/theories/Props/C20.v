(* C20 — Numeric ID order is compatible with the hierarchy from the quintant level down
   Property theorems only: full statement, `exact <lemma>`, Print Assumptions. *)
From Coq Require Import ZArith List Bool.
From A5 Require Import Base.Outcome Base.Word Id.Codec Id.CodecSpec Id.Tree Id.TreeSpec Id.TreeProofs.
Import ListNotations.
Open Scope Z_scope.

(* a < b (same resolution >= 2) implies ancestor(a,k) <= ancestor(b,k) for every level 1..r *)
Theorem C20_anc_monotone a b k :
  canon a -> canon b -> resolution a = resolution b -> 2 <= resolution a -> 1 <= k <= resolution a ->
  layout a < layout b -> layout (anc a k) <= layout (anc b k).
Proof. exact (anc_monotone a b k). Qed.
Print Assumptions C20_anc_monotone.

(* all descendants of a precede all descendants of b *)
Theorem C20_descendants_ordered a b x y :
  canon a -> canon b -> resolution a = resolution b -> 2 <= resolution a -> layout a < layout b ->
  canon x -> canon y -> resolution a <= resolution x -> resolution b <= resolution y ->
  anc x (resolution a) = a -> anc y (resolution b) = b -> layout x < layout y.
Proof. exact (descendants_ordered a b x y). Qed.
Print Assumptions C20_descendants_ordered.

(* among cells of resolution >= 1 the subtree of c (c and its descendants) is exactly the open ID interval (sub_lo c, sub_hi c) *)
Theorem C20_subtree_interval c x :
  canon c -> canon x -> 1 <= resolution c -> 1 <= resolution x ->
  (sub_lo c < layout x < sub_hi c <-> resolution c <= resolution x /\ anc x (resolution c) = c).
Proof. exact (subtree_interval c x). Qed.
Print Assumptions C20_subtree_interval.

(* siblings are adjacent: consecutive multiples of the sibling stride *)
Theorem C20_siblings_stride c j :
  canon c -> 2 <= resolution c -> s c mod 4 = 0 -> 0 <= j < 4 ->
  layout (mkCell (origin_id c) (segment c) (s c + j) (resolution c)) =
  layout c + j * 2 ^ (60 - 2 * resolution c).
Proof. exact (siblings_stride c j). Qed.
Print Assumptions C20_siblings_stride.

(* the four children of a cell, in API order, are consecutive multiples of the stride *)
Theorem C20_children_consecutive p :
  canon p -> 1 <= resolution p <= 28 ->
  map layout (desc_cells p (resolution p + 1)) =
  map (fun j => layout (mkCell (origin_id p) (segment p) (4 * s p) (resolution p + 1))
                + j * 2 ^ (58 - 2 * resolution p)) (seqZ 0 4).
Proof. exact (children_consecutive p). Qed.
Print Assumptions C20_children_consecutive.

(* the five quintants of a face are 2^58 apart in code order *)
Theorem C20_quintants_stride o q :
  0 <= o < 12 -> 0 <= q < 5 ->
  layout (mkCell o ((fq o + q) mod 5) 0 1) = layout (mkCell o (fq o) 0 1) + q * 2 ^ 58 /\
  layout (mkCell o (fq o) 0 1) = 5 * o * 2 ^ 58 + 2 ^ 56.
Proof. exact (quintants_stride o q). Qed.
Print Assumptions C20_quintants_stride.

(* the twelve base cells are 2^58 apart *)
Theorem C20_base_stride o :
  layout (mkCell o 0 0 0) = layout (mkCell 0 0 0 0) + o * 2 ^ 58 /\
  layout (mkCell 0 0 0 0) = 2 ^ 57.
Proof. exact (base_stride o). Qed.
Print Assumptions C20_base_stride.

(* the documented exception: base cell 1 lies between two quintant IDs of face 0 *)
Theorem C20_base_cells_interleave_example :
  canon (mkCell 0 0 0 1) /\ canon (mkCell 1 0 0 0) /\ canon (mkCell 0 1 0 1) /\
  layout (mkCell 0 0 0 1) < layout (mkCell 1 0 0 0) < layout (mkCell 0 1 0 1).
Proof. exact base_cells_interleave_example. Qed.
Print Assumptions C20_base_cells_interleave_example.

