(* C02 — A cell's centre and every interior point map back to that cell.
   What the kernel checks (the geometric premise "the face projection is invertible", ProjInverse, is NOT
   proved; see DESIGN.md):
   - planar half, unbounded: for every curve depth 1..29, every orientation and every position, the centre of the
     cell's pentagon, pulled back to the lattice, is located at exactly that position (C17) — this is the step
     of lonlat_to_cell(cell_to_lonlat(c)) that happens after the projection;
   - the ID <-> (face, segment, position, resolution) correspondence is a bijection (C05);
   - whatever the lookup returns is an estimate of the requested resolution that passed the containment test,
     or the best-scoring fallback (C01 lemmas);
   - the whole pipeline cell -> centre -> lookup is evaluated with rigorous intervals on sampled cells of every
     resolution (correspondence) and on all cells of resolution <= 5 / 7 on the implementation (search). *)
From Coq Require Import ZArith QArith List Bool.
From A5 Require Import Base.Outcome Num.NumOps Num.QInst Id.Codec Id.CodecSpec Id.CodecProofs
  Hilbert.Hilbert Hilbert.CurveBijection Geo.Tiling Geo.Cell Geo.LookupProofs.
Import ListNotations.
Open Scope Z_scope.

Theorem C02_centre_located_planar (n : nat) (o s : Z) :
  (1 <= n <= 29)%nat -> 0 <= o < 6 -> 0 <= s < 4 ^ Z.of_nat n ->
  exists l, get_pentagon_vertices QInst 0 0 (s_to_anchor s n o) = Some l /\
    let ij := face_to_ij QInst (get_center QInst l) in
    ij_to_s QInst (fst ij) (snd ij) n o = Some s.
Proof. exact (locate_centre n o s). Qed.
Print Assumptions C02_centre_located_planar.

Theorem C02_id_roundtrip : forall c, canon c -> deserialize (layout c) = Ok c.
Proof. exact deserialize_layout. Qed.
Print Assumptions C02_id_roundtrip.

Theorem C02_id_encode : forall c, canon c -> serialize c = Ok (layout c).
Proof. exact serialize_layout. Qed.
Print Assumptions C02_id_encode.

(* an answer found by the probe loop passed the containment test for the queried point *)
Theorem C02_probe_sound :
  forall (T : Type) (OP : ops T) samples lon lat r seen acc est,
  probe OP samples lon lat r seen acc = Some (inl est) ->
  exists d, cell_contains_point OP est lon lat = Some d /\ o_ltb OP (o_ofZ OP 0) d = Some true.
Proof. exact (@probe_sound). Qed.
Print Assumptions C02_probe_sound.

(* ---- Interval model soundness: the executable interval instance (used by the correspondence check) encloses the
   ideal-real instance about which the theorems of this file speak.  [encl i x] = the real x lies in the interval i;
   [sound_opt rel a b] = whenever the interval run answers [Some], the real run answers [Some] with a related value
   (the interval run may give up with [None], never answer differently). ---- *)
From A5 Require Import Num.IvInst Num.IvSound Geo.IvSoundGeo Geo.IvSoundCell.

Theorem C02_interval_centre_sound : forall id,
  sound_opt (rout encl2) (cell_to_lonlat IvInst id) (cell_to_lonlat RInst id).
Proof. exact cell_to_lonlat_sound. Qed.
Print Assumptions C02_interval_centre_sound.

Theorem C02_interval_lookup_sound : forall lon lat lon' lat' res,
  encl lon lon' -> encl lat lat' ->
  sound_opt eq (lonlat_to_cell IvInst lon lat res) (lonlat_to_cell RInst lon' lat' res).
Proof. exact lonlat_to_cell_sound. Qed.
Print Assumptions C02_interval_lookup_sound.

(* ---- Planar half of "the centre and the points around it map back to the cell", every quintant, true scale
   (Geo/LocateQuintants.v; same statements as C17_locate_scaled_robust / C17_locate_quintant): every face point within
   1/40 lattice unit of the centre of cell s (at scale 2^-n: within 2^-n / 40) is located at s, and in every quintant
   q = 0..4 the centre of cell (q, n, s), un-rotated by any matrix within 1e-11 of the inverse of the quintant's rotation
   matrix and scaled by 2^n, is located at s: the first estimate of the lookup at the reported planar centre is the cell
   itself.  (The sphere half - that projecting the reported centre forward lands within that radius of the planar centre
   - is the projection round trip, C15, and is not proved here.) ---- *)
From Coq Require Import QArith Qabs.
From A5 Require Import Num.QInst Geo.Tiling Geo.AreaProofs Geo.ChildQuintants Geo.LocateQuintants.
Open Scope Q_scope.

Theorem C02_near_centre_located_planar (n : nat) (o s : Z) :
  (1 <= n <= 29)%nat -> (0 <= o < 6)%Z -> (0 <= s < 4 ^ Z.of_nat n)%Z ->
  exists ln, get_pentagon_vertices QInst (Z.of_nat n) 0 (s_to_anchor s n o) = Some ln /\
    let c := get_center QInst ln in
    let sf := inject_Z (2 ^ Z.of_nat n) in
    forall dx dy : Q, Qabs dx <= 1 # 40 -> Qabs dy <= 1 # 40 ->
      let ij := face_to_ij QInst (fst c * sf + dx, snd c * sf + dy) in
      ij_to_s QInst (fst ij) (snd ij) n o = Some s.
Proof. exact (locate_scaled_robust n o s). Qed.
Print Assumptions C02_near_centre_located_planar.

Theorem C02_centre_located_every_quintant (n : nat) (q o s : Z) (N : mat (T := Q)) :
  (0 <= q <= 4)%Z -> (1 <= n <= 29)%nat -> (0 <= o < 6)%Z -> (0 <= s < 4 ^ Z.of_nat n)%Z ->
  near_inverse N (rotation QInst q) ->
  exists lq, get_pentagon_vertices QInst (Z.of_nat n) q (s_to_anchor s n o) = Some lq /\
    let c := get_center QInst lq in
    let dp := mat_apply QInst N c in
    let sf := o_ofZ QInst (2 ^ Z.of_nat n) in
    let ij := face_to_ij QInst (o_mul QInst (fst dp) sf, o_mul QInst (snd dp) sf) in
    ij_to_s QInst (fst ij) (snd ij) n o = Some s.
Proof. exact (locate_quintant n q o s N). Qed.
Print Assumptions C02_centre_located_every_quintant.
