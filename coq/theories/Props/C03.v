(* C03 — Cells of one resolution partition the sphere: no overlaps, no gaps.
   What the kernel checks is the combinatorial and planar skeleton of the partition; that the face
   projection carries the planar picture to the sphere without overlap or gap, and the interlocking
   across quintant borders, the 30 edges and 20 vertices, are NOT proved (covered by the
   implementation-side search on all cells of resolution <= 3/4 and on two-ring neighbourhoods up to
   resolution 29, and by interval-model samples):
   - distinct cells <-> distinct IDs <-> distinct (face, quintant, position) (C05);
   - within a quintant, distinct positions give distinct pentagons, every centre lies inside the quintant
     triangle, and the located position of a centre is its own (C17): positions and cells correspond
     one-to-one;
   - all pentagons of one depth are congruent and their areas add up to the quintant, the face and
     twelve faces (C04): there is exactly enough area for a partition;
   - within a quintant, every depth 1..29 (Hilbert/TilingDisjoint.v, TilingCover.v; second half of this file):
     the cells are the tiles of a periodic tiling by four pentagon shapes, one per unit lattice triangle of the
     quintant triangle (one-to-one, the same set for all six orientations); two different cells have no common
     point more than 1e-16 (cross-product units; 1.4e-16 lattice units) inside both; every point of a lattice
     triangle lies within 2^-54 of the tile of that triangle or of two named neighbours.  The exact versions
     (strictly disjoint interiors, exact coverage) are FALSE in the exact rational model because the f64
     pentagon constants are not exactly symmetric: kernel-checked counterexamples below. *)
From Coq Require Import ZArith QArith List Bool.
From A5 Require Import Base.Outcome Num.NumOps Num.QInst Id.Codec Id.CodecSpec Id.CodecProofs
  Hilbert.Hilbert Hilbert.LocateProofs Hilbert.CurveBijection Geo.Tiling Geo.AreaProofs.
Import ListNotations.
Open Scope Z_scope.

Theorem C03_distinct_cells_distinct_ids : forall c1 c2, canon c1 -> canon c2 -> layout c1 = layout c2 -> c1 = c2.
Proof. exact layout_injective. Qed.
Print Assumptions C03_distinct_cells_distinct_ids.

Theorem C03_positions_injective (n : nat) (o s1 s2 : Z) (l1 l2 : list (Q * Q)) :
  (1 <= n <= 29)%nat -> 0 <= o < 6 -> 0 <= s1 < 4 ^ Z.of_nat n -> 0 <= s2 < 4 ^ Z.of_nat n ->
  get_pentagon_vertices QInst 0 0 (s_to_anchor s1 n o) = Some l1 ->
  get_pentagon_vertices QInst 0 0 (s_to_anchor s2 n o) = Some l2 ->
  s1 <> s2 ->
  ~ ((fst (get_center QInst l1) == fst (get_center QInst l2))%Q /\
     (snd (get_center QInst l1) == snd (get_center QInst l2))%Q).
Proof. exact (positions_injective n o s1 s2 l1 l2). Qed.
Print Assumptions C03_positions_injective.

Theorem C03_centre_in_triangle (n : nat) (o s : Z) :
  (1 <= n <= 29)%nat -> 0 <= o < 6 -> 0 <= s < 4 ^ Z.of_nat n ->
  exists l, get_pentagon_vertices QInst 0 0 (s_to_anchor s n o) = Some l /\
    let ij := face_to_ij QInst (get_center QInst l) in
    ((1#10) <= fst ij /\ (1#10) <= snd ij /\ fst ij + snd ij <= inject_Z (2 ^ Z.of_nat n) - (1#10))%Q.
Proof. exact (centre_in_triangle n o s). Qed.
Print Assumptions C03_centre_in_triangle.

(* every cell of resolution r >= 2 (every anchor, every quintant) has planar area A_face / (5 * 4^(r-1)) up to
   1e-15 relative: N(r) congruent cells have exactly the area of twelve faces *)
Theorem C03_planar_area_times_count_cell : forall (r q : Z) (a : anchor) (l : list (pt (T := Q))),
  (2 <= r)%Z -> (0 <= q <= 4)%Z ->
  get_pentagon_vertices QInst (r - 1) q a = Some l ->
  (Qabs.Qabs (get_area QInst l / 2 * inject_Z (N r) - 12 * A_face) <= eps15 * (12 * A_face))%Q.
Proof. exact planar_area_times_count_cell. Qed.
Print Assumptions C03_planar_area_times_count_cell.

(* ---- planar tiling within a quintant (Hilbert/TilingDisjoint.v), every depth 1..29, exact rational model,
   unscaled lattice units.  crosses l w lists the edge cross products (v1 - v2) x (w - v1) of the pentagon l at
   the point w (all >= 0: contains_point; all > 0: strictly inside; cross = edge length x distance from the
   edge line, edge length 0.425).  Two different cells have no point whose cross products all exceed 1e-16 in
   both (the proof gives 2^-54): common points lie within 1.4e-16 lattice units of a boundary.  With 0 in
   place of 1e-16 the statement is false in the exact model: C03_tiles_exact_disjoint_refuted. *)
From A5 Require Import Hilbert.ChildProofs Hilbert.TilingDisjoint.
Open Scope Z_scope.

Theorem C03_cells_eps_disjoint (n : nat) (o s1 s2 : Z) (l1 l2 : list (Q * Q)) :
  (1 <= n <= 29)%nat -> 0 <= o < 6 -> 0 <= s1 < 4 ^ Z.of_nat n -> 0 <= s2 < 4 ^ Z.of_nat n ->
  get_pentagon_vertices QInst 0 0 (s_to_anchor s1 n o) = Some l1 ->
  get_pentagon_vertices QInst 0 0 (s_to_anchor s2 n o) = Some l2 ->
  s1 <> s2 ->
  forall w : Q * Q,
    ~ (Forall (fun c => (1 # 10000000000000000) < c)%Q (crosses QInst l1 w) /\
       Forall (fun c => (1 # 10000000000000000) < c)%Q (crosses QInst l2 w)).
Proof. exact (cells_eps_disjoint n o s1 s2 l1 l2). Qed.
Print Assumptions C03_cells_eps_disjoint.

(* two orientations: the six orientations enumerate the same tiles; any two cells of one depth are the same
   pentagon (vertex by vertex, equal rationals) or disjoint in the above sense *)
Theorem C03_cells_equal_or_eps_disjoint (n : nat) (o1 o2 s1 s2 : Z) (l1 l2 : list (Q * Q)) :
  (1 <= n <= 29)%nat -> 0 <= o1 < 6 -> 0 <= o2 < 6 -> 0 <= s1 < 4 ^ Z.of_nat n -> 0 <= s2 < 4 ^ Z.of_nat n ->
  get_pentagon_vertices QInst 0 0 (s_to_anchor s1 n o1) = Some l1 ->
  get_pentagon_vertices QInst 0 0 (s_to_anchor s2 n o2) = Some l2 ->
  Forall2 (fun p q : Q * Q => fst p == fst q /\ snd p == snd q)%Q l1 l2 \/
  forall w : Q * Q,
    ~ (Forall (fun c => (1 # 10000000000000000) < c)%Q (crosses QInst l1 w) /\
       Forall (fun c => (1 # 10000000000000000) < c)%Q (crosses QInst l2 w)).
Proof. exact (cells_equal_or_eps_disjoint n o1 o2 s1 s2 l1 l2). Qed.
Print Assumptions C03_cells_equal_or_eps_disjoint.

(* the strict statement (eps = 0) fails: depth 1, orientation 0, positions 0 and 3, and the point
   w0 = (103435060746689023 / 2^57, 4707541810747495 / 2^54) *)
Theorem C03_tiles_exact_disjoint_refuted :
  exists l1 l2, get_pentagon_vertices QInst 0 0 (s_to_anchor 0 1 0) = Some l1 /\
    get_pentagon_vertices QInst 0 0 (s_to_anchor 3 1 0) = Some l2 /\
    Forall (fun c => 0 < c)%Q (crosses QInst l1 (103435060746689023 # 144115188075855872, 4707541810747495 # 18014398509481984)%Q) /\
    Forall (fun c => 0 < c)%Q (crosses QInst l2 (103435060746689023 # 144115188075855872, 4707541810747495 # 18014398509481984)%Q).
Proof. exact tiles_exact_disjoint_refuted. Qed.
Print Assumptions C03_tiles_exact_disjoint_refuted.

(* canonical form: every cell is (vertex by vertex) the canonical tile of a unit lattice triangle
   t = ((fi, fj), up) of the quintant triangle: canon_tile t = shape (parity of fi + fj) up + BASIS * (fi, fj)
   (four shapes); the cell's centre lies in t with margin 1/10 (in_tri) *)
Theorem C03_cell_is_canonical_tile (n : nat) (o s : Z) :
  (1 <= n <= 29)%nat -> 0 <= o < 6 -> 0 <= s < 4 ^ Z.of_nat n ->
  exists l, get_pentagon_vertices QInst 0 0 (s_to_anchor s n o) = Some l /\
    let t := tau_of (s_to_anchor s n o) in
    let ij := face_to_ij QInst (get_center QInst l) in
    Forall2 (fun p q : Q * Q => fst p == fst q /\ snd p == snd q)%Q l (canon_tile t) /\
    in_tri (1 # 10) t (fst ij) (snd ij) /\
    (0 <= fst (fst t) /\ 0 <= snd (fst t) /\ fst (fst t) + snd (fst t) + (if snd t then 1 else 2) <= 2 ^ Z.of_nat n).
Proof. exact (cell_is_canonical_tile n o s). Qed.
Print Assumptions C03_cell_is_canonical_tile.

Theorem C03_positions_distinct_triangles (n : nat) (o s1 s2 : Z) :
  (1 <= n <= 29)%nat -> 0 <= o < 6 -> 0 <= s1 < 4 ^ Z.of_nat n -> 0 <= s2 < 4 ^ Z.of_nat n ->
  tau_of (s_to_anchor s1 n o) = tau_of (s_to_anchor s2 n o) -> s1 = s2.
Proof. exact (tau_injective n o s1 s2). Qed.
Print Assumptions C03_positions_distinct_triangles.

(* the periodic tiling itself: two different canonical tiles, anywhere in the lattice *)
Theorem C03_canonical_tiles_eps_disjoint (t1 t2 : (Z * Z) * bool) : t1 <> t2 ->
  forall w : Q * Q,
    ~ (Forall (fun c => (1 # 18014398509481984) < c)%Q (crosses QInst (canon_tile t1) w) /\
       Forall (fun c => (1 # 18014398509481984) < c)%Q (crosses QInst (canon_tile t2) w)).
Proof. exact (canon_disjoint t1 t2). Qed.
Print Assumptions C03_canonical_tiles_eps_disjoint.

(* ---- no gaps (Hilbert/TilingCover.v).  Bq x y = BASIS * (x, y) for rational lattice coordinates.  Every
   point of the unit lattice triangle ((i, j), u) lies in the canonical tile of that triangle, of the other half
   of its cell, or of one named neighbour (nbrs), with every edge cross product >= -2^-54 (that is, at most
   1.3e-16 lattice units outside); hence every point of the plane lies in a canonical tile in this sense.
   With 0 in place of 2^-54 this is false in the exact model: C03_plane_exact_cover_refuted. *)
From A5 Require Import Hilbert.TilingCover.
Open Scope Z_scope.

Theorem C03_triangle_covered (i j : Z) (u : bool) (X Y : Q) :
  (0 <= X)%Q -> (0 <= Y)%Q -> (if u then X + Y <= 1 else X <= 1 /\ Y <= 1 /\ 1 <= X + Y)%Q ->
  exists t', In t' (nbrs ((i, j), u)) /\
    Forall (fun c => - (1 # 18014398509481984) <= c)%Q
           (crosses QInst (canon_tile t') (Bq (inject_Z i + X) (inject_Z j + Y))).
Proof. exact (triangle_cover i j u X Y). Qed.
Print Assumptions C03_triangle_covered.

Theorem C03_plane_covered (x y : Q) :
  exists t, Forall (fun c => - (1 # 18014398509481984) <= c)%Q (crosses QInst (canon_tile t) (Bq x y)).
Proof. exact (plane_cover x y). Qed.
Print Assumptions C03_plane_covered.

(* BASIS * (1/2, 1/2) = (BASIS[0][0], 0) lies in no canonical tile, boundaries included *)
Theorem C03_plane_exact_cover_refuted :
  forall t : (Z * Z) * bool, ~ Forall (fun c => - 0 <= c)%Q (crosses QInst (canon_tile t) (LocateProofs.Bm 0, 0%Q)).
Proof. exact plane_exact_cover_refuted. Qed.
Print Assumptions C03_plane_exact_cover_refuted.

(* ---- cells <-> lattice triangles: for each orientation the 4^n positions correspond one-to-one to the 4^n unit
   lattice triangles of the quintant triangle (in_quintant); the six orientations enumerate the same pentagons;
   a point of a lattice triangle of the quintant lies (up to 2^-54) in a cell of the quintant whenever the
   covering tile's triangle is inside the quintant triangle *)
Theorem C03_every_triangle_is_a_cell (n : nat) (o : Z) (t : (Z * Z) * bool) :
  (1 <= n <= 29)%nat -> 0 <= o < 6 ->
  0 <= fst (fst t) /\ 0 <= snd (fst t) /\ fst (fst t) + snd (fst t) + (if snd t then 1 else 2) <= 2 ^ Z.of_nat n ->
  exists s, 0 <= s < 4 ^ Z.of_nat n /\ tau_of (s_to_anchor s n o) = t.
Proof. exact (tau_surjective n o t). Qed.
Print Assumptions C03_every_triangle_is_a_cell.

Theorem C03_orientations_same_tiles (n : nat) (o1 o2 s1 : Z) :
  (1 <= n <= 29)%nat -> 0 <= o1 < 6 -> 0 <= o2 < 6 -> 0 <= s1 < 4 ^ Z.of_nat n ->
  exists s2 l1 l2, 0 <= s2 < 4 ^ Z.of_nat n /\
    get_pentagon_vertices QInst 0 0 (s_to_anchor s1 n o1) = Some l1 /\
    get_pentagon_vertices QInst 0 0 (s_to_anchor s2 n o2) = Some l2 /\
    Forall2 (fun p q : Q * Q => fst p == fst q /\ snd p == snd q)%Q l1 l2.
Proof. exact (orientations_same_tiles n o1 o2 s1). Qed.
Print Assumptions C03_orientations_same_tiles.

Theorem C03_cell_cover (n : nat) (o : Z) (t : (Z * Z) * bool) (X Y : Q) :
  (1 <= n <= 29)%nat -> 0 <= o < 6 -> in_quintant n t ->
  (0 <= X)%Q -> (0 <= Y)%Q -> (if snd t then X + Y <= 1 else X <= 1 /\ Y <= 1 /\ 1 <= X + Y)%Q ->
  let P := Bq (inject_Z (fst (fst t)) + X) (inject_Z (snd (fst t)) + Y) in
  exists t', In t' (nbrs t) /\
    Forall (fun c => - (1 # 18014398509481984) <= c)%Q (crosses QInst (canon_tile t') P) /\
    (in_quintant n t' ->
     exists s l, 0 <= s < 4 ^ Z.of_nat n /\ get_pentagon_vertices QInst 0 0 (s_to_anchor s n o) = Some l /\
       tau_of (s_to_anchor s n o) = t' /\
       Forall (fun c => - (1 # 18014398509481984) <= c)%Q (crosses QInst l P)).
Proof. exact (cell_cover n o t X Y). Qed.
Print Assumptions C03_cell_cover.

(* ---- Every quintant 0..4, lattice units (Geo/TilingQuintants.v, exact rationals, axiom-free).  The outline of a cell in
   quintant q is the image of its quintant-0 outline under the quintant's f64 rotation matrix M_q (determinant in
   (0, 1 + 1e-15]); an arbitrary point is pulled back through the exact rational inverse of M_q and every cross product
   of images is det M_q times the original.  Disjointness keeps the constant 1e-16 (the quintant-0 proof holds from
   2^-54 upwards); covering holds with -(2^-53) instead of -(2^-54).  Not covered: the interlocking between different
   quintants and faces, the scaled statements, and the sphere. ---- *)
From A5 Require Import Geo.AreaProofs Geo.ChildQuintants Geo.LocateQuintants Geo.TilingQuintants.
Open Scope Q_scope.

Theorem C03_cells_eps_disjoint_q (n : nat) (q o s1 s2 : Z) (l1 l2 : list (Q * Q)) :
  (0 <= q <= 4)%Z -> (1 <= n <= 29)%nat -> (0 <= o < 6)%Z ->
  (0 <= s1 < 4 ^ Z.of_nat n)%Z -> (0 <= s2 < 4 ^ Z.of_nat n)%Z ->
  get_pentagon_vertices QInst 0 q (s_to_anchor s1 n o) = Some l1 ->
  get_pentagon_vertices QInst 0 q (s_to_anchor s2 n o) = Some l2 ->
  s1 <> s2 ->
  forall w : Q * Q,
    ~ (Forall (fun c => (1 # 10000000000000000) < c) (crosses QInst l1 w) /\
       Forall (fun c => (1 # 10000000000000000) < c) (crosses QInst l2 w)).
Proof. exact (cells_eps_disjoint_q n q o s1 s2 l1 l2). Qed.
Print Assumptions C03_cells_eps_disjoint_q.

Theorem C03_cells_equal_or_eps_disjoint_q (n : nat) (q o1 o2 s1 s2 : Z) (l1 l2 : list (Q * Q)) :
  (0 <= q <= 4)%Z -> (1 <= n <= 29)%nat -> (0 <= o1 < 6)%Z -> (0 <= o2 < 6)%Z ->
  (0 <= s1 < 4 ^ Z.of_nat n)%Z -> (0 <= s2 < 4 ^ Z.of_nat n)%Z ->
  get_pentagon_vertices QInst 0 q (s_to_anchor s1 n o1) = Some l1 ->
  get_pentagon_vertices QInst 0 q (s_to_anchor s2 n o2) = Some l2 ->
  Forall2 (fun p r : Q * Q => fst p == fst r /\ snd p == snd r) l1 l2 \/
  forall w : Q * Q,
    ~ (Forall (fun c => (1 # 10000000000000000) < c) (crosses QInst l1 w) /\
       Forall (fun c => (1 # 10000000000000000) < c) (crosses QInst l2 w)).
Proof. exact (cells_equal_or_eps_disjoint_q n q o1 o2 s1 s2 l1 l2). Qed.
Print Assumptions C03_cells_equal_or_eps_disjoint_q.

Theorem C03_positions_injective_q (n : nat) (q o s1 s2 : Z) (l1 l2 : list (Q * Q)) :
  (0 <= q <= 4)%Z -> (1 <= n <= 29)%nat -> (0 <= o < 6)%Z ->
  (0 <= s1 < 4 ^ Z.of_nat n)%Z -> (0 <= s2 < 4 ^ Z.of_nat n)%Z ->
  get_pentagon_vertices QInst 0 q (s_to_anchor s1 n o) = Some l1 ->
  get_pentagon_vertices QInst 0 q (s_to_anchor s2 n o) = Some l2 ->
  s1 <> s2 ->
  ~ (fst (get_center QInst l1) == fst (get_center QInst l2) /\
     snd (get_center QInst l1) == snd (get_center QInst l2)).
Proof. exact (positions_injective_q n q o s1 s2 l1 l2). Qed.
Print Assumptions C03_positions_injective_q.

Theorem C03_orientations_same_tiles_q (n : nat) (q o1 o2 s1 : Z) :
  (0 <= q <= 4)%Z -> (1 <= n <= 29)%nat -> (0 <= o1 < 6)%Z -> (0 <= o2 < 6)%Z -> (0 <= s1 < 4 ^ Z.of_nat n)%Z ->
  exists s2 l1 l2, (0 <= s2 < 4 ^ Z.of_nat n)%Z /\
    get_pentagon_vertices QInst 0 q (s_to_anchor s1 n o1) = Some l1 /\
    get_pentagon_vertices QInst 0 q (s_to_anchor s2 n o2) = Some l2 /\
    Forall2 (fun p r : Q * Q => fst p == fst r /\ snd p == snd r) l1 l2.
Proof. exact (orientations_same_tiles_q n q o1 o2 s1). Qed.
Print Assumptions C03_orientations_same_tiles_q.

Theorem C03_cell_is_canonical_tile_q (n : nat) (q o s : Z) :
  (0 <= q <= 4)%Z -> (1 <= n <= 29)%nat -> (0 <= o < 6)%Z -> (0 <= s < 4 ^ Z.of_nat n)%Z ->
  exists l, get_pentagon_vertices QInst 0 q (s_to_anchor s n o) = Some l /\
    let t := tau_of (s_to_anchor s n o) in
    Forall2 (fun p r : Q * Q => fst p == fst r /\ snd p == snd r) l (map (lin (rotation QInst q)) (canon_tile t)) /\
    in_quintant n t.
Proof. exact (cell_is_canonical_tile_q n q o s). Qed.
Print Assumptions C03_cell_is_canonical_tile_q.

Theorem C03_canonical_tiles_eps_disjoint_q (q : Z) (t1 t2 : tri) : (0 <= q <= 4)%Z -> t1 <> t2 ->
  forall w : Q * Q,
    ~ (Forall (fun c => (1 # 10000000000000000) < c) (crosses QInst (map (lin (rotation QInst q)) (canon_tile t1)) w) /\
       Forall (fun c => (1 # 10000000000000000) < c) (crosses QInst (map (lin (rotation QInst q)) (canon_tile t2)) w)).
Proof. exact (canonical_tiles_eps_disjoint_q q t1 t2). Qed.
Print Assumptions C03_canonical_tiles_eps_disjoint_q.

Theorem C03_plane_covered_q (q : Z) (P : Q * Q) : (0 <= q <= 4)%Z ->
  exists t, Forall (fun c => - (1 # 9007199254740992) <= c)
                   (crosses QInst (map (lin (rotation QInst q)) (canon_tile t)) P).
Proof. exact (plane_covered_q q P). Qed.
Print Assumptions C03_plane_covered_q.

Theorem C03_triangle_covered_q (q i j : Z) (u : bool) (X Y : Q) : (0 <= q <= 4)%Z ->
  0 <= X -> 0 <= Y -> (if u then X + Y <= 1 else X <= 1 /\ Y <= 1 /\ 1 <= X + Y) ->
  exists t', In t' (nbrs ((i, j), u)) /\
    Forall (fun c => - (1 # 9007199254740992) <= c)
           (crosses QInst (map (lin (rotation QInst q)) (canon_tile t'))
                    (lin (rotation QInst q) (Bq (inject_Z i + X) (inject_Z j + Y)))).
Proof. exact (triangle_covered_q q i j u X Y). Qed.
Print Assumptions C03_triangle_covered_q.

Theorem C03_cell_cover_q (n : nat) (q o : Z) (t : (Z * Z) * bool) (X Y : Q) :
  (0 <= q <= 4)%Z -> (1 <= n <= 29)%nat -> (0 <= o < 6)%Z -> in_quintant n t ->
  0 <= X -> 0 <= Y -> (if snd t then X + Y <= 1 else X <= 1 /\ Y <= 1 /\ 1 <= X + Y) ->
  let P := lin (rotation QInst q) (Bq (inject_Z (fst (fst t)) + X) (inject_Z (snd (fst t)) + Y)) in
  exists t', In t' (nbrs t) /\
    Forall (fun c => - (1 # 9007199254740992) <= c) (crosses QInst (map (lin (rotation QInst q)) (canon_tile t')) P) /\
    (in_quintant n t' ->
     exists s l, (0 <= s < 4 ^ Z.of_nat n)%Z /\ get_pentagon_vertices QInst 0 q (s_to_anchor s n o) = Some l /\
       tau_of (s_to_anchor s n o) = t' /\
       Forall (fun c => - (1 # 9007199254740992) <= c) (crosses QInst l P)).
Proof. exact (cell_cover_q n q o t X Y). Qed.
Print Assumptions C03_cell_cover_q.

(* ---- The same at the TRUE SCALE of a cell (outline computed with hr = n, i.e. divided by 2^n; Geo/TilingScaled.v, exact
   rationals, axiom-free): scaling is the linear map with determinant 1/4^n, so every threshold is divided by 4^n.  These
   are statements about the face coordinates that get_pentagon actually returns for a cell of resolution n + 1. ---- *)
From A5 Require Import Geo.TilingScaled.

Theorem C03_gpv_scaled (hr q : Z) (a : anchor) (l0 : list (Q * Q)) : (0 <= q <= 4)%Z -> (0 <= hr)%Z ->
  get_pentagon_vertices QInst 0 q a = Some l0 ->
  exists lh, get_pentagon_vertices QInst hr q a = Some lh /\
    peq lh (map (fun p => (fst p / inject_Z (2 ^ hr), snd p / inject_Z (2 ^ hr))) l0).
Proof. exact (gpv_scaled hr q a l0). Qed.
Print Assumptions C03_gpv_scaled.

Theorem C03_cells_eps_disjoint_scaled_q (n : nat) (q o s1 s2 : Z) (l1 l2 : list (Q * Q)) :
  (0 <= q <= 4)%Z -> (1 <= n <= 29)%nat -> (0 <= o < 6)%Z ->
  (0 <= s1 < 4 ^ Z.of_nat n)%Z -> (0 <= s2 < 4 ^ Z.of_nat n)%Z ->
  get_pentagon_vertices QInst (Z.of_nat n) q (s_to_anchor s1 n o) = Some l1 ->
  get_pentagon_vertices QInst (Z.of_nat n) q (s_to_anchor s2 n o) = Some l2 ->
  s1 <> s2 ->
  forall w : Q * Q,
    ~ (Forall (fun c => (1 # 10000000000000000) / inject_Z (4 ^ Z.of_nat n) < c) (crosses QInst l1 w) /\
       Forall (fun c => (1 # 10000000000000000) / inject_Z (4 ^ Z.of_nat n) < c) (crosses QInst l2 w)).
Proof. exact (cells_eps_disjoint_scaled_q n q o s1 s2 l1 l2). Qed.
Print Assumptions C03_cells_eps_disjoint_scaled_q.

Theorem C03_cells_equal_or_eps_disjoint_scaled_q (n : nat) (q o1 o2 s1 s2 : Z) (l1 l2 : list (Q * Q)) :
  (0 <= q <= 4)%Z -> (1 <= n <= 29)%nat -> (0 <= o1 < 6)%Z -> (0 <= o2 < 6)%Z ->
  (0 <= s1 < 4 ^ Z.of_nat n)%Z -> (0 <= s2 < 4 ^ Z.of_nat n)%Z ->
  get_pentagon_vertices QInst (Z.of_nat n) q (s_to_anchor s1 n o1) = Some l1 ->
  get_pentagon_vertices QInst (Z.of_nat n) q (s_to_anchor s2 n o2) = Some l2 ->
  Forall2 (fun p r : Q * Q => fst p == fst r /\ snd p == snd r) l1 l2 \/
  forall w : Q * Q,
    ~ (Forall (fun c => (1 # 10000000000000000) / inject_Z (4 ^ Z.of_nat n) < c) (crosses QInst l1 w) /\
       Forall (fun c => (1 # 10000000000000000) / inject_Z (4 ^ Z.of_nat n) < c) (crosses QInst l2 w)).
Proof. exact (cells_equal_or_eps_disjoint_scaled_q n q o1 o2 s1 s2 l1 l2). Qed.
Print Assumptions C03_cells_equal_or_eps_disjoint_scaled_q.

Theorem C03_positions_injective_scaled_q (n : nat) (q o s1 s2 : Z) (l1 l2 : list (Q * Q)) :
  (0 <= q <= 4)%Z -> (1 <= n <= 29)%nat -> (0 <= o < 6)%Z ->
  (0 <= s1 < 4 ^ Z.of_nat n)%Z -> (0 <= s2 < 4 ^ Z.of_nat n)%Z ->
  get_pentagon_vertices QInst (Z.of_nat n) q (s_to_anchor s1 n o) = Some l1 ->
  get_pentagon_vertices QInst (Z.of_nat n) q (s_to_anchor s2 n o) = Some l2 ->
  s1 <> s2 ->
  ~ (fst (get_center QInst l1) == fst (get_center QInst l2) /\
     snd (get_center QInst l1) == snd (get_center QInst l2)).
Proof. exact (positions_injective_scaled_q n q o s1 s2 l1 l2). Qed.
Print Assumptions C03_positions_injective_scaled_q.

Theorem C03_plane_covered_scaled_q (n : nat) (q : Z) (P : Q * Q) : (0 <= q <= 4)%Z ->
  exists t, Forall (fun c => - (1 # 9007199254740992) / inject_Z (4 ^ Z.of_nat n) <= c)
                   (crosses QInst
                      (map (fun p => (fst p / inject_Z (2 ^ Z.of_nat n), snd p / inject_Z (2 ^ Z.of_nat n)))
                           (map (lin (rotation QInst q)) (canon_tile t))) P).
Proof. exact (plane_covered_scaled_q n q P). Qed.
Print Assumptions C03_plane_covered_scaled_q.

Theorem C03_cell_cover_scaled_q (n : nat) (q o : Z) (t : (Z * Z) * bool) (X Y : Q) :
  (0 <= q <= 4)%Z -> (1 <= n <= 29)%nat -> (0 <= o < 6)%Z -> in_quintant n t ->
  0 <= X -> 0 <= Y -> (if snd t then X + Y <= 1 else X <= 1 /\ Y <= 1 /\ 1 <= X + Y) ->
  let sc := fun p : Q * Q => (fst p / inject_Z (2 ^ Z.of_nat n), snd p / inject_Z (2 ^ Z.of_nat n)) in
  let P := sc (lin (rotation QInst q) (Bq (inject_Z (fst (fst t)) + X) (inject_Z (snd (fst t)) + Y))) in
  exists t', In t' (nbrs t) /\
    Forall (fun c => - (1 # 9007199254740992) / inject_Z (4 ^ Z.of_nat n) <= c)
           (crosses QInst (map sc (map (lin (rotation QInst q)) (canon_tile t'))) P) /\
    (in_quintant n t' ->
     exists s l, (0 <= s < 4 ^ Z.of_nat n)%Z /\
       get_pentagon_vertices QInst (Z.of_nat n) q (s_to_anchor s n o) = Some l /\
       tau_of (s_to_anchor s n o) = t' /\
       Forall (fun c => - (1 # 9007199254740992) / inject_Z (4 ^ Z.of_nat n) <= c) (crosses QInst l P)).
Proof. exact (cell_cover_scaled_q n q o t X Y). Qed.
Print Assumptions C03_cell_cover_scaled_q.
