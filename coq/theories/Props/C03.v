(* C03 — Cells of one resolution partition the sphere: no overlaps, no gaps.
   What the kernel checks is the combinatorial and planar skeleton of the partition; that the face
   projection carries the planar picture to the sphere without overlap or gap, and the interlocking
   across quintant borders, the 30 edges and 20 vertices, are NOT proved (covered by the
   implementation-side search on all cells of resolution <= 3/4 and on two-ring neighbourhoods up to
   resolution 29, and by interval-model samples):
   - distinct cells <-> distinct IDs <-> distinct (face, quintant, position) (C05);
   - within a quintant, distinct positions give distinct pentagons, every centre lies inside the quintant
     triangle, and the located position of a centre is its own (C17): positions and cells correspond
     one-to-one;
   - all pentagons of one depth are congruent and their areas add up to the quintant, the face and
     twelve faces (C04): there is exactly enough area for a partition. *)
From Coq Require Import ZArith QArith List Bool.
From A5 Require Import Base.Outcome Num.NumOps Num.QInst Id.Codec Id.CodecSpec Id.CodecProofs
  Hilbert.Hilbert Hilbert.LocateProofs Hilbert.CurveBijection Geo.Tiling Geo.AreaProofs.
Import ListNotations.
Open Scope Z_scope.

Theorem C03_distinct_cells_distinct_ids : forall c1 c2, canon c1 -> canon c2 -> layout c1 = layout c2 -> c1 = c2.
Proof. exact layout_injective. Qed.
Print Assumptions C03_distinct_cells_distinct_ids.

Theorem C03_positions_injective (n : nat) (o s1 s2 : Z) (l1 l2 : list (Q * Q)) :
  (1 <= n <= 29)%nat -> 0 <= o < 6 -> 0 <= s1 < 4 ^ Z.of_nat n -> 0 <= s2 < 4 ^ Z.of_nat n ->
  get_pentagon_vertices QInst 0 0 (s_to_anchor s1 n o) = Some l1 ->
  get_pentagon_vertices QInst 0 0 (s_to_anchor s2 n o) = Some l2 ->
  s1 <> s2 ->
  ~ ((fst (get_center QInst l1) == fst (get_center QInst l2))%Q /\
     (snd (get_center QInst l1) == snd (get_center QInst l2))%Q).
Proof. exact (positions_injective n o s1 s2 l1 l2). Qed.
Print Assumptions C03_positions_injective.

Theorem C03_centre_in_triangle (n : nat) (o s : Z) :
  (1 <= n <= 29)%nat -> 0 <= o < 6 -> 0 <= s < 4 ^ Z.of_nat n ->
  exists l, get_pentagon_vertices QInst 0 0 (s_to_anchor s n o) = Some l /\
    let ij := face_to_ij QInst (get_center QInst l) in
    ((1#10) <= fst ij /\ (1#10) <= snd ij /\ fst ij + snd ij <= inject_Z (2 ^ Z.of_nat n) - (1#10))%Q.
Proof. exact (centre_in_triangle n o s). Qed.
Print Assumptions C03_centre_in_triangle.

(* every cell of resolution r >= 2 (every anchor, every quintant) has planar area A_face / (5 * 4^(r-1)) up to
   1e-15 relative: N(r) congruent cells have exactly the area of twelve faces *)
Theorem C03_planar_area_times_count_cell : forall (r q : Z) (a : anchor) (l : list (pt (T := Q))),
  (2 <= r)%Z -> (0 <= q <= 4)%Z ->
  get_pentagon_vertices QInst (r - 1) q a = Some l ->
  (Qabs.Qabs (get_area QInst l / 2 * inject_Z (N r) - 12 * A_face) <= eps15 * (12 * A_face))%Q.
Proof. exact planar_area_times_count_cell. Qed.
Print Assumptions C03_planar_area_times_count_cell.
