(* C18 — The 12-face frame is a regular dodecahedron in the documented orientation (ideal-real model; orientation by frozen reference)
   Property theorems only: full statement, `exact <lemma>`, Print Assumptions. *)
From Coq Require Import ZArith Reals List Sorting.Permutation.
From A5 Require Import Num.NumOps Geo.Sphere Geo.SphereProofs Geo.FrameRef.
From A5 Require Base.TablesRef.
From A5gen Require Import TablesCur.
Import ListNotations.
Open Scope R_scope.

(* the modified haversine used to pick a face is (1 - <p,a>)/2: monotone in great-circle distance, for all points *)
Theorem C18_haversine_is_chord : forall theta phi theta2 phi2 : R,
  haversine RInst theta phi theta2 phi2 =
  (1 - dot3 RInst (to_cartesian RInst theta phi) (to_cartesian RInst theta2 phi2)) / 2.
Proof. exact haversine_is_chord. Qed.
Print Assumptions C18_haversine_is_chord.

(* unit vectors *)
Theorem C18_to_cartesian_unit : forall theta phi,
  dot3 RInst (to_cartesian RInst theta phi) (to_cartesian RInst theta phi) = 1.
Proof. exact to_cartesian_unit. Qed.
Print Assumptions C18_to_cartesian_unit.

(* nearest-face selection is total *)
Theorem C18_nearest_total : forall theta phi, exists i, find_nearest_origin RInst theta phi = Some i.
Proof. exact nearest_total. Qed.
Print Assumptions C18_nearest_total.

(* the chosen face centre maximises the dot product = minimises great-circle distance, for EVERY point; ties go to the first in table order *)
Theorem C18_nearest_is_nearest : forall theta phi i,
  find_nearest_origin RInst theta phi = Some i ->
  (0 <= i < 12)%Z /\
  forall j, (0 <= j < 12)%Z ->
    let p := to_cartesian RInst theta phi in
    let ax k := let a := nth (Z.to_nat k) origin_axis ((0,0),(0,0))%Z in
                to_cartesian RInst (dy2R (fst a)) (dy2R (snd a)) in
    dot3 RInst p (ax j) <= dot3 RInst p (ax i) /\
    ((j < i)%Z -> dot3 RInst p (ax j) < dot3 RInst p (ax i)).
Proof. exact nearest_is_nearest. Qed.
Print Assumptions C18_nearest_is_nearest.

(* face 0 is centred on the north pole *)
Theorem C18_face0_is_north_pole : axis_vec 0 = (0, 0, 1).
Proof. exact face0_is_north_pole. Qed.
Print Assumptions C18_face0_is_north_pole.

(* the documented 93 degree longitude offset *)
Theorem C18_longitude_offset_is_93 : dy2R longitude_offset = 93.
Proof. exact longitude_offset_is_93. Qed.
Print Assumptions C18_longitude_offset_is_93.

(* all 66 pairs of face centres: antipodal (-1) or at +-1/sqrt 5 (63.435 / 116.565 degrees), within 1e-15 *)
Theorem C18_frame_pairs : forall i j, (0 <= i < 12)%Z -> (0 <= j < 12)%Z -> i <> j ->
  let d := dot3 RInst (axis_vec i) (axis_vec j) in
  Rabs (d + 1) <= 1/10^15 \/ Rabs (d - / sqrt 5) <= 1/10^15 \/ Rabs (d + / sqrt 5) <= 1/10^15.
Proof. exact frame_pairs. Qed.
Print Assumptions C18_frame_pairs.

(* every face has exactly one antipode *)
Theorem C18_frame_antipodes : forall i, (0 <= i < 12)%Z ->
  exists! j, (0 <= j < 12)%Z /\ Rabs (dot3 RInst (axis_vec i) (axis_vec j) + 1) <= 1/10^14.
Proof. exact frame_antipodes. Qed.
Print Assumptions C18_frame_antipodes.

(* every face has exactly five neighbours at 63.435 degrees *)
Theorem C18_frame_five_neighbours :
  Forall (fun l => length l = 5%nat /\ NoDup l) neighbours /\
  length neighbours = 12%nat /\
  forall i j, (0 <= i < 12)%Z -> (0 <= j < 12)%Z ->
    (In j (nth (Z.to_nat i) neighbours []) <->
     Rabs (dot3 RInst (axis_vec i) (axis_vec j) - / sqrt 5) <= 1/10^14).
Proof. exact frame_five_neighbours. Qed.
Print Assumptions C18_frame_five_neighbours.

(* quaternion i rotates the north pole onto face centre i *)
Theorem C18_quaternions_place_axes : forall i, (0 <= i < 12)%Z ->
  let q := quat_of RInst (nth (Z.to_nat i) origin_quat ((0,0),(0,0),(0,0),(0,0))%Z) in
  let '(x, y, z) := transform_quat RInst (0, 0, 1) q in
  let '(ax, ay, az) := axis_vec i in
  Rabs (x - ax) <= 1/10^14 /\ Rabs (y - ay) <= 1/10^14 /\ Rabs (z - az) <= 1/10^14.
Proof. exact quaternions_place_axes. Qed.
Print Assumptions C18_quaternions_place_axes.

(* the inverse quaternion rotates it back *)
Theorem C18_inv_quaternions_unplace_axes : forall i, (0 <= i < 12)%Z ->
  let q := quat_of RInst (nth (Z.to_nat i) origin_inv_quat ((0,0),(0,0),(0,0),(0,0))%Z) in
  let '(x, y, z) := transform_quat RInst (axis_vec i) q in
  Rabs (x - 0) <= 1/10^14 /\ Rabs (y - 0) <= 1/10^14 /\ Rabs (z - 1) <= 1/10^14.
Proof. exact inv_quaternions_unplace_axes. Qed.
Print Assumptions C18_inv_quaternions_unplace_axes.

(* rotation by q then by its conjugate is the identity for unit quaternions *)
Theorem C18_transform_quat_conj : forall v q, qnorm2 q = 1 ->
  transform_quat RInst (transform_quat RInst v q) (qconj q) = v.
Proof. exact transform_quat_conj. Qed.
Print Assumptions C18_transform_quat_conj.

(* the inverse quaternions of the table are the conjugates *)
Theorem C18_inv_quat_is_conj : origin_inv_quat = map zqconj origin_quat.
Proof. exact inv_quat_is_conj. Qed.
Print Assumptions C18_inv_quat_is_conj.

(* quintant <-> segment relabelling: mutually inverse on all 12 faces x 5 quintants and orientation preserved in both directions (tables dumped by calling the functions) *)
Theorem C18_relabel_roundtrip_forall : forall f k, (0 <= f < 12)%Z -> (0 <= k < 5)%Z ->
  let qs := tab_get quintant_to_segment_tab f k in
  let sq := tab_get segment_to_quintant_tab f (fst qs) in
  let sq' := tab_get segment_to_quintant_tab f k in
  let qs' := tab_get quintant_to_segment_tab f (fst sq') in
  (fst sq = k /\ snd sq = snd qs) /\ (fst qs' = k /\ snd qs' = snd sq').
Proof. exact relabel_roundtrip_forall. Qed.
Print Assumptions C18_relabel_roundtrip_forall.

(* each relabelling row is a permutation of 0..4 with orientation codes 0..5 *)
Theorem C18_relabel_rows_permutations :
  length quintant_to_segment_tab = 12%nat /\ length segment_to_quintant_tab = 12%nat /\
  Forall (fun row => Permutation idx5 (map fst row) /\ Forall (fun p => (0 <= snd p < 6)%Z) row)
         quintant_to_segment_tab /\
  Forall (fun row => Permutation idx5 (map fst row) /\ Forall (fun p => (0 <= snd p < 6)%Z) row)
         segment_to_quintant_tab.
Proof. exact relabel_rows_permutations. Qed.
Print Assumptions C18_relabel_rows_permutations.

(* documented orientation: axes, quaternions, angles, first quintants, orientations, longitude offset and
   both relabelling tables equal the frozen reference release *)
Theorem C18_frame_tables_frozen :
  TablesCur.origin_axis = TablesRef.origin_axis /\
  TablesCur.origin_quat = TablesRef.origin_quat /\
  TablesCur.origin_inv_quat = TablesRef.origin_inv_quat /\
  TablesCur.origin_angle = TablesRef.origin_angle /\
  TablesCur.first_quintant = TablesRef.first_quintant /\
  TablesCur.orientations = TablesRef.orientations /\
  TablesCur.longitude_offset = TablesRef.longitude_offset /\
  TablesCur.quintant_to_segment_tab = TablesRef.quintant_to_segment_tab /\
  TablesCur.segment_to_quintant_tab = TablesRef.segment_to_quintant_tab.
Proof. exact frame_tables_frozen. Qed.
Print Assumptions C18_frame_tables_frozen.

(* ---- Interval model soundness: the executable interval instance (used by the correspondence check) encloses the
   ideal-real instance about which the theorems of this file speak.  [encl i x] = the real x lies in the interval i;
   [sound_opt rel a b] = whenever the interval run answers [Some], the real run answers [Some] with a related value
   (the interval run may give up with [None], never answer differently). ---- *)
From A5 Require Import Num.IvInst Num.IvSound Geo.IvSoundGeo Geo.IvSoundCell.

Theorem C18_interval_nearest_sound : forall t p t' p',
  encl t t' -> encl p p' ->
  sound_opt eq (find_nearest_origin IvInst t p) (find_nearest_origin RInst t' p').
Proof. exact find_nearest_origin_sound. Qed.
Print Assumptions C18_interval_nearest_sound.

Theorem C18_interval_haversine_sound : forall t p t2 p2 t' p' t2' p2',
  encl t t' -> encl p p' -> encl t2 t2' -> encl p2 p2' ->
  encl (haversine IvInst t p t2 p2) (haversine RInst t' p' t2' p2').
Proof. exact haversine_sound. Qed.
Print Assumptions C18_interval_haversine_sound.
