(* C10 — Compaction is maximal, idempotent and canonical (non-overlapping inputs)
   Property theorems only: full statement, `exact <lemma>`, Print Assumptions. *)
From Coq Require Import ZArith List Bool.
From A5 Require Import Base.Outcome Base.Word Id.Codec Id.CodecSpec Id.Tree Id.TreeSpec Id.Compact Id.CompactSpec Id.KeyOrder Id.CompactMaximal.
From A5gen Require Import TablesCur.
Import ListNotations.
Open Scope Z_scope.

(* the result of compacting a non-overlapping set of canonical cells contains no complete sibling group (12 base cells / 5 quintants of a face / 4 children), and is again a non-overlapping set of canonical cells *)
Theorem C10_compact_maximal : forall l out,
  all_canonical l -> antichain l -> compact l = Ok out ->
  no_complete_group out /\ antichain out /\ all_canonical out.
Proof. exact compact_maximal. Qed.
Print Assumptions C10_compact_maximal.

(* compacting it again changes nothing (equality of lists) *)
Theorem C10_compact_idempotent : forall l out,
  all_canonical l -> antichain l -> compact l = Ok out -> compact out = Ok out.
Proof. exact compact_idempotent. Qed.
Print Assumptions C10_compact_idempotent.

(* two non-overlapping inputs covering the same region compact to the same list: the compacted form is canonical *)
Theorem C10_compact_canonical : forall l1 l2 o1 o2 R,
  all_canonical l1 -> all_canonical l2 -> antichain l1 -> antichain l2 ->
  res_le R l1 -> res_le R l2 -> R <= 29 ->
  (forall x, covers R l1 x <-> covers R l2 x) ->
  compact l1 = Ok o1 -> compact l2 = Ok o2 -> o1 = o2.
Proof. exact compact_canonical. Qed.
Print Assumptions C10_compact_canonical.

(* every sorted list of canonical cells without a complete sibling group is a fixed point *)
Theorem C10_compact_fixed l :
  all_canonical l -> no_complete_group l -> sorted_lt l -> compact l = Ok l.
Proof. exact (compact_fixed l). Qed.
Print Assumptions C10_compact_fixed.

(* non-vacuity and regression (defect D2 of the reference release, repaired): the 5 quintants of face 0 together with base cells 1..11 compact to the world cell *)
Theorem C10_compact_regression : (l <- input_a ;; compact l) = Ok [0].
Proof. exact compact_regression. Qed.
Print Assumptions C10_compact_regression.

(* an overlapping input (base cell 1 with its own quintants; defect D1 of the reference release, repaired) gives a duplicate-free result *)
Theorem C10_compact_overlapping :
  exists out, (l <- input_b ;; compact l) = Ok out /\ NoDup out /\ out = [layout (mkCell 1 0 0 0)].
Proof. exact compact_overlapping. Qed.
Print Assumptions C10_compact_overlapping.

