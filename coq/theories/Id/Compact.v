(* Model of src/core/cell_info.rs (counts) and src/core/compact.rs *)
From Coq Require Import ZArith List Bool Sorting.Mergesort Orders.
From A5 Require Import Base.Outcome Base.Word Id.Codec Id.Tree.
From A5gen Require Import TablesCur.
Import ListNotations.
Open Scope Z_scope.

(* get_num_cells / get_num_children: small finite functions, dumped by calling them
   (index i <-> resolution i - 1, for resolutions -1 .. 30) *)
Definition get_num_cells (resolution : Z) : Z :=
  if (resolution <? -1) || (resolution >? 30) then 0
  else nth (Z.to_nat (resolution + 1)) num_cells_tab 0.

(* outside the tabulated range (never reached from uncompact) and where the dump recorded a
   panic (-1) the model panics *)
Definition get_num_children (parent child : Z) : out Z :=
  if (parent <? -1) || (parent >? 30) || (child <? -1) || (child >? 30) then Panic
  else
    v <- tab_get (nth (Z.to_nat (parent + 1)) num_children_tab []) (child + 1) ;;
    if v <? 0 then Panic else Ok v.

(* Vec::with_capacity(n) for u64 elements panics with "capacity overflow" beyond isize::MAX bytes
   (and aborts on allocation failure long before; calls with such fan-out are out of scope) *)
Definition capacity_limit : Z := 2 ^ 60 - 1.

Definition uncompact (cells : list Z) (target_resolution : Z) : out (list Z) :=
  if negb ((-1 <=? target_resolution) && (target_resolution <? MAX_RESOLUTION)) then Err else
  (* first loop: validation and capacity count *)
  n <- fold_left (fun acc cell =>
                    n <- acc ;;
                    let resolution := get_resolution cell in
                    resolution_diff <- i32_sub target_resolution resolution ;;
                    if resolution_diff <? 0 then Err else
                    k <- get_num_children resolution target_resolution ;;
                    u64_add n k) cells (Ok 0) ;;
  if n >? capacity_limit then Panic else
  (* second loop *)
  r <- mapM (fun cell =>
               let resolution := get_resolution cell in
               num_children <- get_num_children resolution target_resolution ;;
               if num_children =? 1 then Ok [cell]
               else cell_to_children cell (Some target_resolution)) cells ;;
  Ok (concat r).

(* sorting: HashSet + sort_unstable_by_key is modelled as sort-by-key of the duplicate-free list *)
Definition hierarchy_key (cell : Z) : Z :=
  if get_resolution cell =? 0 then
    let face := Z.shiftr cell HILBERT_START_BIT in
    Z.lor (wrap64 (Z.shiftl (5 * face) HILBERT_START_BIT)) 1
  else cell.

(* sort_unstable_by_key(|c| (key(c), c)): the key pairs are totally ordered, so the unstable
   sort is deterministic; modelled as the standard library's merge sort of (key, id) pairs *)
Definition pair_leb (p q : Z * Z) : bool :=
  (fst p <? fst q) || ((fst p =? fst q) && (snd p <=? snd q)).

Module PairOrder <: TotalLeBool.
  Definition t := (Z * Z)%type.
  Definition leb := pair_leb.
  Theorem leb_total : forall a1 a2, leb a1 a2 = true \/ leb a2 a1 = true.
  Proof.
    intros [k1 x1] [k2 x2]; unfold leb, pair_leb; simpl.
    destruct (Z.ltb_spec k1 k2); simpl; auto.
    destruct (Z.ltb_spec k2 k1); simpl; auto.
    assert (k1 = k2) as -> by (apply Z.le_antisymm; assumption).
    rewrite Z.eqb_refl; simpl.
    destruct (Z.leb_spec x1 x2); auto.
    right. apply Z.leb_le. apply Z.lt_le_incl; assumption.
  Qed.
End PairOrder.
Module PairSort := Sort PairOrder.

Definition sort_by (key : Z -> Z) (l : list Z) : list Z :=
  map snd (PairSort.sort (map (fun x => (key x, x)) l)).

(* Vec::dedup: removes consecutive repeats *)
Fixpoint dedup (l : list Z) : list Z :=
  match l with
  | [] => []
  | x :: xs => match xs with
               | [] => [x]
               | y :: _ => if x =? y then dedup xs else x :: dedup xs
               end
  end.

Definition hsort (l : list Z) : list Z := sort_by hierarchy_key l.

Definition expected_children (resolution : Z) : Z :=
  if resolution >=? FIRST_HILBERT_RESOLUTION then 4
  else if resolution =? 0 then 12 else 5.

(* do the entries of [l] starting at offset 1.. equal cell + j*stride for j = 1 .. k-1 ? *)
Fixpoint siblings_follow (cell stride : Z) (j : Z) (k : nat) (l : list Z) : bool :=
  match k with
  | O => true
  | S k' => match l with
            | [] => false
            | y :: ys => (y =? wrap64 (cell + j * stride)) && siblings_follow cell stride (j + 1) k' ys
            end
  end.

(* one left-to-right pass over the remaining entries [l] (of length [len]);
   returns (result, changed) *)
Fixpoint compact_pass (fuel : nat) (len : Z) (l : list Z) : out (list Z * bool) :=
  match fuel with
  | O => Diverge
  | S f =>
    match l with
    | [] => Ok ([], false)
    | cell :: rest =>
      let resolution := get_resolution cell in
      if resolution <? 0 then
        '(r, ch) <- compact_pass f (len - 1) rest ;; Ok (cell :: r, ch)
      else
        let ec := expected_children resolution in
        has_all <- (if ec <=? len then
                      fc <- is_first_child cell resolution ;;
                      if fc then
                        stride <- get_stride resolution ;;
                        Ok (siblings_follow cell stride 1 (Z.to_nat ec - 1) rest)
                      else Ok false
                    else Ok false) ;;
        if has_all then
          parent <- cell_to_parent cell None ;;
          '(r, _) <- compact_pass f (len - ec) (skipn (Z.to_nat ec - 1) rest) ;;
          Ok (parent :: r, true)
        else
          '(r, ch) <- compact_pass f (len - 1) rest ;; Ok (cell :: r, ch)
    end
  end.

Fixpoint compact_loop (fuel : nat) (l : list Z) : out (list Z) :=
  match fuel with
  | O => Diverge
  | S f =>
      '(r, changed) <- compact_pass (S (length l)) (Z.of_nat (length l)) l ;;
      if changed then compact_loop f (dedup (hsort r))
      else Ok r
  end.

(* HashSet collection followed by the sort: the sorted duplicate-free list *)
Definition compact (cells : list Z) : out (list Z) :=
  match cells with
  | [] => Ok []
  | _ =>
    let current := dedup (hsort cells) in
    r <- compact_loop (S (length current)) current ;;
    Ok (sort_by (fun x => x) r)
  end.
