(* Proofs about the compact / uncompact model (Compact.v) against CompactSpec.v / TreeSpec.v.
   PART 1: uncompact returns exactly the descendants at the target resolution.
   PART 2: compact preserves the covered set, has no duplicates, and does not depend on the
           order or multiplicity of its input.
   PART 3 (item 13): totality of the functions on arbitrary (non-canonical) words.

   Statements that differ from the first formulation of the properties, and why:
   - uncompact_ok needs [capacity_ok] (pre-count <= capacity_limit, else the model panics:
     [uncompact_capacity_panic]) and [span_ok] for every input (else Err: [uncompact_too_deep]).
   - "fails with an error exactly when some input is finer than the target" is false as it stands:
     an input more than 20 curve levels coarser than the target also gives Err
     ([uncompact_too_deep]); [uncompact_err_iff] states the equivalence under the span hypothesis.
     [uncompact_too_fine] (Err or Panic) is proved as first formulated; the exact outcome is Err iff
     the pre-count of the cells before the first too-fine cell did not overflow u64
     ([uncompact_too_fine_err] / [uncompact_too_fine_panic]).
   - the tabulated child counts are not the exact fan-out in six entries (parents -1, 0, 1 with
     children 28, 29: rounded down); they never exceed it ([nchild_le_fanout]) and are exact within
     the accepted span ([nchild_span_exact]).
   - group_is_children: the sibling group equals the children of the parent as a set (and is
     duplicate free, of the expected length); as a list only from resolution 2 on
     ([group_is_children_list]), because the API order of quintants / base cells is not the ID order.
   - compact_total_any is proved for all lists of non-negative integers (hence all u64 lists,
     [compact_total_u64]); the outcome can be Err ([compact_err_example]). *)
From Coq Require Import ZArith List Bool Lia ZifyBool Sorting.Mergesort Sorting.Permutation Sorting.Sorted Orders.
From A5 Require Import Base.Outcome Base.Word Id.Codec Id.CodecSpec Id.CodecProofs Id.Tree Id.TreeSpec
  Id.TreeProofs Id.Compact Id.CompactSpec.
From A5gen Require Import TablesCur.
Import ListNotations.
Open Scope Z_scope.

Ltac Zify.zify_post_hook ::= Z.div_mod_to_equations.

(* ================================================================== *)
(* PART 1: uncompact                                                   *)
(* ================================================================== *)

(* ---------- finite checks over the regenerated table of child counts *)
Definition res_range : list Z := seqZ (-1) 31.

Lemma in_res_range r : -1 <= r <= 29 -> In r res_range.
Proof. intros; unfold res_range; rewrite in_seqZ; lia. Qed.

Lemma res_pairs_check (P : Z -> Z -> bool) :
  forallb (fun r => forallb (P r) res_range) res_range = true ->
  forall r t, -1 <= r <= 29 -> -1 <= t <= 29 -> P r t = true.
Proof.
  intros H r t Hr Ht. rewrite forallb_forall in H.
  specialize (H r (in_res_range r Hr)). rewrite forallb_forall in H.
  apply H. apply in_res_range; assumption.
Qed.

(* the table value (0 where the model would panic; never the case in range, see [num_children_in_range]) *)
Definition nchild (r t : Z) : Z := match get_num_children r t with Ok v => v | _ => 0 end.

Definition nc_check (r t : Z) : bool :=
  match get_num_children r t with
  | Ok v => (0 <=? v) && (v <? 2 ^ 63) &&
            (negb (r <=? t) || ((1 <=? v) && Bool.eqb (v =? 1) (r =? t) && (v <=? fanout r t)))
  | _ => false
  end.

Lemma nc_check_all : forallb (fun r => forallb (nc_check r) res_range) res_range = true.
Proof. vm_compute. reflexivity. Qed.

Lemma num_children_in_range r t :
  -1 <= r <= 29 -> -1 <= t <= 29 ->
  get_num_children r t = Ok (nchild r t) /\ 0 <= nchild r t < 2 ^ 63.
Proof.
  intros Hr Ht. pose proof (res_pairs_check nc_check nc_check_all r t Hr Ht) as H.
  unfold nc_check in H. unfold nchild. destruct (get_num_children r t); try discriminate.
  split; [reflexivity|]. lia.
Qed.

(* 1 *)
Theorem num_children_shortcut :
  forall r t, -1 <= r <= 29 -> -1 <= t <= 29 -> r <= t ->
  exists v, get_num_children r t = Ok v /\ 1 <= v /\ (v = 1 <-> r = t).
Proof.
  intros r t Hr Ht Hle. pose proof (res_pairs_check nc_check nc_check_all r t Hr Ht) as H.
  unfold nc_check in H. destruct (get_num_children r t) as [v| | |]; try discriminate.
  exists v. split; [reflexivity|].
  destruct (Z.eqb_spec v 1), (Z.eqb_spec r t); cbn [Bool.eqb] in H; lia.
Qed.

(* the tabulated count never exceeds the true fan-out (the dump went through f64, so the largest
   entries are rounded down; see also [nchild_exact]) *)
Lemma nchild_le_fanout r t :
  -1 <= r <= 29 -> -1 <= t <= 29 -> r <= t -> 1 <= nchild r t <= fanout r t.
Proof.
  intros Hr Ht Hle. pose proof (res_pairs_check nc_check nc_check_all r t Hr Ht) as H.
  unfold nc_check in H. unfold nchild. destruct (get_num_children r t) as [v| | |]; try discriminate. lia.
Qed.

Lemma nchild_shortcut r t :
  -1 <= r <= 29 -> -1 <= t <= 29 -> r <= t -> (nchild r t = 1 <-> r = t).
Proof.
  intros Hr Ht Hle. destruct (num_children_shortcut r t Hr Ht Hle) as (v & E & _ & Hv).
  unfold nchild. rewrite E. exact Hv.
Qed.

(* where the true fan-out is below 2^53 the table is exact *)
Definition nc_exact_check (r t : Z) : bool :=
  negb (r <=? t) || negb (fanout r t <? 2 ^ 53) || (nchild r t =? fanout r t).
Lemma nc_exact_all : forallb (fun r => forallb (nc_exact_check r) res_range) res_range = true.
Proof. vm_compute. reflexivity. Qed.
Lemma nchild_exact r t :
  -1 <= r <= 29 -> -1 <= t <= 29 -> r <= t -> fanout r t < 2 ^ 53 -> nchild r t = fanout r t.
Proof.
  intros Hr Ht Hle Hf. pose proof (res_pairs_check nc_exact_check nc_exact_all r t Hr Ht) as H.
  unfold nc_exact_check in H. lia.
Qed.

(* ---------- the two loops of uncompact *)
Definition count_step (t : Z) (acc : out Z) (cell : Z) : out Z :=
  n <- acc ;;
  let resolution := get_resolution cell in
  resolution_diff <- i32_sub t resolution ;;
  if resolution_diff <? 0 then Err else
  k <- get_num_children resolution t ;;
  u64_add n k.

Definition expand_step (t : Z) (cell : Z) : out (list Z) :=
  let resolution := get_resolution cell in
  num_children <- get_num_children resolution t ;;
  if num_children =? 1 then Ok [cell]
  else cell_to_children cell (Some t).

Lemma uncompact_unfold cells t :
  uncompact cells t =
  if negb ((-1 <=? t) && (t <? MAX_RESOLUTION)) then Err else
  n <- fold_left (count_step t) cells (Ok 0) ;;
  if n >? capacity_limit then Panic else
  r <- mapM (expand_step t) cells ;;
  Ok (concat r).
Proof. reflexivity. Qed.

(* 4: an invalid target is rejected before anything else, for any input list *)
Theorem uncompact_bad_target : forall l t, (t < -1 \/ 29 < t) -> uncompact l t = Err.
Proof.
  intros l t Ht. rewrite uncompact_unfold. unfold MAX_RESOLUTION.
  destruct (Z.leb_spec (-1) t), (Z.ltb_spec t 30); cbn [andb negb]; try reflexivity; lia.
Qed.

Lemma target_ok t : -1 <= t <= 29 -> negb ((-1 <=? t) && (t <? MAX_RESOLUTION)) = false.
Proof.
  intros Ht. unfold MAX_RESOLUTION.
  destruct (Z.leb_spec (-1) t), (Z.ltb_spec t 30); cbn [andb negb]; try reflexivity; lia.
Qed.

(* the capacity pre-count: sum of the tabulated child counts *)
Definition cap_sum (cs : list cell) (t : Z) : Z :=
  fold_right (fun c a => nchild (resolution c) t + a) 0 cs.

(* the pre-count neither overflows u64 nor exceeds the allocation limit.  All summands are
   non-negative, so every partial sum is bounded by the total, and capacity_limit < 2^64:
   this single inequality is exactly the condition under which the first loop and the
   capacity test pass (see [uncompact_capacity_panic] for the converse). *)
Definition capacity_ok (cs : list cell) (t : Z) : Prop := cap_sum cs t <= capacity_limit.

Lemma cap_sum_nonneg cs t : Forall canon cs -> -1 <= t <= 29 -> 0 <= cap_sum cs t.
Proof.
  intros Hc Ht. induction Hc as [|c cs Hc _ IH]; cbn [cap_sum fold_right]; [lia|].
  pose proof (num_children_in_range (resolution c) t (canon_res_range c Hc) Ht) as (_ & H).
  fold (cap_sum cs t). lia.
Qed.

Lemma cap_sum_app a b t : cap_sum (a ++ b) t = cap_sum a t + cap_sum b t.
Proof. unfold cap_sum. induction a as [|c a IH]; cbn [app fold_right]; [lia|]. rewrite IH. lia. Qed.

Lemma count_step_canon t n c :
  -1 <= t <= 29 -> canon c ->
  count_step t (Ok n) (layout c) =
  if t <? resolution c then Err else u64_add n (nchild (resolution c) t).
Proof.
  intros Ht Hc. pose proof (canon_res_range c Hc) as Hr.
  unfold count_step. rewrite bind_ok. cbv zeta. rewrite resolution_layout by assumption.
  rewrite i32_sub_ok by lia. rewrite bind_ok.
  destruct (Z.ltb_spec (t - resolution c) 0), (Z.ltb_spec t (resolution c)); try lia; [reflexivity|].
  destruct (num_children_in_range (resolution c) t Hr Ht) as (-> & _). reflexivity.
Qed.

Lemma count_step_err t l : fold_left (count_step t) l Err = Err.
Proof. induction l as [|x xs IH]; cbn [fold_left]; [reflexivity|exact IH]. Qed.

Lemma count_step_panic t l : fold_left (count_step t) l Panic = Panic.
Proof. induction l as [|x xs IH]; cbn [fold_left]; [reflexivity|exact IH]. Qed.

Lemma count_loop_ok cs t : -1 <= t <= 29 -> Forall canon cs ->
  (forall c, In c cs -> resolution c <= t) ->
  forall acc, 0 <= acc -> acc + cap_sum cs t < two64 ->
  fold_left (count_step t) (map layout cs) (Ok acc) = Ok (acc + cap_sum cs t).
Proof.
  intros Ht Hc. induction Hc as [|c cs Hc Hcs IH]; intros Hle acc Hacc Hsum.
  - cbn. f_equal. lia.
  - cbn [map fold_left]. cbn [cap_sum fold_right] in Hsum |- *. fold (cap_sum cs t) in Hsum |- *.
    pose proof (cap_sum_nonneg cs t Hcs Ht) as Hnn.
    pose proof (num_children_in_range (resolution c) t (canon_res_range c Hc) Ht) as (_ & Hk).
    rewrite count_step_canon by assumption.
    pose proof (Hle c (or_introl eq_refl)) as Hrc.
    destruct (Z.ltb_spec t (resolution c)); [lia|].
    rewrite u64_add_ok by lia.
    rewrite IH; [f_equal; lia| |lia|lia].
    intros c' Hin. apply Hle. right. exact Hin.
Qed.

(* overflow of the pre-count: Panic *)
Lemma count_loop_overflow cs t : -1 <= t <= 29 -> Forall canon cs ->
  (forall c, In c cs -> resolution c <= t) ->
  forall acc, 0 <= acc < two64 -> two64 <= acc + cap_sum cs t ->
  fold_left (count_step t) (map layout cs) (Ok acc) = Panic.
Proof.
  intros Ht Hc. induction Hc as [|c cs Hc Hcs IH]; intros Hle acc Hacc Hsum.
  - cbn [cap_sum fold_right] in Hsum. lia.
  - cbn [map fold_left]. cbn [cap_sum fold_right] in Hsum. fold (cap_sum cs t) in Hsum.
    rewrite count_step_canon by assumption.
    pose proof (Hle c (or_introl eq_refl)) as Hrc.
    pose proof (num_children_in_range (resolution c) t (canon_res_range c Hc) Ht) as (_ & Hk).
    destruct (Z.ltb_spec t (resolution c)); [lia|].
    unfold u64_add. destruct (Z.ltb_spec (acc + nchild (resolution c) t) two64).
    + apply IH; [|lia|lia]. intros c' Hin. apply Hle. right. exact Hin.
    + apply count_step_panic.
Qed.

Lemma expand_step_canon t c :
  -1 <= t <= 29 -> canon c -> resolution c <= t -> span_ok (resolution c) t ->
  expand_step t (layout c) = Ok (map layout (desc_cells c t)).
Proof.
  intros Ht Hc Hle Hspan. pose proof (canon_res_range c Hc) as Hr.
  unfold expand_step. cbv zeta. rewrite resolution_layout by assumption.
  destruct (num_children_in_range (resolution c) t Hr Ht) as (-> & _). rewrite bind_ok.
  pose proof (nchild_shortcut (resolution c) t Hr Ht Hle) as Hs.
  destruct (Z.eqb_spec (nchild (resolution c) t) 1) as [E|E].
  - apply Hs in E. rewrite desc_cells_eq. rewrite <- E, Z.eqb_refl. reflexivity.
  - apply children_spec; [assumption|lia|assumption].
Qed.

Lemma concat_map_flat_map {A B} (f : A -> list B) l : concat (map f l) = flat_map f l.
Proof. symmetry. apply flat_map_concat_map. Qed.

(* 2 *)
Theorem uncompact_ok : forall cs t,
  Forall canon cs -> -1 <= t <= 29 ->
  (forall c, In c cs -> resolution c <= t /\ span_ok (resolution c) t) ->
  capacity_ok cs t ->
  uncompact (map layout cs) t = Ok (flat_map (fun c => map layout (desc_cells c t)) cs).
Proof.
  intros cs t Hc Ht Hcs Hcap. unfold capacity_ok in Hcap.
  rewrite uncompact_unfold, target_ok by assumption.
  pose proof (cap_sum_nonneg cs t Hc Ht) as Hnn.
  rewrite count_loop_ok;
    [|assumption|assumption|intros c Hin; apply Hcs; assumption|lia|unfold capacity_limit, two64 in *; lia].
  rewrite bind_ok. rewrite Z.add_0_l.
  destruct (Z.gtb_spec (cap_sum cs t) capacity_limit); [lia|].
  rewrite Forall_forall in Hc.
  rewrite (mapM_ok_map _ (fun i => match deserialize i with Ok c => map layout (desc_cells c t) | _ => [] end)).
  - rewrite bind_ok. f_equal. rewrite concat_map_flat_map.
    rewrite flat_map_concat_map, map_map, <- flat_map_concat_map.
    apply flat_map_ext_in. intros c Hin.
    rewrite deserialize_layout by (apply Hc; assumption). reflexivity.
  - intros i Hin. rewrite in_map_iff in Hin. destruct Hin as (c & <- & Hin).
    rewrite deserialize_layout by (apply Hc; assumption).
    apply expand_step_canon; try assumption; [apply Hc; assumption|apply Hcs; assumption..].
Qed.

(* the pre-count exceeds the limit: Panic ("capacity overflow"), never a wrong answer *)
Theorem uncompact_capacity_panic cs t :
  Forall canon cs -> -1 <= t <= 29 -> (forall c, In c cs -> resolution c <= t) ->
  ~ capacity_ok cs t -> uncompact (map layout cs) t = Panic.
Proof.
  intros Hc Ht Hle Hcap. unfold capacity_ok in Hcap.
  rewrite uncompact_unfold, target_ok by assumption.
  destruct (Z_lt_dec (cap_sum cs t) two64) as [Hlt|Hge].
  - rewrite count_loop_ok by (try assumption; lia). rewrite bind_ok, Z.add_0_l.
    destruct (Z.gtb_spec (cap_sum cs t) capacity_limit); [reflexivity|lia].
  - rewrite count_loop_overflow by (try assumption; unfold two64 in *; lia). reflexivity.
Qed.

(* sufficient conditions for capacity_ok in terms of the true fan-out *)
Definition fan_sum (cs : list cell) (t : Z) : Z :=
  fold_right (fun c a => fanout (resolution c) t + a) 0 cs.

Lemma cap_sum_le_fan_sum cs t :
  Forall canon cs -> -1 <= t <= 29 -> (forall c, In c cs -> resolution c <= t) ->
  cap_sum cs t <= fan_sum cs t.
Proof.
  intros Hc Ht. induction Hc as [|c cs Hc _ IH]; intros Hle; cbn [cap_sum fan_sum fold_right]; [lia|].
  fold (cap_sum cs t). fold (fan_sum cs t).
  pose proof (nchild_le_fanout (resolution c) t (canon_res_range c Hc) Ht (Hle c (or_introl eq_refl))).
  assert (cap_sum cs t <= fan_sum cs t) by (apply IH; intros c' Hin; apply Hle; right; exact Hin).
  lia.
Qed.

Theorem capacity_ok_small cs t :
  Forall canon cs -> -1 <= t <= 29 -> (forall c, In c cs -> resolution c <= t) ->
  fan_sum cs t <= capacity_limit -> capacity_ok cs t.
Proof.
  intros Hc Ht Hle Hf. unfold capacity_ok.
  pose proof (cap_sum_le_fan_sum cs t Hc Ht Hle). lia.
Qed.

(* within the span accepted by cell_to_children a single cell expands to fewer than 2^46 cells,
   so up to 2^13 inputs are always within the capacity *)
Definition span_check (r t : Z) : bool :=
  negb (r <=? t) || negb (t - Z.max r 1 <=? 20) || (nchild r t <? 2 ^ 46).
Lemma span_check_all : forallb (fun r => forallb (span_check r) res_range) res_range = true.
Proof. vm_compute. reflexivity. Qed.

Theorem capacity_ok_span cs t :
  Forall canon cs -> -1 <= t <= 29 ->
  (forall c, In c cs -> resolution c <= t /\ span_ok (resolution c) t) ->
  Z.of_nat (length cs) <= 2 ^ 13 -> capacity_ok cs t.
Proof.
  intros Hc Ht Hcs Hlen. unfold capacity_ok.
  assert (H : cap_sum cs t <= Z.of_nat (length cs) * 2 ^ 46).
  { clear Hlen. induction Hc as [|c cs Hc _ IH]; cbn [cap_sum fold_right length]; [lia|].
    fold (cap_sum cs t).
    destruct (Hcs c (or_introl eq_refl)) as (Hle & Hspan). unfold span_ok in Hspan.
    pose proof (res_pairs_check span_check span_check_all (resolution c) t (canon_res_range c Hc) Ht) as Hchk.
    unfold span_check in Hchk.
    assert (cap_sum cs t <= Z.of_nat (length cs) * 2 ^ 46) by (apply IH; intros c' Hin; apply Hcs; right; exact Hin).
    lia. }
  unfold capacity_limit. lia.
Qed.

(* within the accepted span the tabulated count is the exact fan-out (the six rounded entries of the
   table, (-1|0|1, 28|29), are all beyond the span), so under the hypotheses of [uncompact_ok]
   capacity_ok says exactly that the number of output cells is at most capacity_limit *)
Definition span_exact_check (r t : Z) : bool :=
  negb (r <=? t) || negb (t - Z.max r 1 <=? 20) || (nchild r t =? fanout r t).
Lemma span_exact_all : forallb (fun r => forallb (span_exact_check r) res_range) res_range = true.
Proof. vm_compute. reflexivity. Qed.

Lemma nchild_span_exact r t :
  -1 <= r <= 29 -> -1 <= t <= 29 -> r <= t -> span_ok r t -> nchild r t = fanout r t.
Proof.
  intros Hr Ht Hle Hs. unfold span_ok in Hs.
  pose proof (res_pairs_check span_exact_check span_exact_all r t Hr Ht) as H.
  unfold span_exact_check in H. lia.
Qed.

Theorem capacity_ok_iff_fan_sum cs t :
  Forall canon cs -> -1 <= t <= 29 ->
  (forall c, In c cs -> resolution c <= t /\ span_ok (resolution c) t) ->
  (capacity_ok cs t <-> fan_sum cs t <= capacity_limit).
Proof.
  intros Hc Ht Hcs. unfold capacity_ok.
  assert (E : cap_sum cs t = fan_sum cs t).
  { induction Hc as [|c cs Hc _ IH]; [reflexivity|]. cbn [cap_sum fan_sum fold_right].
    fold (cap_sum cs t). fold (fan_sum cs t).
    destruct (Hcs c (or_introl eq_refl)) as (Hle & Hs).
    rewrite (nchild_span_exact _ _ (canon_res_range c Hc) Ht Hle Hs).
    rewrite IH; [reflexivity|]. intros c' Hin. apply Hcs. right. exact Hin. }
  rewrite E. reflexivity.
Qed.

(* ---------- 5: corollaries of uncompact_ok with the tree theorems *)
Lemma flat_desc_length cs t :
  Forall canon cs -> -1 <= t <= 29 -> (forall c, In c cs -> resolution c <= t) ->
  Z.of_nat (length (flat_map (fun c => map layout (desc_cells c t)) cs)) = fan_sum cs t.
Proof.
  intros Hc Ht. induction Hc as [|c cs' Hcc Hcs' IH]; intros Hle; [reflexivity|].
  cbn [flat_map fan_sum fold_right]. fold (fan_sum cs' t).
  rewrite app_length, map_length, Nat2Z.inj_add.
  rewrite desc_length by (try assumption; pose proof (Hle c (or_introl eq_refl)); lia).
  rewrite IH; [reflexivity|]. intros c' Hin. apply Hle. right. exact Hin.
Qed.

Section UncompactCorollaries.
  Variables (cs : list cell) (t : Z) (out : list Z).
  Hypothesis Hc : Forall canon cs.
  Hypothesis Ht : -1 <= t <= 29.
  Hypothesis Hcs : forall c, In c cs -> resolution c <= t /\ span_ok (resolution c) t.
  Hypothesis Hcap : capacity_ok cs t.
  Hypothesis Hout : uncompact (map layout cs) t = Ok out.

  (* the result is the concatenation, in input order, of the descendants of each input *)
  Lemma uncompact_concat : out = flat_map (fun c => map layout (desc_cells c t)) cs.
  Proof. rewrite uncompact_ok in Hout by assumption. congruence. Qed.

  (* every output is a canonical cell of resolution t whose ancestor at the resolution of
     some input is that input; conversely every such cell is output *)
  Theorem uncompact_member x :
    In x out <->
    exists c d, In c cs /\ canon d /\ resolution d = t /\ anc d (resolution c) = c /\ x = layout d.
  Proof.
    rewrite uncompact_concat. rewrite in_flat_map. pose proof Hc as Hc'. rewrite Forall_forall in Hc'. split.
    - intros (c & Hin & Hx). rewrite in_map_iff in Hx. destruct Hx as (d & <- & Hd).
      apply desc_char in Hd; [|apply Hc'; assumption|destruct (Hcs c Hin); lia].
      destruct Hd as (Hcd & Hrd & Ha). exists c, d. auto.
    - intros (c & d & Hin & Hcd & Hrd & Ha & ->). exists c. split; [assumption|].
      apply in_map. apply desc_char; [apply Hc'; assumption|destruct (Hcs c Hin); lia|auto].
  Qed.

  Theorem uncompact_resolution x : In x out -> canonical_id x /\ get_resolution x = t.
  Proof.
    intros Hx. apply uncompact_member in Hx. destruct Hx as (c & d & _ & Hcd & Hrd & _ & ->).
    split; [exists d; auto|]. rewrite resolution_layout by assumption. exact Hrd.
  Qed.

  (* the outputs of one input are pairwise distinct *)
  Theorem uncompact_group_NoDup c : In c cs -> NoDup (map layout (desc_cells c t)).
  Proof.
    intros Hin. pose proof Hc as Hc'. rewrite Forall_forall in Hc'.
    apply children_NoDup; [apply Hc'; assumption|destruct (Hcs c Hin); lia].
  Qed.

  Theorem uncompact_length : Z.of_nat (length out) = fan_sum cs t.
  Proof.
    rewrite uncompact_concat. apply flat_desc_length; try assumption.
    intros c Hin. apply Hcs. assumption.
  Qed.

  (* inputs that are pairwise distinct and not nested give pairwise distinct outputs *)
  Theorem uncompact_NoDup :
    NoDup cs -> (forall a b, In a cs -> In b cs -> ~ proper_ancestor a b) -> NoDup out.
  Proof.
    intros Hnd Hanti. rewrite uncompact_concat. pose proof Hc as Hc'. rewrite Forall_forall in Hc'.
    apply NoDup_flat_map; [assumption|intros c Hin; apply uncompact_group_NoDup; assumption|].
    intros a b z Ha Hb Hza Hzb. rewrite in_map_iff in Hza, Hzb.
    destruct Hza as (d & <- & Hd), Hzb as (d' & E & Hd').
    pose proof (Hc' a Ha) as Hca. pose proof (Hc' b Hb) as Hcb.
    apply desc_char in Hd; [|assumption|destruct (Hcs a Ha); lia].
    apply desc_char in Hd'; [|assumption|destruct (Hcs b Hb); lia].
    destruct Hd as (Hcd & Hrd & Haa), Hd' as (Hcd' & Hrd' & Hab).
    apply layout_injective in E; [|assumption..]. subst d'.
    pose proof (canon_res_range a Hca) as Hra. pose proof (canon_res_range b Hcb) as Hrb.
    destruct (Hcs a Ha) as (Hat & _). destruct (Hcs b Hb) as (Hbt & _).
    destruct (Z.lt_trichotomy (resolution a) (resolution b)) as [Hlt|[Heq|Hgt]].
    - exfalso. apply (Hanti a b Ha Hb). split; [assumption|].
      rewrite <- Hab. rewrite anc_compose by (try assumption; lia). exact Haa.
    - rewrite <- Haa, <- Hab, Heq. reflexivity.
    - exfalso. apply (Hanti b a Hb Ha). split; [assumption|].
      rewrite <- Haa. rewrite anc_compose by (try assumption; lia). exact Hab.
  Qed.
End UncompactCorollaries.

(* ---------- 3: inputs finer than the target *)
Lemma count_loop_too_fine cs t : -1 <= t <= 29 -> Forall canon cs ->
  (exists c, In c cs /\ t < resolution c) ->
  forall acc, fold_left (count_step t) (map layout cs) (Ok acc) = Err \/
              fold_left (count_step t) (map layout cs) (Ok acc) = Panic.
Proof.
  intros Ht Hc. induction Hc as [|c cs Hc Hcs IH]; intros (c0 & Hin & Hfine) acc.
  - destruct Hin.
  - cbn [map fold_left]. rewrite count_step_canon by assumption.
    destruct (Z.ltb_spec t (resolution c)).
    + left. apply count_step_err.
    + unfold u64_add. destruct (acc + nchild (resolution c) t <? two64).
      * apply IH. destruct Hin as [->|Hin]; [lia|]. exists c0. auto.
      * right. apply count_step_panic.
Qed.

(* statement as requested (its last hypothesis is vacuous): with a too-fine input the call never
   succeeds; see [uncompact_too_fine_err] for when the outcome is exactly Err *)
Theorem uncompact_too_fine : forall cs t,
  Forall canon cs -> -1 <= t <= 29 -> (exists c, In c cs /\ t < resolution c) ->
  (forall c, In c cs -> True) ->
  uncompact (map layout cs) t = Err \/ uncompact (map layout cs) t = Panic.
Proof.
  intros cs t Hc Ht Hex _. rewrite uncompact_unfold, target_ok by assumption.
  destruct (count_loop_too_fine cs t Ht Hc Hex 0) as [-> | ->]; auto.
Qed.

(* precise form: the first loop stops with Err at the first too-fine cell, provided the pre-count
   of the cells before it did not overflow u64 (an overflow there gives Panic instead) *)
Theorem uncompact_too_fine_err pre c post t :
  Forall canon (pre ++ c :: post) -> -1 <= t <= 29 ->
  (forall c', In c' pre -> resolution c' <= t) -> t < resolution c ->
  cap_sum pre t < two64 ->
  uncompact (map layout (pre ++ c :: post)) t = Err.
Proof.
  intros Hc Ht Hpre Hfine Hcap. rewrite uncompact_unfold, target_ok by assumption.
  apply Forall_app in Hc. destruct Hc as (Hcpre & Hcc). inversion Hcc as [|? ? Hc Hcpost]; subst.
  rewrite map_app, fold_left_app. cbn [map fold_left].
  rewrite count_loop_ok by (try assumption; lia).
  rewrite count_step_canon by assumption.
  destruct (Z.ltb_spec t (resolution c)); [|lia].
  rewrite count_step_err. reflexivity.
Qed.

Theorem uncompact_too_fine_panic pre c post t :
  Forall canon (pre ++ c :: post) -> -1 <= t <= 29 ->
  (forall c', In c' pre -> resolution c' <= t) ->
  two64 <= cap_sum pre t ->
  uncompact (map layout (pre ++ c :: post)) t = Panic.
Proof.
  intros Hc Ht Hpre Hcap. rewrite uncompact_unfold, target_ok by assumption.
  apply Forall_app in Hc. destruct Hc as (Hcpre & Hcc).
  rewrite map_app, fold_left_app.
  rewrite count_loop_overflow by (try assumption; unfold two64 in *; lia).
  rewrite count_step_panic. reflexivity.
Qed.

Lemma first_too_fine (cs : list cell) t :
  (exists c, In c cs /\ t < resolution c) ->
  exists pre c post, cs = pre ++ c :: post /\ (forall c', In c' pre -> resolution c' <= t) /\ t < resolution c.
Proof.
  induction cs as [|a cs IH]; intros (c & Hin & Hf); [destruct Hin|].
  destruct (Z_lt_dec t (resolution a)) as [Ha|Ha].
  - exists [], a, cs. split; [reflexivity|]. split; [intros ? []|assumption].
  - destruct Hin as [->|Hin]; [lia|].
    destruct IH as (pre & c' & post & -> & Hpre & Hc'); [exists c; auto|].
    exists (a :: pre), c', post. split; [reflexivity|]. split; [|assumption].
    intros x [<-|Hx]; [lia|apply Hpre; assumption].
Qed.

(* cells finer than the target contribute 0 to the pre-count (the table holds 0 below the
   diagonal), so capacity_ok is meaningful for arbitrary inputs *)
Lemma cap_sum_prefix pre post t :
  Forall canon (pre ++ post) -> -1 <= t <= 29 -> cap_sum pre t <= cap_sum (pre ++ post) t.
Proof.
  intros Hc Ht. apply Forall_app in Hc. destruct Hc as (_ & Hpost).
  rewrite cap_sum_app. pose proof (cap_sum_nonneg post t Hpost Ht). lia.
Qed.

(* an input that is coarser than the target by more than the span accepted by cell_to_children
   (20 curve levels) also makes the call fail with Err: "exactly when some input is finer" needs
   the span hypothesis *)
Lemma expand_step_outcome t c :
  -1 <= t <= 29 -> canon c -> resolution c <= t ->
  expand_step t (layout c) = if t - Z.max (resolution c) 1 <=? 20 then Ok (map layout (desc_cells c t)) else Err.
Proof.
  intros Ht Hc Hle. pose proof (canon_res_range c Hc) as Hr.
  destruct (Z.leb_spec (t - Z.max (resolution c) 1) 20) as [Hs|Hs].
  - apply expand_step_canon; assumption.
  - unfold expand_step. cbv zeta. rewrite resolution_layout by assumption.
    destruct (num_children_in_range (resolution c) t Hr Ht) as (-> & _). rewrite bind_ok.
    pose proof (nchild_shortcut (resolution c) t Hr Ht Hle) as Hsc.
    destruct (Z.eqb_spec (nchild (resolution c) t) 1) as [E|E]; [apply Hsc in E; lia|].
    apply children_too_deep; [assumption|lia|unfold span_ok; lia].
Qed.

Lemma mapM_some_err {A B} (f : A -> out B) l :
  (forall x, In x l -> f x = Err \/ exists y, f x = Ok y) -> (exists x, In x l /\ f x = Err) -> mapM f l = Err.
Proof.
  induction l as [|a l IH]; intros Hall (x & Hin & Hx); [destruct Hin|].
  cbn [mapM]. destruct (Hall a (or_introl eq_refl)) as [->|(y & Ey)]; [reflexivity|].
  rewrite Ey, bind_ok. rewrite IH; [reflexivity| |].
  - intros z Hz. apply Hall. right. exact Hz.
  - destruct Hin as [->|Hin]; [congruence|]. exists x. auto.
Qed.

Theorem uncompact_too_deep cs t :
  Forall canon cs -> -1 <= t <= 29 -> (forall c, In c cs -> resolution c <= t) -> capacity_ok cs t ->
  (exists c, In c cs /\ ~ span_ok (resolution c) t) ->
  uncompact (map layout cs) t = Err.
Proof.
  intros Hc Ht Hle Hcap (c0 & Hin0 & Hspan). unfold capacity_ok in Hcap.
  rewrite uncompact_unfold, target_ok by assumption.
  pose proof (cap_sum_nonneg cs t Hc Ht) as Hnn.
  rewrite count_loop_ok by (try assumption; unfold capacity_limit, two64 in *; lia).
  rewrite bind_ok, Z.add_0_l. destruct (Z.gtb_spec (cap_sum cs t) capacity_limit); [lia|].
  rewrite Forall_forall in Hc.
  rewrite mapM_some_err; [reflexivity| |].
  - intros i Hi. rewrite in_map_iff in Hi. destruct Hi as (c & <- & Hin).
    rewrite expand_step_outcome by (first [assumption|apply Hc; assumption|apply Hle; assumption]).
    destruct (t - Z.max (resolution c) 1 <=? 20); [right; eexists; reflexivity|left; reflexivity].
  - exists (layout c0). split; [apply in_map; assumption|].
    rewrite expand_step_outcome by (first [assumption|apply Hc; assumption|apply Hle; assumption]).
    unfold span_ok in Hspan. destruct (Z.leb_spec (t - Z.max (resolution c0) 1) 20); [lia|reflexivity].
Qed.

(* the property as stated, under the hypotheses that make it true: valid target, every input that is
   not finer than the target is within the accepted span, and the pre-count is within capacity *)
Theorem uncompact_err_iff cs t :
  Forall canon cs -> -1 <= t <= 29 ->
  (forall c, In c cs -> resolution c <= t -> span_ok (resolution c) t) ->
  capacity_ok cs t ->
  (uncompact (map layout cs) t = Err <-> exists c, In c cs /\ t < resolution c) /\
  (uncompact (map layout cs) t = Err \/
   uncompact (map layout cs) t = Ok (flat_map (fun c => map layout (desc_cells c t)) cs)).
Proof.
  intros Hc Ht Hspan Hcap.
  assert (Hdec : (exists c, In c cs /\ t < resolution c) \/ (forall c, In c cs -> resolution c <= t)).
  { clear. induction cs as [|a cs IH]; [right; intros ? []|].
    destruct (Z_lt_dec t (resolution a)); [left; exists a; split; [left; reflexivity|assumption]|].
    destruct IH as [(c & Hin & Hf)|Hall]; [left; exists c; split; [right|]; assumption|].
    right. intros c [<-|Hin]; [lia|apply Hall; assumption]. }
  destruct Hdec as [Hex|Hall].
  - assert (E : uncompact (map layout cs) t = Err).
    { destruct (first_too_fine cs t Hex) as (pre & c & post & -> & Hpre & Hfine).
      apply uncompact_too_fine_err; try assumption.
      pose proof (cap_sum_prefix pre (c :: post) t Hc Ht). unfold capacity_ok, capacity_limit, two64 in *. lia. }
    split; [split; auto|left; exact E].
  - assert (E : uncompact (map layout cs) t = Ok (flat_map (fun c => map layout (desc_cells c t)) cs)).
    { apply uncompact_ok; try assumption. intros c Hin. split; [apply Hall; assumption|].
      apply Hspan; [assumption|apply Hall; assumption]. }
    split; [|right; exact E]. rewrite E. split; [discriminate|].
    intros (c & Hin & Hf). specialize (Hall c Hin). lia.
Qed.
(* ================================================================== *)
(* PART 2: compact                                                     *)
(* ================================================================== *)

(* ---------- 6: sorting and dedup *)
Lemma pair_leb_refl p : pair_leb p p = true.
Proof. unfold pair_leb. lia. Qed.

Lemma pair_leb_trans p q r : pair_leb p q = true -> pair_leb q r = true -> pair_leb p r = true.
Proof. unfold pair_leb. destruct p, q, r; cbn [fst snd]. lia. Qed.

Lemma pair_leb_antisym p q : pair_leb p q = true -> pair_leb q p = true -> p = q.
Proof. unfold pair_leb. destruct p, q; cbn [fst snd]. intros. f_equal; lia. Qed.

Lemma pair_leb_Transitive : RelationClasses.Transitive (fun x y : Z * Z => is_true (pair_leb x y)).
Proof. intros p q r. unfold is_true. apply pair_leb_trans. Qed.

(* the order induced on IDs by sorting on (key, id) *)
Definition kle (key : Z -> Z) (x y : Z) : Prop := pair_leb (key x, x) (key y, y) = true.
Definition klt (key : Z -> Z) (x y : Z) : Prop := kle key x y /\ x <> y.

Lemma kle_refl key x : kle key x x.
Proof. apply pair_leb_refl. Qed.
Lemma kle_trans key x y z : kle key x y -> kle key y z -> kle key x z.
Proof. apply pair_leb_trans. Qed.
Lemma kle_antisym key x y : kle key x y -> kle key y x -> x = y.
Proof. intros H1 H2. pose proof (pair_leb_antisym _ _ H1 H2) as E. inversion E. reflexivity. Qed.
Lemma kle_total key x y : kle key x y \/ kle key y x.
Proof. apply PairOrder.leb_total. Qed.

Theorem sort_by_perm key l : Permutation (sort_by key l) l.
Proof.
  unfold sort_by.
  rewrite <- (map_id l) at 2.
  rewrite <- (map_ext (fun x => snd (key x, x)) (fun x => x)) by reflexivity.
  rewrite <- (map_map (fun x => (key x, x)) snd).
  apply Permutation_map. apply Permutation_sym. apply PairSort.Permuted_sort.
Qed.

Theorem hsort_perm l : Permutation (hsort l) l.
Proof. apply sort_by_perm. Qed.

Lemma sort_by_in key l x : In x (sort_by key l) <-> In x l.
Proof.
  split; apply Permutation_in; [apply sort_by_perm|apply Permutation_sym, sort_by_perm].
Qed.

Lemma sort_by_length key l : length (sort_by key l) = length l.
Proof. apply Permutation_length, sort_by_perm. Qed.

Lemma sort_by_pairs key l :
  PairSort.sort (map (fun x => (key x, x)) l) = map (fun x => (key x, x)) (sort_by key l).
Proof.
  unfold sort_by. rewrite map_map. rewrite <- (map_id (PairSort.sort _)) at 1.
  apply map_ext_in. intros p Hp.
  apply (Permutation_in _ (Permutation_sym (PairSort.Permuted_sort _))) in Hp.
  rewrite in_map_iff in Hp. destruct Hp as (x & <- & _). reflexivity.
Qed.

Theorem sort_by_sorted key l : StronglySorted (kle key) (sort_by key l).
Proof.
  pose proof (PairSort.StronglySorted_sort (map (fun x => (key x, x)) l) pair_leb_Transitive) as H.
  rewrite sort_by_pairs in H. induction (sort_by key l) as [|x xs IH]; [constructor|].
  cbn [map] in H. inversion H as [|? ? Hs Hf]; subst. constructor; [apply IH; exact Hs|].
  rewrite Forall_forall in Hf |- *. intros y Hy. apply (Hf (key y, y)). apply in_map_iff. exists y. auto.
Qed.

Theorem hsort_sorted l : StronglySorted (kle hierarchy_key) (hsort l).
Proof. apply sort_by_sorted. Qed.

(* dedup *)
Lemma dedup_cons2 x y r : dedup (x :: y :: r) = if x =? y then dedup (y :: r) else x :: dedup (y :: r).
Proof. reflexivity. Qed.

Theorem dedup_in l x : In x (dedup l) <-> In x l.
Proof.
  induction l as [|a l IH]; [reflexivity|]. destruct l as [|b r]; [reflexivity|].
  rewrite dedup_cons2. destruct (Z.eqb_spec a b) as [->|Hne].
  - rewrite IH. cbn [In]. tauto.
  - cbn [In] in *. rewrite IH. tauto.
Qed.

Lemma dedup_length l : (length (dedup l) <= length l)%nat.
Proof.
  induction l as [|a l IH]; [apply le_n|]. destruct l as [|b r]; [apply le_n|].
  rewrite dedup_cons2. destruct (a =? b); cbn [length] in *; lia.
Qed.

Lemma dedup_nil l : dedup l = [] -> l = [].
Proof.
  induction l as [|a l IH]; [reflexivity|]. destruct l as [|b r]; [discriminate|].
  rewrite dedup_cons2. destruct (a =? b); [|discriminate]. intros H. specialize (IH H). discriminate.
Qed.

(* in a list sorted by a total order equal elements are adjacent: dedup leaves a strictly sorted list *)
Lemma dedup_strict key l : StronglySorted (kle key) l -> StronglySorted (klt key) (dedup l).
Proof.
  induction l as [|a l IH]; intros Hs; [constructor|]. destruct l as [|b r]; [constructor; constructor|].
  inversion Hs as [|? ? Hs' Hf]; subst. specialize (IH Hs').
  rewrite dedup_cons2. destruct (Z.eqb_spec a b) as [->|Hne]; [exact IH|].
  constructor; [exact IH|]. rewrite Forall_forall in Hf |- *. intros z Hz. rewrite dedup_in in Hz.
  split; [apply Hf; exact Hz|]. intros <-.
  inversion Hs' as [|? ? _ Hf']; subst. rewrite Forall_forall in Hf'.
  apply Hne. apply (kle_antisym key).
  - apply Hf. left. reflexivity.
  - destruct Hz as [<-|Hz]; [apply kle_refl|apply Hf'; exact Hz].
Qed.

Lemma strict_sorted_NoDup key l : StronglySorted (klt key) l -> NoDup l.
Proof.
  induction 1 as [|a l Hs IH Hf]; constructor; [|exact IH].
  rewrite Forall_forall in Hf. intros Hin. destruct (Hf a Hin) as (_ & Hne). apply Hne. reflexivity.
Qed.

Theorem dedup_sorted_NoDup l : NoDup (dedup (hsort l)).
Proof. apply (strict_sorted_NoDup hierarchy_key), dedup_strict, hsort_sorted. Qed.

(* a strictly sorted list is determined by its set of elements *)
Theorem strict_sorted_unique key l1 l2 :
  StronglySorted (klt key) l1 -> StronglySorted (klt key) l2 -> same_set l1 l2 -> l1 = l2.
Proof.
  intros H1. revert l2. induction H1 as [|a l1 Hs1 IH Hf1]; intros l2 H2 Hset.
  - destruct l2 as [|b l2]; [reflexivity|]. exfalso. apply (Hset b). left. reflexivity.
  - destruct H2 as [|b l2 Hs2 Hf2]; [exfalso; apply (Hset a); left; reflexivity|].
    rewrite Forall_forall in Hf1, Hf2.
    assert (a = b) as <-.
    { assert (Ha : In a (b :: l2)) by (apply Hset; left; reflexivity).
      assert (Hb : In b (a :: l1)) by (apply Hset; left; reflexivity).
      destruct Ha as [E|Ha]; [congruence|]. destruct Hb as [E|Hb]; [congruence|].
      apply (kle_antisym key); [apply Hf1; exact Hb|apply Hf2; exact Ha]. }
    f_equal. apply IH; [exact Hs2|]. intros x. split; intros Hx.
    + assert (Hx' : In x (a :: l2)) by (apply Hset; right; exact Hx).
      destruct Hx' as [<-|Hx']; [|exact Hx']. exfalso. apply (Hf1 a Hx). reflexivity.
    + assert (Hx' : In x (a :: l1)) by (apply Hset; right; exact Hx).
      destruct Hx' as [<-|Hx']; [|exact Hx']. exfalso. apply (Hf2 a Hx). reflexivity.
Qed.

Theorem dedup_hsort_unique l l' : same_set l l' -> dedup (hsort l) = dedup (hsort l').
Proof.
  intros Hset. apply (strict_sorted_unique hierarchy_key); try (apply dedup_strict, hsort_sorted).
  intros x. rewrite !dedup_in. unfold hsort. rewrite !sort_by_in. apply Hset.
Qed.

Lemma dedup_hsort_in l x : In x (dedup (hsort l)) <-> In x l.
Proof. rewrite dedup_in. apply sort_by_in. Qed.

Lemma dedup_hsort_length l : (length (dedup (hsort l)) <= length l)%nat.
Proof. pose proof (dedup_length (hsort l)). unfold hsort in *. rewrite sort_by_length in *. assumption. Qed.

(* the final sort by ID *)
Lemma sort_id_sorted l : NoDup l -> sorted_lt (sort_by (fun x => x) l).
Proof.
  intros Hnd.
  assert (Hnd' : NoDup (sort_by (fun x => x) l)).
  { eapply Permutation_NoDup; [apply Permutation_sym, sort_by_perm|exact Hnd]. }
  pose proof (sort_by_sorted (fun x => x) l) as Hs.
  induction Hs as [|a r Hs IH Hf]; [constructor|].
  inversion Hnd' as [|? ? Hnin Hnd'']; subst. specialize (IH Hnd'').
  destruct r as [|b r]; constructor; [|exact IH].
  rewrite Forall_forall in Hf. pose proof (Hf b (or_introl eq_refl)) as Hab.
  unfold kle, pair_leb in Hab. cbn [fst snd] in Hab.
  assert (a <> b) by (intros ->; apply Hnin; left; reflexivity). lia.
Qed.

(* ---------- 7: the merge step *)
Definition stride_of (r : Z) : Z := if r <? 2 then 2 ^ 58 else 2 ^ (60 - 2 * r).

Lemma get_stride_spec r : 0 <= r <= 29 -> get_stride r = Ok (stride_of r).
Proof.
  intros H. assert (H' : -1 <= r <= 29) by lia.
  split_res H'; try lia; vm_compute; reflexivity.
Qed.

Lemma stride_of_pos r : 0 <= r <= 29 -> 0 < stride_of r.
Proof. intros H. unfold stride_of. destruct (r <? 2); apply pow2_pos; lia. Qed.

(* is_first_child reads the 6-bit prefix (resolutions 0, 1) or the last curve digit *)
Definition first_child_test (i r : Z) : bool :=
  if r =? 0 then (i / 2 ^ 58) mod 12 =? 0
  else if r =? 1 then (i / 2 ^ 58) mod 5 =? 0
  else Z.land i (3 * 2 ^ (60 - 2 * r)) =? 0.

Lemma is_first_child_spec i r : 0 <= r <= 29 -> is_first_child i r = Ok (first_child_test i r).
Proof.
  intros H. assert (H' : -1 <= r <= 29) by lia. unfold is_first_child, first_child_test, HILBERT_START_BIT.
  split_res H'; try lia; ev; try (rewrite shr_div by lia); reflexivity.
Qed.

Lemma land_mask2 x k : 0 <= k -> Z.land x (3 * 2 ^ k) = ((x / 2 ^ k) mod 4) * 2 ^ k.
Proof.
  intros Hk. rewrite <- shl_mul, <- shl_mul, <- shr_div by assumption.
  change 4 with (2 ^ 2). rewrite <- land_ones_mod by lia. change (2 ^ 2 - 1) with 3.
  apply Z.bits_inj'. intros n Hn.
  rewrite Z.land_spec, !Z.shiftl_spec by assumption. rewrite Z.land_spec.
  destruct (Z_lt_dec n k) as [Hlt|Hge].
  - rewrite (Z.testbit_neg_r 3) by lia. rewrite !andb_false_r. reflexivity.
  - rewrite Z.shiftr_spec by lia. replace (n - k + k) with n by lia. reflexivity.
Qed.

Lemma layout_div_idx c :
  canon c -> 1 <= resolution c -> layout c / 2 ^ (60 - 2 * resolution c) = idx c.
Proof.
  intros Hc Hr. pose proof (canon_res_range c Hc) as Hr'.
  rewrite layout_idx by assumption.
  pose proof (mark_bounds (resolution c) ltac:(lia)) as Hm.
  rewrite Z.div_add_l by (apply Z.pow_nonzero; lia).
  rewrite Z.div_small by lia. lia.
Qed.

Lemma first_child_test_canon c :
  canon c -> 0 <= resolution c ->
  first_child_test (layout c) (resolution c) =
  if resolution c =? 0 then origin_id c =? 0
  else if resolution c =? 1 then segment c =? fq (origin_id c)
  else s c mod 4 =? 0.
Proof.
  intros Hc Hr0. pose proof (canon_res_range c Hc) as Hr.
  unfold first_child_test.
  destruct (Z.eqb_spec (resolution c) 0) as [E0|N0].
  - destruct c as [o sg sv r]. unfold canon in Hc. projs_in Hc. projs_in E0. subst r.
    destruct Hc as (_ & _ & Ho & _). unfold layout; projs. ev. ev_pow. lia.
  - destruct (Z.eqb_spec (resolution c) 1) as [E1|N1].
    + destruct (quintant_code c Hc E1) as (-> & Hcode).
      pose proof (canon_origin c Hc ltac:(lia)) as Ho. pose proof (canon_segment c Hc ltac:(lia)) as Hsg.
      pose proof (fq_range _ Ho) as Hfq.
      unfold code in *. ev_pow. lia.
    + rewrite land_mask2 by lia. rewrite layout_div_idx by (try assumption; lia).
      pose proof (pow2_pos (60 - 2 * resolution c) ltac:(lia)) as HU.
      assert (E : idx c mod 4 = s c mod 4).
      { unfold idx. replace (resolution c - 1) with (Z.succ (resolution c - 2)) by lia.
        rewrite Z.pow_succ_r by lia.
        replace (code c * (4 * 4 ^ (resolution c - 2)) + s c) with (s c + (code c * 4 ^ (resolution c - 2)) * 4) by ring.
        apply Z.mod_add. lia. }
      rewrite E.
      assert (0 <= s c mod 4 < 4) by (apply Z.mod_pos_bound; lia).
      destruct (Z.eqb_spec (s c mod 4) 0) as [->|Hne]; [reflexivity|].
      apply Z.eqb_neq. nia.
Qed.

(* the j-th sibling of a first child *)
Definition sib (c : cell) (j : Z) : cell :=
  if resolution c =? 0 then mkCell j 0 0 0
  else if resolution c =? 1 then mkCell (origin_id c) ((fq (origin_id c) + j) mod 5) 0 1
  else mkCell (origin_id c) (segment c) (s c + j) (resolution c).

Lemma expected_children_cases r : 0 <= r ->
  expected_children r = if r =? 0 then 12 else if r =? 1 then 5 else 4.
Proof.
  intros Hr. unfold expected_children, FIRST_HILBERT_RESOLUTION.
  destruct (Z.geb_spec r 2), (Z.eqb_spec r 0), (Z.eqb_spec r 1); try reflexivity; lia.
Qed.

Lemma sib_props c j :
  canon c -> 0 <= resolution c -> first_child_test (layout c) (resolution c) = true ->
  0 <= j < expected_children (resolution c) ->
  canon (sib c j) /\ resolution (sib c j) = resolution c /\
  anc (sib c j) (resolution c - 1) = anc c (resolution c - 1) /\
  layout (sib c j) = layout c + j * stride_of (resolution c).
Proof.
  intros Hc Hr0 Hfc Hj. pose proof (canon_res_range c Hc) as Hr.
  rewrite first_child_test_canon in Hfc by assumption.
  rewrite expected_children_cases in Hj by assumption.
  unfold sib, stride_of.
  destruct (Z.eqb_spec (resolution c) 0) as [E0|N0].
  - destruct c as [o sg sv r]. unfold canon in Hc. projs_in Hc. projs_in E0. subst r. projs_in Hfc. projs.
    destruct Hc as (_ & _ & _ & H0 & _). destruct H0 as (-> & ->); [reflexivity|].
    assert (o = 0) as -> by lia.
    split; [unfold canon; projs; lia|]. split; [reflexivity|]. split; [reflexivity|].
    change (0 <? 2) with true. cbv iota. destruct (base_stride j) as (-> & _). reflexivity.
  - destruct (Z.eqb_spec (resolution c) 1) as [E1|N1].
    + destruct c as [o sg sv r]. unfold canon in Hc. projs_in Hc. projs_in E1. subst r. projs_in Hfc. projs.
      destruct Hc as (_ & _ & Ho & _ & _ & H1' & _). rewrite H1' by reflexivity.
      specialize (Ho ltac:(lia)). pose proof (fq_range o Ho) as Hfq.
      assert (sg = fq o) as -> by lia.
      split; [unfold canon; projs; lia|]. split; [reflexivity|]. split; [reflexivity|].
      change (1 <? 2) with true. cbv iota. destruct (quintants_stride o j Ho Hj) as (-> & _). reflexivity.
    + assert (Hm : s c mod 4 = 0) by lia.
      destruct (Z.ltb_spec (resolution c) 2); [lia|].
      split; [apply siblings_canon; try assumption; lia|]. split; [reflexivity|].
      split; [|apply siblings_stride; try assumption; lia].
      unfold anc. projs.
      destruct (Z.eqb_spec (resolution c - 1) (-1)); [lia|]. destruct (Z.eqb_spec (resolution c - 1) 0); [lia|].
      destruct (Z.eqb_spec (resolution c - 1) 1); [reflexivity|].
      replace (resolution c - (resolution c - 1)) with 1 by lia. change (4 ^ 1) with 4.
      f_equal. lia.
Qed.

Lemma siblings_follow_spec cell stride k : forall j l,
  siblings_follow cell stride j k l = true ->
  (k <= length l)%nat /\ firstn k l = map (fun i => wrap64 (cell + i * stride)) (seqZ j k).
Proof.
  induction k as [|k IH]; intros j l H; [split; [apply Nat.le_0_l|reflexivity]|].
  destruct l as [|y ys]; [discriminate|]. cbn [siblings_follow] in H.
  apply andb_true_iff in H. destruct H as (Hy & H). apply Z.eqb_eq in Hy.
  destruct (IH _ _ H) as (Hl & Hf). split; [cbn [length]; lia|].
  cbn [firstn seqZ map]. rewrite Hf, Hy. reflexivity.
Qed.

Lemma siblings_follow_complete cell stride k : forall j l,
  (k <= length l)%nat -> firstn k l = map (fun i => wrap64 (cell + i * stride)) (seqZ j k) ->
  siblings_follow cell stride j k l = true.
Proof.
  induction k as [|k IH]; intros j l Hl Hf; [reflexivity|].
  destruct l as [|y ys]; [cbn in Hl; lia|]. cbn [siblings_follow].
  cbn [firstn seqZ map] in Hf. injection Hf as Hy Hf'. subst y.
  rewrite Z.eqb_refl. cbn [andb]. apply IH; [cbn [length] in Hl; lia|exact Hf'].
Qed.

Lemma level_fanout_expected r : 0 <= r <= 29 -> fanout (r - 1) r = expected_children r.
Proof.
  intros Hr. unfold fanout. replace (r - (r - 1)) with 1 by lia. change (Z.to_nat 1) with 1%nat.
  cbn [fanout_n]. rewrite expected_children_cases by lia. unfold level_fanout.
  destruct (Z.eqb_spec (r - 1) (-1)), (Z.eqb_spec (r - 1) 0), (Z.eqb_spec r 0), (Z.eqb_spec r 1); lia.
Qed.

Lemma expected_children_pos r : 4 <= expected_children r <= 12.
Proof.
  unfold expected_children. destruct (r >=? FIRST_HILBERT_RESOLUTION), (r =? 0); lia.
Qed.

Lemma group_entries c rest :
  canon c -> 0 <= resolution c -> first_child_test (layout c) (resolution c) = true ->
  siblings_follow (layout c) (stride_of (resolution c)) 1
    (Z.to_nat (expected_children (resolution c)) - 1) rest = true ->
  (Z.to_nat (expected_children (resolution c)) - 1 <= length rest)%nat /\
  firstn (Z.to_nat (expected_children (resolution c))) (layout c :: rest) =
  map layout (map (sib c) (seqZ 0 (Z.to_nat (expected_children (resolution c))))).
Proof.
  intros Hc Hr0 Hfc Hsf. pose proof (expected_children_pos (resolution c)) as Hec.
  destruct (siblings_follow_spec _ _ _ _ _ Hsf) as (Hlen & Hf). split; [exact Hlen|].
  replace (Z.to_nat (expected_children (resolution c))) with (S (Z.to_nat (expected_children (resolution c)) - 1)) by lia.
  cbn [firstn seqZ map]. rewrite Hf. change (0 + 1) with 1. f_equal.
  - destruct (sib_props c 0 Hc Hr0 Hfc ltac:(lia)) as (_ & _ & _ & ->). lia.
  - rewrite map_map. apply map_ext_in. intros j Hj. rewrite in_seqZ in Hj.
    destruct (sib_props c j Hc Hr0 Hfc ltac:(lia)) as (Hcj & _ & _ & E).
    rewrite <- E. rewrite wrap64_mod. apply Z.mod_small. apply layout_u64. exact Hcj.
Qed.

Theorem group_is_children c stride rest :
  canon c -> 0 <= resolution c ->
  is_first_child (layout c) (resolution c) = Ok true ->
  get_stride (resolution c) = Ok stride ->
  siblings_follow (layout c) stride 1 (Z.to_nat (expected_children (resolution c)) - 1) rest = true ->
  let p := anc c (resolution c - 1) in
  let grp := firstn (Z.to_nat (expected_children (resolution c))) (layout c :: rest) in
  canon p /\ resolution p = resolution c - 1 /\
  cell_to_parent (layout c) None = Ok (layout p) /\
  (forall x, In x grp <-> In x (map layout (desc_cells p (resolution c)))) /\
  NoDup grp /\ length grp = Z.to_nat (expected_children (resolution c)) /\
  (Z.to_nat (expected_children (resolution c)) - 1 <= length rest)%nat.
Proof.
  intros Hc Hr0 Hfc Hst Hsf p grp. pose proof (canon_res_range c Hc) as Hr.
  rewrite is_first_child_spec in Hfc by lia. inversion Hfc as [Hfc'].
  rewrite get_stride_spec in Hst by lia. inversion Hst; subst stride.
  destruct (anc_canon c (resolution c - 1) Hc ltac:(lia)) as (Hp & Hrp). fold p in Hp, Hrp.
  destruct (group_entries c rest Hc Hr0 Hfc' Hsf) as (Hlen & Hg). fold grp in Hg.
  pose proof (expected_children_pos (resolution c)) as Hec.
  set (ec := Z.to_nat (expected_children (resolution c))) in *.
  assert (Hsib : forall j, In j (seqZ 0 ec) ->
            canon (sib c j) /\ resolution (sib c j) = resolution c /\ anc (sib c j) (resolution c - 1) = p /\
            layout (sib c j) = layout c + j * stride_of (resolution c)).
  { intros j Hj. rewrite in_seqZ in Hj. apply sib_props; try assumption. lia. }
  assert (Hlg : length grp = ec) by (rewrite Hg, !map_length, seqZ_length; reflexivity).
  assert (Hnd : NoDup grp).
  { rewrite Hg, map_map. apply NoDup_map_inj_in; [|apply seqZ_NoDup].
    intros x y Hx Hy E. destruct (Hsib x Hx) as (_ & _ & _ & Ex). destruct (Hsib y Hy) as (_ & _ & _ & Ey).
    rewrite Ex, Ey in E. pose proof (stride_of_pos (resolution c) ltac:(lia)). nia. }
  assert (Hincl : incl grp (map layout (desc_cells p (resolution c)))).
  { intros x Hx. rewrite Hg, map_map, in_map_iff in Hx. destruct Hx as (j & <- & Hj).
    destruct (Hsib j Hj) as (Hcj & Hrj & Haj & _).
    apply in_map. apply desc_char; [assumption|lia|]. rewrite Hrp. auto. }
  split; [exact Hp|]. split; [exact Hrp|]. split; [apply parent_default_spec; assumption|].
  split; [|split; [exact Hnd|split; [exact Hlg|exact Hlen]]].
  intros x. split; [apply Hincl|].
  apply NoDup_length_incl; [exact Hnd| |exact Hincl].
  rewrite map_length, Hlg.
  pose proof (desc_length p (resolution c) Hp ltac:(lia)) as Hdl.
  rewrite Hrp, level_fanout_expected in Hdl by lia. lia.
Qed.

(* from resolution 2 on the group is, even as a list, the children of the parent in API order *)
Theorem group_is_children_list c stride rest :
  canon c -> 2 <= resolution c ->
  is_first_child (layout c) (resolution c) = Ok true ->
  get_stride (resolution c) = Ok stride ->
  siblings_follow (layout c) stride 1 (Z.to_nat (expected_children (resolution c)) - 1) rest = true ->
  firstn (Z.to_nat (expected_children (resolution c))) (layout c :: rest) =
  map layout (desc_cells (anc c (resolution c - 1)) (resolution c)).
Proof.
  intros Hc Hr2 Hfc Hst Hsf. pose proof (canon_res_range c Hc) as Hr.
  rewrite is_first_child_spec in Hfc by lia. injection Hfc as Hfc.
  rewrite get_stride_spec in Hst by lia. injection Hst as <-.
  destruct (group_entries c rest Hc ltac:(lia) Hfc Hsf) as (_ & ->).
  destruct (anc_canon c (resolution c - 1) Hc ltac:(lia)) as (Hp & Hrp).
  pose proof (children_consecutive _ Hp ltac:(lia)) as Hcc. rewrite Hrp in Hcc.
  replace (resolution c - 1 + 1) with (resolution c) in Hcc by lia.
  rewrite Hcc. clear Hcc.
  assert (Hec : expected_children (resolution c) = 4).
  { rewrite expected_children_cases by lia.
    destruct (Z.eqb_spec (resolution c) 0); [lia|]. destruct (Z.eqb_spec (resolution c) 1); [lia|]. reflexivity. }
  rewrite Hec. change (Z.to_nat 4) with 4%nat. rewrite map_map. apply map_ext_in. intros j Hj. rewrite in_seqZ in Hj.
  destruct (sib_props c j Hc ltac:(lia) Hfc ltac:(lia)) as (_ & _ & _ & ->).
  pose proof Hfc as Hm. rewrite first_child_test_canon in Hm by (try assumption; lia).
  destruct (Z.eqb_spec (resolution c) 0); [lia|]. destruct (Z.eqb_spec (resolution c) 1); [lia|].
  assert (E : mkCell (origin_id (anc c (resolution c - 1))) (segment (anc c (resolution c - 1)))
                     (4 * s (anc c (resolution c - 1))) (resolution c) = c).
  { destruct c as [o sg sv r]. unfold canon in Hc. projs_in Hc. projs_in Hm. projs_in Hr2. projs.
    destruct Hc as (_ & _ & _ & _ & _ & _ & H2). specialize (H2 Hr2).
    unfold anc; projs.
    destruct (Z.eqb_spec (r - 1) (-1)); [lia|]. destruct (Z.eqb_spec (r - 1) 0); [lia|].
    destruct (Z.eqb_spec (r - 1) 1) as [E1|N1]; projs; f_equal.
    - assert (r = 2) as -> by lia. change (4 ^ (2 - 1)) with 4 in H2. lia.
    - replace (r - (r - 1)) with 1 by lia. change (4 ^ 1) with 4. lia. }
  rewrite E. unfold stride_of. destruct (Z.ltb_spec (resolution c) 2); [lia|].
  f_equal. f_equal. f_equal. lia.
Qed.

(* ---------- 8: one pass *)
Definition has_all_of (cell resolution len : Z) (rest : list Z) : out bool :=
  let ec := expected_children resolution in
  if ec <=? len then
    fc <- is_first_child cell resolution ;;
    if fc then
      stride <- get_stride resolution ;;
      Ok (siblings_follow cell stride 1 (Z.to_nat ec - 1) rest)
    else Ok false
  else Ok false.

Lemma compact_pass_cons f len cell rest :
  compact_pass (S f) len (cell :: rest) =
  let resolution := get_resolution cell in
  if resolution <? 0 then
    '(r, ch) <- compact_pass f (len - 1) rest ;; Ok (cell :: r, ch)
  else
    has_all <- has_all_of cell resolution len rest ;;
    if has_all then
      parent <- cell_to_parent cell None ;;
      '(r, _) <- compact_pass f (len - expected_children resolution)
                   (skipn (Z.to_nat (expected_children resolution) - 1) rest) ;;
      Ok (parent :: r, true)
    else
      '(r, ch) <- compact_pass f (len - 1) rest ;; Ok (cell :: r, ch).
Proof. reflexivity. Qed.

Lemma has_all_of_true cell r len rest :
  has_all_of cell r len rest = Ok true ->
  expected_children r <= len /\ is_first_child cell r = Ok true /\
  exists stride, get_stride r = Ok stride /\
    siblings_follow cell stride 1 (Z.to_nat (expected_children r) - 1) rest = true.
Proof.
  unfold has_all_of. cbv zeta. destruct (Z.leb_spec (expected_children r) len) as [Hle|Hle]; [|discriminate].
  destruct (is_first_child cell r) as [[|]| | |]; cbn [bind]; try discriminate.
  destruct (get_stride r) as [st| | |]; cbn [bind]; try discriminate.
  intros H. injection H as H'. split; [assumption|]. split; [reflexivity|].
  exists st. split; [reflexivity|exact H'].
Qed.

(* the pass never lengthens the list, a reported change shortens it, and without a change the
   list is returned as it is: holds for any input whenever the pass returns normally *)
Lemma compact_pass_shape : forall fuel l r ch,
  compact_pass fuel (Z.of_nat (length l)) l = Ok (r, ch) ->
  (length r <= length l)%nat /\ (ch = true -> (length r < length l)%nat) /\ (ch = false -> r = l).
Proof.
  induction fuel as [|f IH]; intros l r ch H; [discriminate|].
  destruct l as [|cell rest].
  - cbn in H. inversion H; subst. split; [apply le_n|]. split; [discriminate|reflexivity].
  - rewrite compact_pass_cons in H. cbv zeta in H.
    assert (Hkeep : forall r ch,
              ('(r, ch) <- compact_pass f (Z.of_nat (length (cell :: rest)) - 1) rest ;; Ok (cell :: r, ch)) = Ok (r, ch) ->
              (length r <= length (cell :: rest))%nat /\ (ch = true -> (length r < length (cell :: rest))%nat) /\
              (ch = false -> r = cell :: rest)).
    { clear H r ch. intros r ch H.
      replace (Z.of_nat (length (cell :: rest)) - 1) with (Z.of_nat (length rest)) in H by (cbn [length]; lia).
      apply bind_eq_ok in H. destruct H as ((r' & ch') & Hp & H). inversion H; subst.
      destruct (IH _ _ _ Hp) as (H1 & H2 & H3). cbn [length].
      split; [lia|]. split; [intros E; specialize (H2 E); lia|intros E; rewrite (H3 E); reflexivity]. }
    destruct (get_resolution cell <? 0); [apply Hkeep; exact H|].
    apply bind_eq_ok in H. destruct H as (b & Hb & H). destruct b; [|apply Hkeep; exact H].
    apply has_all_of_true in Hb. destruct Hb as (Hec & _ & st & _ & Hsf).
    apply siblings_follow_spec in Hsf. destruct Hsf as (Hlen & _).
    pose proof (expected_children_pos (get_resolution cell)) as Hpos.
    apply bind_eq_ok in H. destruct H as (parent & _ & H).
    apply bind_eq_ok in H. destruct H as ((r' & ch') & Hp & H). inversion H; subst.
    replace (Z.of_nat (length (cell :: rest)) - expected_children (get_resolution cell))
      with (Z.of_nat (length (skipn (Z.to_nat (expected_children (get_resolution cell)) - 1) rest))) in Hp
      by (rewrite skipn_length; cbn [length]; lia).
    destruct (IH _ _ _ Hp) as (H1 & _). rewrite skipn_length in H1. cbn [length].
    split; [lia|]. split; [intros _; lia|discriminate].
Qed.

(* vocabulary lemmas *)
Lemma covers_app R a b x : covers R (a ++ b) x <-> covers R a x \/ covers R b x.
Proof.
  unfold covers. split.
  - intros (c & d & Hc & Hin & H). apply in_app_or in Hin. destruct Hin; [left|right]; exists c, d; auto.
  - intros [(c & d & Hc & Hin & H)|(c & d & Hc & Hin & H)]; exists c, d; (split; [assumption|]); (split; [|assumption]);
      apply in_or_app; auto.
Qed.

Lemma covers_cons R a l x : covers R (a :: l) x <-> covers R [a] x \/ covers R l x.
Proof. apply (covers_app R [a] l x). Qed.

Lemma covers_same_set R a b x : same_set a b -> (covers R a x <-> covers R b x).
Proof.
  intros Hs. unfold covers. split; intros (c & d & Hc & Hin & H); exists c, d; (split; [assumption|]);
    (split; [apply Hs; exact Hin|assumption]).
Qed.

Lemma covers_nil R x : ~ covers R [] x.
Proof. intros (c & d & _ & [] & _). Qed.

(* replacing a complete group of children by the parent does not change what is covered *)
Lemma covers_group R p x :
  canon p -> resolution p + 1 <= R <= 29 ->
  (covers R (map layout (desc_cells p (resolution p + 1))) x <-> covers R [layout p] x).
Proof.
  intros Hp HR. pose proof (canon_res_range p Hp) as Hr. unfold covers. split.
  - intros (m & d & Hm & Hin & Hrm & Hd & ->). rewrite in_map_iff in Hin. destruct Hin as (m' & E & Hm').
    assert (Hcm' : canon m') by (eapply desc_canon; [exact Hp| |exact Hm']; lia).
    apply layout_injective in E; [|assumption..]. subst m'.
    exists p, d. split; [assumption|]. split; [left; reflexivity|]. split; [lia|]. split; [|reflexivity].
    apply (desc_compose p (resolution p + 1) R d Hp ltac:(lia) ltac:(lia)). exists m. auto.
  - intros (c & d & Hc & Hin & Hrc & Hd & ->). destruct Hin as [E|[]].
    apply layout_injective in E; [|assumption..]. subst c.
    apply (desc_compose p (resolution p + 1) R d Hp ltac:(lia) ltac:(lia)) in Hd. destruct Hd as (m & Hm & Hd).
    assert (Hcm : canon m) by (eapply desc_canon; [exact Hp| |exact Hm]; lia).
    apply desc_char in Hm; [|assumption|lia]. destruct Hm as (_ & Hrm & Ham).
    exists m, d. split; [assumption|]. split; [apply in_map; apply desc_char; [assumption|lia|auto]|].
    split; [lia|]. split; [assumption|reflexivity].
Qed.

Lemma res_le_incl R a b : incl a b -> res_le R b -> res_le R a.
Proof. intros Hi Hb c Hc Hin. apply Hb; [assumption|apply Hi; assumption]. Qed.

Lemma all_canonical_incl a b : incl a b -> all_canonical b -> all_canonical a.
Proof. intros Hi Hb i Hin. apply Hb, Hi, Hin. Qed.

Lemma skipn_incl {A} n (l : list A) : incl (skipn n l) l.
Proof. intros x Hx. rewrite <- (firstn_skipn n l). apply in_or_app. right. exact Hx. Qed.

Lemma firstn_incl {A} n (l : list A) : incl (firstn n l) l.
Proof. intros x Hx. rewrite <- (firstn_skipn n l). apply in_or_app. left. exact Hx. Qed.

Lemma has_all_of_canon c len rest :
  canon c -> 0 <= resolution c -> exists b, has_all_of (layout c) (resolution c) len rest = Ok b.
Proof.
  intros Hc Hr0. pose proof (canon_res_range c Hc) as Hr. unfold has_all_of. cbv zeta.
  destruct (expected_children (resolution c) <=? len); [|eexists; reflexivity].
  rewrite is_first_child_spec by lia. rewrite bind_ok.
  destruct (first_child_test (layout c) (resolution c)); [|eexists; reflexivity].
  rewrite get_stride_spec by lia. rewrite bind_ok. eexists; reflexivity.
Qed.

(* 8: semantic content of one pass on canonical input, with enough fuel *)
Theorem compact_pass_cover : forall fuel l,
  all_canonical l -> (length l < fuel)%nat ->
  exists r ch,
    compact_pass fuel (Z.of_nat (length l)) l = Ok (r, ch) /\
    all_canonical r /\
    (forall R, res_le R l -> R <= 29 -> res_le R r /\ forall x, covers R r x <-> covers R l x) /\
    (length r <= length l)%nat /\ (ch = true -> (length r < length l)%nat) /\ (ch = false -> r = l).
Proof.
  assert (Hmain : forall fuel l, all_canonical l -> (length l < fuel)%nat ->
    exists r ch, compact_pass fuel (Z.of_nat (length l)) l = Ok (r, ch) /\ all_canonical r /\
      (forall R, res_le R l -> R <= 29 -> res_le R r /\ forall x, covers R r x <-> covers R l x)).
  { induction fuel as [|f IH]; intros l Hcan Hfuel; [lia|].
    destruct l as [|cell rest].
    { exists [], false. split; [reflexivity|]. split; [assumption|]. intros R HR _. split; [assumption|reflexivity]. }
    rewrite compact_pass_cons. cbv zeta.
    destruct (Hcan cell (or_introl eq_refl)) as (c & Hc & Ecell). subst cell.
    pose proof (canon_res_range c Hc) as Hr.
    rewrite resolution_layout by assumption.
    assert (Hcan_rest : all_canonical rest) by (intros i Hi; apply Hcan; right; exact Hi).
    assert (Hkeep : exists r ch,
              ('(r, ch) <- compact_pass f (Z.of_nat (length (layout c :: rest)) - 1) rest ;; Ok (layout c :: r, ch)) = Ok (r, ch) /\
              all_canonical r /\
              (forall R, res_le R (layout c :: rest) -> R <= 29 ->
                 res_le R r /\ forall x, covers R r x <-> covers R (layout c :: rest) x)).
    { replace (Z.of_nat (length (layout c :: rest)) - 1) with (Z.of_nat (length rest)) by (cbn [length]; lia).
      destruct (IH rest Hcan_rest ltac:(cbn [length] in Hfuel; lia)) as (r' & ch' & Hp & Hcr & Hcov).
      exists (layout c :: r'), ch'. rewrite Hp. split; [reflexivity|].
      split; [intros i [<-|Hi]; [exists c; auto|apply Hcr; exact Hi]|].
      intros R HR HR29.
      destruct (Hcov R (res_le_incl R rest (layout c :: rest) ltac:(intros ? ?; right; assumption) HR) HR29) as (Hle' & Hcv).
      split.
      - intros c' Hc' [E|Hin]; [apply HR; [assumption|left; exact E]|apply Hle'; assumption].
      - intros x. rewrite (covers_cons R (layout c) r'), (covers_cons R (layout c) rest), Hcv. reflexivity. }
    destruct (Z.ltb_spec (resolution c) 0) as [Hneg|Hr0]; [exact Hkeep|].
    destruct (has_all_of_canon c (Z.of_nat (length (layout c :: rest))) rest Hc Hr0) as (b & Hb).
    rewrite Hb, bind_ok. destruct b; [|exact Hkeep]. clear Hkeep.
    apply has_all_of_true in Hb. destruct Hb as (Hec & Hfc & st & Hst & Hsf).
    destruct (group_is_children c st rest Hc Hr0 Hfc Hst Hsf) as (Hp & Hrp & Hpar & Hset & Hnd & Hlg & Hlen).
    set (p := anc c (resolution c - 1)) in *.
    set (ec := Z.to_nat (expected_children (resolution c))) in *.
    pose proof (expected_children_pos (resolution c)) as Hpos.
    rewrite Hpar, bind_ok.
    replace (Z.of_nat (length (layout c :: rest)) - expected_children (resolution c))
      with (Z.of_nat (length (skipn (ec - 1) rest))) by (rewrite skipn_length; cbn [length]; lia).
    assert (Hcan_skip : all_canonical (skipn (ec - 1) rest)) by (eapply all_canonical_incl; [apply skipn_incl|exact Hcan_rest]).
    destruct (IH (skipn (ec - 1) rest) Hcan_skip ltac:(rewrite skipn_length; cbn [length] in Hfuel; lia))
      as (r' & ch' & Hpass & Hcr & Hcov).
    exists (layout p :: r'), true. rewrite Hpass. split; [reflexivity|].
    split; [intros i [<-|Hi]; [exists p; auto|apply Hcr; exact Hi]|].
    intros R HR HR29.
    assert (Hsplit : layout c :: rest = firstn ec (layout c :: rest) ++ skipn (ec - 1) rest).
    { replace ec with (S (ec - 1)) at 1 by lia. cbn [firstn]. rewrite <- app_comm_cons, firstn_skipn. reflexivity. }
    assert (HRskip : res_le R (skipn (ec - 1) rest)).
    { eapply res_le_incl; [|exact HR]. intros y Hy. right. apply (skipn_incl _ _ _ Hy). }
    destruct (Hcov R HRskip HR29) as (Hle' & Hcv).
    assert (HrR : resolution c <= R) by (apply HR; [assumption|left; reflexivity]).
    split.
    - intros c' Hc' [E|Hin]; [|apply Hle'; assumption].
      apply layout_injective in E; [|assumption..]. subst c'. lia.
    - intros x. rewrite (covers_cons R (layout p) r'), Hcv.
      rewrite Hsplit. rewrite covers_app.
      rewrite (covers_same_set R _ _ x Hset).
      replace (resolution c) with (resolution p + 1) by lia.
      rewrite covers_group by (try assumption; lia). reflexivity. }
  intros fuel l Hcan Hfuel. destruct (Hmain fuel l Hcan Hfuel) as (r & ch & Hp & Hcr & Hcov).
  exists r, ch. split; [exact Hp|]. split; [exact Hcr|]. split; [exact Hcov|].
  apply (compact_pass_shape fuel l r ch Hp).
Qed.

(* ---------- 9-12: the loop and the whole function *)
Lemma compact_loop_S f l :
  compact_loop (S f) l =
  '(r, changed) <- compact_pass (S (length l)) (Z.of_nat (length l)) l ;;
  if changed then compact_loop f (dedup (hsort r)) else Ok r.
Proof. reflexivity. Qed.

Lemma same_set_dedup_hsort l : same_set (dedup (hsort l)) l.
Proof. intros x. apply dedup_hsort_in. Qed.

Lemma res_le_same_set R a b : same_set a b -> res_le R a -> res_le R b.
Proof. intros Hs Ha. eapply res_le_incl; [|exact Ha]. intros x Hx. apply Hs. exact Hx. Qed.

Lemma all_canonical_same_set a b : same_set a b -> all_canonical a -> all_canonical b.
Proof. intros Hs Ha. eapply all_canonical_incl; [|exact Ha]. intros x Hx. apply Hs. exact Hx. Qed.

Lemma same_set_sym a b : same_set a b -> same_set b a.
Proof. intros H x. symmetry. apply H. Qed.

Lemma compact_loop_spec : forall fuel l,
  all_canonical l -> (length l < fuel)%nat ->
  exists out, compact_loop fuel l = Ok out /\ all_canonical out /\
    (forall R, res_le R l -> R <= 29 -> res_le R out /\ forall x, covers R out x <-> covers R l x) /\
    (NoDup l -> NoDup out).
Proof.
  induction fuel as [|f IH]; intros l Hcan Hfuel; [lia|].
  rewrite compact_loop_S.
  destruct (compact_pass_cover (S (length l)) l Hcan ltac:(lia)) as (r & ch & Hp & Hcr & Hcov & Hlen & Hch & Hnch).
  rewrite Hp, bind_ok. destruct ch.
  - specialize (Hch eq_refl). pose proof (dedup_hsort_length r) as Hdl.
    pose proof (same_set_dedup_hsort r) as Hss.
    assert (Hcan' : all_canonical (dedup (hsort r))) by (apply (all_canonical_same_set r); [apply same_set_sym|]; assumption).
    destruct (IH (dedup (hsort r)) Hcan' ltac:(lia)) as (out & Hout & Hco & Hcov' & Hnd').
    exists out. split; [exact Hout|]. split; [exact Hco|]. split.
    + intros R HR HR29. destruct (Hcov R HR HR29) as (HRr & Hcv).
      assert (HR' : res_le R (dedup (hsort r))) by (apply (res_le_same_set R r); [apply same_set_sym|]; assumption).
      destruct (Hcov' R HR' HR29) as (HRo & Hcv'). split; [exact HRo|].
      intros x. rewrite Hcv', (covers_same_set R _ _ x Hss). apply Hcv.
    + intros _. apply Hnd'. apply dedup_sorted_NoDup.
  - rewrite (Hnch eq_refl) in *. exists l. split; [reflexivity|]. split; [assumption|]. split; [exact Hcov|auto].
Qed.

Lemma compact_cons a l :
  compact (a :: l) =
  r <- compact_loop (S (length (dedup (hsort (a :: l))))) (dedup (hsort (a :: l))) ;; Ok (sort_by (fun x => x) r).
Proof. reflexivity. Qed.

Lemma compact_spec l :
  all_canonical l ->
  exists out, compact l = Ok out /\ all_canonical out /\
    (forall R, res_le R l -> R <= 29 -> res_le R out /\ forall x, covers R out x <-> covers R l x) /\
    NoDup out /\ sorted_lt out.
Proof.
  intros Hcan. destruct l as [|a l].
  - exists []. split; [reflexivity|]. split; [assumption|]. split; [|split; constructor].
    intros R HR _. split; [assumption|reflexivity].
  - rewrite compact_cons. set (cur := dedup (hsort (a :: l))).
    pose proof (same_set_dedup_hsort (a :: l)) as Hss. fold cur in Hss.
    assert (Hcan' : all_canonical cur) by (apply (all_canonical_same_set (a :: l)); [apply same_set_sym|]; assumption).
    destruct (compact_loop_spec (S (length cur)) cur Hcan' ltac:(lia)) as (r & Hr & Hcr & Hcov & Hnd).
    rewrite Hr, bind_ok. exists (sort_by (fun x => x) r). split; [reflexivity|].
    assert (Hsr : same_set (sort_by (fun x => x) r) r) by (intros x; apply sort_by_in).
    specialize (Hnd (dedup_sorted_NoDup (a :: l))).
    split; [apply (all_canonical_same_set r); [apply same_set_sym|]; assumption|].
    split; [|split; [eapply Permutation_NoDup; [apply Permutation_sym, sort_by_perm|exact Hnd]|apply sort_id_sorted; exact Hnd]].
    intros R HR HR29.
    assert (HR' : res_le R cur) by (apply (res_le_same_set R (a :: l)); [apply same_set_sym|]; assumption).
    destruct (Hcov R HR' HR29) as (HRr & Hcv).
    split; [apply (res_le_same_set R r); [apply same_set_sym|]; assumption|].
    intros x. rewrite (covers_same_set R _ _ x Hsr), Hcv. apply covers_same_set. exact Hss.
Qed.

(* 9 *)
Theorem compact_total : forall l, all_canonical l -> exists out, compact l = Ok out.
Proof. intros l Hcan. destruct (compact_spec l Hcan) as (out & H & _). exists out. exact H. Qed.

(* 10 *)
Theorem compact_cover : forall l out R,
  all_canonical l -> compact l = Ok out -> res_le R l -> R <= 29 ->
  forall x, covers R out x <-> covers R l x.
Proof.
  intros l out R Hcan Hout HR HR29. destruct (compact_spec l Hcan) as (out' & H & _ & Hcov & _).
  rewrite H in Hout. inversion Hout; subst. apply Hcov; assumption.
Qed.

Theorem compact_canonical_out : forall l out, all_canonical l -> compact l = Ok out -> all_canonical out.
Proof.
  intros l out Hcan Hout. destruct (compact_spec l Hcan) as (out' & H & Hco & _).
  rewrite H in Hout. inversion Hout; subst. exact Hco.
Qed.

Theorem compact_res_le : forall l out R,
  all_canonical l -> compact l = Ok out -> res_le R l -> R <= 29 -> res_le R out.
Proof.
  intros l out R Hcan Hout HR HR29. destruct (compact_spec l Hcan) as (out' & H & _ & Hcov & _).
  rewrite H in Hout. inversion Hout; subst. apply Hcov; assumption.
Qed.

(* 11 *)
Theorem compact_nodup : forall l out, all_canonical l -> compact l = Ok out -> NoDup out.
Proof.
  intros l out Hcan Hout. destruct (compact_spec l Hcan) as (out' & H & _ & _ & Hnd & _).
  rewrite H in Hout. inversion Hout; subst. exact Hnd.
Qed.

Theorem compact_sorted : forall l out, all_canonical l -> compact l = Ok out -> sorted_lt out.
Proof.
  intros l out Hcan Hout. destruct (compact_spec l Hcan) as (out' & H & _ & _ & _ & Hs).
  rewrite H in Hout. inversion Hout; subst. exact Hs.
Qed.

(* 12: the result depends only on the set of input cells (for arbitrary lists, canonical or not) *)
Theorem compact_order_multiplicity : forall l l', same_set l l' -> compact l = compact l'.
Proof.
  intros l l' Hss. destruct l as [|a l], l' as [|a' l'].
  - reflexivity.
  - exfalso. apply (Hss a'). left. reflexivity.
  - exfalso. apply (Hss a). left. reflexivity.
  - rewrite !compact_cons. rewrite (dedup_hsort_unique _ _ Hss). reflexivity.
Qed.

(* the property text: expanding the compacted result to R gives the same set of cells as expanding
   the input, for every R at least as fine as every input *)
Corollary compact_preserves_coverage l l' out out' R :
  all_canonical l -> same_set l l' -> compact l = Ok out -> compact l' = Ok out' ->
  res_le R l -> R <= 29 ->
  out = out' /\ NoDup out /\ forall x, covers R out x <-> covers R l' x.
Proof.
  intros Hcan Hss Hout Hout' HR HR29.
  rewrite (compact_order_multiplicity l l' Hss) in Hout.
  assert (out = out') as <- by congruence. split; [reflexivity|].
  assert (Hcan' : all_canonical l') by (apply (all_canonical_same_set l); assumption).
  split; [apply (compact_nodup l' out); assumption|].
  apply compact_cover; try assumption. apply (res_le_same_set R l); assumption.
Qed.

(* ================================================================== *)
(* 13: totality on arbitrary words                                     *)
(* ================================================================== *)
(* Everything below holds for every list of non-negative integers, in particular for every list of
   u64 values (0 <= x < 2^64); canonicity is not assumed. *)

Lemma get_resolution_loop_range fuel : forall r sh,
  -1 <= r -> -1 <= get_resolution_loop fuel r sh <= r.
Proof.
  induction fuel as [|f IH]; intros r sh Hr; cbn [get_resolution_loop]; [lia|].
  destruct (Z.gtb_spec r (-1)); cbn [andb]; [|lia].
  destruct (Z.land sh 1 =? 0); [|lia].
  specialize (IH (r - 1) (Z.shiftr sh (if r - 1 <? FIRST_HILBERT_RESOLUTION then 1 else 2)) ltac:(lia)). lia.
Qed.

Theorem get_resolution_range : forall i, -1 <= get_resolution i <= 29.
Proof.
  intros i. unfold get_resolution, MAX_RESOLUTION. change (30 - 1) with 29.
  apply get_resolution_loop_range. lia.
Qed.

(* cell descriptions with a valid face and quintant and a non-negative curve position: what
   deserialize produces from any non-negative word; serialize never panics on them *)
Definition semi (c : cell) : Prop := 0 <= origin_id c < 12 /\ 0 <= segment c < 5 /\ 0 <= s c.

Lemma u32_mul_ok a b : a * b < two32 -> u32_mul a b = Ok (a * b).
Proof. intros; unfold u32_mul; destruct (Z.ltb_spec (a * b) two32); [reflexivity|lia]. Qed.
Lemma u32_sub_ok a b : b <= a -> u32_sub a b = Ok (a - b).
Proof. intros; unfold u32_sub; destruct (Z.leb_spec b a); [reflexivity|lia]. Qed.
Lemma u32_add_ok a b : a + b < two32 -> u32_add a b = Ok (a + b).
Proof. intros; unfold u32_add; destruct (Z.ltb_spec (a + b) two32); [reflexivity|lia]. Qed.

Theorem deserialize_total i :
  0 <= i ->
  deserialize i = Err \/
  exists c, deserialize i = Ok c /\ resolution c = get_resolution i /\ semi c /\ s c < 2 ^ 58.
Proof.
  intros Hi. pose proof (get_resolution_range i) as Hr. unfold deserialize. cbv zeta.
  set (r := get_resolution i) in *.
  destruct (Z.eqb_spec r (-1)); [right; eexists; split; [reflexivity|]; split; [reflexivity|unfold semi; projs; lia]|].
  rewrite shr_div by lia. unfold n_origins, FIRST_HILBERT_RESOLUTION, HILBERT_START_BIT.
  assert (Htop : 0 <= i / 2 ^ 58) by (apply Z.div_pos; lia).
  set (top := i / 2 ^ 58) in *.
  destruct (Z.eqb_spec r 0) as [E0|N0].
  - destruct (Z.geb_spec top 12); [left; reflexivity|]. rewrite bind_ok. cbv beta iota.
    destruct (Z.ltb_spec r 2); [|lia].
    right; eexists; split; [reflexivity|]; split; [reflexivity|unfold semi; projs; lia].
  - destruct (Z.geb_spec (top / 5) 12); [left; reflexivity|].
    assert (Ho : 0 <= top / 5 < 12) by (split; [apply Z.div_pos; lia|lia]).
    rewrite first_quintant_of_ok by assumption. rewrite !bind_ok. cbv beta iota.
    pose proof (fq_range _ Ho) as Hfq.
    assert (Hsg : 0 <= (top + fq (top / 5)) mod 5 < 5) by (apply Z.mod_pos_bound; lia).
    destruct (Z.ltb_spec r 2).
    + right; eexists; split; [reflexivity|]; split; [reflexivity|unfold semi; projs; lia].
    + rewrite i32_sub_ok by lia. rewrite bind_ok. rewrite i32_add_ok by lia. rewrite bind_ok.
      unfold as_u32. rewrite Z.mod_small by (unfold two32; lia).
      rewrite u32_mul_ok by (unfold two32; lia). rewrite bind_ok.
      rewrite u32_sub_ok by lia. rewrite bind_ok.
      rewrite u64_shr_ok by lia. rewrite bind_ok.
      right; eexists; split; [reflexivity|]; split; [reflexivity|]. unfold semi; projs.
      change REMOVAL_MASK with (2 ^ 58 - 1). rewrite land_ones_mod by lia.
      pose proof (Z.mod_pos_bound i (2 ^ 58) ltac:(lia)) as Hm.
      pose proof (pow2_pos (58 - 2 * (r - 2 + 1)) ltac:(lia)) as Hp.
      assert (0 <= i mod 2 ^ 58 / 2 ^ (58 - 2 * (r - 2 + 1))) by (apply Z.div_pos; lia).
      assert (i mod 2 ^ 58 / 2 ^ (58 - 2 * (r - 2 + 1)) <= i mod 2 ^ 58) by (apply Z.div_le_upper_bound; nia).
      lia.
Qed.

Theorem serialize_total c :
  semi c -> serialize c = Err \/ exists i, serialize c = Ok i /\ 0 <= i.
Proof.
  destruct c as [o sg sv r]. unfold semi; projs. intros (Ho & Hsg & Hs).
  destruct (Z_lt_dec r (-1)) as [Hlow|Hlow].
  { left. unfold serialize; projs. unfold MAX_RESOLUTION.
    destruct (Z.geb_spec r 30); [reflexivity|]. destruct (Z.ltb_spec r (-1)); [reflexivity|lia]. }
  destruct (Z_le_dec 30 r) as [Hhigh|Hhigh].
  { left. unfold serialize; projs. unfold MAX_RESOLUTION. destruct (Z.geb_spec r 30); [reflexivity|lia]. }
  assert (Hr : -1 <= r <= 29) by lia. clear Hlow Hhigh.
  pose proof (fq_range o Ho) as Hfq.
  unfold serialize; projs.
  split_res Hr; ev;
    try (right; eexists; split; [reflexivity|unfold WORLD_CELL; lia]);
    rewrite (first_quintant_of_ok o) by lia; rewrite bind_ok; sym;
    try (match goal with |- context [if ?a >=? ?b then _ else _] =>
           destruct (Z.geb_spec a b); [left; reflexivity|] end; sym);
    right; eexists; (split; [reflexivity|]); apply Z.lor_nonneg; unfold two64; lia.
Qed.

Definition nonneg_list (l : list Z) : Prop := forall x, In x l -> 0 <= x.

Theorem cell_to_parent_total_any i k :
  0 <= i ->
  cell_to_parent i (Some k) = Err \/ exists j, cell_to_parent i (Some k) = Ok j /\ 0 <= j.
Proof.
  intros Hi. pose proof (get_resolution_range i) as Hr. unfold cell_to_parent.
  destruct (deserialize_total i Hi) as [->|(c & -> & Hrc & Hsemi & _)]; [left; reflexivity|].
  rewrite !bind_ok. cbv zeta. rewrite Hrc.
  destruct (Z.eqb_spec k (-1)); [right; exists WORLD_CELL; split; [reflexivity|unfold WORLD_CELL; lia]|].
  destruct (Z.ltb_spec k 0); [left; reflexivity|].
  destruct (Z.gtb_spec k (get_resolution i)); [left; reflexivity|].
  destruct (Z.eqb_spec k (get_resolution i)); [apply serialize_total; assumption|].
  rewrite i32_sub_ok by lia. rewrite bind_ok. rewrite i32_mul_ok by lia. rewrite bind_ok.
  rewrite u64_shr_ok by lia. rewrite bind_ok.
  apply serialize_total. destruct Hsemi as (Ho & Hsg & Hs). unfold semi; projs.
  split; [assumption|]. split; [assumption|]. apply Z.div_pos; [assumption|apply pow2_pos; lia].
Qed.

Lemma cell_to_parent_none_eq i :
  0 <= i -> cell_to_parent i None = cell_to_parent i (Some (get_resolution i - 1)).
Proof.
  intros Hi. pose proof (get_resolution_range i) as Hr. unfold cell_to_parent.
  destruct (deserialize_total i Hi) as [->|(c & -> & Hrc & _)]; [reflexivity|].
  rewrite !bind_ok. cbv zeta. rewrite Hrc. rewrite i32_sub_ok by lia. reflexivity.
Qed.

Theorem cell_to_parent_default_total_any i :
  0 <= i -> cell_to_parent i None = Err \/ exists j, cell_to_parent i None = Ok j /\ 0 <= j.
Proof. intros Hi. rewrite cell_to_parent_none_eq by assumption. apply cell_to_parent_total_any. assumption. Qed.

Lemma mapM_total {A B} (P : B -> Prop) (f : A -> out B) l :
  (forall x, In x l -> f x = Err \/ exists y, f x = Ok y /\ P y) ->
  mapM f l = Err \/ exists ys, mapM f l = Ok ys /\ Forall P ys.
Proof.
  induction l as [|a l IH]; intros H; [right; exists []; split; [reflexivity|constructor]|].
  cbn [mapM]. destruct (H a (or_introl eq_refl)) as [->|(y & -> & Hy)]; [left; reflexivity|].
  rewrite bind_ok. destruct IH as [->|(ys & -> & Hys)]; [intros x Hx; apply H; right; exact Hx|left; reflexivity|].
  rewrite bind_ok. right. exists (y :: ys). split; [reflexivity|constructor; assumption].
Qed.

Lemma shl_room x e j : 0 <= e <= 64 -> 0 <= j < 2 ^ e -> (x * 2 ^ e) mod two64 + j < two64.
Proof.
  intros He Hj. unfold two64. replace (2 ^ 64) with (2 ^ (64 - e) * 2 ^ e) by (rewrite <- Z.pow_add_r by lia; f_equal; lia).
  pose proof (pow2_pos e ltac:(lia)) as Hpe. pose proof (pow2_pos (64 - e) ltac:(lia)) as Hpe'.
  rewrite Z.mul_mod_distr_r by lia.
  pose proof (Z.mod_pos_bound x (2 ^ (64 - e)) Hpe'). nia.
Qed.

Theorem cell_to_children_total_any i k :
  0 <= i ->
  cell_to_children i (Some k) = Err \/
  exists l, cell_to_children i (Some k) = Ok l /\ nonneg_list l.
Proof.
  intros Hi. pose proof (get_resolution_range i) as Hr. unfold cell_to_children.
  destruct (deserialize_total i Hi) as [->|(c & -> & Hrc & Hsemi & Hs58)]; [left; reflexivity|].
  rewrite !bind_ok. cbv zeta. rewrite Hrc. set (r := get_resolution i) in *.
  unfold MAX_RESOLUTION, FIRST_HILBERT_RESOLUTION.
  destruct (Z.ltb_spec k r); [left; reflexivity|].
  destruct (Z.gtb_spec k 30); [left; reflexivity|].
  destruct (Z.eqb_spec k r).
  { destruct (serialize_total c Hsemi) as [->|(j & -> & Hj)]; [left; reflexivity|].
    rewrite bind_ok. right. eexists. split; [reflexivity|]. intros x [<-|[]]. exact Hj. }
  change (i32_sub 2 1) with (@Ok Z 1). rewrite bind_ok.
  rewrite i32_sub_ok by lia. rewrite bind_ok.
  set (diff := k - Z.max r 1).
  destruct Hsemi as (Ho & Hsg & Hs).
  assert (Hfin : forall cnt sh, 0 <= sh -> (forall j, 0 <= j < Z.max 0 cnt -> sh + j < two64) ->
    let f := fun '(o, sg, i0) => new_s <- u64_add sh i0 ;; serialize (mkCell o sg new_s k) in
    let l := flat_map (fun o => flat_map (fun sg => map (fun i0 => (o, sg, i0)) (seqZ 0 (Z.to_nat cnt)))
                          (if (r =? -1) && (k >? 0) || (r =? 0) then [0; 1; 2; 3; 4] else [segment c]))
                      (if r =? -1 then seqZ 0 12 else [origin_id c]) in
    mapM f l = Err \/ exists l', mapM f l = Ok l' /\ nonneg_list l').
  { intros cnt sh Hsh Hroom f l.
    destruct (mapM_total (fun y => 0 <= y) f l) as [E|(ys & E & Hys)]; [|left; exact E|right; exists ys; split; [exact E|]].
    - intros [[o sg] j] Hin. unfold l in Hin.
      match type of Hin with In _ ?t => change t with (tuples_of (if r =? -1 then seqZ 0 12 else [origin_id c])
        (if (r =? -1) && (k >? 0) || (r =? 0) then [0; 1; 2; 3; 4] else [segment c]) cnt) in Hin end.
      rewrite in_tuples in Hin. destruct Hin as (Hino & Hinsg & Hj).
      unfold f. rewrite u64_add_ok by (apply Hroom; assumption). rewrite bind_ok.
      apply serialize_total. unfold semi; projs.
      split; [destruct (r =? -1); [rewrite in_seqZ in Hino; lia|destruct Hino as [<-|[]]; assumption]|].
      split; [|lia].
      destruct ((r =? -1) && (k >? 0) || (r =? 0)); [cbn [In] in Hinsg; lia|destruct Hinsg as [<-|[]]; assumption].
    - rewrite Forall_forall in Hys. exact Hys. }
  destruct (Z.leb_spec diff 0).
  - rewrite bind_ok. destruct (Z.gtb_spec diff 0); [lia|]. rewrite bind_ok.
    apply Hfin; [assumption|]. intros j Hj. unfold two64. lia.
  - destruct (Z.gtb_spec diff 20); [left; reflexivity|].
    unfold as_u32. rewrite Z.mod_small by (unfold two32; lia).
    rewrite usize_pow4_ok by lia. rewrite bind_ok.
    destruct (Z.gtb_spec diff 0); [|lia].
    rewrite i32_mul_ok by lia. rewrite bind_ok.
    rewrite u64_shl_ok by lia. rewrite bind_ok.
    apply Hfin.
    + apply Z.mod_pos_bound. unfold two64. lia.
    + intros j Hj. apply shl_room; [lia|]. rewrite pow2_4 by lia. pose proof (pow4_pos diff ltac:(lia)). lia.
Qed.

(* uncompact on arbitrary words: Ok or Err unless the capacity pre-count is exceeded *)
Definition cap_sum_any (l : list Z) (t : Z) : Z :=
  fold_right (fun x a => nchild (get_resolution x) t + a) 0 l.

Lemma count_step_any t n x :
  -1 <= t <= 29 ->
  count_step t (Ok n) x =
  if t <? get_resolution x then Err else u64_add n (nchild (get_resolution x) t).
Proof.
  intros Ht. pose proof (get_resolution_range x) as Hr.
  unfold count_step. rewrite bind_ok. cbv zeta.
  rewrite i32_sub_ok by lia. rewrite bind_ok.
  destruct (Z.ltb_spec (t - get_resolution x) 0), (Z.ltb_spec t (get_resolution x)); try lia; [reflexivity|].
  destruct (num_children_in_range (get_resolution x) t Hr Ht) as (-> & _). reflexivity.
Qed.

Lemma cap_sum_any_nonneg l t : -1 <= t <= 29 -> 0 <= cap_sum_any l t.
Proof.
  intros Ht. induction l as [|x l IH]; cbn [cap_sum_any fold_right]; [lia|]. fold (cap_sum_any l t).
  pose proof (num_children_in_range (get_resolution x) t (get_resolution_range x) Ht) as (_ & H). lia.
Qed.

Lemma count_loop_any l t : -1 <= t <= 29 ->
  forall acc, 0 <= acc -> acc + cap_sum_any l t < two64 ->
  fold_left (count_step t) l (Ok acc) = Err \/
  fold_left (count_step t) l (Ok acc) = Ok (acc + cap_sum_any l t).
Proof.
  intros Ht. induction l as [|x l IH]; intros acc Hacc Hsum.
  - right. cbn. f_equal. lia.
  - cbn [fold_left]. cbn [cap_sum_any fold_right] in Hsum |- *. fold (cap_sum_any l t) in Hsum |- *.
    pose proof (cap_sum_any_nonneg l t Ht) as Hnn.
    pose proof (num_children_in_range (get_resolution x) t (get_resolution_range x) Ht) as (_ & Hk).
    rewrite count_step_any by assumption.
    destruct (t <? get_resolution x); [left; apply count_step_err|].
    rewrite u64_add_ok by lia.
    destruct (IH (acc + nchild (get_resolution x) t) ltac:(lia) ltac:(lia)) as [E|E]; [left; exact E|].
    right. rewrite E. f_equal. lia.
Qed.

Theorem uncompact_total_any l t :
  nonneg_list l -> cap_sum_any l t <= capacity_limit ->
  uncompact l t = Err \/ exists out, uncompact l t = Ok out.
Proof.
  intros Hl Hcap.
  destruct (Z_le_dec (-1) t) as [H1|H1]; [|left; apply uncompact_bad_target; lia].
  destruct (Z_le_dec t 29) as [H2|H2]; [|left; apply uncompact_bad_target; lia].
  assert (Ht : -1 <= t <= 29) by lia.
  rewrite uncompact_unfold, target_ok by assumption.
  destruct (count_loop_any l t Ht 0 ltac:(lia) ltac:(unfold capacity_limit, two64 in *; lia)) as [->| ->];
    [left; reflexivity|].
  rewrite bind_ok, Z.add_0_l. destruct (Z.gtb_spec (cap_sum_any l t) capacity_limit); [lia|].
  destruct (mapM_total (fun _ => True) (expand_step t) l) as [->|(ys & -> & _)]; [|left; reflexivity|right; eexists; reflexivity].
  intros x Hx. unfold expand_step. cbv zeta.
  destruct (num_children_in_range (get_resolution x) t (get_resolution_range x) Ht) as (-> & _). rewrite bind_ok.
  destruct (nchild (get_resolution x) t =? 1); [right; eexists; split; [reflexivity|exact I]|].
  destruct (cell_to_children_total_any x t (Hl x Hx)) as [->|(l' & -> & _)]; [left; reflexivity|].
  right; eexists; split; [reflexivity|exact I].
Qed.

(* compact on arbitrary words *)
Lemma has_all_of_any cell len rest :
  0 <= get_resolution cell -> exists b, has_all_of cell (get_resolution cell) len rest = Ok b.
Proof.
  intros Hr0. pose proof (get_resolution_range cell) as Hr. unfold has_all_of. cbv zeta.
  destruct (expected_children (get_resolution cell) <=? len); [|eexists; reflexivity].
  rewrite is_first_child_spec by lia. rewrite bind_ok.
  destruct (first_child_test cell (get_resolution cell)); [|eexists; reflexivity].
  rewrite get_stride_spec by lia. rewrite bind_ok. eexists; reflexivity.
Qed.

Lemma compact_pass_total_any : forall fuel l,
  nonneg_list l -> (length l < fuel)%nat ->
  compact_pass fuel (Z.of_nat (length l)) l = Err \/
  exists r ch, compact_pass fuel (Z.of_nat (length l)) l = Ok (r, ch) /\ nonneg_list r.
Proof.
  induction fuel as [|f IH]; intros l Hl Hfuel; [lia|].
  destruct l as [|cell rest].
  { right. exists [], false. split; [reflexivity|assumption]. }
  rewrite compact_pass_cons. cbv zeta.
  assert (Hrest : nonneg_list rest) by (intros x Hx; apply Hl; right; exact Hx).
  assert (Hcell : 0 <= cell) by (apply Hl; left; reflexivity).
  assert (Hkeep :
    ('(r, ch) <- compact_pass f (Z.of_nat (length (cell :: rest)) - 1) rest ;; Ok (cell :: r, ch)) = Err \/
    exists r ch, ('(r, ch) <- compact_pass f (Z.of_nat (length (cell :: rest)) - 1) rest ;; Ok (cell :: r, ch)) = Ok (r, ch) /\
                 nonneg_list r).
  { replace (Z.of_nat (length (cell :: rest)) - 1) with (Z.of_nat (length rest)) by (cbn [length]; lia).
    destruct (IH rest Hrest ltac:(cbn [length] in Hfuel; lia)) as [->|(r' & ch' & -> & Hr')]; [left; reflexivity|].
    right. exists (cell :: r'), ch'. split; [reflexivity|]. intros x [<-|Hx]; [assumption|apply Hr'; exact Hx]. }
  destruct (Z.ltb_spec (get_resolution cell) 0); [exact Hkeep|].
  destruct (has_all_of_any cell (Z.of_nat (length (cell :: rest))) rest ltac:(assumption)) as (b & Hb).
  rewrite Hb, bind_ok. destruct b; [|exact Hkeep]. clear Hkeep.
  apply has_all_of_true in Hb. destruct Hb as (Hec & _ & st & _ & Hsf).
  apply siblings_follow_spec in Hsf. destruct Hsf as (Hlen & _).
  pose proof (expected_children_pos (get_resolution cell)) as Hpos.
  destruct (cell_to_parent_default_total_any cell Hcell) as [->|(p & -> & Hp)]; [left; reflexivity|].
  rewrite bind_ok.
  set (ec := Z.to_nat (expected_children (get_resolution cell))) in *.
  replace (Z.of_nat (length (cell :: rest)) - expected_children (get_resolution cell))
    with (Z.of_nat (length (skipn (ec - 1) rest))) by (rewrite skipn_length; cbn [length]; lia).
  assert (Hskip : nonneg_list (skipn (ec - 1) rest)) by (intros x Hx; apply Hrest; apply (skipn_incl _ _ _ Hx)).
  destruct (IH (skipn (ec - 1) rest) Hskip ltac:(rewrite skipn_length; cbn [length] in Hfuel; lia))
    as [->|(r' & ch' & -> & Hr')]; [left; reflexivity|].
  right. exists (p :: r'), true. split; [reflexivity|]. intros x [<-|Hx]; [assumption|apply Hr'; exact Hx].
Qed.

Lemma compact_loop_total_any : forall fuel l,
  nonneg_list l -> (length l < fuel)%nat ->
  compact_loop fuel l = Err \/ exists out, compact_loop fuel l = Ok out.
Proof.
  induction fuel as [|f IH]; intros l Hl Hfuel; [lia|].
  rewrite compact_loop_S.
  destruct (compact_pass_total_any (S (length l)) l Hl ltac:(lia)) as [->|(r & ch & Hp & Hr)]; [left; reflexivity|].
  rewrite Hp, bind_ok. destruct ch; [|right; eexists; reflexivity].
  destruct (compact_pass_shape _ _ _ _ Hp) as (_ & Hlt & _). specialize (Hlt eq_refl).
  pose proof (dedup_hsort_length r).
  apply IH; [|lia]. intros x Hx. rewrite dedup_hsort_in in Hx. apply Hr. exact Hx.
Qed.

(* 13: on arbitrary non-negative words (in particular arbitrary u64 values) compact never panics and
   never runs out of fuel; it can return Err, see [compact_err_example] *)
Theorem compact_total_any l :
  nonneg_list l -> compact l = Err \/ exists out, compact l = Ok out.
Proof.
  intros Hl. destruct l as [|a l]; [right; exists []; reflexivity|].
  rewrite compact_cons.
  assert (Hcur : nonneg_list (dedup (hsort (a :: l)))).
  { intros x Hx. rewrite dedup_hsort_in in Hx. apply Hl. exact Hx. }
  destruct (compact_loop_total_any (S (length (dedup (hsort (a :: l))))) (dedup (hsort (a :: l))) Hcur ltac:(lia))
    as [->|(r & ->)]; [left; reflexivity|right; eexists; reflexivity].
Qed.

Corollary compact_total_u64 l :
  (forall x, In x l -> is_u64 x) -> compact l <> Panic /\ compact l <> Diverge.
Proof.
  intros Hl. destruct (compact_total_any l) as [->|(out & ->)]; [|split; discriminate..].
  intros x Hx. destruct (Hl x Hx). assumption.
Qed.

(* Err is reachable: a complete sibling group of four resolution-2 words whose 6-bit prefix (60)
   names the non-existent face 12 is recognised as a group, and cell_to_parent then rejects it *)
Example compact_err_example :
  let w j := 60 * 2 ^ 58 + j * 2 ^ 56 + 2 ^ 55 in
  (forall j, In j [0; 1; 2; 3] -> is_u64 (w j)) /\ compact [w 0; w 1; w 2; w 3] = Err.
Proof.
  cbv zeta. split; [|vm_compute; reflexivity].
  intros j Hj. cbn [In] in Hj. unfold is_u64, two64. lia.
Qed.
