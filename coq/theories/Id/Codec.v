(* Model of src/core/serialization.rs: get_resolution, deserialize, serialize.
   One Gallina function per Rust function, same control structure.  Constants and the
   first-quintant table come from the regenerated A5gen.TablesCur. *)
From Coq Require Import ZArith List Bool.
From A5 Require Import Base.Outcome Base.Word.
From A5gen Require Import TablesCur.
Import ListNotations.
Open Scope Z_scope.

Record cell : Type := mkCell { origin_id : Z; segment : Z; s : Z; resolution : Z }.

(* get_resolution: the loop runs at most 30 times (resolution goes 29 -> -1) *)
Fixpoint get_resolution_loop (fuel : nat) (resolution shifted : Z) : Z :=
  match fuel with
  | O => resolution
  | S f =>
      if (resolution >? -1) && (Z.land shifted 1 =? 0) then
        let resolution' := resolution - 1 in
        get_resolution_loop f resolution'
          (Z.shiftr shifted (if resolution' <? FIRST_HILBERT_RESOLUTION then 1 else 2))
      else resolution
  end.

Definition get_resolution (index : Z) : Z :=
  get_resolution_loop 32 (MAX_RESOLUTION - 1) (Z.shiftr index 1).

Definition first_quintant_of (origin : Z) : out Z := tab_get first_quintant origin.

Definition deserialize (index : Z) : out cell :=
  let resolution := get_resolution index in
  if resolution =? -1 then Ok (mkCell 0 0 0 resolution) else
  let top6_bits := Z.shiftr index 58 in
  '(origin_id, segment) <-
     (if resolution =? 0 then
        if top6_bits >=? n_origins then Err else Ok (top6_bits, 0)
      else
        let origin_id := top6_bits / 5 in
        if origin_id >=? n_origins then Err else
        fq <- first_quintant_of origin_id ;;
        Ok (origin_id, (top6_bits + fq) mod 5)) ;;
  if resolution <? FIRST_HILBERT_RESOLUTION then Ok (mkCell origin_id segment 0 resolution) else
  hl0 <- i32_sub resolution FIRST_HILBERT_RESOLUTION ;;
  hilbert_levels <- i32_add hl0 1 ;;
  hilbert_bits <- u32_mul 2 (as_u32 hilbert_levels) ;;
  shift <- u32_sub HILBERT_START_BIT hilbert_bits ;;
  s <- u64_shr (Z.land index REMOVAL_MASK) shift ;;
  Ok (mkCell origin_id segment s resolution).

Definition serialize (c : cell) : out Z :=
  let res := resolution c in
  if res >=? MAX_RESOLUTION then Err else
  if res <? -1 then Err else
  if res =? -1 then Ok WORLD_CELL else
  r <- (if res <? FIRST_HILBERT_RESOLUTION then u32_add (as_u32 res) 1
        else
          h0 <- i32_add 1 res ;;
          hilbert_resolution <- i32_sub h0 FIRST_HILBERT_RESOLUTION ;;
          t <- u32_mul 2 (as_u32 hilbert_resolution) ;;
          u32_add t 1) ;;
  fq <- first_quintant_of (origin_id c) ;;
  t0 <- u64_add (segment c) 5 ;;
  t1 <- u64_sub t0 fq ;;
  let segment_n := t1 mod 5 in
  index0 <- (if res =? 0 then u64_shl (origin_id c) 58
             else
               t2 <- u64_mul 5 (origin_id c) ;;
               t3 <- u64_add t2 segment_n ;;
               u64_shl t3 58) ;;
  index1 <- (if res >=? FIRST_HILBERT_RESOLUTION then
               hl0 <- i32_sub res FIRST_HILBERT_RESOLUTION ;;
               hilbert_levels <- i32_add hl0 1 ;;
               hilbert_bits <- u32_mul 2 (as_u32 hilbert_levels) ;;
               max_s <- u64_shl 1 hilbert_bits ;;
               if s c >=? max_s then Err else
               sh <- u32_sub HILBERT_START_BIT hilbert_bits ;;
               t <- u64_shl (s c) sh ;;
               u64_add index0 t
             else Ok index0) ;;
  sh <- u32_sub HILBERT_START_BIT r ;;
  m <- u64_shl 1 sh ;;
  Ok (Z.lor index1 m).
