(* Specification vocabulary for compact / uncompact, written on canonical cell descriptions. *)
From Coq Require Import ZArith List Bool Lia.
From A5 Require Import Base.Outcome Base.Word Id.Codec Id.CodecSpec Id.Tree Id.TreeSpec Id.Compact.
Import ListNotations.
Open Scope Z_scope.

(* every ID of the list is the layout of a canonical cell *)
Definition all_canonical (l : list Z) : Prop := forall i, In i l -> canonical_id i.

(* x is (the ID of) a resolution-R descendant of some member of l *)
Definition covers (R : Z) (l : list Z) (x : Z) : Prop :=
  exists c d, canon c /\ In (layout c) l /\ resolution c <= R /\ In d (desc_cells c R) /\ x = layout d.

(* all members have resolution <= R *)
Definition res_le (R : Z) (l : list Z) : Prop :=
  forall c, canon c -> In (layout c) l -> resolution c <= R.

(* a is a proper ancestor of b *)
Definition proper_ancestor (a b : cell) : Prop :=
  resolution a < resolution b /\ anc b (resolution a) = a.

(* non-overlapping: no member is a proper ancestor of another member *)
Definition antichain (l : list Z) : Prop :=
  forall a b, canon a -> canon b -> In (layout a) l -> In (layout b) l -> ~ proper_ancestor a b.

(* the complete sibling group below p: all children of p one level down are members *)
Definition has_all_children (l : list Z) (p : cell) : Prop :=
  forall d, In d (desc_cells p (resolution p + 1)) -> In (layout d) l.

(* no complete sibling group (12 base cells / 5 quintants of a face / 4 children) is contained in l *)
Definition no_complete_group (l : list Z) : Prop :=
  forall p, canon p -> -1 <= resolution p <= 28 -> ~ has_all_children l p.

Definition same_set (a b : list Z) : Prop := forall x, In x a <-> In x b.

(* ascending by ID *)
Inductive sorted_lt : list Z -> Prop :=
| sorted_nil : sorted_lt []
| sorted_one x : sorted_lt [x]
| sorted_cons x y l : x < y -> sorted_lt (y :: l) -> sorted_lt (x :: y :: l).
