(* Order-theoretic facts behind compact (C10): the sort key (hierarchy_key id, id) puts the subtree
   of every non-world cell into one open key interval, so that in a sorted antichain the children
   of a cell occupy consecutive positions. *)
From Coq Require Import ZArith List Bool Lia ZifyBool Sorting.Sorted Sorting.Permutation
  Sorting.Mergesort Orders RelationClasses.
From A5 Require Import Base.Outcome Base.Word Id.Codec Id.CodecSpec Id.CodecProofs
  Id.Tree Id.TreeSpec Id.TreeProofs Id.Compact Id.CompactSpec.
From A5gen Require Import TablesCur.
Import ListNotations.
Open Scope Z_scope.

Ltac Zify.zify_post_hook ::= Z.div_mod_to_equations.

(* ================================================================== *)
(* 1. the key of a canonical cell                                      *)
(* ================================================================== *)

Lemma lor_even_1 a : 0 <= a -> a mod 2 = 0 -> Z.lor a 1 = a + 1.
Proof.
  intros Ha Hm. change 1 with (2 ^ 0) at 1 2. apply lor_pow2_add; [assumption|lia|].
  change (2 ^ (0 + 1)) with 2. exact Hm.
Qed.

Theorem hkey_spec c :
  canon c ->
  hierarchy_key (layout c) =
  if resolution c =? 0 then 5 * origin_id c * 2 ^ 58 + 1 else layout c.
Proof.
  intros Hc. unfold hierarchy_key. rewrite resolution_layout by assumption.
  destruct (Z.eqb_spec (resolution c) 0) as [E|]; [|reflexivity].
  pose proof (canon_origin c Hc ltac:(lia)) as Ho.
  unfold layout. rewrite E. change (0 =? -1) with false. change (0 =? 0) with true. cbv iota.
  change HILBERT_START_BIT with 58.
  rewrite shr_div, shl_mul, wrap64_mod by lia. unfold two64.
  assert (E1 : (origin_id c * 2 ^ 58 + 2 ^ 57) / 2 ^ 58 = origin_id c) by lia.
  rewrite E1.
  rewrite Z.mod_small by lia.
  apply lor_even_1; lia.
Qed.

Definition hkey (c : cell) : Z := hierarchy_key (layout c).

Lemma layout_even c : canon c -> layout c mod 2 = 0.
Proof.
  intros Hc. pose proof (canon_res_range c Hc) as Hr.
  destruct (Z.ltb_spec (resolution c) 0) as [Hn|Hn].
  - unfold layout. destruct (Z.eqb_spec (resolution c) (-1)); [reflexivity|lia].
  - destruct (layout_marker_form c Hc Hn) as (A & HA & ->).
    assert (Hm : 1 <= marker_pos (resolution c)) by (unfold marker_pos; destruct (resolution c <? 2); lia).
    replace (marker_pos (resolution c) + 1) with (Z.succ (Z.succ (marker_pos (resolution c) - 1))) by lia.
    replace (marker_pos (resolution c)) with (Z.succ (marker_pos (resolution c) - 1)) at 2 by lia.
    rewrite !Z.pow_succ_r by lia.
    set (P := 2 ^ (marker_pos (resolution c) - 1)).
    replace (A * (2 * (2 * P)) + 2 * P) with ((A * 2 * P + P) * 2) by ring.
    apply Z.mod_mul. lia.
Qed.

(* ================================================================== *)
(* 2. injectivity of the key, the strict total order                   *)
(* ================================================================== *)

Theorem hkey_injective_canon a b :
  canon a -> canon b -> hierarchy_key (layout a) = hierarchy_key (layout b) -> a = b.
Proof.
  intros Ha Hb. rewrite !hkey_spec by assumption.
  pose proof (layout_even a Ha) as Ea. pose proof (layout_even b Hb) as Eb.
  destruct (Z.eqb_spec (resolution a) 0) as [Ra|Ra], (Z.eqb_spec (resolution b) 0) as [Rb|Rb]; intros E.
  - pose proof (canon_origin a Ha ltac:(lia)). pose proof (canon_origin b Hb ltac:(lia)).
    destruct a as [oa sga sa ra], b as [ob sgb sb rb]. unfold canon in Ha, Hb.
    cbn [resolution origin_id segment s] in *. subst ra rb.
    destruct Ha as (_ & _ & _ & H0a & _). destruct Hb as (_ & _ & _ & H0b & _).
    destruct (H0a eq_refl) as (-> & ->). destruct (H0b eq_refl) as (-> & ->).
    f_equal. lia.
  - exfalso. lia.
  - exfalso. lia.
  - apply layout_injective; assumption.
Qed.

(* the order the model sorts by: lexicographic on (key, id) *)
Definition klt (a b : Z) : Prop :=
  hierarchy_key a < hierarchy_key b \/ (hierarchy_key a = hierarchy_key b /\ a < b).
Definition kle (a b : Z) : Prop :=
  hierarchy_key a < hierarchy_key b \/ (hierarchy_key a = hierarchy_key b /\ a <= b).

Lemma klt_irrefl a : ~ klt a a.
Proof. unfold klt. lia. Qed.
Lemma klt_trans a b c : klt a b -> klt b c -> klt a c.
Proof. unfold klt. lia. Qed.
Lemma klt_total a b : klt a b \/ a = b \/ klt b a.
Proof. unfold klt. lia. Qed.
Lemma klt_asym a b : klt a b -> ~ klt b a.
Proof. unfold klt. lia. Qed.
Lemma kle_lt_eq a b : kle a b <-> klt a b \/ a = b.
Proof. unfold kle, klt. split; [lia|]. intros [H| ->]; lia. Qed.
Lemma kle_antisym a b : kle a b -> kle b a -> a = b.
Proof. unfold kle. lia. Qed.
Lemma kle_trans a b c : kle a b -> kle b c -> kle a c.
Proof. unfold kle. lia. Qed.
Lemma klt_kle_trans a b c : klt a b -> kle b c -> klt a c.
Proof. unfold klt, kle. lia. Qed.
Lemma kle_klt_trans a b c : kle a b -> klt b c -> klt a c.
Proof. unfold klt, kle. lia. Qed.
Lemma klt_key_le a b : klt a b -> hierarchy_key a <= hierarchy_key b.
Proof. unfold klt. lia. Qed.

#[global] Instance klt_strict : StrictOrder klt.
Proof. split; [intros a; apply klt_irrefl|intros a b c; apply klt_trans]. Qed.

(* on canonical IDs the second component is never needed: keys are pairwise different *)
Theorem klt_canon a b :
  canon a -> canon b -> (klt (layout a) (layout b) <-> hkey a < hkey b).
Proof.
  intros Ha Hb. unfold klt, hkey. split; [|auto].
  intros [H|(E & H)]; [assumption|].
  apply hkey_injective_canon in E; try assumption. subst. lia.
Qed.

Theorem klt_strict_total_canon :
  (forall a, canonical_id a -> ~ klt a a) /\
  (forall a b c, canonical_id a -> canonical_id b -> canonical_id c -> klt a b -> klt b c -> klt a c) /\
  (forall a b, canonical_id a -> canonical_id b -> klt a b \/ a = b \/ klt b a).
Proof.
  split; [intros a _; apply klt_irrefl|].
  split; [intros a b c _ _ _; apply klt_trans|intros a b _ _; apply klt_total].
Qed.

(* ================================================================== *)
(* 3. the subtree of a non-world cell is one open key interval         *)
(* ================================================================== *)

Definition klo (c : cell) : Z :=
  if resolution c =? 0 then 5 * origin_id c * 2 ^ 58 else sub_lo c.
Definition khi (c : cell) : Z :=
  if resolution c =? 0 then 5 * (origin_id c + 1) * 2 ^ 58 else sub_hi c.

Lemma code_range c : canon c -> 0 <= resolution c ->
  5 * origin_id c <= code c < 5 * origin_id c + 5.
Proof.
  intros Hc Hr. pose proof (canon_origin c Hc Hr) as Ho. pose proof (fq_range _ Ho).
  unfold code. lia.
Qed.

(* an ID of resolution >= 1 lies strictly inside the 2^58-block of its 6-bit prefix *)
Lemma layout_code_bounds x :
  canon x -> 1 <= resolution x -> code x * 2 ^ 58 < layout x < (code x + 1) * 2 ^ 58.
Proof.
  intros Hx Hr.
  destruct (anc_canon x 1 Hx ltac:(lia)) as (Hc1 & Hr1).
  assert (H : sub_lo (anc x 1) < layout x < sub_hi (anc x 1)).
  { apply subtree_interval; try assumption; try lia. rewrite Hr1. split; [lia|reflexivity]. }
  unfold sub_hi, sub_lo in H. rewrite Hr1 in H. change (1 =? 1) with true in H. cbv iota in H.
  rewrite code_anc in H by lia. lia.
Qed.

(* the subtree interval of a cell of resolution >= 1 lies inside the block of its prefix *)
Lemma sub_bounds c :
  canon c -> 1 <= resolution c -> code c * 2 ^ 58 <= sub_lo c /\ sub_hi c <= (code c + 1) * 2 ^ 58.
Proof.
  intros Hc Hr. pose proof (canon_res_range c Hc) as Hr29.
  unfold sub_hi, sub_lo. destruct (Z.eqb_spec (resolution c) 1) as [E|E]; [lia|].
  destruct Hc as (_ & _ & _ & _ & _ & _ & H2). specialize (H2 ltac:(lia)).
  pose proof (unit_split 1 (resolution c) ltac:(lia) ltac:(lia)) as HU.
  change (60 - 2 * 1) with 58 in HU.
  pose proof (pow2_pos (60 - 2 * resolution c) ltac:(lia)) as HP.
  set (U := 2 ^ (60 - 2 * resolution c)) in *. set (Q := 4 ^ (resolution c - 1)) in *.
  rewrite HU. nia.
Qed.

Lemma base_cell_eq c : canon c -> resolution c = 0 -> c = mkCell (origin_id c) 0 0 0.
Proof.
  destruct c as [o sg sv r]. unfold canon; projs. intros (_ & _ & _ & H0 & _) ->.
  destruct (H0 eq_refl) as (-> & ->). reflexivity.
Qed.

Lemma anc_0 x : anc x 0 = mkCell (origin_id x) 0 0 0.
Proof. reflexivity. Qed.

(* The interval characterisation.  The hypothesis [~ proper_ancestor x c] cannot be dropped:
   see [key_interval_corner] below. *)
Theorem key_subtree_interval c x :
  canon c -> canon x -> 0 <= resolution c -> 0 <= resolution x ->
  ~ proper_ancestor x c ->
  (klo c < hierarchy_key (layout x) < khi c <->
   resolution c <= resolution x /\ anc x (resolution c) = c).
Proof.
  intros Hc Hx Hrc Hrx Hna. rewrite hkey_spec by assumption. unfold klo, khi.
  pose proof (canon_origin c Hc Hrc) as Hoc. pose proof (canon_origin x Hx Hrx) as Hox.
  destruct (Z.eqb_spec (resolution c) 0) as [Ec|Ec], (Z.eqb_spec (resolution x) 0) as [Ex|Ex].
  - (* both base cells *)
    rewrite Ec, anc_0. rewrite (base_cell_eq c Hc Ec) at 3. rewrite cell_eq. lia.
  - (* c base cell, x finer *)
    rewrite Ec, anc_0. rewrite (base_cell_eq c Hc Ec) at 3. rewrite cell_eq.
    pose proof (layout_code_bounds x Hx ltac:(lia)). pose proof (code_range x Hx Hrx). lia.
  - (* x base cell, c finer: x is not on c's face *)
    split; [|lia]. intros H. exfalso.
    pose proof (sub_bounds c Hc ltac:(lia)). pose proof (code_range c Hc Hrc).
    assert (origin_id c <> origin_id x).
    { intros E. apply Hna. split; [lia|]. rewrite Ex, anc_0, E. symmetry. apply base_cell_eq; assumption. }
    lia.
  - apply subtree_interval; try assumption; lia.
Qed.

(* The corner excluded above: a base cell's key lies inside the ID interval of exactly those finer
   cells of its own face whose interval starts at the face's first ID (first quintant, s = 0). *)
Theorem key_interval_corner c x :
  canon c -> canon x -> 1 <= resolution c -> resolution x = 0 ->
  (klo c < hierarchy_key (layout x) < khi c <-> sub_lo c = 5 * origin_id x * 2 ^ 58).
Proof.
  intros Hc Hx Hrc Hrx. rewrite hkey_spec by assumption. unfold klo, khi.
  pose proof (canon_res_range c Hc) as Hr29.
  destruct (Z.eqb_spec (resolution c) 0); [lia|]. destruct (Z.eqb_spec (resolution x) 0); [|lia].
  rewrite sub_hi_idx, sub_lo_idx by assumption.
  pose proof (unit_split 1 (resolution c) ltac:(lia) ltac:(lia)) as HU.
  change (60 - 2 * 1) with 58 in HU. rewrite HU.
  pose proof (pow2_pos (60 - 2 * resolution c) ltac:(lia)) as HP.
  assert (H4 : 4 <= 2 ^ (60 - 2 * resolution c)).
  { change 4 with (2 ^ 2). apply Z.pow_le_mono_r; lia. }
  set (U := 2 ^ (60 - 2 * resolution c)) in *. set (Q := 4 ^ (resolution c - 1)) in *.
  replace (5 * origin_id x * (Q * U)) with (5 * origin_id x * Q * U) by ring.
  set (m := 5 * origin_id x * Q). split.
  - intros (H1 & H2). f_equal. nia.
  - intros E. apply Z.mul_cancel_r in E; [|lia]. rewrite E. nia.
Qed.

Example key_interval_counterexample :
  let c := mkCell 0 (fq 0) 0 1 in let x := mkCell 0 0 0 0 in
  canon c /\ canon x /\ klo c < hierarchy_key (layout x) < khi c /\
  ~ (resolution c <= resolution x /\ anc x (resolution c) = c) /\ proper_ancestor x c.
Proof.
  cbv zeta. split; [vm_compute; intuition discriminate|]. split; [vm_compute; intuition discriminate|].
  split; [vm_compute; split; reflexivity|]. split.
  - cbn [resolution]. lia.
  - split; [cbn [resolution]; lia|reflexivity].
Qed.

(* ================================================================== *)
(* 4a. sorted lists: a convex sorted sub-list is a contiguous segment  *)
(* ================================================================== *)

Section SortedSegment.
  Context {A : Type} (R : A -> A -> Prop).
  Hypothesis R_irrefl : forall a, ~ R a a.
  Hypothesis R_trans : forall a b c, R a b -> R b c -> R a c.

  Lemma ss_head a l x : StronglySorted R (a :: l) -> In x l -> R a x.
  Proof. intros H Hx. apply StronglySorted_inv in H. destruct H as (_ & H). rewrite Forall_forall in H. auto. Qed.

  Lemma ss_tail a l : StronglySorted R (a :: l) -> StronglySorted R l.
  Proof. intros H. apply StronglySorted_inv in H. apply H. Qed.

  Lemma ss_NoDup l : StronglySorted R l -> NoDup l.
  Proof.
    induction l as [|a l IH]; intros H; constructor.
    - intros Hin. apply (R_irrefl a). eapply ss_head; eassumption.
    - apply IH. eapply ss_tail; eassumption.
  Qed.

  Definition convex_in (g l : list A) : Prop :=
    forall y a b, In y l -> In a g -> In b g -> R a y -> R y b -> In y g.

  Lemma sorted_group_prefix : forall g' g0 l',
    StronglySorted R (g0 :: l') -> StronglySorted R (g0 :: g') -> incl g' l' ->
    convex_in (g0 :: g') (g0 :: l') ->
    exists post, l' = g' ++ post.
  Proof.
    induction g' as [|g1 g'' IH]; intros g0 l' Hl Hg Hincl Hconv.
    - exists l'. reflexivity.
    - assert (Hg1 : In g1 l') by (apply Hincl; left; reflexivity).
      destruct l' as [|b l'']; [destruct Hg1|].
      assert (Hl' : StronglySorted R (b :: l'')) by (eapply ss_tail; eassumption).
      assert (Hg' : StronglySorted R (g1 :: g'')) by (eapply ss_tail; eassumption).
      assert (Hb : b = g1).
      { destruct Hg1 as [E|Hin]; [assumption|]. exfalso.
        assert (Rb : R b g1) by (eapply ss_head; eassumption).
        assert (R0 : R g0 b) by (apply (ss_head g0 (b :: l'')); [exact Hl|left; reflexivity]).
        assert (Hbg : In b (g0 :: g1 :: g'')).
        { apply (Hconv b g0 g1); simpl; auto. }
        destruct Hbg as [E|[E|Hin']].
        - subst. eapply R_irrefl; eassumption.
        - subst. eapply R_irrefl; eassumption.
        - apply (R_irrefl b). eapply R_trans; [eassumption|]. eapply ss_head; eassumption. }
      subst b.
      destruct (IH g1 l'') as (post & ->); try assumption.
      + intros e He. assert (Hin : In e (g1 :: l'')) by (apply Hincl; right; assumption).
        destruct Hin as [E|Hin]; [|assumption]. subst e. exfalso.
        apply (R_irrefl g1). eapply ss_head; eassumption.
      + intros y a b Hy Ha Hb Ray Ryb.
        assert (Hin : In y (g0 :: g1 :: g'')).
        { apply (Hconv y a b); simpl; auto. }
        destruct Hin as [E|Hin]; [|assumption]. subst y. exfalso.
        apply (R_irrefl a). eapply R_trans; [eassumption|]. eapply ss_head; eassumption.
      + exists post. reflexivity.
  Qed.

  Theorem sorted_group_segment g : forall l,
    StronglySorted R l -> StronglySorted R g -> incl g l -> convex_in g l ->
    exists pre post, l = pre ++ g ++ post.
  Proof.
    destruct g as [|g0 g']; [intros l _ _ _ _; exists [], l; reflexivity|].
    induction l as [|a l' IH]; intros Hl Hg Hincl Hconv.
    - destruct (Hincl g0); left; reflexivity.
    - assert (H0 : In g0 (a :: l')) by (apply Hincl; left; reflexivity).
      destruct H0 as [E|Hin].
      + subst a. destruct (sorted_group_prefix g' g0 l') as (post & ->); try assumption.
        * intros e He. assert (Hin : In e (g0 :: l')) by (apply Hincl; right; assumption).
          destruct Hin as [E|Hin]; [|assumption]. subst e. exfalso.
          apply (R_irrefl g0). eapply ss_head; eassumption.
        * exists [], post. reflexivity.
      + assert (Ra : R a g0) by (eapply ss_head; eassumption).
        destruct IH as (pre & post & ->).
        * eapply ss_tail; eassumption.
        * assumption.
        * intros e He. assert (Hin' : In e (a :: l')) by (apply Hincl; assumption).
          destruct Hin' as [E|Hin']; [|assumption]. subst e. exfalso.
          destruct He as [E|He]; [subst; eapply R_irrefl; eassumption|].
          apply (R_irrefl a). eapply R_trans; [eassumption|]. eapply ss_head; eassumption.
        * intros y x b Hy Hx Hb. apply Hconv; [right; assumption|assumption|assumption].
        * exists (a :: pre), post. reflexivity.
  Qed.

  Lemma ss_map_seqZ (f : Z -> A) n : forall s0,
    (forall j j', s0 <= j -> j < j' -> j' < s0 + Z.of_nat n -> R (f j) (f j')) ->
    StronglySorted R (map f (seqZ s0 n)).
  Proof.
    induction n as [|n IH]; intros s0 H; cbn [seqZ map]; constructor.
    - apply IH. intros j j' H1 H2 H3. apply H; lia.
    - rewrite Forall_forall. intros x Hx. rewrite in_map_iff in Hx. destruct Hx as (j & <- & Hj).
      rewrite in_seqZ in Hj. apply H; lia.
  Qed.
End SortedSegment.

(* ================================================================== *)
(* 4b. dedup (hsort l0) is strictly sorted by klt and has the elements of l0 *)
(* ================================================================== *)

Lemma pair_leb_trans : Transitive (fun x y : Z * Z => is_true (pair_leb x y)).
Proof. intros [a1 a2] [b1 b2] [c1 c2]. unfold pair_leb, is_true. cbn [fst snd]. lia. Qed.

Lemma ss_map {A B} (R : A -> A -> Prop) (R' : B -> B -> Prop) (f : A -> B) l :
  (forall p q, In p l -> In q l -> R p q -> R' (f p) (f q)) ->
  StronglySorted R l -> StronglySorted R' (map f l).
Proof.
  induction l as [|a l IH]; intros H Hs; cbn [map]; constructor.
  - apply IH; [intros p q Hp Hq; apply H; right; assumption|].
    apply StronglySorted_inv in Hs. apply Hs.
  - apply StronglySorted_inv in Hs. destruct Hs as (_ & Hf). rewrite Forall_forall in *.
    intros y Hy. rewrite in_map_iff in Hy. destruct Hy as (q & <- & Hq).
    apply H; [left; reflexivity|right; assumption|auto].
Qed.

Lemma hsort_perm l0 : Permutation l0 (hsort l0).
Proof.
  unfold hsort, sort_by.
  rewrite <- (map_id l0) at 1.
  rewrite <- (map_ext (fun x => snd (hierarchy_key x, x)) id) by reflexivity.
  rewrite <- (map_map (fun x => (hierarchy_key x, x)) snd).
  apply Permutation_map. apply PairSort.Permuted_sort.
Qed.

Lemma hsort_in l0 z : In z (hsort l0) <-> In z l0.
Proof.
  split; apply Permutation_in; [apply Permutation_sym|]; apply hsort_perm.
Qed.

Theorem hsort_sorted l0 : StronglySorted kle (hsort l0).
Proof.
  unfold hsort, sort_by.
  apply ss_map with (R := fun x y => is_true (pair_leb x y)).
  - intros p q Hp Hq Hle.
    assert (Hform : forall r, In r (PairSort.sort (map (fun x => (hierarchy_key x, x)) l0)) ->
                              fst r = hierarchy_key (snd r)).
    { intros r Hr. apply (Permutation_in _ (Permutation_sym (PairSort.Permuted_sort _))) in Hr.
      rewrite in_map_iff in Hr. destruct Hr as (x & <- & _). reflexivity. }
    pose proof (Hform p Hp) as Ep. pose proof (Hform q Hq) as Eq.
    unfold pair_leb, is_true in Hle. unfold kle. rewrite <- Ep, <- Eq. lia.
  - apply PairSort.StronglySorted_sort. exact pair_leb_trans.
Qed.

Lemma dedup_cons2 x y ys : dedup (x :: y :: ys) = if x =? y then dedup (y :: ys) else x :: dedup (y :: ys).
Proof. reflexivity. Qed.

Lemma dedup_in l : forall z, In z (dedup l) <-> In z l.
Proof.
  induction l as [|x xs IH]; intros z; [reflexivity|].
  destruct xs as [|y ys]; [reflexivity|].
  rewrite dedup_cons2. destruct (Z.eqb_spec x y) as [->|Hne].
  - rewrite IH. simpl. tauto.
  - cbn [In]. rewrite IH. reflexivity.
Qed.

Theorem dedup_sorted l : StronglySorted kle l -> StronglySorted klt (dedup l).
Proof.
  induction l as [|x xs IH]; intros Hs; [constructor|].
  destruct xs as [|y ys]; [constructor; constructor|].
  rewrite dedup_cons2.
  pose proof (ss_tail kle _ _ Hs) as Hs'.
  destruct (Z.eqb_spec x y) as [->|Hne]; [apply IH; assumption|].
  constructor; [apply IH; assumption|].
  rewrite Forall_forall. intros z Hz. rewrite dedup_in in Hz.
  pose proof (ss_head kle _ _ z Hs Hz) as Hxz.
  rewrite kle_lt_eq in Hxz. destruct Hxz as [H|E]; [assumption|]. subst z. exfalso.
  apply Hne. apply kle_antisym.
  - eapply ss_head; [eassumption|left; reflexivity].
  - destruct Hz as [E|Hz]; [congruence|]. eapply ss_head; eassumption.
Qed.

Theorem dedup_hsort_sorted l0 :
  StronglySorted klt (dedup (hsort l0)) /\ forall z, In z (dedup (hsort l0)) <-> In z l0.
Proof.
  split; [apply dedup_sorted, hsort_sorted|].
  intros z. rewrite dedup_in. apply hsort_in.
Qed.

(* a duplicate-free input is only permuted *)
Lemma dedup_NoDup_id l : StronglySorted kle l -> NoDup l -> dedup l = l.
Proof.
  induction l as [|x xs IH]; intros Hs Hn; [reflexivity|].
  destruct xs as [|y ys]; [reflexivity|].
  rewrite dedup_cons2. inversion Hn; subst.
  destruct (Z.eqb_spec x y) as [->|Hne]; [exfalso; apply H1; left; reflexivity|].
  f_equal. apply IH; [eapply ss_tail; eassumption|assumption].
Qed.

(* ================================================================== *)
(* 4c. the sibling group below a cell                                  *)
(* ================================================================== *)

(* the child with the smallest ID *)
Definition first_child (p : cell) : cell :=
  if resolution p =? -1 then mkCell 0 0 0 0
  else if resolution p =? 0 then mkCell (origin_id p) (fq (origin_id p)) 0 1
  else mkCell (origin_id p) (segment p) (4 * s p) (resolution p + 1).

Definition gstride (p : cell) : Z :=
  if resolution p <? 1 then 2 ^ 58 else 2 ^ (58 - 2 * resolution p).

Definition gcount (p : cell) : Z := expected_children (resolution p + 1).

Definition group (p : cell) : list Z :=
  map (fun j => layout (first_child p) + j * gstride p) (seqZ 0 (Z.to_nat (gcount p))).

Lemma gcount_val p :
  gcount p = if resolution p =? -1 then 12 else if resolution p =? 0 then 5 else
             if 1 <=? resolution p then 4 else gcount p.
Proof.
  unfold gcount, expected_children. change FIRST_HILBERT_RESOLUTION with 2.
  destruct (Z.eqb_spec (resolution p) (-1)) as [->|]; [reflexivity|].
  destruct (Z.eqb_spec (resolution p) 0) as [->|]; [reflexivity|].
  destruct (Z.leb_spec 1 (resolution p)); [|reflexivity].
  destruct (Z.geb_spec (resolution p + 1) 2); [reflexivity|lia].
Qed.

(* the group is the set of the children's IDs *)
Theorem group_children p :
  canon p -> -1 <= resolution p <= 28 ->
  forall i, In i (group p) <-> exists d, In d (desc_cells p (resolution p + 1)) /\ i = layout d.
Proof.
  intros Hp Hr i.
  destruct (Z.eq_dec (resolution p) (-1)) as [Em|Nm].
  { (* world *)
    rewrite (canon_is_world p Hp Em).
    assert (E : group world = map layout (desc_cells world (resolution world + 1))) by (vm_compute; reflexivity).
    rewrite E, in_map_iff. split; intros (d & H1 & H2); exists d; auto. }
  destruct (Z.eq_dec (resolution p) 0) as [E0|N0].
  { (* base cell: the five quintants in code order *)
    pose proof (canon_origin p Hp ltac:(lia)) as Ho.
    unfold group, first_child, gstride. rewrite gcount_val. rewrite E0.
    change (0 =? -1) with false. change (0 =? 0) with true. change (0 <? 1) with true. cbv iota.
    change (Z.to_nat 5) with 5%nat. rewrite in_map_iff.
    split.
    - intros (q & <- & Hq). rewrite in_seqZ in Hq.
      exists (mkCell (origin_id p) ((fq (origin_id p) + q) mod 5) 0 1). split.
      + apply desc_char; [assumption|lia|]. rewrite E0. projs. split; [|split; [reflexivity|]].
        * unfold canon; projs. lia.
        * rewrite anc_0. projs. symmetry. apply base_cell_eq; assumption.
      + destruct (quintants_stride (origin_id p) q Ho ltac:(lia)) as (-> & _). reflexivity.
    - intros (d & Hd & ->). apply desc_char in Hd; [|assumption|lia].
      destruct Hd as (Hcd & Hrd & Had). rewrite E0 in *. change (0 + 1) with 1 in Hrd.
      destruct (quintant_code d Hcd Hrd) as (EL & Hcode).
      assert (Eo : origin_id d = origin_id p).
      { rewrite anc_0 in Had. rewrite <- Had. reflexivity. }
      rewrite Eo in Hcode.
      exists (code d - 5 * origin_id p). split; [|rewrite in_seqZ; lia].
      destruct (quintants_stride (origin_id p) 0 Ho ltac:(lia)) as (_ & ->). rewrite EL. ring. }
  (* resolution >= 1 *)
  assert (E : group p = map layout (desc_cells p (resolution p + 1))).
  { rewrite children_consecutive by (try assumption; lia).
    unfold group, first_child, gstride. rewrite gcount_val.
    destruct (Z.eqb_spec (resolution p) (-1)); [lia|]. destruct (Z.eqb_spec (resolution p) 0); [lia|].
    destruct (Z.leb_spec 1 (resolution p)); [|lia]. destruct (Z.ltb_spec (resolution p) 1); [lia|].
    reflexivity. }
  rewrite E, in_map_iff. split; intros (d & H1 & H2); exists d; auto.
Qed.

Lemma group_member_canon p i :
  canon p -> -1 <= resolution p <= 28 -> In i (group p) ->
  exists d, canon d /\ resolution d = resolution p + 1 /\ anc d (resolution p) = p /\ i = layout d.
Proof.
  intros Hp Hr Hi. apply group_children in Hi; try assumption. destruct Hi as (d & Hd & ->).
  apply desc_char in Hd; [|assumption|lia]. exists d. tauto.
Qed.

Lemma group_length p : length (group p) = Z.to_nat (gcount p).
Proof. unfold group. rewrite map_length, seqZ_length. reflexivity. Qed.

Lemma gstride_pos p : -1 <= resolution p <= 28 -> 0 < gstride p.
Proof. intros H. unfold gstride. destruct (resolution p <? 1); apply pow2_pos; lia. Qed.

(* canonical cells of equal resolution: ID order and key order agree *)
Lemma klt_same_res a b :
  canon a -> canon b -> resolution a = resolution b -> layout a < layout b -> klt (layout a) (layout b).
Proof.
  intros Ha Hb Er Hlt. left. rewrite !hkey_spec by assumption. rewrite <- Er.
  destruct (Z.eqb_spec (resolution a) 0) as [E|]; [|assumption].
  revert Hlt. unfold layout. rewrite <- Er, E.
  change (0 =? -1) with false. change (0 =? 0) with true. cbv iota. lia.
Qed.

Theorem group_sorted p :
  canon p -> -1 <= resolution p <= 28 -> StronglySorted klt (group p) /\ StronglySorted Z.lt (group p).
Proof.
  intros Hp Hr. pose proof (gstride_pos p Hr) as HS.
  assert (Hlt : forall j j', 0 <= j -> j < j' -> j' < 0 + Z.of_nat (Z.to_nat (gcount p)) ->
                 layout (first_child p) + j * gstride p < layout (first_child p) + j' * gstride p).
  { intros j j' H0 H1 H2. nia. }
  split; apply ss_map_seqZ; [|exact Hlt].
  intros j j' H0 H1 H2.
  assert (In (layout (first_child p) + j * gstride p) (group p)) as Hj.
  { unfold group. apply in_map_iff. exists j. split; [reflexivity|apply in_seqZ; lia]. }
  assert (In (layout (first_child p) + j' * gstride p) (group p)) as Hj'.
  { unfold group. apply in_map_iff. exists j'. split; [reflexivity|apply in_seqZ; lia]. }
  destruct (group_member_canon p _ Hp Hr Hj) as (d & Hd & Hrd & _ & Ed).
  destruct (group_member_canon p _ Hp Hr Hj') as (d' & Hd' & Hrd' & _ & Ed').
  rewrite Ed, Ed'. apply klt_same_res; try assumption; [congruence|].
  rewrite <- Ed, <- Ed'. apply Hlt; assumption.
Qed.

(* ================================================================== *)
(* 4d. siblings are adjacent in a sorted antichain                     *)
(* ================================================================== *)

Lemma proper_ancestor_trans a b c :
  canon c -> -1 <= resolution a -> proper_ancestor a b -> proper_ancestor b c -> proper_ancestor a c.
Proof.
  intros Hc Ha (R1 & A1) (R2 & A2). split; [lia|].
  rewrite <- A1 at 2. rewrite <- A2. symmetry. apply anc_compose; [assumption|lia|lia].
Qed.

Lemma child_proper p d :
  canon p -> -1 <= resolution p <= 28 -> In d (desc_cells p (resolution p + 1)) ->
  canon d /\ proper_ancestor p d.
Proof.
  intros Hp Hr Hd. apply desc_char in Hd; [|assumption|lia]. destruct Hd as (Hcd & Hrd & Had).
  split; [assumption|]. split; [lia|assumption].
Qed.

Lemma first_child_in p :
  canon p -> -1 <= resolution p <= 28 -> In (layout (first_child p)) (group p).
Proof.
  intros _ Hr. unfold group. apply in_map_iff. exists 0. split; [lia|].
  apply in_seqZ. rewrite gcount_val.
  destruct (Z.eqb_spec (resolution p) (-1)); [lia|]. destruct (Z.eqb_spec (resolution p) 0); [lia|].
  destruct (Z.leb_spec 1 (resolution p)); lia.
Qed.

(* every member of an antichain that lies between two children of p (in key order) is a child *)
Lemma between_children l p :
  all_canonical l -> antichain l -> canon p -> -1 <= resolution p <= 28 -> has_all_children l p ->
  convex_in klt (group p) l.
Proof.
  intros Hcan Hanti Hp Hr Hall y a b Hy Ha Hb Hay Hyb.
  destruct (Hcan y Hy) as (x & Hx & <-).
  destruct (group_member_canon p a Hp Hr Ha) as (ca & Hca & Rca & Aca & ->).
  destruct (group_member_canon p b Hp Hr Hb) as (cb & Hcb & Rcb & Acb & ->).
  assert (Hca_in : In (layout ca) l).
  { apply Hall. apply desc_char; [assumption|lia|tauto]. }
  assert (Hpca : proper_ancestor p ca) by (split; [lia|assumption]).
  pose proof (canon_res_range x Hx) as Hrx.
  (* x is a descendant of p *)
  assert (Hdesc : resolution p <= resolution x /\ anc x (resolution p) = p).
  { destruct (Z.eq_dec (resolution p) (-1)) as [Em|Nm].
    - split; [lia|]. rewrite Em. rewrite (canon_is_world p Hp Em). reflexivity.
    - assert (Hnpa : ~ proper_ancestor x p).
      { intros Hxp. apply (Hanti x ca Hx Hca Hy Hca_in).
        apply (proper_ancestor_trans x p ca); try assumption; lia. }
      assert (Hx0 : 0 <= resolution x).
      { destruct (Z_le_dec 0 (resolution x)); [assumption|]. exfalso. apply Hnpa.
        split; [lia|]. assert (E : resolution x = -1) by lia. rewrite E.
        symmetry. apply canon_is_world; assumption. }
      apply key_subtree_interval; try assumption; [lia|].
      assert (Ia : klo p < hierarchy_key (layout ca) < khi p).
      { apply key_subtree_interval; try assumption; try lia.
        - intros (Hlt & _). lia.
        - split; [lia|assumption]. }
      assert (Ib : klo p < hierarchy_key (layout cb) < khi p).
      { apply key_subtree_interval; try assumption; try lia.
        - intros (Hlt & _). lia.
        - split; [lia|assumption]. }
      apply klt_key_le in Hay, Hyb. lia. }
  destruct Hdesc as (Hle & Hanc).
  destruct (Z.eq_dec (resolution x) (resolution p)) as [E1|N1].
  { (* x = p *)
    exfalso. apply (Hanti x ca Hx Hca Hy Hca_in).
    rewrite <- E1 in Hanc. rewrite anc_self in Hanc by assumption. rewrite Hanc. assumption. }
  destruct (Z.eq_dec (resolution x) (resolution p + 1)) as [E2|N2].
  { apply group_children; try assumption. exists x. split; [|reflexivity].
    apply desc_char; [assumption|lia|tauto]. }
  (* deeper: the child above x is a member *)
  exfalso.
  destruct (anc_canon x (resolution p + 1) Hx ltac:(lia)) as (Hm & Rm).
  apply (Hanti (anc x (resolution p + 1)) x Hm Hx); [|assumption|].
  - apply Hall. apply desc_char; [assumption|lia|]. split; [assumption|]. split; [assumption|].
    rewrite anc_compose by (try assumption; lia). assumption.
  - split; [lia|]. rewrite Rm. reflexivity.
Qed.

Theorem siblings_adjacent l p :
  StronglySorted klt l -> all_canonical l -> antichain l ->
  canon p -> -1 <= resolution p <= 28 -> has_all_children l p ->
  exists pre post, l = pre ++ group p ++ post.
Proof.
  intros Hs Hcan Hanti Hp Hr Hall.
  apply (sorted_group_segment klt klt_irrefl klt_trans); try assumption.
  - apply group_sorted; assumption.
  - intros i Hi. apply group_children in Hi; try assumption. destruct Hi as (d & Hd & ->).
    apply Hall; assumption.
  - apply between_children; assumption.
Qed.

(* the same for the list the model builds *)
Corollary siblings_adjacent_hsort l0 p :
  all_canonical l0 -> antichain l0 ->
  canon p -> -1 <= resolution p <= 28 -> has_all_children l0 p ->
  exists pre post, dedup (hsort l0) = pre ++ group p ++ post.
Proof.
  intros Hcan Hanti Hp Hr Hall. destruct (dedup_hsort_sorted l0) as (Hs & Hin).
  apply siblings_adjacent; try assumption.
  - intros i Hi. apply Hcan, Hin, Hi.
  - intros a b Ha Hb Hia Hib. apply Hanti; try assumption; apply Hin; assumption.
  - intros d Hd. apply Hin, Hall, Hd.
Qed.

(* below the world cell: a sorted antichain containing the 12 base cells is exactly these *)
Theorem world_group_only l :
  StronglySorted klt l -> all_canonical l -> antichain l -> has_all_children l world ->
  l = group world.
Proof.
  intros Hs Hcan Hanti Hall.
  destruct (siblings_adjacent l world Hs Hcan Hanti canon_world ltac:(cbn; lia) Hall) as (pre & post & E).
  assert (Hsub : forall y, In y l -> In y (group world)).
  { intros y Hy. destruct (Hcan y Hy) as (x & Hx & <-).
    pose proof (canon_res_range x Hx) as Hrx.
    assert (H0 : forall o, 0 <= o < 12 -> In (layout (mkCell o 0 0 0)) l).
    { intros o Ho. apply Hall. apply desc_char; [apply canon_world|cbn; lia|].
      split; [unfold canon; projs; lia|]. split; reflexivity. }
    destruct (Z.eq_dec (resolution x) (-1)) as [Em|Nm].
    - exfalso. apply (Hanti x (mkCell 0 0 0 0)); try assumption.
      + unfold canon; projs; lia.
      + apply H0; lia.
      + split; [rewrite Em; cbn; lia|]. rewrite Em. symmetry. apply canon_is_world; assumption.
    - pose proof (canon_origin x Hx ltac:(lia)) as Ho.
      destruct (Z.eq_dec (resolution x) 0) as [E0|N0].
      + apply group_children; [apply canon_world|cbn; lia|]. exists x. split; [|reflexivity].
        apply desc_char; [apply canon_world|cbn; lia|]. split; [assumption|]. split; [assumption|reflexivity].
      + exfalso. apply (Hanti (mkCell (origin_id x) 0 0 0) x); try assumption.
        * unfold canon; projs; lia.
        * apply H0; assumption.
        * split; [cbn; lia|reflexivity]. }
  pose proof (ss_NoDup klt klt_irrefl l Hs) as Hnd.
  destruct pre as [|a pre].
  - destruct post as [|b post]; [rewrite E, app_nil_r; reflexivity|]. exfalso.
    rewrite E in Hnd. change ([] ++ group world ++ b :: post) with (group world ++ b :: post) in Hnd.
    apply NoDup_remove_2 in Hnd. apply Hnd.
    apply in_or_app. left. apply Hsub. rewrite E. apply in_or_app. right. apply in_or_app. right. left. reflexivity.
  - exfalso. rewrite E in Hnd.
    change ((a :: pre) ++ group world ++ post) with (a :: (pre ++ group world ++ post)) in Hnd.
    apply NoDup_cons_iff in Hnd. destruct Hnd as (H1 & _). apply H1.
    apply in_or_app. right. apply in_or_app. left. apply Hsub. rewrite E. left. reflexivity.
Qed.

Corollary siblings_adjacent_Sorted l p :
  Sorted klt l -> all_canonical l -> antichain l ->
  canon p -> -1 <= resolution p <= 28 -> has_all_children l p ->
  exists pre post, l = pre ++ group p ++ post.
Proof.
  intros Hs. apply siblings_adjacent. apply Sorted_StronglySorted; [|assumption].
  intros a b c. apply klt_trans.
Qed.

(* ================================================================== *)
(* 5. what the scanning pass sees at the first child                   *)
(* ================================================================== *)

Lemma first_child_spec p :
  canon p -> -1 <= resolution p <= 28 ->
  canon (first_child p) /\ resolution (first_child p) = resolution p + 1 /\
  anc (first_child p) (resolution p) = p.
Proof.
  intros Hp Hr. unfold first_child.
  destruct (Z.eqb_spec (resolution p) (-1)) as [Em|Nm].
  { rewrite Em. split; [unfold canon; projs; lia|]. split; [reflexivity|].
    symmetry. apply canon_is_world; assumption. }
  pose proof (canon_origin p Hp ltac:(lia)) as Ho. pose proof (fq_range _ Ho) as Hfq.
  destruct (Z.eqb_spec (resolution p) 0) as [E0|N0].
  { rewrite E0. split; [unfold canon; projs; lia|]. split; [reflexivity|].
    rewrite anc_0. projs. symmetry. apply base_cell_eq; assumption. }
  destruct p as [o sg sv r]. unfold canon in Hp.
  projs_in Hp. projs_in Hr. projs_in Nm. projs_in N0. projs_in Ho. projs.
  destruct Hp as (_ & _ & _ & _ & H1 & H1' & H2). specialize (H1 ltac:(lia)).
  assert (Hs : 0 <= 4 * sv < 4 ^ (r + 1 - 1)).
  { replace (r + 1 - 1) with (Z.succ (r - 1)) by lia. rewrite Z.pow_succ_r by lia.
    destruct (Z.eq_dec r 1) as [->|]; [rewrite H1' by reflexivity; change (4 ^ (1 - 1)) with 1; lia|].
    specialize (H2 ltac:(lia)). lia. }
  split; [|split; [reflexivity|]].
  - unfold canon; projs. repeat split; lia.
  - unfold anc; projs. destruct (Z.eqb_spec r (-1)); [lia|]. destruct (Z.eqb_spec r 0); [lia|].
    destruct (Z.eqb_spec r 1) as [->|]; [rewrite H1' by reflexivity; reflexivity|].
    replace (r + 1 - r) with 1 by lia. change (4 ^ 1) with 4.
    replace (4 * sv / 4) with sv by lia. reflexivity.
Qed.

(* bits n and n+1 of  A * 2^(n+2) + B  (B < 2^n) are zero *)
Lemma land_mask_zero A B n :
  0 <= n -> 0 <= A -> 0 <= B < 2 ^ n -> Z.land (A * 2 ^ (n + 2) + B) (3 * 2 ^ n) = 0.
Proof.
  intros Hn HA HB. apply Z.bits_inj'. intros m Hm. rewrite Z.land_spec, Z.bits_0.
  destruct (Z.ltb_spec m n) as [H1|H1].
  - rewrite (Z.mul_pow2_bits_low 3) by lia. apply andb_false_r.
  - destruct (Z.ltb_spec m (n + 2)) as [H2|H2].
    + assert (E : Z.testbit (A * 2 ^ (n + 2) + B) m = false); [|rewrite E; reflexivity].
      rewrite Z.testbit_odd, shr_div by lia.
      replace (2 ^ (n + 2)) with (2 ^ (n + 2 - m) * 2 ^ m) by (rewrite <- Z.pow_add_r by lia; f_equal; lia).
      rewrite Z.mul_assoc, Z.div_add_l by (apply Z.pow_nonzero; lia).
      assert (E2 : B / 2 ^ m = 0).
      { apply Z.div_small. split; [lia|]. apply Z.lt_le_trans with (2 ^ n); [lia|].
        apply Z.pow_le_mono_r; lia. }
      rewrite E2, Z.add_0_r.
      replace (n + 2 - m) with (Z.succ (n + 1 - m)) by lia. rewrite Z.pow_succ_r by lia.
      replace (A * (2 * 2 ^ (n + 1 - m))) with (2 * (A * 2 ^ (n + 1 - m))) by ring.
      rewrite Z.odd_mul. reflexivity.
    + rewrite Z.mul_pow2_bits by lia.
      rewrite (Z.bits_above_log2 3 (m - n)); [apply andb_false_r|lia|].
      change (Z.log2 3) with 1. lia.
Qed.
Lemma is_first_child_first p :
  canon p -> -1 <= resolution p <= 28 ->
  is_first_child (layout (first_child p)) (resolution p + 1) = Ok true.
Proof.
  intros Hp Hr.
  destruct (Z.eq_dec (resolution p) (-1)) as [Em|Nm].
  { unfold first_child. rewrite Em. vm_compute. reflexivity. }
  pose proof (canon_origin p Hp ltac:(lia)) as Ho.
  destruct (Z.eq_dec (resolution p) 0) as [E0|N0].
  { unfold first_child. rewrite E0. change (0 =? -1) with false. change (0 =? 0) with true. cbv iota.
    destruct (quintants_stride (origin_id p) 0 Ho ltac:(lia)) as (_ & ->).
    unfold is_first_child. change (0 + 1 <? 2) with true. change (0 + 1 =? 0) with false. cbv iota.
    change HILBERT_START_BIT with 58. rewrite shr_div by lia. f_equal. lia. }
  destruct (first_child_spec p Hp Hr) as (Hc & Hrc & _).
  pose proof (code_range _ Hc ltac:(lia)) as Hcode.
  pose proof (canon_origin _ Hc ltac:(lia)) as Hoc.
  unfold is_first_child. destruct (Z.ltb_spec (resolution p + 1) 2); [lia|].
  change MAX_RESOLUTION with 30. rewrite i32_sub_ok by lia. rewrite bind_ok.
  unfold as_u32. rewrite Z.mod_small by (unfold two32; lia).
  unfold u32_mul. destruct (Z.ltb_spec (2 * (30 - (resolution p + 1))) two32); [|unfold two32 in *; lia].
  rewrite bind_ok. rewrite u64_shl_ok by lia. rewrite bind_ok. f_equal. apply Z.eqb_eq.
  set (n := 2 * (30 - (resolution p + 1))).
  assert (Hn : 0 <= n <= 56) by lia.
  assert (Hp2 : 2 ^ n <= 2 ^ 56) by (apply Z.pow_le_mono_r; lia).
  pose proof (pow2_pos n ltac:(lia)).
  rewrite Z.mod_small by (unfold two64; lia).
  unfold layout. rewrite Hrc.
  destruct (Z.eqb_spec (resolution p + 1) (-1)); [lia|]. destruct (Z.eqb_spec (resolution p + 1) 0); [lia|].
  destruct (Z.eqb_spec (resolution p + 1) 1); [lia|].
  assert (Es : s (first_child p) = 4 * s p).
  { unfold first_child. destruct (Z.eqb_spec (resolution p) (-1)); [lia|].
    destruct (Z.eqb_spec (resolution p) 0); [lia|]. reflexivity. }
  rewrite Es. replace (60 - 2 * (resolution p + 1)) with n by lia.
  replace (59 - 2 * (resolution p + 1)) with (n - 1) by lia.
  replace (2 ^ 58) with (2 ^ (56 - n) * 2 ^ (n + 2)) by (rewrite <- Z.pow_add_r by lia; f_equal; lia).
  replace (code (first_child p) * (2 ^ (56 - n) * 2 ^ (n + 2)) + 4 * s p * 2 ^ n + 2 ^ (n - 1))
    with ((code (first_child p) * 2 ^ (56 - n) + s p) * 2 ^ (n + 2) + 2 ^ (n - 1)).
  2:{ rewrite (Z.pow_add_r 2 n 2) by lia. change (2 ^ 2) with 4. ring. }
  pose proof (canon_s_bound p Hp). pose proof (pow2_pos (56 - n) ltac:(lia)).
  apply land_mask_zero; [lia|nia|].
  split; [apply Z.lt_le_incl, pow2_pos; lia|]. apply Z.pow_lt_mono_r; lia.
Qed.

Lemma get_stride_group p :
  -1 <= resolution p <= 28 -> get_stride (resolution p + 1) = Ok (gstride p).
Proof.
  intros Hr. unfold get_stride, gstride.
  destruct (Z.ltb_spec (resolution p + 1) 2), (Z.ltb_spec (resolution p) 1); try lia.
  - reflexivity.
  - change MAX_RESOLUTION with 30. rewrite i32_sub_ok by lia. rewrite bind_ok.
    unfold as_u32. rewrite Z.mod_small by (unfold two32; lia).
    unfold u32_mul. destruct (Z.ltb_spec (2 * (30 - (resolution p + 1))) two32); [|unfold two32 in *; lia].
    rewrite bind_ok. rewrite u64_shl_ok by lia. f_equal.
    replace (2 * (30 - (resolution p + 1))) with (58 - 2 * resolution p) by lia.
    assert (2 ^ (58 - 2 * resolution p) <= 2 ^ 56) by (apply Z.pow_le_mono_r; lia).
    pose proof (pow2_pos (58 - 2 * resolution p) ltac:(lia)).
    rewrite Z.mod_small by (unfold two64; lia). lia.
Qed.

Lemma siblings_follow_map cell stride n : forall j post,
  (forall i, j <= i < j + Z.of_nat n -> 0 <= cell + i * stride < two64) ->
  siblings_follow cell stride j n (map (fun i => cell + i * stride) (seqZ j n) ++ post) = true.
Proof.
  induction n as [|n IH]; intros j post H; [reflexivity|].
  cbn [seqZ map app siblings_follow]. rewrite wrap64_mod, Z.mod_small by (apply H; lia).
  rewrite Z.eqb_refl. cbn [andb]. apply IH. intros i Hi. apply H. lia.
Qed.

Lemma skipn_app_exact {A} (l1 l2 : list A) n : length l1 = n -> skipn n (l1 ++ l2) = l2.
Proof.
  intros <-. rewrite skipn_app, skipn_all, Nat.sub_diag. reflexivity.
Qed.

Definition group_rest (p : cell) : list Z :=
  map (fun j => layout (first_child p) + j * gstride p) (seqZ 1 (Z.to_nat (gcount p) - 1)).

Lemma gcount_pos p : -1 <= resolution p <= 28 -> (1 <= Z.to_nat (gcount p))%nat.
Proof.
  intros Hr. rewrite gcount_val.
  destruct (Z.eqb_spec (resolution p) (-1)); [lia|]. destruct (Z.eqb_spec (resolution p) 0); [lia|].
  destruct (Z.leb_spec 1 (resolution p)); lia.
Qed.

Lemma group_cons p :
  -1 <= resolution p <= 28 -> group p = layout (first_child p) :: group_rest p.
Proof.
  intros Hr. unfold group, group_rest. pose proof (gcount_pos p Hr) as Hk.
  destruct (Z.to_nat (gcount p)) as [|k]; [lia|].
  cbn [seqZ map]. rewrite Z.mul_0_l, Z.add_0_r. replace (S k - 1)%nat with k by lia. reflexivity.
Qed.

Lemma group_rest_length p : length (group_rest p) = (Z.to_nat (gcount p) - 1)%nat.
Proof. unfold group_rest. rewrite map_length, seqZ_length. reflexivity. Qed.

(* everything the scanning pass evaluates when it stands at the first child of a complete group *)
Theorem first_child_scan p post :
  canon p -> -1 <= resolution p <= 28 ->
  let first := layout (first_child p) in
  let r := resolution p + 1 in
  let k := expected_children r in
  get_resolution first = r /\ 0 <= r /\
  k = gcount p /\ Z.of_nat (length (group p)) = k /\
  is_first_child first r = Ok true /\
  get_stride r = Ok (gstride p) /\
  siblings_follow first (gstride p) 1 (Z.to_nat k - 1) (group_rest p ++ post) = true /\
  skipn (Z.to_nat k - 1) (group_rest p ++ post) = post /\
  cell_to_parent first None = Ok (layout p).
Proof.
  intros Hp Hr. cbv zeta.
  destruct (first_child_spec p Hp Hr) as (Hc & Hrc & Hac).
  split; [rewrite resolution_layout by assumption; assumption|].
  split; [lia|]. split; [reflexivity|].
  split.
  { rewrite group_length. fold (gcount p). pose proof (gcount_pos p Hr). lia. }
  split; [apply is_first_child_first; assumption|].
  split; [apply get_stride_group; assumption|].
  fold (gcount p). split; [|split].
  - unfold group_rest. apply siblings_follow_map. intros i Hi.
    pose proof (gcount_pos p Hr) as Hk.
    assert (Hin : In (layout (first_child p) + i * gstride p) (group p)).
    { unfold group. apply in_map_iff. exists i. split; [reflexivity|]. apply in_seqZ. lia. }
    destruct (group_member_canon p _ Hp Hr Hin) as (d & Hd & _ & _ & ->).
    apply layout_u64; assumption.
  - apply skipn_app_exact. apply group_rest_length.
  - rewrite parent_default_spec by (try assumption; lia).
    rewrite Hrc. replace (resolution p + 1 - 1) with (resolution p) by lia. rewrite Hac. reflexivity.
Qed.
Theorem first_child_is_first l p :
  StronglySorted klt l -> all_canonical l -> antichain l ->
  canon p -> -1 <= resolution p <= 28 -> has_all_children l p ->
  let first := layout (first_child p) in
  let r := resolution p + 1 in
  let k := expected_children r in
  exists pre post,
    l = pre ++ first :: group_rest p ++ post /\
    group p = first :: group_rest p /\
    get_resolution first = r /\
    k = gcount p /\ k <= Z.of_nat (length (first :: group_rest p ++ post)) /\
    is_first_child first r = Ok true /\
    get_stride r = Ok (gstride p) /\
    siblings_follow first (gstride p) 1 (Z.to_nat k - 1) (group_rest p ++ post) = true /\
    skipn (Z.to_nat k - 1) (group_rest p ++ post) = post /\
    cell_to_parent first None = Ok (layout p).
Proof.
  intros Hs Hcan Hanti Hp Hr Hall. cbv zeta.
  destruct (siblings_adjacent l p Hs Hcan Hanti Hp Hr Hall) as (pre & post & E).
  destruct (first_child_scan p post Hp Hr) as (H1 & H2 & H3 & H4 & H5 & H6 & H7 & H8 & H9).
  exists pre, post. rewrite group_cons in E by assumption.
  split; [exact E|]. split; [apply group_cons; assumption|]. split; [assumption|].
  split; [assumption|]. split.
  { rewrite <- H4. rewrite group_cons by assumption. cbn [length]. rewrite app_length. lia. }
  tauto.
Qed.

(* groups of different parents have no common member *)
Theorem groups_disjoint p q i :
  canon p -> canon q -> -1 <= resolution p <= 28 -> -1 <= resolution q <= 28 ->
  In i (group p) -> In i (group q) -> p = q.
Proof.
  intros Hp Hq Hrp Hrq Hip Hiq.
  destruct (group_member_canon p i Hp Hrp Hip) as (d & Hd & Rd & Ad & Ed).
  destruct (group_member_canon q i Hq Hrq Hiq) as (e & He & Re & Ae & Ee).
  assert (d = e) by (apply layout_injective; try assumption; congruence). subst e.
  assert (resolution p = resolution q) by lia.
  rewrite <- Ad, <- Ae. congruence.
Qed.

(* ================================================================== *)
(* 6. replacing a complete group by its parent                          *)
(* ================================================================== *)

Theorem antichain_same_set l1 l2 : same_set l1 l2 -> antichain l1 -> antichain l2.
Proof. intros Hs Ha a b Hca Hcb Hia Hib. apply Ha; try assumption; apply Hs; assumption. Qed.

Lemma all_canonical_same_set l1 l2 : same_set l1 l2 -> all_canonical l1 -> all_canonical l2.
Proof. intros Hs Ha i Hi. apply Ha, Hs, Hi. Qed.

(* l' is l with the group of p replaced by p *)
Definition merged (l : list Z) (p : cell) (l' : list Z) : Prop :=
  forall i, In i l' <-> i = layout p \/ (In i l /\ ~ In i (group p)).

Theorem antichain_merge l p l' :
  all_canonical l -> antichain l -> canon p -> -1 <= resolution p <= 28 ->
  has_all_children l p -> merged l p l' ->
  all_canonical l' /\ antichain l'.
Proof.
  intros Hcan Hanti Hp Hr Hall Hm.
  destruct (first_child_spec p Hp Hr) as (Hfc & Rfc & Afc).
  assert (Hfin : In (layout (first_child p)) l).
  { apply Hall. apply desc_char; [assumption|lia|tauto]. }
  split.
  - intros i Hi. apply Hm in Hi. destruct Hi as [->|(Hi & _)]; [exists p; auto|auto].
  - intros a b Ha Hb Hia Hib Hab.
    apply Hm in Hia, Hib.
    pose proof (canon_res_range a Ha) as Hra.
    destruct Hia as [Ea|(Hia & Hna)], Hib as [Eb|(Hib & Hnb)].
    + apply layout_injective in Ea, Eb; try assumption. subst a b. destruct Hab as (Hlt & _). lia.
    + (* a = p, b an old member below p: b is below (or is) a child of p *)
      apply layout_injective in Ea; try assumption. subst a.
      destruct Hab as (Hlt & Hanc).
      destruct (anc_canon b (resolution p + 1) Hb ltac:(lia)) as (Hm1 & Rm1).
      assert (Hmin : In (anc b (resolution p + 1)) (desc_cells p (resolution p + 1))).
      { apply desc_char; [assumption|lia|]. split; [assumption|]. split; [assumption|].
        rewrite anc_compose by (try assumption; lia). assumption. }
      destruct (Z.eq_dec (resolution b) (resolution p + 1)) as [E|N].
      * apply Hnb. apply group_children; try assumption. exists b. split; [|reflexivity].
        rewrite <- E in Hmin at 1. rewrite anc_self in Hmin by assumption. assumption.
      * apply (Hanti (anc b (resolution p + 1)) b Hm1 Hb); [apply Hall; assumption|assumption|].
        split; [lia|]. rewrite Rm1. reflexivity.
    + (* b = p, a an old member above p: a is above the first child *)
      apply layout_injective in Eb; try assumption. subst b.
      apply (Hanti a (first_child p) Ha Hfc Hia Hfin).
      apply (proper_ancestor_trans a p (first_child p)); try assumption; [lia|].
      split; [lia|assumption].
    + apply (Hanti a b); assumption.
Qed.

Lemma NoDup_app_disjoint {A} (l1 l2 : list A) :
  NoDup (l1 ++ l2) -> forall x, In x l1 -> In x l2 -> False.
Proof.
  induction l1 as [|a l1 IH]; intros Hnd x H1 H2; [destruct H1|].
  cbn [app] in Hnd. apply NoDup_cons_iff in Hnd. destruct Hnd as (Hn & Hnd).
  destruct H1 as [->|H1]; [apply Hn, in_or_app; right; assumption|].
  apply (IH Hnd x); assumption.
Qed.

Lemma NoDup_app_r {A} (l1 l2 : list A) : NoDup (l1 ++ l2) -> NoDup l2.
Proof.
  induction l1 as [|a l1 IH]; intros Hnd; [assumption|].
  cbn [app] in Hnd. apply NoDup_cons_iff in Hnd. apply IH, Hnd.
Qed.

(* the list form: the segment [group p] of a duplicate-free list replaced by [layout p] *)
Lemma merged_segment pre post p :
  canon p -> -1 <= resolution p <= 28 ->
  NoDup (pre ++ group p ++ post) ->
  merged (pre ++ group p ++ post) p (pre ++ layout p :: post).
Proof.
  intros Hp Hr Hnd i. rewrite !in_app_iff. cbn [In]. rewrite ?in_app_iff.
  assert (Hdis : forall x, In x (group p) -> ~ In x pre /\ ~ In x post).
  { intros x Hx. split; intros Hx'.
    - apply (NoDup_app_disjoint _ _ Hnd x); [assumption|apply in_or_app; left; assumption].
    - apply NoDup_app_r in Hnd. apply (NoDup_app_disjoint _ _ Hnd x); assumption. }
  split.
  - intros [H|[H|H]]; [|left; auto|].
    + right. split; [tauto|]. intros Hg. destruct (Hdis i Hg) as (D1 & D2). tauto.
    + right. split; [tauto|]. intros Hg. destruct (Hdis i Hg) as (D1 & D2). tauto.
  - intros [->|([H|[H|H]] & Hn)]; tauto.
Qed.
(* ================================================================== *)
(* 7. canonical form: an antichain without complete groups is determined by what it covers *)
(* ================================================================== *)

Lemma finite_choice {A} (P Q : A -> Prop) (L : list A) :
  (forall e, In e L -> P e \/ Q e) -> (exists e, In e L /\ P e) \/ (forall e, In e L -> Q e).
Proof.
  induction L as [|a L IH]; intros H; [right; intros e []|].
  destruct (H a (or_introl eq_refl)) as [Pa|Qa]; [left; exists a; split; [left; reflexivity|assumption]|].
  destruct IH as [(e & He & Pe)|HQ].
  - intros e He. apply H. right. assumption.
  - left. exists e. split; [right; assumption|assumption].
  - right. intros e [<-|He]; auto.
Qed.

(* a covered resolution-R cell has an ancestor-or-self in the list *)
Lemma covered_ancestor R l d :
  canon d -> resolution d = R -> R <= 29 -> covers R l (layout d) ->
  exists k, -1 <= k <= R /\ In (layout (anc d k)) l.
Proof.
  intros Hd Rd HR (c & d' & Hc & Hin & Hle & Hd' & E).
  pose proof (canon_res_range c Hc) as Hrc.
  apply desc_char in Hd'; [|assumption|lia]. destruct Hd' as (Hcd' & Rd' & Ad').
  apply layout_injective in E; try assumption. subst d'.
  exists (resolution c). split; [lia|]. rewrite Ad'. assumption.
Qed.

Lemma full_cover_ancestor R l :
  R <= 29 -> no_complete_group l ->
  forall n c, canon c -> resolution c <= R -> R - resolution c <= Z.of_nat n ->
    (forall d, In d (desc_cells c R) -> covers R l (layout d)) ->
    exists k, -1 <= k <= resolution c /\ In (layout (anc c k)) l.
Proof.
  intros HR Hng. induction n as [|n IH]; intros c Hc Hle Hn Hcov.
  - assert (E : resolution c = R) by lia.
    rewrite E. apply covered_ancestor; try assumption.
    apply Hcov. apply desc_char; [assumption|lia|]. split; [assumption|]. split; [assumption|].
    apply anc_self; assumption.
  - destruct (Z.eq_dec (resolution c) R) as [E|N]; [apply IH; try assumption; lia|].
    pose proof (canon_res_range c Hc) as Hrc.
    assert (Hch : forall e, In e (desc_cells c (resolution c + 1)) ->
              (exists k, -1 <= k <= resolution c /\ In (layout (anc c k)) l) \/ In (layout e) l).
    { intros e He. pose proof He as He'.
      apply desc_char in He'; [|assumption|lia]. destruct He' as (Hce & Re & Ae).
      destruct (IH e) as (k & Hk & Hin); try assumption; try lia.
      - intros d Hd. apply Hcov.
        apply (desc_compose c (resolution c + 1) R d); [assumption|lia|lia|].
        exists e. split; assumption.
      - destruct (Z_le_dec k (resolution c)) as [Hk'|Hk'].
        + left. exists k. split; [lia|]. rewrite <- Ae. rewrite anc_compose by (try assumption; lia). assumption.
        + right. assert (Ek : k = resolution e) by lia. rewrite Ek, anc_self in Hin by assumption. assumption. }
    apply finite_choice in Hch. destruct Hch as [(e & _ & H)|Hall]; [assumption|].
    exfalso. apply (Hng c Hc ltac:(lia)). exact Hall.
Qed.

Theorem antichain_canonical_form R l1 l2 :
  R <= 29 ->
  all_canonical l1 -> all_canonical l2 -> antichain l1 -> antichain l2 ->
  no_complete_group l1 -> no_complete_group l2 -> res_le R l1 -> res_le R l2 ->
  (forall x, covers R l1 x <-> covers R l2 x) ->
  same_set l1 l2.
Proof.
  assert (Hhalf : forall l1 l2, R <= 29 ->
    all_canonical l1 -> antichain l1 -> no_complete_group l1 -> no_complete_group l2 ->
    res_le R l1 -> res_le R l2 ->
    (forall x, covers R l1 x <-> covers R l2 x) -> forall i, In i l1 -> In i l2).
  { clear l1 l2. intros l1 l2 HR Hcan1 Hanti1 Hng1 Hng2 Hres1 Hres2 Hcov i Hi.
    destruct (Hcan1 i Hi) as (c & Hc & <-).
    pose proof (canon_res_range c Hc) as Hrc.
    pose proof (Hres1 c Hc Hi) as HcR.
    (* an ancestor-or-self a of c is in l2 *)
    destruct (full_cover_ancestor R l2 HR Hng2 (Z.to_nat (R - resolution c)) c Hc HcR ltac:(lia))
      as (k & Hk & Hin2).
    { intros d Hd. apply Hcov. exists c, d. split; [assumption|]. split; [assumption|]. split; [assumption|]. split; [assumption|reflexivity]. }
    destruct (anc_canon c k Hc Hk) as (Ha & Ra).
    (* an ancestor-or-self of a is in l1 *)
    destruct (full_cover_ancestor R l1 HR Hng1 (Z.to_nat (R - k)) (anc c k) Ha ltac:(lia) ltac:(lia))
      as (k' & Hk' & Hin1).
    { intros d Hd. apply Hcov. exists (anc c k), d. split; [assumption|]. split; [assumption|]. split; [lia|]. split; [assumption|reflexivity]. }
    rewrite Ra in Hk'. rewrite anc_compose in Hin1 by (try assumption; lia).
    destruct (anc_canon c k' Hc ltac:(lia)) as (Ha' & Ra').
    destruct (Z.eq_dec k' (resolution c)) as [E|N].
    - assert (k = resolution c) by lia. subst k. rewrite anc_self in Hin2 by assumption. assumption.
    - exfalso. apply (Hanti1 (anc c k') c Ha' Hc Hin1 Hi). split; [lia|]. rewrite Ra'. reflexivity. }
  intros HR Hc1 Hc2 Ha1 Ha2 Hn1 Hn2 Hr1 Hr2 Hcov i. split.
  - apply (Hhalf l1 l2); assumption.
  - apply (Hhalf l2 l1); try assumption. intros x. symmetry. apply Hcov.
Qed.
(* ================================================================== *)
(* 8. converse: a run accepted by the scan is the complete group of the parent *)
(* ================================================================== *)

Lemma ok_inj {A} (a b : A) : Ok a = Ok b -> a = b.
Proof. intros H. injection H. auto. Qed.

Lemma land_mask_val x n :
  0 <= n -> Z.land x (3 * 2 ^ n) = ((x / 2 ^ n) mod 4) * 2 ^ n.
Proof.
  intros Hn. apply Z.bits_inj'. intros m Hm. rewrite Z.land_spec.
  destruct (Z.ltb_spec m n) as [H1|H1].
  - rewrite !Z.mul_pow2_bits_low by lia. apply andb_false_r.
  - rewrite !Z.mul_pow2_bits by lia.
    change 4 with (2 ^ 2). change 3 with (Z.ones 2).
    destruct (Z.ltb_spec (m - n) 2) as [H2|H2].
    + rewrite Z.ones_spec_low by lia. rewrite Z.mod_pow2_bits_low by lia.
      rewrite Z.div_pow2_bits by lia. rewrite andb_true_r. f_equal. lia.
    + rewrite Z.ones_spec_high by lia. rewrite Z.mod_pow2_bits_high by lia. apply andb_false_r.
Qed.

Lemma siblings_follow_inv cell stride n : forall j l,
  (forall i, j <= i < j + Z.of_nat n -> 0 <= cell + i * stride < two64) ->
  siblings_follow cell stride j n l = true ->
  exists post, l = map (fun i => cell + i * stride) (seqZ j n) ++ post.
Proof.
  induction n as [|n IH]; intros j l H Hs; [exists l; reflexivity|].
  cbn [siblings_follow] in Hs. destruct l as [|y ys]; [discriminate|].
  apply andb_prop in Hs. destruct Hs as (Hy & Hs).
  rewrite wrap64_mod, Z.mod_small in Hy by (apply H; lia). apply Z.eqb_eq in Hy.
  destruct (IH (j + 1) ys) as (post & ->); [intros i Hi; apply H; lia|assumption|].
  exists post. cbn [seqZ map app]. rewrite Hy. reflexivity.
Qed.

Theorem first_child_detected c :
  canon c -> 0 <= resolution c ->
  is_first_child (layout c) (resolution c) = Ok true ->
  c = first_child (anc c (resolution c - 1)).
Proof.
  intros Hc Hr0 Hfc. pose proof (canon_res_range c Hc) as Hr.
  pose proof (canon_origin c Hc Hr0) as Ho. pose proof (fq_range _ Ho) as Hfq.
  unfold is_first_child in Hfc.
  destruct (Z.eq_dec (resolution c) 0) as [E0|N0].
  { rewrite E0 in *. change (0 <? 2) with true in Hfc. change (0 =? 0) with true in Hfc. cbv iota in Hfc.
    rewrite (base_cell_eq c Hc E0) in Hfc |- *. projs. change (0 - 1) with (-1).
    unfold layout in Hfc. projs_in Hfc. change (0 =? -1) with false in Hfc. change (0 =? 0) with true in Hfc.
    cbv iota in Hfc. change HILBERT_START_BIT with 58 in Hfc. rewrite shr_div in Hfc by lia.
    apply ok_inj in Hfc. apply Z.eqb_eq in Hfc. rename Hfc into H.
    assert (origin_id c = 0) as -> by lia. reflexivity. }
  destruct (Z.eq_dec (resolution c) 1) as [E1|N1].
  { rewrite E1 in *. change (1 <? 2) with true in Hfc. change (1 =? 0) with false in Hfc. cbv iota in Hfc.
    destruct (quintant_code c Hc E1) as (EL & _). rewrite EL in Hfc.
    change HILBERT_START_BIT with 58 in Hfc. rewrite shr_div in Hfc by lia.
    apply ok_inj in Hfc. apply Z.eqb_eq in Hfc. rename Hfc into H.
    pose proof (canon_segment c Hc ltac:(lia)) as Hsg.
    assert (Hs0 : s c = 0) by (destruct Hc as (_ & _ & _ & _ & _ & H1' & _); auto).
    unfold code in H.
    assert (Esg : segment c = fq (origin_id c)) by lia.
    change (1 - 1) with 0. rewrite anc_0. unfold first_child. projs.
    change (0 =? -1) with false. change (0 =? 0) with true. cbv iota.
    destruct c as [o sg sv r]. projs_in E1. projs_in Esg. projs_in Hs0. projs. subst. reflexivity. }
  (* resolution >= 2 *)
  destruct (Z.ltb_spec (resolution c) 2); [lia|].
  change MAX_RESOLUTION with 30 in Hfc. rewrite i32_sub_ok in Hfc by lia. rewrite bind_ok in Hfc.
  unfold as_u32 in Hfc. rewrite Z.mod_small in Hfc by (unfold two32; lia).
  unfold u32_mul in Hfc. destruct (Z.ltb_spec (2 * (30 - resolution c)) two32); [|unfold two32 in *; lia].
  rewrite bind_ok in Hfc. rewrite u64_shl_ok in Hfc by lia. rewrite bind_ok in Hfc.
  apply ok_inj in Hfc. apply Z.eqb_eq in Hfc. rename Hfc into H'.
  set (n := 2 * (30 - resolution c)) in *.
  assert (Hn : 2 <= n <= 56) by lia.
  assert (Hp2 : 2 ^ n <= 2 ^ 56) by (apply Z.pow_le_mono_r; lia).
  pose proof (pow2_pos n ltac:(lia)) as Hpn.
  rewrite Z.mod_small in H' by (unfold two64; lia).
  rewrite land_mask_val in H' by lia.
  assert (Hm : (layout c / 2 ^ n) mod 4 = 0) by nia. clear H'.
  (* the digit read by the mask is s mod 4 *)
  assert (Hs4 : s c mod 4 = 0).
  { rewrite <- Hm. unfold layout.
    destruct (Z.eqb_spec (resolution c) (-1)); [lia|]. destruct (Z.eqb_spec (resolution c) 0); [lia|].
    destruct (Z.eqb_spec (resolution c) 1); [lia|].
    replace (60 - 2 * resolution c) with n by lia. replace (59 - 2 * resolution c) with (n - 1) by lia.
    replace (2 ^ 58) with (2 ^ (58 - n) * 2 ^ n) by (rewrite <- Z.pow_add_r by lia; f_equal; lia).
    replace (code c * (2 ^ (58 - n) * 2 ^ n) + s c * 2 ^ n + 2 ^ (n - 1))
      with ((code c * 2 ^ (58 - n) + s c) * 2 ^ n + 2 ^ (n - 1)) by ring.
    rewrite Z.div_add_l by lia.
    rewrite (Z.div_small (2 ^ (n - 1))) by (split; [apply Z.lt_le_incl, pow2_pos; lia|apply Z.pow_lt_mono_r; lia]).
    rewrite Z.add_0_r.
    replace (58 - n) with (Z.succ (Z.succ (56 - n))) by lia. rewrite !Z.pow_succ_r by lia.
    replace (code c * (2 * (2 * 2 ^ (56 - n))) + s c) with (s c + (code c * 2 ^ (56 - n)) * 4) by ring.
    rewrite Z.mod_add by lia. reflexivity. }
  destruct c as [o sg sv r]. projs_in Hs4. projs_in N0. projs_in N1. projs_in Hr. projs_in Hr0. projs.
  destruct Hc as (_ & _ & _ & _ & _ & _ & H2). projs_in H2. specialize (H2 ltac:(lia)).
  unfold anc, first_child; projs.
  destruct (Z.eqb_spec (r - 1) (-1)); [lia|]. destruct (Z.eqb_spec (r - 1) 0); [lia|].
  replace (r - (r - 1)) with 1 by lia. change (4 ^ 1) with 4.
  destruct (Z.eqb_spec (r - 1) 1) as [E|E]; projs.
  - change (1 =? -1) with false. change (1 =? 0) with false. cbv iota.
    assert (r = 2) by lia. subst r. change (4 ^ (2 - 1)) with 4 in H2.
    assert (sv = 0) by lia. subst sv. reflexivity.
  - destruct (Z.eqb_spec (r - 1) (-1)); [lia|]. destruct (Z.eqb_spec (r - 1) 0); [lia|].
    replace (r - 1 + 1) with r by lia. replace (4 * (sv / 4)) with sv by lia. reflexivity.
Qed.

Theorem scan_detects_group c st rest :
  canon c -> 0 <= resolution c ->
  is_first_child (layout c) (resolution c) = Ok true ->
  get_stride (resolution c) = Ok st ->
  siblings_follow (layout c) st 1 (Z.to_nat (expected_children (resolution c)) - 1) rest = true ->
  let p := anc c (resolution c - 1) in
  canon p /\ resolution p = resolution c - 1 /\ c = first_child p /\
  exists post, layout c :: rest = group p ++ post /\
               skipn (Z.to_nat (expected_children (resolution c)) - 1) rest = post.
Proof.
  intros Hc Hr0 Hfc Hst Hsf. cbv zeta. pose proof (canon_res_range c Hc) as Hr.
  destruct (anc_canon c (resolution c - 1) Hc ltac:(lia)) as (Hp & Rp).
  set (p := anc c (resolution c - 1)) in *.
  assert (Hrp : -1 <= resolution p <= 28) by lia.
  pose proof (first_child_detected c Hc Hr0 Hfc) as Efc. fold p in Efc.
  split; [assumption|]. split; [assumption|]. split; [assumption|].
  assert (Er : resolution c = resolution p + 1) by lia.
  rewrite Er in Hst, Hsf. rewrite get_stride_group in Hst by assumption. apply ok_inj in Hst. subst st.
  fold (gcount p) in Hsf. rewrite Efc in Hsf.
  apply siblings_follow_inv in Hsf.
  - destruct Hsf as (post & ->). exists post. split.
    + change (layout c :: group_rest p ++ post = group p ++ post).
      rewrite group_cons by assumption. cbn [app]. f_equal. f_equal. exact Efc.
    + rewrite Er. fold (gcount p). apply skipn_app_exact. apply group_rest_length.
  - intros i Hi. pose proof (gcount_pos p Hrp) as Hk.
    assert (Hin : In (layout (first_child p) + i * gstride p) (group p)).
    { unfold group. apply in_map_iff. exists i. split; [reflexivity|]. apply in_seqZ. lia. }
    destruct (group_member_canon p _ Hp Hrp Hin) as (d & Hd & _ & _ & ->).
    apply layout_u64; assumption.
Qed.
(* ================================================================== *)
(* 9. a pass that changes nothing certifies the absence of complete groups *)
(* ================================================================== *)

Lemma compact_pass_step f len cell rest :
  compact_pass (S f) len (cell :: rest) =
  let resolution := get_resolution cell in
  if resolution <? 0 then
    '(r, ch) <- compact_pass f (len - 1) rest ;; Ok (cell :: r, ch)
  else
    let ec := expected_children resolution in
    has_all <- (if ec <=? len then
                  fc <- is_first_child cell resolution ;;
                  if fc then
                    stride <- get_stride resolution ;;
                    Ok (siblings_follow cell stride 1 (Z.to_nat ec - 1) rest)
                  else Ok false
                else Ok false) ;;
    if has_all then
      parent <- cell_to_parent cell None ;;
      '(r, _) <- compact_pass f (len - ec) (skipn (Z.to_nat ec - 1) rest) ;;
      Ok (parent :: r, true)
    else
      '(r, ch) <- compact_pass f (len - 1) rest ;; Ok (cell :: r, ch).
Proof. reflexivity. Qed.

Lemma pass_false_suffix : forall pre fuel len suffix r,
  compact_pass fuel len (pre ++ suffix) = Ok (r, false) ->
  exists fuel' r', compact_pass fuel' (len - Z.of_nat (length pre)) suffix = Ok (r', false).
Proof.
  induction pre as [|a pre IH]; intros fuel len suffix r H.
  - exists fuel, r. cbn [length Z.of_nat]. rewrite Z.sub_0_r. exact H.
  - destruct fuel as [|f]; [discriminate|].
    change ((a :: pre) ++ suffix) with (a :: (pre ++ suffix)) in H.
    rewrite compact_pass_step in H. cbv zeta in H.
    assert (Hinner : exists r'', compact_pass f (len - 1) (pre ++ suffix) = Ok (r'', false)).
    { destruct (get_resolution a <? 0).
      - apply bind_eq_ok in H. destruct H as ((r'' & ch) & H1 & H2).
        apply ok_inj in H2. inversion H2; subst. exists r''. assumption.
      - apply bind_eq_ok in H. destruct H as (ha & _ & H).
        destruct ha.
        + exfalso. apply bind_eq_ok in H. destruct H as (parent & _ & H).
          apply bind_eq_ok in H. destruct H as ((r'' & ch) & _ & H). apply ok_inj in H. inversion H.
        + apply bind_eq_ok in H. destruct H as ((r'' & ch) & H1 & H2).
          apply ok_inj in H2. inversion H2; subst. exists r''. assumption. }
    destruct Hinner as (r'' & Hin). apply IH in Hin. destruct Hin as (fuel' & r' & Hin).
    exists fuel', r'. rewrite <- Hin. f_equal. cbn [length]. lia.
Qed.

Theorem pass_unchanged_no_group l fuel r :
  StronglySorted klt l -> all_canonical l -> antichain l ->
  compact_pass fuel (Z.of_nat (length l)) l = Ok (r, false) ->
  no_complete_group l.
Proof.
  intros Hs Hcan Hanti Hpass p Hp Hr Hall.
  destruct (first_child_is_first l p Hs Hcan Hanti Hp Hr Hall)
    as (pre & post & El & Eg & Hres & Hk & Hlen & Hfc & Hst & Hsf & Hskip & Hpar).
  rewrite El in Hpass at 2.
  apply pass_false_suffix in Hpass. destruct Hpass as (fuel' & r' & H).
  destruct fuel' as [|f]; [discriminate|].
  rewrite compact_pass_step in H. cbv zeta in H.
  rewrite Hres in H.
  destruct (Z.ltb_spec (resolution p + 1) 0); [lia|].
  assert (Hle : expected_children (resolution p + 1) <=? Z.of_nat (length l) - Z.of_nat (length pre) = true).
  { apply Z.leb_le. rewrite El at 1. rewrite app_length. lia. }
  rewrite Hle, Hfc, bind_ok, Hst, bind_ok, Hsf, bind_ok, Hpar, bind_ok in H.
  apply bind_eq_ok in H. destruct H as ((r'' & ch) & _ & H). apply ok_inj in H. inversion H.
Qed.
(* explicit shape of the group, for reference *)
Lemma group_shape p :
  canon p -> -1 <= resolution p <= 28 ->
  group p = map (fun j => layout (first_child p) + j * gstride p) (seqZ 0 (Z.to_nat (gcount p))) /\
  (resolution p = -1 -> gcount p = 12 /\ gstride p = 2 ^ 58 /\ layout (first_child p) = 2 ^ 57) /\
  (resolution p = 0 -> gcount p = 5 /\ gstride p = 2 ^ 58 /\
                       layout (first_child p) = 5 * origin_id p * 2 ^ 58 + 2 ^ 56) /\
  (1 <= resolution p -> gcount p = 4 /\ gstride p = 2 ^ (58 - 2 * resolution p) /\
                        first_child p = mkCell (origin_id p) (segment p) (4 * s p) (resolution p + 1)).
Proof.
  intros Hp Hr. split; [reflexivity|]. rewrite gcount_val. unfold gstride, first_child.
  split; [|split].
  - intros E. rewrite E. repeat split; reflexivity.
  - intros E. rewrite E. change (0 =? -1) with false. change (0 =? 0) with true. cbv iota.
    split; [reflexivity|]. split; [reflexivity|].
    pose proof (canon_origin p Hp ltac:(lia)) as Ho.
    destruct (quintants_stride (origin_id p) 0 Ho ltac:(lia)) as (_ & ->). reflexivity.
  - intros H1. destruct (Z.eqb_spec (resolution p) (-1)); [lia|]. destruct (Z.eqb_spec (resolution p) 0); [lia|].
    destruct (Z.leb_spec 1 (resolution p)); [|lia]. destruct (Z.ltb_spec (resolution p) 1); [lia|].
    repeat split; reflexivity.
Qed.
