(* C10: the compacted result of a non-overlapping set of cells contains no complete sibling group,
   compacting it again changes nothing, and two non-overlapping inputs covering the same region
   compact to the same list. *)
From Coq Require Import ZArith List Bool Lia ZifyBool Sorting.Sorted Sorting.Permutation
  Sorting.Mergesort Orders RelationClasses.
From A5 Require Import Base.Outcome Base.Word Id.Codec Id.CodecSpec Id.CodecProofs
  Id.Tree Id.TreeSpec Id.TreeProofs Id.Compact Id.CompactSpec Id.CompactProofs Id.KeyOrder.
From A5gen Require Import TablesCur.
Import ListNotations.
Open Scope Z_scope.

(* both CompactProofs and KeyOrder define an order called klt; here klt is KeyOrder's *)
Notation klt := KeyOrder.klt.

(* ================================================================== *)
(* 0. small facts                                                      *)
(* ================================================================== *)

Lemma no_complete_group_incl a b : incl a b -> no_complete_group b -> no_complete_group a.
Proof. intros Hi Hb p Hp Hr Hall. apply (Hb p Hp Hr). intros d Hd. apply Hi, Hall, Hd. Qed.

Lemma no_complete_group_same_set a b : same_set a b -> no_complete_group a -> no_complete_group b.
Proof. intros Hs. apply no_complete_group_incl. intros x Hx. apply Hs, Hx. Qed.

Lemma group_has_all_children l p :
  canon p -> -1 <= resolution p <= 28 -> incl (group p) l -> has_all_children l p.
Proof.
  intros Hp Hr Hi d Hd. apply Hi. apply group_children; try assumption. exists d. split; [assumption|reflexivity].
Qed.

Lemma no_complete_group_nil : no_complete_group [].
Proof.
  intros p Hp Hr Hall.
  pose proof (first_child_in p Hp Hr) as Hin. apply group_children in Hin; try assumption.
  destruct Hin as (d & Hd & _). exact (Hall d Hd).
Qed.

(* the parent of a member of an antichain's complete group is not a member *)
Lemma parent_not_member l p :
  antichain l -> canon p -> -1 <= resolution p <= 28 -> has_all_children l p -> ~ In (layout p) l.
Proof.
  intros Hanti Hp Hr Hall Hin.
  destruct (first_child_spec p Hp Hr) as (Hfc & Rfc & Afc).
  apply (Hanti p (first_child p) Hp Hfc Hin).
  - apply Hall. apply desc_char; [assumption|lia|tauto].
  - split; [lia|assumption].
Qed.

Lemma NoDup_replace_segment {A} (acc g post : list A) x :
  NoDup (acc ++ g ++ post) -> ~ In x (acc ++ g ++ post) -> NoDup (acc ++ x :: post).
Proof.
  induction acc as [|a acc IH]; cbn [app]; intros Hnd Hx.
  - constructor; [intros Hin; apply Hx, in_or_app; right; exact Hin|].
    apply (NoDup_app_r g post Hnd).
  - apply NoDup_cons_iff in Hnd. destruct Hnd as (Ha & Hnd). constructor.
    + intros Hin. apply in_app_or in Hin. destruct Hin as [Hin|[E|Hin]].
      * apply Ha, in_or_app. left. exact Hin.
      * apply Hx. left. symmetry. exact E.
      * apply Ha, in_or_app. right. apply in_or_app. right. exact Hin.
    + apply IH; [exact Hnd|]. intros Hin. apply Hx. right. exact Hin.
Qed.

(* a strictly sorted list is determined by its elements (any strict order) *)
Lemma ss_unique {A} (R : A -> A -> Prop) :
  (forall a, ~ R a a) -> (forall a b c, R a b -> R b c -> R a c) ->
  forall l1 l2, StronglySorted R l1 -> StronglySorted R l2 ->
    (forall x, In x l1 <-> In x l2) -> l1 = l2.
Proof.
  intros Hirr Htr l1. induction l1 as [|a l1 IH]; intros l2 H1 H2 Hset.
  - destruct l2 as [|b l2]; [reflexivity|]. exfalso. apply (Hset b). left. reflexivity.
  - destruct l2 as [|b l2]; [exfalso; apply (Hset a); left; reflexivity|].
    assert (a = b) as <-.
    { assert (Ha : In a (b :: l2)) by (apply Hset; left; reflexivity).
      assert (Hb : In b (a :: l1)) by (apply Hset; left; reflexivity).
      destruct Ha as [E|Ha]; [congruence|]. destruct Hb as [E|Hb]; [congruence|].
      exfalso. apply (Hirr a). apply (Htr a b a).
      - apply (ss_head R a l1 b H1 Hb).
      - apply (ss_head R b l2 a H2 Ha). }
    f_equal. apply IH; [eapply ss_tail; eassumption|eapply ss_tail; eassumption|].
    intros x. split; intros Hx.
    + assert (Hx' : In x (a :: l2)) by (apply Hset; right; exact Hx).
      destruct Hx' as [<-|Hx']; [|exact Hx']. exfalso. apply (Hirr a). apply (ss_head R a l1 a H1 Hx).
    + assert (Hx' : In x (a :: l1)) by (apply Hset; right; exact Hx).
      destruct Hx' as [<-|Hx']; [|exact Hx']. exfalso. apply (Hirr a). apply (ss_head R a l2 a H2 Hx).
Qed.

Lemma sorted_lt_ss l : sorted_lt l -> StronglySorted Z.lt l.
Proof.
  induction 1 as [|x|x y l Hxy Hs IH]; [constructor|constructor; constructor|].
  constructor; [exact IH|].
  constructor; [exact Hxy|].
  apply StronglySorted_inv in IH. destruct IH as (_ & Hf).
  rewrite Forall_forall in *. intros z Hz. specialize (Hf z Hz). lia.
Qed.

Theorem sorted_lt_unique l1 l2 : sorted_lt l1 -> sorted_lt l2 -> same_set l1 l2 -> l1 = l2.
Proof.
  intros H1 H2 Hs. apply (ss_unique Z.lt); try (apply sorted_lt_ss; assumption); try exact Hs.
  - intros a. lia.
  - intros a b c. lia.
Qed.

Theorem klt_sorted_unique l1 l2 :
  StronglySorted klt l1 -> StronglySorted klt l2 -> same_set l1 l2 -> l1 = l2.
Proof.
  intros H1 H2 Hs. apply (ss_unique klt); try assumption.
  - exact klt_irrefl.
  - exact klt_trans.
Qed.

(* ================================================================== *)
(* 1. one pass keeps the list a canonical antichain                    *)
(* ================================================================== *)

(* what a firing merge means: the scan stands at the first child of p, the complete group of p
   follows, the parent written is p and the scan continues behind the group *)
Lemma merge_fires c len rest :
  canon c -> 0 <= resolution c ->
  has_all_of (layout c) (resolution c) len rest = Ok true ->
  exists p post,
    canon p /\ -1 <= resolution p <= 28 /\ resolution c = resolution p + 1 /\
    layout c :: rest = group p ++ post /\
    skipn (Z.to_nat (expected_children (resolution c)) - 1) rest = post /\
    cell_to_parent (layout c) None = Ok (layout p).
Proof.
  intros Hc Hr0 Hb. pose proof (canon_res_range c Hc) as Hr.
  apply has_all_of_true in Hb. destruct Hb as (_ & Hfc & st & Hst & Hsf).
  destruct (scan_detects_group c st rest Hc Hr0 Hfc Hst Hsf) as (Hp & Rp & Efc & post & Eg & Hskip).
  set (p := anc c (resolution c - 1)) in *.
  assert (Hrp : -1 <= resolution p <= 28) by lia.
  exists p, post. split; [assumption|]. split; [assumption|]. split; [lia|].
  split; [assumption|]. split; [assumption|].
  destruct (first_child_scan p [] Hp Hrp) as (_ & _ & _ & _ & _ & _ & _ & _ & Hpar).
  rewrite <- Efc in Hpar. exact Hpar.
Qed.

(* the invariant along the scan: output so far ++ remaining input *)
Lemma compact_pass_inv : forall fuel len acc suf r ch,
  NoDup (acc ++ suf) -> all_canonical (acc ++ suf) -> antichain (acc ++ suf) ->
  compact_pass fuel len suf = Ok (r, ch) ->
  NoDup (acc ++ r) /\ all_canonical (acc ++ r) /\ antichain (acc ++ r).
Proof.
  induction fuel as [|f IH]; intros len acc suf r ch Hnd Hcan Hanti H; [discriminate|].
  destruct suf as [|cell rest].
  { cbn in H. inversion H; subst. auto. }
  rewrite compact_pass_cons in H. cbv zeta in H.
  assert (Hkeep : forall len',
            ('(r, ch) <- compact_pass f len' rest ;; Ok (cell :: r, ch)) = Ok (r, ch) ->
            NoDup (acc ++ r) /\ all_canonical (acc ++ r) /\ antichain (acc ++ r)).
  { clear H. intros len' H.
    apply bind_eq_ok in H. destruct H as ((r' & ch') & Hp & H). inversion H; subst.
    specialize (IH len' (acc ++ [cell]) rest r' ch).
    rewrite <- !app_assoc in IH. cbn [app] in IH. apply IH; assumption. }
  destruct (Z.ltb_spec (get_resolution cell) 0) as [Hneg|Hr0]; [apply (Hkeep _ H)|].
  apply bind_eq_ok in H. destruct H as (b & Hb & H). destruct b; [|apply (Hkeep _ H)]. clear Hkeep.
  destruct (Hcan cell) as (c & Hc & Ecell); [apply in_or_app; right; left; reflexivity|]. subst cell.
  rewrite resolution_layout in * by assumption.
  destruct (merge_fires c len rest Hc Hr0 Hb) as (p & post & Hp & Hrp & Erc & Eg & Hskip & Hpar).
  rewrite Hpar, bind_ok, Hskip in H.
  apply bind_eq_ok in H. destruct H as ((r' & ch') & Hpass & H). inversion H; subst r ch. clear H.
  rewrite Eg in Hnd, Hcan, Hanti.
  assert (Hall : has_all_children (acc ++ group p ++ post) p).
  { apply group_has_all_children; try assumption.
    intros x Hx. apply in_or_app. right. apply in_or_app. left. exact Hx. }
  pose proof (merged_segment acc post p Hp Hrp Hnd) as Hm.
  destruct (antichain_merge _ p _ Hcan Hanti Hp Hrp Hall Hm) as (Hcan' & Hanti').
  pose proof (parent_not_member _ p Hanti Hp Hrp Hall) as Hnotin.
  assert (Hnd' : NoDup (acc ++ layout p :: post)) by (eapply NoDup_replace_segment; eassumption).
  specialize (IH (len - expected_children (resolution c)) (acc ++ [layout p]) post r' ch').
  rewrite <- !app_assoc in IH. cbn [app] in IH. apply IH; assumption.
Qed.

Theorem compact_pass_antichain l fuel r changed :
  StronglySorted klt l -> all_canonical l -> antichain l ->
  compact_pass fuel (Z.of_nat (length l)) l = Ok (r, changed) ->
  all_canonical r /\ antichain r.
Proof.
  intros Hs Hcan Hanti H.
  pose proof (ss_NoDup klt klt_irrefl l Hs) as Hnd.
  destruct (compact_pass_inv fuel _ [] l r changed Hnd Hcan Hanti H) as (_ & H1 & H2).
  split; assumption.
Qed.

(* ================================================================== *)
(* 2. converse of pass_unchanged_no_group: without a complete group the pass changes nothing *)
(* ================================================================== *)

(* neither order nor the antichain property is needed: a merge fires only on a complete group *)
Lemma compact_pass_no_group : forall fuel len l,
  all_canonical l -> no_complete_group l -> (length l < fuel)%nat ->
  compact_pass fuel len l = Ok (l, false).
Proof.
  induction fuel as [|f IH]; intros len l Hcan Hng Hfuel; [lia|].
  destruct l as [|cell rest]; [reflexivity|].
  rewrite compact_pass_cons. cbv zeta.
  assert (Hcan_rest : all_canonical rest) by (intros i Hi; apply Hcan; right; exact Hi).
  assert (Hng_rest : no_complete_group rest).
  { apply (no_complete_group_incl rest (cell :: rest)); [intros x Hx; right; exact Hx|exact Hng]. }
  assert (Hkeep : forall len',
            ('(r, ch) <- compact_pass f len' rest ;; Ok (cell :: r, ch)) = Ok (cell :: rest, false)).
  { intros len'. rewrite (IH len' rest Hcan_rest Hng_rest) by (cbn [length] in Hfuel; lia). reflexivity. }
  destruct (Z.ltb_spec (get_resolution cell) 0) as [Hneg|Hr0]; [apply Hkeep|].
  destruct (Hcan cell (or_introl eq_refl)) as (c & Hc & Ecell). subst cell.
  rewrite resolution_layout in * by assumption.
  destruct (has_all_of_canon c len rest Hc Hr0) as (b & Hb).
  rewrite Hb, bind_ok. destruct b; [|apply Hkeep]. exfalso.
  destruct (merge_fires c len rest Hc Hr0 Hb) as (p & post & Hp & Hrp & _ & Eg & _ & _).
  apply (Hng p Hp Hrp). apply group_has_all_children; try assumption.
  rewrite Eg. intros x Hx. apply in_or_app. left. exact Hx.
Qed.

Theorem no_group_pass_unchanged l fuel :
  no_complete_group l -> StronglySorted klt l -> all_canonical l -> antichain l ->
  (length l < fuel)%nat ->
  compact_pass fuel (Z.of_nat (length l)) l = Ok (l, false).
Proof. intros Hng _ Hcan _ Hfuel. apply compact_pass_no_group; assumption. Qed.

(* the two directions together *)
Corollary pass_unchanged_iff l fuel :
  StronglySorted klt l -> all_canonical l -> antichain l -> (length l < fuel)%nat ->
  (no_complete_group l <-> exists r, compact_pass fuel (Z.of_nat (length l)) l = Ok (r, false)).
Proof.
  intros Hs Hcan Hanti Hfuel. split.
  - intros Hng. exists l. apply compact_pass_no_group; assumption.
  - intros (r & H). apply (pass_unchanged_no_group l fuel r); assumption.
Qed.

(* ================================================================== *)
(* 3. the loop                                                         *)
(* ================================================================== *)

Theorem compact_loop_antichain : forall fuel l out,
  StronglySorted klt l -> all_canonical l -> antichain l ->
  compact_loop fuel l = Ok out ->
  StronglySorted klt out /\ all_canonical out /\ antichain out /\ no_complete_group out.
Proof.
  induction fuel as [|f IH]; intros l out Hs Hcan Hanti H; [discriminate|].
  rewrite compact_loop_S in H.
  apply bind_eq_ok in H. destruct H as ((r & ch) & Hp & H).
  destruct (compact_pass_antichain l _ r ch Hs Hcan Hanti Hp) as (Hcr & Har).
  destruct ch.
  - destruct (dedup_hsort_sorted r) as (Hs' & Hin').
    assert (Hss : same_set r (dedup (hsort r))) by (intros x; symmetry; apply Hin').
    apply (IH (dedup (hsort r)) out); try assumption.
    + apply (KeyOrder.all_canonical_same_set r); assumption.
    + apply (antichain_same_set r); assumption.
  - destruct (compact_pass_shape _ l r false Hp) as (_ & _ & Hr). specialize (Hr eq_refl). subst r.
    apply ok_inj in H. subst out.
    split; [assumption|]. split; [assumption|]. split; [assumption|].
    apply (pass_unchanged_no_group l (S (length l)) l); assumption.
Qed.

(* ================================================================== *)
(* 4. compact: maximality                                              *)
(* ================================================================== *)

(* the intermediate list behind a normal return of compact *)
Lemma compact_inv a l out :
  compact (a :: l) = Ok out ->
  exists r, compact_loop (S (length (dedup (hsort (a :: l))))) (dedup (hsort (a :: l))) = Ok r /\
            out = sort_by (fun x => x) r.
Proof.
  rewrite compact_cons. intros H. apply bind_eq_ok in H. destruct H as (r & Hr & H).
  exists r. split; [exact Hr|]. apply ok_inj in H. symmetry. exact H.
Qed.

Lemma compact_inner l out :
  all_canonical l -> antichain l -> compact l = Ok out ->
  exists r, same_set out r /\ out = sort_by (fun x => x) r /\
    StronglySorted klt r /\ all_canonical r /\ antichain r /\ no_complete_group r.
Proof.
  intros Hcan Hanti H. destruct l as [|a l].
  - cbn in H. apply ok_inj in H. subst out. exists []. split; [intros x; reflexivity|].
    split; [reflexivity|]. split; [constructor|]. split; [assumption|]. split; [assumption|].
    apply no_complete_group_nil.
  - apply compact_inv in H. destruct H as (r & Hr & ->).
    destruct (dedup_hsort_sorted (a :: l)) as (Hs & Hin).
    assert (Hss : same_set (a :: l) (dedup (hsort (a :: l)))) by (intros x; symmetry; apply Hin).
    apply compact_loop_antichain in Hr; try assumption.
    + exists r. split; [intros x; apply sort_by_in|]. split; [reflexivity|]. exact Hr.
    + apply (KeyOrder.all_canonical_same_set (a :: l)); assumption.
    + apply (antichain_same_set (a :: l)); assumption.
Qed.

Theorem compact_maximal : forall l out,
  all_canonical l -> antichain l -> compact l = Ok out ->
  no_complete_group out /\ antichain out /\ all_canonical out.
Proof.
  intros l out Hcan Hanti H.
  destruct (compact_inner l out Hcan Hanti H) as (r & Hss & _ & _ & Hcr & Har & Hng).
  assert (Hss' : same_set r out) by (intros x; symmetry; apply Hss).
  split; [apply (no_complete_group_same_set r); assumption|].
  split; [apply (antichain_same_set r); assumption|].
  apply (KeyOrder.all_canonical_same_set r); assumption.
Qed.

(* ================================================================== *)
(* 5. idempotence                                                      *)
(* ================================================================== *)

(* compacting any list that is a canonical set without complete groups only sorts it *)
Lemma compact_fixed l :
  all_canonical l -> no_complete_group l -> sorted_lt l -> compact l = Ok l.
Proof.
  intros Hcan Hng Hsl. destruct l as [|a l]; [reflexivity|].
  rewrite compact_cons. set (cur := dedup (hsort (a :: l))).
  destruct (dedup_hsort_sorted (a :: l)) as (Hs & Hin). fold cur in Hs, Hin.
  assert (Hss : same_set (a :: l) cur) by (intros x; symmetry; apply Hin).
  assert (Hcan' : all_canonical cur) by (apply (KeyOrder.all_canonical_same_set (a :: l)); assumption).
  assert (Hng' : no_complete_group cur) by (apply (no_complete_group_same_set (a :: l)); assumption).
  rewrite compact_loop_S.
  rewrite (compact_pass_no_group (S (length cur)) (Z.of_nat (length cur)) cur Hcan' Hng') by lia.
  rewrite !bind_ok. f_equal.
  apply sorted_lt_unique; [|exact Hsl|].
  - apply sort_id_sorted. apply (ss_NoDup klt klt_irrefl cur Hs).
  - intros x. rewrite sort_by_in. apply Hin.
Qed.

Theorem compact_idempotent : forall l out,
  all_canonical l -> antichain l -> compact l = Ok out -> compact out = Ok out.
Proof.
  intros l out Hcan Hanti H.
  destruct (compact_maximal l out Hcan Hanti H) as (Hng & _ & Hco).
  apply compact_fixed; try assumption.
  apply (compact_sorted l out); assumption.
Qed.

(* ================================================================== *)
(* 6. canonical form                                                   *)
(* ================================================================== *)

Theorem compact_canonical : forall l1 l2 o1 o2 R,
  all_canonical l1 -> all_canonical l2 -> antichain l1 -> antichain l2 ->
  res_le R l1 -> res_le R l2 -> R <= 29 ->
  (forall x, covers R l1 x <-> covers R l2 x) ->
  compact l1 = Ok o1 -> compact l2 = Ok o2 -> o1 = o2.
Proof.
  intros l1 l2 o1 o2 R Hc1 Hc2 Ha1 Ha2 Hr1 Hr2 HR Hcov H1 H2.
  destruct (compact_maximal l1 o1 Hc1 Ha1 H1) as (Hn1 & Hao1 & Hco1).
  destruct (compact_maximal l2 o2 Hc2 Ha2 H2) as (Hn2 & Hao2 & Hco2).
  apply sorted_lt_unique.
  - apply (compact_sorted l1 o1); assumption.
  - apply (compact_sorted l2 o2); assumption.
  - apply (antichain_canonical_form R); try assumption.
    + apply (compact_res_le l1 o1 R); assumption.
    + apply (compact_res_le l2 o2 R); assumption.
    + intros x. rewrite (compact_cover l1 o1 R Hc1 H1 Hr1 HR x).
      rewrite (compact_cover l2 o2 R Hc2 H2 Hr2 HR x). apply Hcov.
Qed.

(* the property text in one statement.  [group p] is the explicit ID list of the sibling group below
   p (KeyOrder.group_shape: the 12 base cells for p = world, the 5 quintants of a face for a base
   cell, the 4 children otherwise) *)
Theorem compact_C10 l out :
  all_canonical l -> antichain l -> compact l = Ok out ->
  (forall p, canon p -> -1 <= resolution p <= 28 -> ~ incl (group p) out) /\
  compact out = Ok out /\
  (forall l' out' R, all_canonical l' -> antichain l' -> res_le R l -> res_le R l' -> R <= 29 ->
     (forall x, covers R l x <-> covers R l' x) -> compact l' = Ok out' -> out' = out).
Proof.
  intros Hcan Hanti H. split; [|split].
  - destruct (compact_maximal l out Hcan Hanti H) as (Hng & _ & _).
    intros p Hp Hr Hi. apply (Hng p Hp Hr). apply group_has_all_children; assumption.
  - apply (compact_idempotent l); assumption.
  - intros l' out' R Hcan' Hanti' HR HR' HR29 Hcov H'. symmetry.
    apply (compact_canonical l l' out out' R); assumption.
Qed.

(* ================================================================== *)
(* 7. non-vacuity: concrete inputs, evaluated with the model functions  *)
(* ================================================================== *)

(* a decidable test for "the IDs of these cell descriptions form an antichain" *)
Definition cell_eqb (a b : cell) : bool :=
  (origin_id a =? origin_id b) && (segment a =? segment b) && (s a =? s b) && (resolution a =? resolution b).

Lemma cell_eqb_false a b : cell_eqb a b = false -> a <> b.
Proof.
  intros H E. subst b. unfold cell_eqb in H. rewrite !Z.eqb_refl in H. discriminate.
Qed.

Definition proper_ancestor_b (a b : cell) : bool :=
  (resolution a <? resolution b) && cell_eqb (anc b (resolution a)) a.

Lemma antichain_check cs :
  Forall canon cs ->
  forallb (fun a => forallb (fun b => negb (proper_ancestor_b a b)) cs) cs = true ->
  all_canonical (map layout cs) /\ antichain (map layout cs).
Proof.
  intros Hcs Hchk. rewrite Forall_forall in Hcs. split.
  - intros i Hi. rewrite in_map_iff in Hi. destruct Hi as (c & <- & Hc). exists c. split; [apply Hcs; exact Hc|reflexivity].
  - assert (Hmem : forall a, canon a -> In (layout a) (map layout cs) -> In a cs).
    { intros a Ha Hin. rewrite in_map_iff in Hin. destruct Hin as (a' & E & Hin).
      apply layout_injective in E; [subst a'; exact Hin|apply Hcs; exact Hin|exact Ha]. }
    intros a b Ha Hb Hia Hib (Hlt & Hanc).
    apply Hmem in Hia, Hib; try assumption.
    rewrite forallb_forall in Hchk. specialize (Hchk a Hia).
    rewrite forallb_forall in Hchk. specialize (Hchk b Hib).
    unfold proper_ancestor_b in Hchk. apply negb_true_iff in Hchk.
    apply andb_false_iff in Hchk. destruct Hchk as [H|H]; [lia|].
    apply cell_eqb_false in H. contradiction.
Qed.

(* (a) the regression: the five quintants of face 0 together with the base cells 1 .. 11 *)
Definition input_a : out (list Z) :=
  base <- get_res0_cells ;;
  quints <- cell_to_children (hd 0 base) None ;;
  Ok (quints ++ tl base).

Definition cells_a : list cell :=
  map (fun sg => mkCell 0 sg 0 1) [0; 1; 2; 3; 4] ++ map (fun o => mkCell o 0 0 0) (seqZ 1 11).

Example input_a_value : input_a = Ok (map layout cells_a) /\ length cells_a = 16%nat.
Proof. split; vm_compute; reflexivity. Qed.

(* it is within the scope of C10: canonical and non-overlapping *)
Example input_a_antichain : all_canonical (map layout cells_a) /\ antichain (map layout cells_a).
Proof.
  apply antichain_check; [|vm_compute; reflexivity].
  unfold cells_a. cbn [map seqZ app].
  repeat (constructor; [unfold canon; cbn [resolution origin_id segment s]; lia|]). constructor.
Qed.

(* two rounds of merging (quintants -> base cell 0, then 12 base cells -> world) *)
Example compact_regression : (l <- input_a ;; compact l) = Ok [0].
Proof. vm_compute. reflexivity. Qed.

Example compact_regression' : compact (map layout cells_a) = Ok [WORLD_CELL].
Proof. vm_compute. reflexivity. Qed.

(* the theorems instantiated on it *)
Example regression_maximal :
  no_complete_group [0] /\ antichain [0] /\ all_canonical [0] /\ compact [0] = Ok [0].
Proof.
  destruct input_a_antichain as (Hcan & Hanti).
  pose proof (compact_maximal _ _ Hcan Hanti compact_regression') as (H1 & H2 & H3).
  pose proof (compact_idempotent _ _ Hcan Hanti compact_regression') as H4.
  change [WORLD_CELL] with [0] in *. tauto.
Qed.

(* another description of the same region (the 12 base cells) has the same compacted form *)
Example compact_base_cells : (l <- get_res0_cells ;; compact l) = Ok [0].
Proof. vm_compute. reflexivity. Qed.

(* (b) an OVERLAPPING input (outside C10): base cell 1 together with its own five quintants;
   the merged parent collides with the member already present and the result is duplicate-free *)
Definition input_b : out (list Z) :=
  base <- get_res0_cells ;;
  let b1 := nth 1 base 0 in
  quints <- cell_to_children b1 None ;;
  Ok (b1 :: quints).

Example input_b_value :
  exists l, input_b = Ok l /\ length l = 6%nat /\ hd 0 l = layout (mkCell 1 0 0 0) /\
            ~ antichain l.
Proof.
  eexists. split; [vm_compute; reflexivity|]. split; [reflexivity|]. split; [vm_compute; reflexivity|].
  intros Hanti.
  apply (Hanti (mkCell 1 0 0 0) (mkCell 1 0 0 1)).
  - unfold canon; cbn [resolution origin_id segment s]; lia.
  - unfold canon; cbn [resolution origin_id segment s]; lia.
  - vm_compute. tauto.
  - vm_compute. tauto.
  - split; [cbn [resolution]; lia|reflexivity].
Qed.

Example compact_overlapping :
  exists out, (l <- input_b ;; compact l) = Ok out /\ NoDup out /\ out = [layout (mkCell 1 0 0 0)].
Proof.
  eexists. split; [vm_compute; reflexivity|]. split; [|vm_compute; reflexivity].
  constructor; [intros []|constructor].
Qed.
