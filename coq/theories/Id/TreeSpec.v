(* The hierarchy, written from the property text on canonical cell descriptions
   (independent of the bit layout): ancestors, descendants, fan-out. *)
From Coq Require Import ZArith List Bool Lia.
From A5 Require Import Base.Outcome Base.Word Id.Codec Id.CodecSpec.
Import ListNotations.
Open Scope Z_scope.

Definition world : cell := mkCell 0 0 0 (-1).

(* ancestor of c at resolution k (meaningful for -1 <= k <= resolution c) *)
Definition anc (c : cell) (k : Z) : cell :=
  if k =? -1 then world
  else if k =? 0 then mkCell (origin_id c) 0 0 0
  else if k =? 1 then mkCell (origin_id c) (segment c) 0 1
  else mkCell (origin_id c) (segment c) (s c / 4 ^ (resolution c - k)) k.

(* descendants of c at resolution k >= resolution c, in the order the API returns them *)
Definition desc_cells (c : cell) (k : Z) : list cell :=
  let r := resolution c in
  if k =? r then [c] else
  let origins := if r =? -1 then seqZ 0 12 else [origin_id c] in
  let segments := if ((r =? -1) && (k >? 0)) || (r =? 0) then [0; 1; 2; 3; 4] else [segment c] in
  let diff := k - Z.max r 1 in
  let count := if diff <=? 0 then 1 else 4 ^ diff in
  let shifted := if diff >? 0 then s c * 4 ^ diff else s c in
  flat_map (fun o => flat_map (fun sg => map (fun i => mkCell o sg (shifted + i) k)
                                             (seqZ 0 (Z.to_nat count)))
                              segments)
           origins.

(* 12 under the world cell, 5 per base cell, 4 per level after that *)
Definition level_fanout (r : Z) : Z := if r =? -1 then 12 else if r =? 0 then 5 else 4.
Fixpoint fanout_n (r : Z) (n : nat) : Z :=
  match n with O => 1 | S m => level_fanout r * fanout_n (r + 1) m end.
Definition fanout (r k : Z) : Z := fanout_n r (Z.to_nat (k - r)).

(* ID interval of the subtree of a cell of resolution >= 1: (lo, hi) *)
Definition sub_lo (c : cell) : Z :=
  if resolution c =? 1 then code c * 2 ^ 58
  else code c * 2 ^ 58 + s c * 2 ^ (60 - 2 * resolution c).
Definition sub_hi (c : cell) : Z :=
  if resolution c =? 1 then sub_lo c + 2 ^ 58 else sub_lo c + 2 ^ (60 - 2 * resolution c).

(* the levels the code accepts in one call (beyond, cell_to_children reports an error) *)
Definition span_ok (r k : Z) : Prop := k - Z.max r 1 <= 20.
