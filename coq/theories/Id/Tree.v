(* Model of the hierarchy functions of src/core/serialization.rs *)
From Coq Require Import ZArith List Bool.
From A5 Require Import Base.Outcome Base.Word Id.Codec.
From A5gen Require Import TablesCur.
Import ListNotations.
Open Scope Z_scope.

Definition usize_pow4 (e : Z) : out Z :=
  if 4 ^ e <? two64 then Ok (4 ^ e) else Panic.

Definition cell_to_children (index : Z) (child_resolution : option Z) : out (list Z) :=
  c <- deserialize index ;;
  let current_resolution := resolution c in
  new_resolution <- match child_resolution with
                    | Some r => Ok r
                    | None => i32_add current_resolution 1
                    end ;;
  if new_resolution <? current_resolution then Err else
  if new_resolution >? MAX_RESOLUTION then Err else
  if new_resolution =? current_resolution then (x <- serialize c ;; Ok [x]) else
  let new_origin_ids := if current_resolution =? -1 then seqZ 0 12 else [origin_id c] in
  let new_segments :=
    if ((current_resolution =? -1) && (new_resolution >? 0)) || (current_resolution =? 0)
    then [0; 1; 2; 3; 4] else [segment c] in
  t <- i32_sub FIRST_HILBERT_RESOLUTION 1 ;;
  resolution_diff <- i32_sub new_resolution (Z.max current_resolution t) ;;
  children_count <- (if resolution_diff <=? 0 then Ok 1
                     else if resolution_diff >? 20 then Err
                     else usize_pow4 (as_u32 resolution_diff)) ;;
  shifted_s <- (if resolution_diff >? 0 then
                  sh <- i32_mul 2 resolution_diff ;; u64_shl (s c) sh
                else Ok (s c)) ;;
  mapM (fun '(o, sg, i) =>
          new_s <- u64_add shifted_s i ;;
          serialize (mkCell o sg new_s new_resolution))
       (flat_map (fun o => flat_map (fun sg => map (fun i => (o, sg, i))
                                                   (seqZ 0 (Z.to_nat children_count)))
                                    new_segments)
                 new_origin_ids).

Definition cell_to_parent (index : Z) (parent_resolution : option Z) : out Z :=
  c <- deserialize index ;;
  let current_resolution := resolution c in
  new_resolution <- match parent_resolution with
                    | Some r => Ok r
                    | None => i32_sub current_resolution 1
                    end ;;
  if new_resolution =? -1 then Ok WORLD_CELL else
  if new_resolution <? 0 then Err else
  if new_resolution >? current_resolution then Err else
  if new_resolution =? current_resolution then serialize c else
  resolution_diff <- i32_sub current_resolution new_resolution ;;
  sh <- i32_mul 2 resolution_diff ;;
  shifted_s <- u64_shr (s c) sh ;;
  serialize (mkCell (origin_id c) (segment c) shifted_s new_resolution).

Definition get_res0_cells : out (list Z) := cell_to_children WORLD_CELL (Some 0).

(* is_first_child with an explicit resolution (as called from compact) *)
Definition is_first_child (index resolution : Z) : out bool :=
  if resolution <? 2 then
    let top6_bits := Z.shiftr index HILBERT_START_BIT in
    let child_count := if resolution =? 0 then 12 else 5 in
    Ok (top6_bits mod child_count =? 0)
  else
    d <- i32_sub MAX_RESOLUTION resolution ;;
    s_position <- u32_mul 2 (as_u32 d) ;;
    s_mask <- u64_shl 3 s_position ;;
    Ok (Z.land index s_mask =? 0).

Definition get_stride (resolution : Z) : out Z :=
  if resolution <? 2 then u64_shl 1 HILBERT_START_BIT
  else
    d <- i32_sub MAX_RESOLUTION resolution ;;
    s_position <- u32_mul 2 (as_u32 d) ;;
    u64_shl 1 s_position.
