(* Specification of the 64-bit cell-ID layout, written from the documentation,
   independently of the code:   | 6 bits face or 5*face+quintant | 2 bits per curve level | 1 | 0...0 | *)
From Coq Require Import ZArith List Bool Lia.
From A5 Require Import Base.Outcome Base.Word Id.Codec.
From A5gen Require Import TablesCur.
Import ListNotations.
Open Scope Z_scope.

(* first quintant of a face, from the current table *)
Definition fq (o : Z) : Z := nth (Z.to_nat o) first_quintant 0.

(* canonical cell descriptions *)
Definition canon (c : cell) : Prop :=
  -1 <= resolution c <= 29 /\
  (resolution c = -1 -> origin_id c = 0 /\ segment c = 0 /\ s c = 0) /\
  (0 <= resolution c -> 0 <= origin_id c < 12) /\
  (resolution c = 0 -> segment c = 0 /\ s c = 0) /\
  (1 <= resolution c -> 0 <= segment c < 5) /\
  (resolution c = 1 -> s c = 0) /\
  (2 <= resolution c -> 0 <= s c < 4 ^ (resolution c - 1)).

Definition canonb (c : cell) : bool :=
  let r := resolution c in
  (-1 <=? r) && (r <=? 29) &&
  (if r =? -1 then (origin_id c =? 0) && (segment c =? 0) && (s c =? 0)
   else (0 <=? origin_id c) && (origin_id c <? 12) &&
        (if r =? 0 then (segment c =? 0) && (s c =? 0)
         else (0 <=? segment c) && (segment c <? 5) &&
              (if r =? 1 then s c =? 0 else (0 <=? s c) && (s c <? 4 ^ (r - 1))))).

(* the 6-bit prefix for resolutions >= 1: 5*face + quintant counted from the face's first quintant *)
Definition code (c : cell) : Z := 5 * origin_id c + (segment c + 5 - fq (origin_id c)) mod 5.

Definition layout (c : cell) : Z :=
  let r := resolution c in
  if r =? -1 then 0
  else if r =? 0 then origin_id c * 2 ^ 58 + 2 ^ 57
  else if r =? 1 then code c * 2 ^ 58 + 2 ^ 56
  else code c * 2 ^ 58 + s c * 2 ^ (60 - 2 * r) + 2 ^ (59 - 2 * r).

(* bit position of the resolution marker *)
Definition marker_pos (r : Z) : Z := if r <? 2 then 57 - r else 59 - 2 * r.

Definition canonical_id (i : Z) : Prop := exists c, canon c /\ layout c = i.
