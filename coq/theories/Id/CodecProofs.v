(* Proofs about the codec model: layout, both round trips, resolution, injectivity. *)
From Coq Require Import ZArith List Bool Lia ZifyBool.
From A5 Require Import Base.Outcome Base.Word Id.Codec Id.CodecSpec.
From A5gen Require Import TablesCur.
Import ListNotations.
Open Scope Z_scope.

Ltac Zify.zify_post_hook ::= Z.div_mod_to_equations.

(* ---------- facts about the regenerated tables (re-evaluated whenever they change) *)
Lemma consts_ok :
  FIRST_HILBERT_RESOLUTION = 2 /\ MAX_RESOLUTION = 30 /\ HILBERT_START_BIT = 58 /\
  REMOVAL_MASK = 2 ^ 58 - 1 /\ WORLD_CELL = 0 /\ n_origins = 12.
Proof. vm_compute. repeat split; reflexivity. Qed.

Lemma first_quintant_wf :
  length first_quintant = 12%nat /\ forallb (fun x => (0 <=? x) && (x <? 5)) first_quintant = true.
Proof. vm_compute. split; reflexivity. Qed.

Lemma range12 o : 0 <= o < 12 ->
  o = 0 \/ o = 1 \/ o = 2 \/ o = 3 \/ o = 4 \/ o = 5 \/ o = 6 \/ o = 7 \/ o = 8 \/ o = 9 \/ o = 10 \/ o = 11.
Proof. lia. Qed.

Lemma fq_range o : 0 <= o < 12 -> 0 <= fq o < 5.
Proof.
  intros H. destruct first_quintant_wf as [Hl Hf].
  rewrite forallb_forall in Hf.
  assert (Hin : In (fq o) first_quintant).
  { unfold fq. apply nth_In. rewrite Hl. lia. }
  specialize (Hf _ Hin). lia.
Qed.

Lemma first_quintant_of_ok o : 0 <= o < 12 -> first_quintant_of o = Ok (fq o).
Proof.
  intros H. unfold first_quintant_of, tab_get, fq.
  destruct (Z.ltb_spec o 0); [lia|].
  destruct first_quintant_wf as [Hl _].
  destruct (nth_error first_quintant (Z.to_nat o)) eqn:E.
  - f_equal. symmetry. apply nth_error_nth. exact E.
  - apply nth_error_None in E. lia.
Qed.

(* ---------- symbolic execution helpers: evaluate closed sub-terms, step through binds *)
Ltac closed t := match t with context [?v] => is_var v; fail 1 | _ => idtac end.

Ltac ev_step :=
  match goal with
  | |- context [bind ?x ?f] =>
      closed x; let v := eval vm_compute in x in
      change (bind x f) with (bind v f); rewrite bind_ok
  | |- context [if ?b then _ else _] =>
      closed b; let v := eval vm_compute in b in
      change b with v; cbv iota
  end.
Ltac ev := repeat ev_step.

Lemma range_res r : -1 <= r <= 29 ->
  r = -1 \/ r = 0 \/ r = 1 \/ r = 2 \/ r = 3 \/ r = 4 \/ r = 5 \/ r = 6 \/ r = 7 \/ r = 8 \/ r = 9 \/
  r = 10 \/ r = 11 \/ r = 12 \/ r = 13 \/ r = 14 \/ r = 15 \/ r = 16 \/ r = 17 \/ r = 18 \/ r = 19 \/
  r = 20 \/ r = 21 \/ r = 22 \/ r = 23 \/ r = 24 \/ r = 25 \/ r = 26 \/ r = 27 \/ r = 28 \/ r = 29.
Proof. lia. Qed.

Ltac split_res H := apply range_res in H; repeat (destruct H as [H|H]); subst.

(* checked operations on values known to be in range *)
Lemma u64_add_ok a b : a + b < two64 -> u64_add a b = Ok (a + b).
Proof. intros; unfold u64_add; destruct (Z.ltb_spec (a + b) two64); [reflexivity|lia]. Qed.
Lemma u64_sub_ok a b : b <= a -> u64_sub a b = Ok (a - b).
Proof. intros; unfold u64_sub; destruct (Z.leb_spec b a); [reflexivity|lia]. Qed.
Lemma u64_mul_ok a b : a * b < two64 -> u64_mul a b = Ok (a * b).
Proof. intros; unfold u64_mul; destruct (Z.ltb_spec (a * b) two64); [reflexivity|lia]. Qed.
Lemma u64_shl_ok a k : 0 <= k < 64 -> u64_shl a k = Ok ((a * 2 ^ k) mod two64).
Proof.
  intros; unfold u64_shl. destruct (Z.leb_spec 0 k); [|lia]. destruct (Z.ltb_spec k 64); [|lia].
  simpl. rewrite wrap64_mod, shl_mul by lia. reflexivity.
Qed.
Lemma u64_shr_ok a k : 0 <= k < 64 -> u64_shr a k = Ok (a / 2 ^ k).
Proof.
  intros; unfold u64_shr. destruct (Z.leb_spec 0 k); [|lia]. destruct (Z.ltb_spec k 64); [|lia].
  simpl. rewrite shr_div by lia. reflexivity.
Qed.

Ltac sym_step := first
 [ ev_step
 | rewrite u64_mul_ok by (unfold two64; lia)
 | rewrite u64_add_ok by (unfold two64; lia)
 | rewrite u64_sub_ok by lia
 | rewrite u64_shl_ok by lia
 | rewrite u64_shr_ok by lia
 | rewrite bind_ok
 | match goal with |- context [if ?a >=? ?b then _ else _] => destruct (Z.geb_spec a b); [lia|] end ].
Ltac sym := repeat sym_step.

Ltac use_canon :=
  repeat match goal with
         | H : ?P -> _ |- _ =>
             first [ let HP := fresh in assert (HP : P) by lia; specialize (H HP); clear HP
                   | clear H ]
         end.

(* evaluate closed exponents of powers of two *)
Ltac ev_pow :=
  repeat match goal with
         | |- context [2 ^ ?e] =>
             closed e;
             lazymatch e with Zpos _ => fail | Z0 => fail | _ => idtac end;
             let v := eval vm_compute in e in change e with v
         end.

Ltac lor_to_add :=
  match goal with
  | |- context [Z.lor _ ?m] =>
      let k := eval vm_compute in (Z.log2 m) in change m with (2 ^ k)
  end;
  rewrite lor_pow2_add by lia.

(* ---------- serialize produces the documented layout *)
Theorem serialize_layout c : canon c -> serialize c = Ok (layout c).
Proof.
  destruct c as [o sg sv r]. unfold canon. cbn [resolution origin_id segment s].
  intros (Hr & Hw & Ho & H0 & H1 & H1' & H2).
  unfold serialize, layout, code. cbn [resolution origin_id segment s].
  split_res Hr; use_canon; ev;
    try reflexivity;
    (rewrite (first_quintant_of_ok o) by lia; rewrite bind_ok;
     pose proof (fq_range o ltac:(lia)) as Hfq;
     sym; f_equal; unfold two64; lor_to_add; lia).
Qed.

(* ---------- get_resolution reads the marker position *)
Lemma testbit_marker A m p :
  0 <= A -> 0 <= m -> 0 <= p <= m ->
  Z.testbit (A * 2 ^ (m + 1) + 2 ^ m) p = (p =? m).
Proof.
  intros HA Hm Hp.
  replace (A * 2 ^ (m + 1) + 2 ^ m) with ((2 * A + 1) * 2 ^ m)
    by (rewrite Z.pow_add_r by lia; ring).
  destruct (Z.eqb_spec p m) as [->|Hne].
  - rewrite Z.mul_pow2_bits by lia. rewrite Z.sub_diag. apply Z.testbit_odd_0.
  - apply Z.mul_pow2_bits_low. lia.
Qed.

Lemma land1_eqb0 x : (Z.land x 1 =? 0) = negb (Z.testbit x 0).
Proof. rewrite land1_testbit. destruct (Z.testbit x 0); reflexivity. Qed.

Lemma marker_pos_pred r : 0 <= r <= 29 ->
  marker_pos (r - 1) = marker_pos r + (if r - 1 <? 2 then 1 else 2) \/ r = 0.
Proof. intros H. unfold marker_pos. destruct (Z.ltb_spec r 2), (Z.ltb_spec (r - 1) 2); lia. Qed.

(* the loop, started at resolution r on the index shifted to r's marker position, returns the
   largest resolution r' <= r whose marker bit is set *)
Lemma get_resolution_loop_spec idx R :
  0 <= idx -> -1 <= R <= 29 ->
  (R >= 0 -> Z.testbit idx (marker_pos R) = true) ->
  forall n r fuel,
    r = R + Z.of_nat n -> r <= 29 -> (Z.to_nat (r + 2) <= fuel)%nat ->
    (forall r', R < r' <= r -> Z.testbit idx (marker_pos r') = false) ->
    get_resolution_loop fuel r (Z.shiftr idx (marker_pos r)) = R.
Proof.
  intros Hidx HR Hbit. destruct consts_ok as (HF & _).
  induction n as [|n IH]; intros r fuel Hr Hr29 Hfuel Hzero.
  - cbn [Z.of_nat] in Hr. rewrite Z.add_0_r in Hr. subst r.
    destruct fuel as [|fuel]; [lia|]. cbn [get_resolution_loop].
    destruct (Z.gtb_spec R (-1)) as [Hgt|Hle]; cbn [andb]; [|reflexivity].
    rewrite land1_eqb0, Z.shiftr_spec, Z.add_0_l by lia.
    rewrite Hbit by lia. reflexivity.
  - destruct fuel as [|fuel]; [lia|]. cbn [get_resolution_loop].
    destruct (Z.gtb_spec r (-1)) as [Hgt|Hle]; cbn [andb]; [|lia].
    rewrite land1_eqb0, Z.shiftr_spec, Z.add_0_l by lia.
    rewrite Hzero by lia. cbn [negb].
    rewrite HF.
    destruct (Z.eq_dec r 0) as [->|Hr0].
    + (* r = 0, R = -1 *)
      assert (R = -1) by lia. subst R.
      destruct fuel as [|fuel]; [lia|]. cbn [get_resolution_loop]. reflexivity.
    + rewrite Z.shiftr_shiftr by (destruct (0 - 1 <? 2); unfold marker_pos; destruct (r - 1 <? 2), (r <? 2); lia).
      destruct (marker_pos_pred r ltac:(lia)) as [Hp|?]; [|lia].
      rewrite <- Hp.
      apply IH; try lia. intros r' Hr'. apply Hzero. lia.
Qed.

Lemma layout_marker_form c :
  canon c -> 0 <= resolution c ->
  exists A, 0 <= A /\ layout c = A * 2 ^ (marker_pos (resolution c) + 1) + 2 ^ marker_pos (resolution c).
Proof.
  destruct c as [o sg sv r]. unfold canon, layout, code, marker_pos. cbn [resolution origin_id segment s].
  intros (Hr & Hw & Ho & H0 & H1 & H1' & H2) Hr0.
  destruct (Z.eqb_spec r (-1)); [lia|].
  destruct (Z.eqb_spec r 0) as [->|].
  - use_canon. exists o. ev. ev_pow. lia.
  - destruct (Z.eqb_spec r 1) as [->|].
    + use_canon. pose proof (fq_range o ltac:(lia)).
      exists (2 * (5 * o + (sg + 5 - fq o) mod 5)). ev. ev_pow. lia.
    + destruct (Z.ltb_spec r 2); [lia|].
      pose proof (fq_range o ltac:(lia)).
      exists ((5 * o + (sg + 5 - fq o) mod 5) * 2 ^ (2 * r - 2) + sv).
      split; [specialize (H2 ltac:(lia)); assert (0 < 2 ^ (2 * r - 2)) by (apply Z.pow_pos_nonneg; lia); nia|].
      replace (59 - 2 * r + 1) with (60 - 2 * r) by lia.
      replace (2 ^ 58) with (2 ^ (2 * r - 2) * 2 ^ (60 - 2 * r))
        by (rewrite <- Z.pow_add_r by lia; f_equal; lia).
      ring.
Qed.

Lemma layout_nonneg c : canon c -> 0 <= layout c.
Proof.
  intros Hc. destruct (Z.ltb_spec (resolution c) 0) as [Hn|Hn].
  - unfold layout. destruct Hc as (Hr & _). destruct (Z.eqb_spec (resolution c) (-1)); lia.
  - destruct (layout_marker_form c Hc Hn) as (A & HA & ->).
    assert (0 < 2 ^ (marker_pos (resolution c) + 1)) by (apply Z.pow_pos_nonneg; unfold marker_pos; destruct Hc as (Hr & _); destruct (resolution c <? 2); lia).
    assert (0 < 2 ^ (marker_pos (resolution c))) by (apply Z.pow_pos_nonneg; unfold marker_pos; destruct Hc as (Hr & _); destruct (resolution c <? 2); lia).
    nia.
Qed.

Theorem resolution_layout c : canon c -> get_resolution (layout c) = resolution c.
Proof.
  intros Hc. pose proof Hc as (Hr & _).
  destruct consts_ok as (_ & HM & _).
  unfold get_resolution. rewrite HM. change (30 - 1) with 29.
  change 1 with (marker_pos 29) at 1.
  destruct (Z.ltb_spec (resolution c) 0) as [Hn|Hn].
  - (* world cell: layout = 0, no bit set *)
    assert (resolution c = -1) as Hm1 by lia.
    assert (layout c = 0) as -> by (unfold layout; rewrite Hm1; reflexivity).
    rewrite Hm1. apply (get_resolution_loop_spec 0 (-1)) with (n := 30%nat); try lia.
    intros; apply Z.bits_0.
  - destruct (layout_marker_form c Hc Hn) as (A & HA & HL).
    assert (Hmp : forall r', 0 <= r' <= 29 -> 0 <= marker_pos r') by (intros; unfold marker_pos; destruct (r' <? 2); lia).
    assert (Hnn : 0 <= layout c) by (apply layout_nonneg; assumption).
    assert (Hone : resolution c >= 0 -> Z.testbit (layout c) (marker_pos (resolution c)) = true).
    { intros _. rewrite HL.
      assert (0 <= marker_pos (resolution c)) by (apply Hmp; lia).
      rewrite testbit_marker by lia. apply Z.eqb_refl. }
    assert (Hzero : forall r', resolution c < r' <= 29 -> Z.testbit (layout c) (marker_pos r') = false).
    { intros r' Hr'. rewrite HL.
      assert (0 <= marker_pos (resolution c)) by (apply Hmp; lia).
      assert (0 <= marker_pos r' < marker_pos (resolution c)).
      { split; [apply Hmp; lia|]. unfold marker_pos. destruct (r' <? 2) eqn:?, (resolution c <? 2) eqn:?; lia. }
      rewrite testbit_marker by lia. apply Z.eqb_neq. lia. }
    apply (get_resolution_loop_spec (layout c) (resolution c) Hnn Hr Hone
             (Z.to_nat (29 - resolution c)) 29 32%nat); try lia; assumption.
Qed.

(* ---------- decoding the layout gives back the description *)
Lemma n_origins_12 : n_origins = 12.
Proof. reflexivity. Qed.

Theorem deserialize_layout c : canon c -> deserialize (layout c) = Ok c.
Proof.
  intros Hc. unfold deserialize. rewrite resolution_layout by assumption.
  destruct c as [o sg sv r]. unfold canon in Hc. cbn [resolution origin_id segment s] in *.
  destruct Hc as (Hr & Hw & Ho & H0 & H1 & H1' & H2).
  unfold layout, code. cbn [resolution origin_id segment s].
  split_res Hr; use_canon; ev; ev_pow;
  [ (* world *) destruct Hw as (-> & -> & ->); reflexivity
  | (* resolution 0 *)
    destruct H0 as (-> & ->);
    rewrite shr_div by lia;
    replace ((o * 2 ^ 58 + 2 ^ 57) / 2 ^ 58) with o by lia;
    rewrite n_origins_12;
    (destruct (Z.geb_spec o 12); [lia|]); rewrite bind_ok; cbv beta iota; reflexivity
  | (* resolution 1 *)
    pose proof (fq_range o ltac:(lia)) as Hfq; subst sv;
    rewrite shr_div by lia;
    match goal with |- context [?L / 2 ^ 58] =>
      assert (E : L / 2 ^ 58 = 5 * o + (sg + 5 - fq o) mod 5) by lia; rewrite E; clear E end;
    match goal with |- context [?a / 5 >=? ?b] =>
      assert (E : a / 5 = o) by lia; rewrite E; clear E end;
    rewrite n_origins_12;
    (destruct (Z.geb_spec o 12); [lia|]);
    rewrite first_quintant_of_ok, bind_ok by lia; rewrite bind_ok; cbv beta iota;
    f_equal; f_equal; lia
  | (* resolutions 2 .. 29 *)
    pose proof (fq_range o ltac:(lia)) as Hfq;
    rewrite shr_div by lia;
    match goal with |- context [?L / 2 ^ 58] =>
      assert (E : L / 2 ^ 58 = 5 * o + (sg + 5 - fq o) mod 5) by lia; rewrite E; clear E end;
    match goal with |- context [?a / 5 >=? ?b] =>
      assert (E : a / 5 = o) by lia; rewrite E; clear E end;
    rewrite n_origins_12;
    (destruct (Z.geb_spec o 12); [lia|]);
    rewrite first_quintant_of_ok, bind_ok by lia; rewrite bind_ok; cbv beta iota;
    ev;
    change REMOVAL_MASK with (2 ^ 58 - 1); rewrite land_ones_mod by lia;
    rewrite u64_shr_ok by lia; rewrite bind_ok;
    f_equal; f_equal; lia .. ].
Qed.

Theorem layout_injective c1 c2 : canon c1 -> canon c2 -> layout c1 = layout c2 -> c1 = c2.
Proof.
  intros H1 H2 E.
  pose proof (deserialize_layout c1 H1) as D1.
  pose proof (deserialize_layout c2 H2) as D2.
  rewrite E in D1. rewrite D1 in D2. inversion D2. reflexivity.
Qed.

Theorem decode_encode i :
  canonical_id i -> exists c, canon c /\ deserialize i = Ok c /\ serialize c = Ok i.
Proof.
  intros (c & Hc & <-). exists c. split; [assumption|]. split.
  - apply deserialize_layout; assumption.
  - apply serialize_layout; assumption.
Qed.

Theorem encode_decode c : canon c -> exists i, serialize c = Ok i /\ deserialize i = Ok c /\ get_resolution i = resolution c.
Proof.
  intros Hc. exists (layout c). split; [apply serialize_layout; assumption|].
  split; [apply deserialize_layout; assumption|apply resolution_layout; assumption].
Qed.

Lemma layout_u64 c : canon c -> 0 <= layout c < two64.
Proof.
  intros Hc. split; [apply layout_nonneg; assumption|].
  destruct c as [o sg sv r]. unfold canon in Hc. cbn [resolution origin_id segment s] in *.
  destruct Hc as (Hr & Hw & Ho & H0 & H1 & H1' & H2).
  unfold layout, code, two64. cbn [resolution origin_id segment s].
  split_res Hr; use_canon; ev; ev_pow; try lia;
    pose proof (fq_range o ltac:(lia)) as Hfq; lia.
Qed.
