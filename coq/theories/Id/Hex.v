(* Model of src/core/hex.rs: `format!("{value:x}")` and `u64::from_str_radix(s, 16)`.
   Strings are lists of UTF-8 byte values. *)
From Coq Require Import ZArith List Bool.
From A5 Require Import Base.Outcome Base.Word.
Import ListNotations.
Open Scope Z_scope.

Definition hex_char (d : Z) : Z := if d <? 10 then 48 + d else 87 + d.

Fixpoint to_hex_digits (fuel : nat) (v : Z) (acc : list Z) : list Z :=
  match fuel with
  | O => acc
  | S f =>
      let acc' := hex_char (v mod 16) :: acc in
      if v / 16 =? 0 then acc' else to_hex_digits f (v / 16) acc'
  end.

Definition u64_to_hex (v : Z) : list Z := to_hex_digits 16 v [].

Definition hex_digit_val (b : Z) : option Z :=
  if (48 <=? b) && (b <=? 57) then Some (b - 48)
  else if (97 <=? b) && (b <=? 102) then Some (b - 87)
  else if (65 <=? b) && (b <=? 70) then Some (b - 55)
  else None.

Fixpoint parse_digits (acc : Z) (l : list Z) : out Z :=
  match l with
  | [] => Ok acc
  | b :: bs =>
      match hex_digit_val b with
      | None => Err
      | Some d =>
          let acc' := acc * 16 + d in
          if acc' <? two64 then parse_digits acc' bs else Err
      end
  end.

Definition hex_to_u64 (src : list Z) : out Z :=
  match src with
  | [] => Err
  | [b] => if (b =? 43) || (b =? 45) then Err else parse_digits 0 [b]
  | b :: rest => if b =? 43 then parse_digits 0 rest else parse_digits 0 src
  end.
