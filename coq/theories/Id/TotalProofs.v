(* C14 "Total API" on the integer layer: every public function of the ID layer returns normally
   (Ok or Err, never Panic / Diverge) for EVERY 64-bit word and every requested resolution, and a
   normal result is itself valid (canonical IDs of the requested resolution).

   Words that are not the layout of a canonical cell are either rejected (deserialize = Err) or
   treated exactly as the canonical cell they decode to ([alias_parent], [alias_children]).

   Deviations from the first formulation are listed at the statements concerned:
   - serialize CAN panic: for a face number outside 0..11 (table index) or a quintant number
     >= 2^64 - 5 (usize addition), see [serialize_panics_iff]; the library itself only passes
     faces < 12 and quintants < 5 ([serialize_no_panic]).
   - uncompact returns some inputs unchanged (those already at the target resolution), so its
     outputs are canonical only as far as those inputs are: [uncompact_valid_any]. *)
From Coq Require Import ZArith List Bool Lia ZifyBool.
From A5 Require Import Base.Outcome Base.Word Id.Codec Id.CodecSpec Id.CodecProofs Id.Tree Id.TreeSpec
  Id.TreeProofs Id.Compact Id.CompactSpec Id.CompactProofs.
From A5gen Require Import TablesCur.
Import ListNotations.
Open Scope Z_scope.

Ltac Zify.zify_post_hook ::= Z.div_mod_to_equations.

(* ================================================================== *)
(* 9 (first, it is used everywhere): the resolution of any word        *)
(* ================================================================== *)

Theorem get_resolution_total : forall i, -1 <= get_resolution i <= 29.
Proof. exact get_resolution_range. Qed.

Lemma ok_inj {A} (a b : A) : Ok a = Ok b -> a = b.
Proof. intros H; injection H; auto. Qed.

(* ================================================================== *)
(* 1: every successfully decoded word is a canonical description      *)
(* ================================================================== *)

Lemma deserialize_canon_res : forall i c, 0 <= i < two64 -> deserialize i = Ok c ->
  canon c /\ resolution c = get_resolution i.
Proof.
  intros i c Hi. pose proof (get_resolution_range i) as Hr. unfold deserialize. cbv zeta.
  revert Hr. generalize (get_resolution i). intros r Hr.
  destruct (Z.eqb_spec r (-1)) as [->|Nw].
  { intros Hd; apply ok_inj in Hd; subst c. split; [exact canon_world|reflexivity]. }
  rewrite shr_div by lia. unfold n_origins, FIRST_HILBERT_RESOLUTION, HILBERT_START_BIT.
  assert (Htop : 0 <= i / 2 ^ 58) by (apply Z.div_pos; lia).
  set (top := i / 2 ^ 58) in *.
  destruct (Z.eqb_spec r 0) as [->|N0].
  - destruct (Z.geb_spec top 12); [discriminate|]. rewrite bind_ok. cbv beta iota.
    change (0 <? 2) with true. cbv iota.
    intros Hd; apply ok_inj in Hd; subst c. split; [|reflexivity].
    unfold canon; projs. repeat split; intros; lia.
  - destruct (Z.geb_spec (top / 5) 12); [discriminate|].
    assert (Ho : 0 <= top / 5 < 12) by (split; [apply Z.div_pos; lia|lia]).
    rewrite first_quintant_of_ok by assumption. rewrite !bind_ok. cbv beta iota.
    pose proof (fq_range _ Ho) as Hfq.
    assert (Hsg : 0 <= (top + fq (top / 5)) mod 5 < 5) by (apply Z.mod_pos_bound; lia).
    destruct (Z.ltb_spec r 2).
    + intros Hd; apply ok_inj in Hd; subst c. split; [|reflexivity].
      unfold canon; projs. repeat split; intros; lia.
    + rewrite i32_sub_ok by lia. rewrite bind_ok. rewrite i32_add_ok by lia. rewrite bind_ok.
      unfold as_u32. rewrite Z.mod_small by (unfold two32; lia).
      rewrite u32_mul_ok by (unfold two32; lia). rewrite bind_ok.
      rewrite u32_sub_ok by lia. rewrite bind_ok.
      rewrite u64_shr_ok by lia. rewrite bind_ok.
      intros Hd; apply ok_inj in Hd; subst c. split; [|reflexivity].
      change REMOVAL_MASK with (2 ^ 58 - 1). rewrite land_ones_mod by lia.
      replace (58 - 2 * (r - 2 + 1)) with (58 - 2 * (r - 1)) by lia.
      assert (Hs : 0 <= i mod 2 ^ 58 / 2 ^ (58 - 2 * (r - 1)) < 4 ^ (r - 1)).
      { apply div_bound; [apply pow2_pos; lia|].
        rewrite <- pow2_4 by lia. rewrite <- Z.pow_add_r by lia.
        replace (2 * (r - 1) + (58 - 2 * (r - 1))) with 58 by lia.
        apply Z.mod_pos_bound. apply pow2_pos; lia. }
      unfold canon; projs. repeat split; intros; lia.
Qed.

Theorem deserialize_canon : forall i c, 0 <= i < two64 -> deserialize i = Ok c -> canon c.
Proof. intros i c Hi H. exact (proj1 (deserialize_canon_res i c Hi H)). Qed.

Lemma deserialize_resolution : forall i c, 0 <= i < two64 -> deserialize i = Ok c ->
  resolution c = get_resolution i.
Proof. intros i c Hi H. exact (proj2 (deserialize_canon_res i c Hi H)). Qed.

(* decoding never panics: a word is rejected or decoded *)
Lemma deserialize_cases : forall i, 0 <= i < two64 ->
  deserialize i = Err \/ exists c, deserialize i = Ok c /\ canon c /\ resolution c = get_resolution i.
Proof.
  intros i Hi. destruct (deserialize_total i ltac:(lia)) as [E|(c & E & _)]; [left; exact E|].
  right. exists c. split; [exact E|]. apply deserialize_canon_res; assumption.
Qed.

Theorem deserialize_no_panic : forall i, 0 <= i < two64 ->
  deserialize i <> Panic /\ deserialize i <> Diverge.
Proof.
  intros i Hi. destruct (deserialize_cases i Hi) as [->|(c & -> & _)]; split; discriminate.
Qed.

(* ================================================================== *)
(* 2: a word is handled exactly as the canonical cell it decodes to    *)
(* ================================================================== *)

Theorem alias_parent : forall i c k, deserialize i = Ok c -> canon c ->
  cell_to_parent i k = cell_to_parent (layout c) k.
Proof.
  intros i c k H Hc. unfold cell_to_parent. rewrite H, deserialize_layout by assumption. reflexivity.
Qed.

Theorem alias_children : forall i c k, deserialize i = Ok c -> canon c ->
  cell_to_children i k = cell_to_children (layout c) k.
Proof.
  intros i c k H Hc. unfold cell_to_children. rewrite H, deserialize_layout by assumption. reflexivity.
Qed.

Theorem alias_rejected : forall i k, deserialize i = Err ->
  cell_to_parent i k = Err /\ cell_to_children i k = Err.
Proof.
  intros i k H. unfold cell_to_parent, cell_to_children. rewrite H. split; reflexivity.
Qed.

(* the aliased canonical ID has the same resolution and the same decoding *)
Lemma alias_resolution : forall i c, 0 <= i < two64 -> deserialize i = Ok c ->
  get_resolution (layout c) = get_resolution i /\ deserialize (layout c) = deserialize i.
Proof.
  intros i c Hi H. destruct (deserialize_canon_res i c Hi H) as (Hc & Hr).
  rewrite resolution_layout, deserialize_layout, H by assumption. split; [exact Hr|reflexivity].
Qed.

(* ================================================================== *)
(* 3: cell_to_parent                                                   *)
(* ================================================================== *)

(* complete outcome for an explicit level, on any word *)
Lemma parent_outcome_any : forall i c k, 0 <= i < two64 -> deserialize i = Ok c ->
  cell_to_parent i (Some k) =
  if (-1 <=? k) && (k <=? get_resolution i) then Ok (layout (anc c k)) else Err.
Proof.
  intros i c k Hi H. destruct (deserialize_canon_res i c Hi H) as (Hc & Hr).
  rewrite (alias_parent i c _ H Hc). rewrite <- Hr.
  destruct (Z.leb_spec (-1) k); cbn [andb]; [|apply parent_errors; [assumption|lia]].
  destruct (Z.leb_spec k (resolution c)); [apply parent_spec; [assumption|lia]|apply parent_errors; [assumption|lia]].
Qed.

Theorem parent_valid_any : forall i k j, 0 <= i < two64 -> cell_to_parent i (Some k) = Ok j ->
  canonical_id j /\ get_resolution j = k /\ -1 <= k <= 29.
Proof.
  intros i k j Hi H.
  destruct (deserialize_cases i Hi) as [E|(c & E & Hc & Hr)].
  { rewrite (proj1 (alias_rejected i (Some k) E)) in H. discriminate. }
  rewrite (parent_outcome_any i c k Hi E) in H.
  pose proof (get_resolution_range i) as Hri.
  destruct (Z.leb_spec (-1) k); cbn [andb] in H; [|discriminate].
  destruct (Z.leb_spec k (get_resolution i)); [|discriminate].
  inversion H; subst j.
  destruct (anc_canon c k Hc ltac:(lia)) as (Hca & Hra).
  split; [exists (anc c k); split; [assumption|reflexivity]|].
  split; [rewrite resolution_layout by assumption; exact Hra|lia].
Qed.

(* more precisely: the requested level is between -1 and the word's own resolution *)
Lemma parent_valid_level : forall i k j, 0 <= i < two64 -> cell_to_parent i (Some k) = Ok j ->
  -1 <= k <= get_resolution i.
Proof.
  intros i k j Hi H.
  destruct (deserialize_cases i Hi) as [E|(c & E & Hc & Hr)].
  { rewrite (proj1 (alias_rejected i (Some k) E)) in H. discriminate. }
  rewrite (parent_outcome_any i c k Hi E) in H.
  destruct (Z.leb_spec (-1) k); cbn [andb] in H; [|discriminate].
  destruct (Z.leb_spec k (get_resolution i)); [lia|discriminate].
Qed.

Lemma parent_none_eq_any : forall i, 0 <= i < two64 ->
  cell_to_parent i None = cell_to_parent i (Some (get_resolution i - 1)).
Proof. intros i Hi. apply cell_to_parent_none_eq. lia. Qed.

Theorem parent_default_valid_any : forall i j, 0 <= i < two64 -> cell_to_parent i None = Ok j ->
  canonical_id j /\ get_resolution j = get_resolution i - 1 /\ 0 <= get_resolution i <= 29.
Proof.
  intros i j Hi H. rewrite parent_none_eq_any in H by assumption.
  destruct (parent_valid_any i _ j Hi H) as (Hj & Hr & Hk).
  pose proof (get_resolution_range i). split; [assumption|]. split; [assumption|lia].
Qed.

(* ================================================================== *)
(* 4: cell_to_children                                                 *)
(* ================================================================== *)

Lemma children_outcome_any : forall i c k, 0 <= i < two64 -> deserialize i = Ok c ->
  cell_to_children i (Some k) =
  if (get_resolution i <=? k) && (k <=? 29) && (k - Z.max (get_resolution i) 1 <=? 20)
  then Ok (map layout (desc_cells c k)) else Err.
Proof.
  intros i c k Hi H. destruct (deserialize_canon_res i c Hi H) as (Hc & Hr).
  rewrite (alias_children i c _ H Hc). rewrite <- Hr. apply children_outcome. assumption.
Qed.

Theorem children_valid_any : forall i k l, 0 <= i < two64 -> cell_to_children i (Some k) = Ok l ->
  (forall x, In x l -> canonical_id x /\ get_resolution x = k) /\ NoDup l /\ -1 <= k <= 29.
Proof.
  intros i k l Hi H.
  destruct (deserialize_cases i Hi) as [E|(c & E & Hc & Hr)].
  { rewrite (proj2 (alias_rejected i (Some k) E)) in H. discriminate. }
  rewrite (children_outcome_any i c k Hi E) in H.
  pose proof (get_resolution_range i) as Hri.
  destruct (Z.leb_spec (get_resolution i) k); cbn [andb] in H; [|discriminate].
  destruct (Z.leb_spec k 29); cbn [andb] in H; [|discriminate].
  destruct (Z.leb_spec (k - Z.max (get_resolution i) 1) 20); [|discriminate].
  inversion H; subst l.
  assert (Hk : resolution c <= k <= 29) by lia.
  split; [|split; [apply children_NoDup; assumption|lia]].
  intros x Hx. rewrite in_map_iff in Hx. destruct Hx as (d & <- & Hd).
  apply (desc_char c k d Hc Hk) in Hd. destruct Hd as (Hcd & Hrd & _).
  split; [exists d; split; [assumption|reflexivity]|].
  rewrite resolution_layout by assumption. exact Hrd.
Qed.

Lemma children_valid_level : forall i k l, 0 <= i < two64 -> cell_to_children i (Some k) = Ok l ->
  get_resolution i <= k <= 29 /\ k - Z.max (get_resolution i) 1 <= 20.
Proof.
  intros i k l Hi H.
  destruct (deserialize_cases i Hi) as [E|(c & E & Hc & Hr)].
  { rewrite (proj2 (alias_rejected i (Some k) E)) in H. discriminate. }
  rewrite (children_outcome_any i c k Hi E) in H.
  destruct (Z.leb_spec (get_resolution i) k); cbn [andb] in H; [|discriminate].
  destruct (Z.leb_spec k 29); cbn [andb] in H; [|discriminate].
  destruct (Z.leb_spec (k - Z.max (get_resolution i) 1) 20); [lia|discriminate].
Qed.

(* the default child level is the word's resolution + 1 *)
Lemma children_none_eq_any : forall i, 0 <= i < two64 ->
  cell_to_children i None = cell_to_children i (Some (get_resolution i + 1)).
Proof.
  intros i Hi. destruct (deserialize_cases i Hi) as [E|(c & E & Hc & Hr)].
  - rewrite (proj2 (alias_rejected i None E)), (proj2 (alias_rejected i (Some (get_resolution i + 1)) E)).
    reflexivity.
  - rewrite !(alias_children i c _ E Hc). rewrite <- Hr. apply children_default_eq. assumption.
Qed.

Theorem children_default_valid_any : forall i l, 0 <= i < two64 -> cell_to_children i None = Ok l ->
  (forall x, In x l -> canonical_id x /\ get_resolution x = get_resolution i + 1) /\ NoDup l /\
  -1 <= get_resolution i <= 28.
Proof.
  intros i l Hi H. rewrite children_none_eq_any in H by assumption.
  destruct (children_valid_any i _ l Hi H) as (Hx & Hnd & Hk).
  pose proof (get_resolution_range i). split; [assumption|]. split; [assumption|lia].
Qed.

(* ================================================================== *)
(* 5: no panic, no divergence, for every word and EVERY integer level  *)
(* ================================================================== *)

Theorem parent_no_panic_any : forall i k, 0 <= i < two64 ->
  cell_to_parent i k <> Panic /\ cell_to_parent i k <> Diverge.
Proof.
  intros i [k|] Hi.
  - destruct (cell_to_parent_total_any i k ltac:(lia)) as [->|(j & -> & _)]; split; discriminate.
  - destruct (cell_to_parent_default_total_any i ltac:(lia)) as [->|(j & -> & _)]; split; discriminate.
Qed.

Theorem children_no_panic_any : forall i k, 0 <= i < two64 ->
  cell_to_children i k <> Panic /\ cell_to_children i k <> Diverge.
Proof.
  intros i [k|] Hi; [|rewrite children_none_eq_any by assumption];
    (match goal with |- cell_to_children _ (Some ?k) <> _ /\ _ =>
       destruct (cell_to_children_total_any i k ltac:(lia)) as [->|(j & -> & _)] end; split; discriminate).
Qed.

(* ================================================================== *)
(* 6: the twelve base cells                                            *)
(* ================================================================== *)

Theorem res0_valid : exists l, get_res0_cells = Ok l /\ length l = 12%nat /\ NoDup l /\
  forall x, In x l -> canonical_id x /\ get_resolution x = 0.
Proof.
  exists (map layout (desc_cells world 0)). split; [exact res0_spec|].
  assert (Hk : resolution world <= 0 <= 29) by (cbn; lia).
  split; [rewrite res0_cells, !map_length, seqZ_length; reflexivity|].
  split; [apply children_NoDup; [exact canon_world|exact Hk]|].
  intros x Hx. rewrite in_map_iff in Hx. destruct Hx as (d & <- & Hd).
  apply (desc_char world 0 d canon_world Hk) in Hd. destruct Hd as (Hcd & Hrd & _).
  split; [exists d; split; [assumption|reflexivity]|].
  rewrite resolution_layout by assumption. exact Hrd.
Qed.

(* ================================================================== *)
(* 7: serialize on arbitrary records                                   *)
(* ================================================================== *)

(* the canonical description an arbitrary record is encoded as: the quintant is taken modulo 5, and
   the fields that have no meaning at the record's resolution are ignored *)
Definition norm (c : cell) : cell :=
  let r := resolution c in
  if r =? -1 then world
  else if r =? 0 then mkCell (origin_id c) 0 0 0
  else if r =? 1 then mkCell (origin_id c) (segment c mod 5) 0 1
  else mkCell (origin_id c) (segment c mod 5) (s c) r.

Lemma norm_resolution c : -1 <= resolution c -> resolution (norm c) = resolution c.
Proof.
  intros H. unfold norm, world. cbv zeta.
  destruct (Z.eqb_spec (resolution c) (-1)) as [E|]; [projs; lia|].
  destruct (Z.eqb_spec (resolution c) 0) as [E|]; [projs; lia|].
  destruct (Z.eqb_spec (resolution c) 1) as [E|]; [projs; lia|reflexivity].
Qed.

Lemma norm_canon c :
  -1 <= resolution c <= 29 -> (0 <= resolution c -> 0 <= origin_id c < 12) ->
  (2 <= resolution c -> 0 <= s c < 4 ^ (resolution c - 1)) -> canon (norm c).
Proof.
  destruct c as [o sg sv r]. unfold norm, world; projs. cbv zeta. intros Hr Ho Hs.
  pose proof (Z.mod_pos_bound sg 5 ltac:(lia)) as Hm.
  destruct (Z.eqb_spec r (-1)); [exact canon_world|].
  destruct (Z.eqb_spec r 0); [unfold canon; projs; repeat split; intros; lia|].
  destruct (Z.eqb_spec r 1); unfold canon; projs; repeat split; intros; lia.
Qed.

Lemma norm_id c : canon c -> norm c = c.
Proof.
  destruct c as [o sg sv r]. unfold canon, norm, world; projs. cbv zeta.
  intros (Hr & Hw & Ho & H0 & H1 & H1' & H2).
  destruct (Z.eqb_spec r (-1)) as [->|]; [destruct Hw as (-> & -> & ->); reflexivity|].
  destruct (Z.eqb_spec r 0) as [->|]; [destruct H0 as (-> & ->); reflexivity|].
  destruct (Z.eqb_spec r 1) as [->|].
  - rewrite H1' by reflexivity. rewrite Z.mod_small by lia. reflexivity.
  - rewrite Z.mod_small by lia. reflexivity.
Qed.

Lemma first_quintant_of_bad o : ~ (0 <= o < 12) -> first_quintant_of o = Panic.
Proof.
  intros H. unfold first_quintant_of, tab_get.
  destruct (Z.ltb_spec o 0); [reflexivity|].
  destruct first_quintant_wf as [Hl _].
  destruct (nth_error first_quintant (Z.to_nat o)) eqn:E; [|reflexivity].
  assert (nth_error first_quintant (Z.to_nat o) <> None) as Hn by congruence.
  apply nth_error_Some in Hn. lia.
Qed.

Lemma serialize_res_err c : (resolution c < -1 \/ 29 < resolution c) -> serialize c = Err.
Proof.
  intros H. unfold serialize. cbv zeta. unfold MAX_RESOLUTION.
  destruct (Z.geb_spec (resolution c) 30); [reflexivity|].
  destruct (Z.ltb_spec (resolution c) (-1)); [reflexivity|lia].
Qed.

Lemma serialize_world c : resolution c = -1 -> serialize c = Ok (layout (norm c)).
Proof. intros H. unfold serialize, norm, layout. cbv zeta. rewrite H. reflexivity. Qed.

Lemma range_res0 r : 0 <= r <= 29 ->
  r = 0 \/ r = 1 \/ r = 2 \/ r = 3 \/ r = 4 \/ r = 5 \/ r = 6 \/ r = 7 \/ r = 8 \/ r = 9 \/
  r = 10 \/ r = 11 \/ r = 12 \/ r = 13 \/ r = 14 \/ r = 15 \/ r = 16 \/ r = 17 \/ r = 18 \/ r = 19 \/
  r = 20 \/ r = 21 \/ r = 22 \/ r = 23 \/ r = 24 \/ r = 25 \/ r = 26 \/ r = 27 \/ r = 28 \/ r = 29.
Proof. lia. Qed.
Ltac split_res0 H := apply range_res0 in H; repeat (destruct H as [H|H]); subst.

(* a face number outside the table: index panic *)
Lemma serialize_bad_origin c :
  0 <= resolution c <= 29 -> ~ (0 <= origin_id c < 12) -> serialize c = Panic.
Proof.
  destruct c as [o sg sv r]; projs. intros Hr Ho. unfold serialize; projs.
  split_res0 Hr; ev; rewrite (first_quintant_of_bad o Ho); reflexivity.
Qed.

(* a quintant number so large that `segment + 5` overflows usize: arithmetic panic *)
Lemma serialize_seg_overflow c :
  0 <= resolution c <= 29 -> 0 <= origin_id c < 12 -> two64 <= segment c + 5 -> serialize c = Panic.
Proof.
  destruct c as [o sg sv r]; projs. intros Hr Ho Hsg. unfold serialize; projs.
  split_res0 Hr; ev; rewrite (first_quintant_of_ok o Ho), bind_ok; unfold u64_add;
    (destruct (Z.ltb_spec (sg + 5) two64); [lia|reflexivity]).
Qed.

(* a curve position that does not fit the resolution: reported *)
Lemma serialize_big_s c :
  2 <= resolution c <= 29 -> 0 <= origin_id c < 12 -> 0 <= segment c -> segment c + 5 < two64 ->
  4 ^ (resolution c - 1) <= s c -> serialize c = Err.
Proof.
  destruct c as [o sg sv r]; projs. intros Hr Ho Hsg Hsg' Hs.
  pose proof (fq_range o Ho) as Hfq.
  assert (Hr' : 0 <= r <= 29) by lia. unfold two64 in Hsg'.
  unfold serialize; projs.
  split_res0 Hr'; try lia; ev; rewrite (first_quintant_of_ok o Ho), bind_ok; sym;
    match goal with |- context [if ?a >=? ?b then _ else _] =>
      destruct (Z.geb_spec a b); [reflexivity|unfold two64 in *; lia] end.
Qed.

(* everything else is encoded as the normalised description *)
Lemma serialize_norm c :
  0 <= resolution c <= 29 -> 0 <= origin_id c < 12 -> 0 <= segment c -> segment c + 5 < two64 ->
  (2 <= resolution c -> 0 <= s c < 4 ^ (resolution c - 1)) ->
  serialize c = Ok (layout (norm c)).
Proof.
  destruct c as [o sg sv r]; projs. intros Hr Ho Hsg Hsg' Hs.
  pose proof (fq_range o Ho) as Hfq. unfold two64 in Hsg'.
  unfold serialize, norm, layout, code; projs. cbv zeta.
  split_res0 Hr; use_canon; ev; projs; ev;
    rewrite (first_quintant_of_ok o Ho), bind_ok;
    sym; f_equal; unfold two64 in *; lor_to_add; lia.
Qed.

(* complete classification of serialize on records whose fields are unsigned *)
Theorem serialize_outcome c :
  0 <= segment c -> 0 <= s c ->
  serialize c =
  if (resolution c <? -1) || (29 <? resolution c) then Err
  else if resolution c =? -1 then Ok (layout (norm c))
  else if negb ((0 <=? origin_id c) && (origin_id c <? 12)) then Panic
  else if two64 <=? segment c + 5 then Panic
  else if (2 <=? resolution c) && (4 ^ (resolution c - 1) <=? s c) then Err
  else Ok (layout (norm c)).
Proof.
  intros Hsg Hs.
  destruct (Z.ltb_spec (resolution c) (-1)); cbn [orb]; [apply serialize_res_err; lia|].
  destruct (Z.ltb_spec 29 (resolution c)); [apply serialize_res_err; lia|].
  destruct (Z.eqb_spec (resolution c) (-1)); [apply serialize_world; assumption|].
  destruct (Z.leb_spec 0 (origin_id c)); cbn [andb negb]; [|apply serialize_bad_origin; lia].
  destruct (Z.ltb_spec (origin_id c) 12); cbn [negb]; [|apply serialize_bad_origin; lia].
  destruct (Z.leb_spec two64 (segment c + 5)); [apply serialize_seg_overflow; lia|].
  destruct (Z.leb_spec 2 (resolution c)); cbn [andb]; [|apply serialize_norm; lia].
  destruct (Z.leb_spec (4 ^ (resolution c - 1)) (s c)); [apply serialize_big_s; lia|apply serialize_norm; lia].
Qed.

Theorem serialize_valid_any : forall c i, 0 <= segment c -> 0 <= s c -> serialize c = Ok i ->
  canonical_id i /\ get_resolution i = resolution c.
Proof.
  intros c i Hsg Hs H. rewrite (serialize_outcome c Hsg Hs) in H.
  destruct (Z.ltb_spec (resolution c) (-1)); cbn [orb] in H; [discriminate|].
  destruct (Z.ltb_spec 29 (resolution c)); [discriminate|].
  assert (Hfin : canon (norm c) -> Ok (layout (norm c)) = Ok i -> canonical_id i /\ get_resolution i = resolution c).
  { intros Hc E. apply ok_inj in E. subst i. split; [exists (norm c); split; [assumption|reflexivity]|].
    rewrite resolution_layout by assumption. apply norm_resolution. lia. }
  destruct (Z.eqb_spec (resolution c) (-1)); [apply Hfin; [apply norm_canon; lia|assumption]|].
  destruct (Z.leb_spec 0 (origin_id c)); cbn [andb negb] in H; [|discriminate].
  destruct (Z.ltb_spec (origin_id c) 12); cbn [negb] in H; [|discriminate].
  destruct (Z.leb_spec two64 (segment c + 5)); [discriminate|].
  destruct (Z.leb_spec 2 (resolution c)); cbn [andb] in H; [|apply Hfin; [apply norm_canon; lia|assumption]].
  destruct (Z.leb_spec (4 ^ (resolution c - 1)) (s c)); [discriminate|].
  apply Hfin; [apply norm_canon; lia|assumption].
Qed.

(* exactly when serialize panics (it never diverges) *)
Theorem serialize_panics_iff : forall c, 0 <= segment c -> 0 <= s c ->
  (serialize c = Panic <->
   0 <= resolution c <= 29 /\ (~ (0 <= origin_id c < 12) \/ two64 <= segment c + 5)) /\
  serialize c <> Diverge.
Proof.
  intros c Hsg Hs. rewrite (serialize_outcome c Hsg Hs).
  destruct (Z.ltb_spec (resolution c) (-1)); cbn [orb]; [split; [split; [discriminate|lia]|discriminate]|].
  destruct (Z.ltb_spec 29 (resolution c)); [split; [split; [discriminate|lia]|discriminate]|].
  destruct (Z.eqb_spec (resolution c) (-1)); [split; [split; [discriminate|lia]|discriminate]|].
  destruct (Z.leb_spec 0 (origin_id c)); cbn [andb negb]; [|split; [split; [lia|reflexivity]|discriminate]].
  destruct (Z.ltb_spec (origin_id c) 12); cbn [negb]; [|split; [split; [lia|reflexivity]|discriminate]].
  destruct (Z.leb_spec two64 (segment c + 5)); [split; [split; [lia|reflexivity]|discriminate]|].
  destruct ((2 <=? resolution c) && (4 ^ (resolution c - 1) <=? s c));
    (split; [split; [discriminate|lia]|discriminate]).
Qed.

(* the library only builds records with a face < 12 and a quintant < 5 *)
Theorem serialize_no_panic : forall c,
  0 <= origin_id c < 12 -> 0 <= segment c < 5 -> 0 <= s c < two64 -> - 2 ^ 31 <= resolution c < 2 ^ 31 ->
  serialize c <> Panic /\ serialize c <> Diverge.
Proof.
  intros c Ho Hsg Hs _.
  destruct (serialize_total c) as [->|(i & -> & _)]; [unfold semi; lia|split; discriminate..].
Qed.

(* ================================================================== *)
(* 8: uncompact on arbitrary words                                     *)
(* ================================================================== *)

Theorem uncompact_no_panic_any : forall l t,
  (forall x, In x l -> 0 <= x < two64) -> - 2 ^ 31 <= t < 2 ^ 31 ->
  cap_sum_any l t <= capacity_limit ->
  uncompact l t <> Panic /\ uncompact l t <> Diverge.
Proof.
  intros l t Hl _ Hcap.
  destruct (uncompact_total_any l t) as [->|(out & ->)]; [|assumption|split; discriminate..].
  intros x Hx. destruct (Hl x Hx). assumption.
Qed.

(* a first loop that ends normally has seen no word finer than the target *)
Lemma count_loop_ok_le t : -1 <= t <= 29 ->
  forall l acc n, fold_left (count_step t) l (Ok acc) = Ok n -> forall x, In x l -> get_resolution x <= t.
Proof.
  intros Ht. induction l as [|a l IH]; intros acc n H x Hx; [destruct Hx|].
  cbn [fold_left] in H. rewrite count_step_any in H by assumption.
  destruct (Z.ltb_spec t (get_resolution a)); [rewrite count_step_err in H; discriminate|].
  unfold u64_add in H. destruct (acc + nchild (get_resolution a) t <? two64).
  - destruct Hx as [<-|Hx]; [assumption|]. exact (IH _ _ H x Hx).
  - rewrite count_step_panic in H. discriminate.
Qed.

(* every output has the target resolution; it is either an input returned unchanged (one that already
   was at the target resolution) or a canonical ID produced by cell_to_children *)
Theorem uncompact_valid_any : forall l t out,
  (forall x, In x l -> 0 <= x < two64) -> uncompact l t = Ok out ->
  -1 <= t <= 29 /\ forall y, In y out -> get_resolution y = t /\ (In y l \/ canonical_id y).
Proof.
  intros l t out Hl H.
  assert (Ht : -1 <= t <= 29).
  { destruct (Z_le_dec (-1) t); [destruct (Z_le_dec t 29); [lia|]|];
      rewrite uncompact_bad_target in H by lia; discriminate. }
  split; [exact Ht|].
  rewrite uncompact_unfold, target_ok in H by assumption.
  destruct (fold_left (count_step t) l (Ok 0)) as [n| | |] eqn:Hc; cbn [bind] in H; try discriminate.
  destruct (n >? capacity_limit); [discriminate|].
  destruct (mapM (expand_step t) l) as [r| | |] eqn:Hm; cbn [bind] in H; try discriminate.
  apply ok_inj in H. subst out.
  destruct (mapM_ok_inv _ _ _ Hm) as (_ & Hr).
  intros y Hy. rewrite in_concat in Hy. destruct Hy as (ys & Hys & Hy).
  destruct (Hr ys Hys) as (x & Hx & Ex).
  pose proof (count_loop_ok_le t Ht l 0 n Hc x Hx) as Hle.
  pose proof (get_resolution_range x) as Hrx.
  unfold expand_step in Ex. cbv zeta in Ex.
  destruct (num_children_in_range (get_resolution x) t Hrx Ht) as (En & _). rewrite En, bind_ok in Ex.
  destruct (Z.eqb_spec (nchild (get_resolution x) t) 1) as [E1|N1].
  - apply ok_inj in Ex. subst ys. destruct Hy as [<-|[]].
    apply (nchild_shortcut (get_resolution x) t Hrx Ht Hle) in E1. split; [exact E1|left; exact Hx].
  - destruct (children_valid_any x t ys (Hl x Hx) Ex) as (Hv & _).
    destruct (Hv y Hy) as (Hcy & Hry). split; [exact Hry|right; exact Hcy].
Qed.

Corollary uncompact_valid_canonical : forall l t out,
  (forall x, In x l -> canonical_id x) -> uncompact l t = Ok out ->
  forall y, In y out -> canonical_id y /\ get_resolution y = t.
Proof.
  intros l t out Hl H y Hy.
  assert (Hu : forall x, In x l -> 0 <= x < two64).
  { intros x Hx. destruct (Hl x Hx) as (c & Hc & <-). apply layout_u64. assumption. }
  destruct (uncompact_valid_any l t out Hu H) as (_ & Hv).
  destruct (Hv y Hy) as (Hr & [Hin|Hc]); split; auto.
Qed.

(* ================================================================== *)
(* 9: get_num_cells                                                    *)
(* ================================================================== *)

Lemma num_cells_tab_nonneg : forallb (fun x => 0 <=? x) num_cells_tab = true.
Proof. vm_compute. reflexivity. Qed.

Theorem num_cells_total : forall r, 0 <= get_num_cells r.
Proof.
  intros r. unfold get_num_cells.
  destruct ((r <? -1) || (r >? 30)); [lia|].
  pose proof num_cells_tab_nonneg as H. rewrite forallb_forall in H.
  destruct (nth_in_or_default (Z.to_nat (r + 1)) num_cells_tab 0) as [Hin| ->]; [|lia].
  specialize (H _ Hin). lia.
Qed.

(* ================================================================== *)
(* non-vacuity: aliases and rejected words exist                       *)
(* ================================================================== *)

(* bit 0 of a word is never read: layout c + 1 is not a canonical ID but is handled as c;
   a word whose 6-bit prefix names face 12 is rejected *)
Example alias_example :
  let c := mkCell 7 3 123456789 17 in
  let i := layout c + 1 in
  canon c /\ 0 <= i < two64 /\ ~ canonical_id i /\ deserialize i = Ok c /\
  cell_to_parent i (Some 16) = cell_to_parent (layout c) (Some 16).
Proof.
  cbv zeta.
  assert (Hc : canon (mkCell 7 3 123456789 17))
    by (unfold canon; projs; repeat split; intros; lia).
  assert (Hd : deserialize (layout (mkCell 7 3 123456789 17) + 1) = Ok (mkCell 7 3 123456789 17))
    by (vm_compute; reflexivity).
  split; [exact Hc|]. split; [vm_compute; split; [discriminate|reflexivity]|].
  split; [|split; [exact Hd|apply alias_parent; assumption]].
  intros (c' & Hc' & E).
  pose proof (deserialize_layout c' Hc') as Hd'. rewrite E, Hd in Hd'. apply ok_inj in Hd'. subst c'.
  revert E. vm_compute. discriminate.
Qed.

Example rejected_example :
  let i := 60 * 2 ^ 58 + 2 ^ 55 in
  0 <= i < two64 /\ deserialize i = Err /\ cell_to_parent i None = Err /\ cell_to_children i None = Err.
Proof. cbv zeta. vm_compute. repeat split; try reflexivity; discriminate. Qed.

(* serialize does panic outside the library's own calling range *)
Example serialize_panic_example : serialize (mkCell 12 0 0 0) = Panic.
Proof. vm_compute. reflexivity. Qed.
