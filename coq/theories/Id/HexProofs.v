(* Proofs about the hex codec model (theories/Id/Hex.v):
   `format!("{:x}", v)` for u64 and `u64::from_str_radix(s, 16)`.

   Main results: round trip, output shape, injectivity, soundness / completeness of the
   parser, rejection of empty / non-hex / too-wide inputs, absence of Panic / Diverge. *)
From Coq Require Import ZArith List Bool Lia ZifyBool.
From A5 Require Import Base.Outcome Base.Word Id.Hex.
Import ListNotations.
Open Scope Z_scope.

(* lia extended with div/mod by constants (local tactic, no global hook is changed) *)
Ltac dlia := Z.div_mod_to_equations; lia.

(* ------------------------------------------------------------------------- *)
(* Specification vocabulary                                                   *)
(* ------------------------------------------------------------------------- *)

(* '0'..'9' or 'a'..'f' *)
Definition is_lower_hex (b : Z) : Prop := 48 <= b <= 57 \/ 97 <= b <= 102.

(* any hex digit accepted by the parser (both cases) *)
Definition is_hex (b : Z) : Prop := hex_digit_val b <> None.

Definition digit_or0 (b : Z) : Z :=
  match hex_digit_val b with Some d => d | None => 0 end.

(* big-endian value of a digit string, starting from accumulator [acc] *)
Definition hex_value_from (acc : Z) (l : list Z) : Z :=
  fold_left (fun a b => a * 16 + digit_or0 b) l acc.

Definition hex_value (l : list Z) : Z := hex_value_from 0 l.

(* drop one leading '+' (43) if present *)
Definition strip_plus (s : list Z) : list Z :=
  match s with
  | [] => []
  | b :: t => if b =? 43 then t else s
  end.

(* ------------------------------------------------------------------------- *)
(* Basic facts                                                                *)
(* ------------------------------------------------------------------------- *)

Lemma two64_pos : 0 < two64.
Proof. reflexivity. Qed.

Lemma pow16_16 : 16 ^ Z.of_nat 16 = two64.
Proof. reflexivity. Qed.

Lemma hex_digit_val_range b d : hex_digit_val b = Some d -> 0 <= d < 16.
Proof.
  unfold hex_digit_val.
  destruct ((48 <=? b) && (b <=? 57)) eqn:E1;
    [intros H; inversion H; subst; lia|].
  destruct ((97 <=? b) && (b <=? 102)) eqn:E2;
    [intros H; inversion H; subst; lia|].
  destruct ((65 <=? b) && (b <=? 70)) eqn:E3;
    [intros H; inversion H; subst; lia|].
  discriminate.
Qed.

Lemma digit_or0_range b : 0 <= digit_or0 b < 16.
Proof.
  unfold digit_or0. destruct (hex_digit_val b) as [d|] eqn:E.
  - eapply hex_digit_val_range; eassumption.
  - lia.
Qed.

Lemma digit_or0_some b d : hex_digit_val b = Some d -> digit_or0 b = d.
Proof. unfold digit_or0. intros ->. reflexivity. Qed.

Lemma hex_digit_val_hex_char d : 0 <= d < 16 -> hex_digit_val (hex_char d) = Some d.
Proof.
  intros Hd. unfold hex_char, hex_digit_val.
  destruct (Z.ltb_spec d 10) as [Hlt|Hge].
  - replace ((48 <=? 48 + d) && (48 + d <=? 57)) with true by lia.
    f_equal. lia.
  - replace ((48 <=? 87 + d) && (87 + d <=? 57)) with false by lia.
    replace ((97 <=? 87 + d) && (87 + d <=? 102)) with true by lia.
    f_equal. lia.
Qed.

Lemma digit_or0_hex_char d : 0 <= d < 16 -> digit_or0 (hex_char d) = d.
Proof. intros Hd. apply digit_or0_some, hex_digit_val_hex_char, Hd. Qed.

Lemma hex_char_lower d : 0 <= d < 16 -> is_lower_hex (hex_char d).
Proof.
  intros Hd. unfold is_lower_hex, hex_char.
  destruct (Z.ltb_spec d 10); lia.
Qed.

Lemma is_lower_hex_is_hex b : is_lower_hex b -> is_hex b.
Proof.
  intros [H|H]; unfold is_hex, hex_digit_val.
  - replace ((48 <=? b) && (b <=? 57)) with true by lia. discriminate.
  - replace ((48 <=? b) && (b <=? 57)) with false by lia.
    replace ((97 <=? b) && (b <=? 102)) with true by lia. discriminate.
Qed.

Lemma hex_value_from_nil a : hex_value_from a [] = a.
Proof. reflexivity. Qed.

Lemma hex_value_from_cons a b l :
  hex_value_from a (b :: l) = hex_value_from (a * 16 + digit_or0 b) l.
Proof. reflexivity. Qed.

Lemma hex_value_from_app a l1 l2 :
  hex_value_from a (l1 ++ l2) = hex_value_from (hex_value_from a l1) l2.
Proof. unfold hex_value_from. apply fold_left_app. Qed.

Lemma hex_value_from_ge l : forall a, 0 <= a -> a <= hex_value_from a l.
Proof.
  induction l as [|b bs IH]; intros a Ha.
  - rewrite hex_value_from_nil. lia.
  - rewrite hex_value_from_cons.
    pose proof (digit_or0_range b) as Hd.
    specialize (IH (a * 16 + digit_or0 b)). lia.
Qed.

(* ------------------------------------------------------------------------- *)
(* The digit loop of the parser                                               *)
(* ------------------------------------------------------------------------- *)

Lemma parse_digits_nonhex l : forall acc b,
  In b l -> hex_digit_val b = None -> parse_digits acc l = Err.
Proof.
  induction l as [|c cs IH]; intros acc b Hin Hb.
  - destruct Hin.
  - cbn [parse_digits].
    destruct (hex_digit_val c) as [d|] eqn:Ec; [|reflexivity].
    destruct (acc * 16 + d <? two64); [|reflexivity].
    destruct Hin as [Heq|Hin].
    + subst c. congruence.
    + eapply IH; eassumption.
Qed.

Lemma parse_digits_total l : forall acc,
  parse_digits acc l <> Panic /\ parse_digits acc l <> Diverge.
Proof.
  induction l as [|c cs IH]; intros acc; cbn [parse_digits].
  - split; discriminate.
  - destruct (hex_digit_val c) as [d|]; [|split; discriminate].
    destruct (acc * 16 + d <? two64); [apply IH|split; discriminate].
Qed.

(* complete characterisation on digit strings *)
Lemma parse_digits_spec l : forall acc,
  Forall is_hex l -> 0 <= acc < two64 ->
  parse_digits acc l =
    if hex_value_from acc l <? two64 then Ok (hex_value_from acc l) else Err.
Proof.
  induction l as [|c cs IH]; intros acc Hall Hacc.
  - cbn [parse_digits]. rewrite hex_value_from_nil.
    replace (acc <? two64) with true by lia. reflexivity.
  - inversion Hall as [|? ? Hc Hcs]; subst.
    cbn [parse_digits]. rewrite hex_value_from_cons.
    unfold is_hex in Hc.
    destruct (hex_digit_val c) as [d|] eqn:Ec; [|congruence].
    rewrite (digit_or0_some _ _ Ec).
    pose proof (hex_digit_val_range _ _ Ec) as Hd.
    destruct (Z.ltb_spec (acc * 16 + d) two64) as [Hlt|Hge].
    + apply IH; [assumption|lia].
    + pose proof (hex_value_from_ge cs (acc * 16 + d)) as Hmono.
      replace (hex_value_from (acc * 16 + d) cs <? two64) with false by lia.
      reflexivity.
Qed.

Lemma parse_digits_ok_inv l : forall acc v,
  0 <= acc < two64 -> parse_digits acc l = Ok v ->
  Forall is_hex l /\ v = hex_value_from acc l /\ 0 <= v < two64.
Proof.
  induction l as [|c cs IH]; intros acc v Hacc Hp.
  - cbn [parse_digits] in Hp. inversion Hp; subst.
    rewrite hex_value_from_nil. auto.
  - cbn [parse_digits] in Hp.
    destruct (hex_digit_val c) as [d|] eqn:Ec; [|discriminate].
    pose proof (hex_digit_val_range _ _ Ec) as Hd.
    destruct (Z.ltb_spec (acc * 16 + d) two64) as [Hlt|Hge]; [|discriminate].
    destruct (IH (acc * 16 + d) v) as (Hall & Hv & Hr); [lia|assumption|].
    split; [|split].
    + constructor; [unfold is_hex; congruence|assumption].
    + rewrite hex_value_from_cons, (digit_or0_some _ _ Ec). assumption.
    + assumption.
Qed.

(* ------------------------------------------------------------------------- *)
(* Sign handling of the parser reduces to [strip_plus]                        *)
(* ------------------------------------------------------------------------- *)

Lemma hex_to_u64_strip s :
  strip_plus s <> [] -> hex_to_u64 s = parse_digits 0 (strip_plus s).
Proof.
  destruct s as [|b [|c r]]; intros Hne.
  - exfalso. apply Hne. reflexivity.
  - unfold hex_to_u64, strip_plus in *.
    destruct (Z.eqb_spec b 43) as [E43|N43].
    + exfalso. apply Hne. reflexivity.
    + destruct (Z.eqb_spec b 45) as [E45|N45].
      * subst b. reflexivity.
      * reflexivity.
  - unfold hex_to_u64, strip_plus.
    destruct (b =? 43); reflexivity.
Qed.

Lemma hex_to_u64_strip_nil s : strip_plus s = [] -> hex_to_u64 s = Err.
Proof.
  destruct s as [|b [|c r]]; intros He.
  - reflexivity.
  - unfold hex_to_u64, strip_plus in *.
    destruct (Z.eqb_spec b 43) as [E43|N43].
    + reflexivity.
    + discriminate.
  - unfold strip_plus in He.
    destruct (b =? 43); discriminate.
Qed.

Lemma strip_plus_lower l : Forall is_lower_hex l -> strip_plus l = l.
Proof.
  destruct l as [|b t]; intros Hall; [reflexivity|].
  inversion Hall as [|? ? Hb Ht]; subst.
  unfold strip_plus. unfold is_lower_hex in Hb.
  replace (b =? 43) with false by lia. reflexivity.
Qed.

(* ------------------------------------------------------------------------- *)
(* The digit loop of the formatter                                            *)
(* ------------------------------------------------------------------------- *)

Lemma to_hex_digits_app f : forall v acc,
  to_hex_digits f v acc = to_hex_digits f v [] ++ acc.
Proof.
  induction f as [|f IH]; intros v acc; cbn [to_hex_digits].
  - reflexivity.
  - destruct (v / 16 =? 0).
    + reflexivity.
    + rewrite (IH _ (_ :: acc)), (IH _ [_]), <- app_assoc. reflexivity.
Qed.

Lemma to_hex_digits_S f v :
  to_hex_digits (S f) v [] =
    if v / 16 =? 0 then [hex_char (v mod 16)]
    else to_hex_digits f (v / 16) [] ++ [hex_char (v mod 16)].
Proof.
  cbn [to_hex_digits]. destruct (v / 16 =? 0); [reflexivity|].
  apply to_hex_digits_app.
Qed.

Lemma mod16_range v : 0 <= v mod 16 < 16.
Proof. apply Z.mod_pos_bound. lia. Qed.

Lemma pow16_S f : 16 ^ Z.of_nat (S f) = 16 * 16 ^ Z.of_nat f.
Proof. rewrite Nat2Z.inj_succ, Z.pow_succ_r by lia. reflexivity. Qed.

Lemma to_hex_digits_value f : forall v,
  0 <= v < 16 ^ Z.of_nat f -> hex_value (to_hex_digits f v []) = v.
Proof.
  induction f as [|f IH]; intros v Hv.
  - change (16 ^ Z.of_nat 0) with 1 in Hv. cbn [to_hex_digits].
    unfold hex_value. rewrite hex_value_from_nil. lia.
  - rewrite pow16_S in Hv. rewrite to_hex_digits_S.
    pose proof (mod16_range v) as Hm.
    destruct (Z.eqb_spec (v / 16) 0) as [Hz|Hnz].
    + unfold hex_value.
      rewrite hex_value_from_cons, hex_value_from_nil, digit_or0_hex_char by assumption.
      dlia.
    + unfold hex_value. rewrite hex_value_from_app.
      fold (hex_value (to_hex_digits f (v / 16) [])).
      rewrite IH.
      * rewrite hex_value_from_cons, hex_value_from_nil, digit_or0_hex_char by assumption.
        dlia.
      * remember (16 ^ Z.of_nat f) as P. dlia.
Qed.

Lemma to_hex_digits_length f : forall v,
  (length (to_hex_digits f v []) <= f)%nat /\
  (f <> O -> 1 <= length (to_hex_digits f v []))%nat.
Proof.
  induction f as [|f IH]; intros v.
  - cbn [to_hex_digits length]. split; [lia|congruence].
  - rewrite to_hex_digits_S. destruct (v / 16 =? 0).
    + cbn [length]. split; intros; lia.
    + rewrite app_length. cbn [length].
      destruct (IH (v / 16)) as [Hle _]. split; intros; lia.
Qed.

Lemma to_hex_digits_lower f : forall v, Forall is_lower_hex (to_hex_digits f v []).
Proof.
  induction f as [|f IH]; intros v.
  - constructor.
  - rewrite to_hex_digits_S.
    pose proof (hex_char_lower _ (mod16_range v)) as Hc.
    destruct (v / 16 =? 0).
    + constructor; [assumption|constructor].
    + apply Forall_app. split; [apply IH|].
      constructor; [assumption|constructor].
Qed.

Lemma to_hex_digits_head f : forall v,
  0 < v < 16 ^ Z.of_nat f ->
  exists c t, to_hex_digits f v [] = c :: t /\ c <> 48.
Proof.
  induction f as [|f IH]; intros v Hv.
  - change (16 ^ Z.of_nat 0) with 1 in Hv. lia.
  - rewrite pow16_S in Hv. rewrite to_hex_digits_S.
    destruct (Z.eqb_spec (v / 16) 0) as [Hz|Hnz].
    + exists (hex_char (v mod 16)), []. split; [reflexivity|].
      unfold hex_char. destruct (Z.ltb_spec (v mod 16) 10); dlia.
    + destruct (IH (v / 16)) as (c & t & E & Hc).
      { remember (16 ^ Z.of_nat f) as P. dlia. }
      rewrite E. exists c, (t ++ [hex_char (v mod 16)]).
      split; [reflexivity|assumption].
Qed.

Lemma u64_to_hex_value v : 0 <= v < two64 -> hex_value (u64_to_hex v) = v.
Proof.
  intros Hv. unfold u64_to_hex. apply to_hex_digits_value.
  rewrite pow16_16. assumption.
Qed.

(* ------------------------------------------------------------------------- *)
(* Main theorems                                                              *)
(* ------------------------------------------------------------------------- *)

(* 2. 1..16 lower-case hex digits, no leading zero unless the value is 0 *)
Theorem hex_shape : forall v, 0 <= v < two64 ->
  (1 <= length (u64_to_hex v) <= 16)%nat /\
  Forall is_lower_hex (u64_to_hex v) /\
  (v = 0 -> u64_to_hex v = [48]) /\
  (v <> 0 -> hd 48 (u64_to_hex v) <> 48).
Proof.
  intros v Hv. split; [|split; [|split]].
  - unfold u64_to_hex.
    destruct (to_hex_digits_length 16 v) as [Hle Hge].
    split; [apply Hge; discriminate|exact Hle].
  - apply to_hex_digits_lower.
  - intros ->. reflexivity.
  - intros Hnz. unfold u64_to_hex.
    destruct (to_hex_digits_head 16 v) as (c & t & E & Hc).
    { rewrite pow16_16. lia. }
    rewrite E. exact Hc.
Qed.

(* 9'. The parser accepts every non-empty digit string (either case, optional single
   leading '+') whose value fits in 64 bits.  This is the statement of [hex_accepts]
   without its last side condition, which is implied by [strip_plus s <> []]. *)
Theorem hex_accepts_strong : forall s,
  strip_plus s <> [] -> Forall is_hex (strip_plus s) ->
  hex_value (strip_plus s) < two64 ->
  hex_to_u64 s = Ok (hex_value (strip_plus s)).
Proof.
  intros s Hne Hall Hlt.
  rewrite hex_to_u64_strip by assumption.
  rewrite parse_digits_spec; [|assumption|pose proof two64_pos; lia].
  fold (hex_value (strip_plus s)).
  replace (hex_value (strip_plus s) <? two64) with true by lia.
  reflexivity.
Qed.

(* 9. As requested (the disjunction is redundant, see [hex_accepts_strong]). *)
Theorem hex_accepts : forall s,
  strip_plus s <> [] -> Forall is_hex (strip_plus s) ->
  hex_value (strip_plus s) < two64 ->
  (s = strip_plus s \/ exists t, s = 43 :: t /\ t <> []) ->
  hex_to_u64 s = Ok (hex_value (strip_plus s)).
Proof.
  intros s Hne Hall Hlt _. apply hex_accepts_strong; assumption.
Qed.

(* 1. *)
Theorem hex_roundtrip : forall v, 0 <= v < two64 -> hex_to_u64 (u64_to_hex v) = Ok v.
Proof.
  intros v Hv.
  destruct (hex_shape v Hv) as ([Hlen _] & Hlow & _ & _).
  pose proof (strip_plus_lower _ Hlow) as Hs.
  pose proof (u64_to_hex_value v Hv) as Hval.
  rewrite <- Hval at 2. rewrite <- Hs at 2.
  apply hex_accepts_strong; rewrite Hs.
  - intros E. rewrite E in Hlen. cbn [length] in Hlen. lia.
  - eapply Forall_impl; [|exact Hlow]. intros a Ha. apply is_lower_hex_is_hex, Ha.
  - lia.
Qed.

(* 3. *)
Theorem hex_injective : forall a b,
  0 <= a < two64 -> 0 <= b < two64 -> u64_to_hex a = u64_to_hex b -> a = b.
Proof.
  intros a b Ha Hb E.
  rewrite <- (u64_to_hex_value a Ha), <- (u64_to_hex_value b Hb), E. reflexivity.
Qed.

(* 5. *)
Theorem hex_rejects_empty : hex_to_u64 [] = Err.
Proof. reflexivity. Qed.

(* 4. Holds as stated with the plain [strip_plus]: for "+" the model returns Err, for
   "++..." the second '+' is a non-digit and the model returns Err, so no corner
   case needs a special treatment. *)
Theorem hex_parse_sound : forall s v, hex_to_u64 s = Ok v ->
  0 <= v < two64 /\ s <> [] /\ strip_plus s <> [] /\
  Forall is_hex (strip_plus s) /\ v = hex_value (strip_plus s).
Proof.
  intros s v H.
  assert (Hne : strip_plus s <> []).
  { intros E. rewrite (hex_to_u64_strip_nil s E) in H. discriminate. }
  rewrite hex_to_u64_strip in H by assumption.
  destruct (parse_digits_ok_inv (strip_plus s) 0 v) as (Hall & Hv & Hr);
    [pose proof two64_pos; lia|exact H|].
  split; [exact Hr|]. split; [|split; [exact Hne|split; [exact Hall|exact Hv]]].
  intros ->. apply Hne. reflexivity.
Qed.

(* 6. Holds as stated: "+" has [strip_plus "+" = []] so the premise is false (it is
   rejected by [hex_rejects_no_digits] below); "-" has [strip_plus "-" = "-"] whose
   only byte is not a hex digit, and the model returns Err for it. *)
Theorem hex_rejects_nonhex : forall s,
  (exists b, In b (strip_plus s) /\ hex_digit_val b = None) -> hex_to_u64 s = Err.
Proof.
  intros s (b & Hin & Hb).
  rewrite hex_to_u64_strip.
  - eapply parse_digits_nonhex; eassumption.
  - intros E. rewrite E in Hin. destruct Hin.
Qed.

(* Complement of 5/6: nothing left after the optional sign ("" and "+") is an error. *)
Theorem hex_rejects_no_digits : forall s, strip_plus s = [] -> hex_to_u64 s = Err.
Proof. exact hex_to_u64_strip_nil. Qed.

(* 7. Too wide is an error, never a truncated value. *)
Theorem hex_rejects_wide : forall s,
  Forall is_hex (strip_plus s) -> strip_plus s <> [] ->
  two64 <= hex_value (strip_plus s) -> hex_to_u64 s = Err.
Proof.
  intros s Hall Hne Hge.
  rewrite hex_to_u64_strip by assumption.
  rewrite parse_digits_spec; [|assumption|pose proof two64_pos; lia].
  fold (hex_value (strip_plus s)).
  replace (hex_value (strip_plus s) <? two64) with false by lia.
  reflexivity.
Qed.

(* 8. *)
Theorem hex_total : forall s, hex_to_u64 s <> Panic /\ hex_to_u64 s <> Diverge.
Proof.
  intros s. destruct (strip_plus s) as [|c r] eqn:E.
  - rewrite (hex_to_u64_strip_nil s E). split; discriminate.
  - rewrite hex_to_u64_strip by (rewrite E; discriminate).
    apply parse_digits_total.
Qed.

(* The parser is decided completely by the three cases above: *)
Corollary hex_to_u64_cases : forall s,
  hex_to_u64 s =
    if forallb (fun b => match hex_digit_val b with Some _ => true | None => false end)
               (strip_plus s)
       && negb (length (strip_plus s) =? 0)%nat
       && (hex_value (strip_plus s) <? two64)
    then Ok (hex_value (strip_plus s)) else Err.
Proof.
  intros s.
  destruct (forallb _ (strip_plus s)) eqn:Ef; cbn [andb].
  - assert (Hall : Forall is_hex (strip_plus s)).
    { apply Forall_forall. intros b Hb.
      rewrite forallb_forall in Ef. specialize (Ef b Hb).
      unfold is_hex. destruct (hex_digit_val b); [discriminate|discriminate]. }
    destruct (strip_plus s) as [|c r] eqn:E.
    + cbn [length Nat.eqb negb andb]. apply hex_to_u64_strip_nil, E.
    + cbn [length Nat.eqb negb andb]. rewrite <- E in *.
      assert (Hne : strip_plus s <> []) by (rewrite E; discriminate).
      destruct (Z.ltb_spec (hex_value (strip_plus s)) two64) as [Hlt|Hge].
      * apply hex_accepts_strong; assumption.
      * apply hex_rejects_wide; assumption.
  - apply hex_rejects_nonhex.
    assert (Hex : existsb (fun b => negb match hex_digit_val b with
                                         | Some _ => true | None => false end)
                          (strip_plus s) = true).
    { clear -Ef. induction (strip_plus s) as [|c r IH]; [discriminate|].
      cbn [forallb existsb] in *. destruct (hex_digit_val c); cbn [negb andb orb] in *.
      - apply IH, Ef.
      - reflexivity. }
    apply existsb_exists in Hex. destruct Hex as (b & Hin & Hb).
    exists b. split; [assumption|]. destruct (hex_digit_val b); [discriminate|reflexivity].
Qed.
