(* Proofs about the hierarchy model (Tree.v) against the hierarchy specification (TreeSpec.v):
   A. the code model computes the specified ancestors / descendants,
   B. C07: the cells form one consistent tree,
   C. C20: ID order versus hierarchy. *)
From Coq Require Import ZArith List Bool Lia ZifyBool.
From A5 Require Import Base.Outcome Base.Word Id.Codec Id.CodecSpec Id.CodecProofs Id.Tree Id.TreeSpec.
From A5gen Require Import TablesCur.
Import ListNotations.
Open Scope Z_scope.

Ltac Zify.zify_post_hook ::= Z.div_mod_to_equations.

(* ================================================================== *)
(* generic helpers                                                     *)
(* ================================================================== *)

Ltac projs := cbn [resolution origin_id segment s].
Ltac projs_in H := cbn [resolution origin_id segment s] in H.

Lemma cell_eq a b c d a' b' c' d' :
  mkCell a b c d = mkCell a' b' c' d' <-> a = a' /\ b = b' /\ c = c' /\ d = d'.
Proof.
  split.
  - intros H; inversion H; auto.
  - intros (-> & -> & -> & ->); reflexivity.
Qed.

Lemma in_i32_true x : - 2 ^ 31 <= x < 2 ^ 31 -> in_i32 x = true.
Proof. unfold in_i32. lia. Qed.

Lemma i32_add_ok a b : - 2 ^ 31 <= a + b < 2 ^ 31 -> i32_add a b = Ok (a + b).
Proof. intros; unfold i32_add; rewrite in_i32_true by assumption; reflexivity. Qed.
Lemma i32_sub_ok a b : - 2 ^ 31 <= a - b < 2 ^ 31 -> i32_sub a b = Ok (a - b).
Proof. intros; unfold i32_sub; rewrite in_i32_true by assumption; reflexivity. Qed.
Lemma i32_mul_ok a b : - 2 ^ 31 <= a * b < 2 ^ 31 -> i32_mul a b = Ok (a * b).
Proof. intros; unfold i32_mul; rewrite in_i32_true by assumption; reflexivity. Qed.

Lemma pow2_4 d : 0 <= d -> 2 ^ (2 * d) = 4 ^ d.
Proof. intros; rewrite Z.pow_mul_r by lia; reflexivity. Qed.

Lemma pow4_pos d : 0 <= d -> 0 < 4 ^ d.
Proof. intros; apply Z.pow_pos_nonneg; lia. Qed.

Lemma pow4_add a b : 0 <= a -> 0 <= b -> 4 ^ (a + b) = 4 ^ a * 4 ^ b.
Proof. intros; apply Z.pow_add_r; assumption. Qed.

Lemma pow4_le a b : 0 <= a <= b -> 4 ^ a <= 4 ^ b.
Proof. intros; apply Z.pow_le_mono_r; lia. Qed.

Lemma pow4_28 : 4 ^ 28 = 2 ^ 56.
Proof. reflexivity. Qed.

(* x < A * P  ->  x / P < A *)
Lemma div_bound x A P : 0 < P -> 0 <= x < A * P -> 0 <= x / P < A.
Proof.
  intros HP Hx. split.
  - apply Z.div_pos; lia.
  - apply Z.div_lt_upper_bound; lia.
Qed.

(* ---------- lists *)
Lemma map_flat_map {A B C} (f : B -> C) (g : A -> list B) l :
  map f (flat_map g l) = flat_map (fun x => map f (g x)) l.
Proof. induction l as [|x xs IH]; simpl; [reflexivity|]. rewrite map_app, IH. reflexivity. Qed.

Lemma flat_map_ext_in {A B} (f g : A -> list B) l :
  (forall x, In x l -> f x = g x) -> flat_map f l = flat_map g l.
Proof.
  induction l as [|x xs IH]; simpl; intros H; [reflexivity|].
  rewrite H by auto. rewrite IH by auto. reflexivity.
Qed.

Lemma length_flat_map_const {A B} (f : A -> list B) l n :
  (forall x, In x l -> length (f x) = n) -> length (flat_map f l) = (length l * n)%nat.
Proof.
  induction l as [|x xs IH]; simpl; intros H; [reflexivity|].
  rewrite app_length, H, IH by auto. reflexivity.
Qed.

Lemma NoDup_app_intro {A} (l1 l2 : list A) :
  NoDup l1 -> NoDup l2 -> (forall x, In x l1 -> In x l2 -> False) -> NoDup (l1 ++ l2).
Proof.
  induction l1 as [|x xs IH]; simpl; intros H1 H2 Hd; [assumption|].
  inversion H1; subst. constructor.
  - rewrite in_app_iff. intros [Hx|Hx]; [contradiction|]. apply (Hd x); auto.
  - apply IH; auto. intros y Hy1 Hy2. apply (Hd y); auto.
Qed.

Lemma NoDup_flat_map {A B} (f : A -> list B) l :
  NoDup l -> (forall x, In x l -> NoDup (f x)) ->
  (forall x y z, In x l -> In y l -> In z (f x) -> In z (f y) -> x = y) ->
  NoDup (flat_map f l).
Proof.
  induction l as [|x xs IH]; simpl; intros Hl Hf Hd; [constructor|].
  inversion Hl; subst. apply NoDup_app_intro.
  - apply Hf; auto.
  - apply IH; auto. intros a b z Ha Hb; apply Hd; auto.
  - intros z Hz1 Hz2. apply in_flat_map in Hz2. destruct Hz2 as (y & Hy & Hzy).
    assert (x = y) by (apply (Hd x y z); auto). subst. contradiction.
Qed.

Lemma NoDup_map_inj_in {A B} (f : A -> B) l :
  (forall x y, In x l -> In y l -> f x = f y -> x = y) -> NoDup l -> NoDup (map f l).
Proof.
  induction l as [|x xs IH]; simpl; intros Hinj Hl; [constructor|].
  inversion Hl; subst. constructor.
  - rewrite in_map_iff. intros (y & Hy & Hin). assert (y = x) by (apply Hinj; auto). subst. contradiction.
  - apply IH; auto.
Qed.

(* ================================================================== *)
(* the cell lists produced by cell_to_children / desc_cells             *)
(* ================================================================== *)

Definition cells_of (O S : list Z) (n sh k : Z) : list cell :=
  flat_map (fun o => flat_map (fun sg => map (fun i => mkCell o sg (sh + i) k)
                                             (seqZ 0 (Z.to_nat n))) S) O.

Definition tuples_of (O S : list Z) (n : Z) : list (Z * Z * Z) :=
  flat_map (fun o => flat_map (fun sg => map (fun i => (o, sg, i))
                                             (seqZ 0 (Z.to_nat n))) S) O.

Lemma cells_of_tuples O S n sh k :
  cells_of O S n sh k = map (fun '(o, sg, i) => mkCell o sg (sh + i) k) (tuples_of O S n).
Proof.
  unfold cells_of, tuples_of. rewrite map_flat_map. apply flat_map_ext_in; intros o _.
  rewrite map_flat_map. apply flat_map_ext_in; intros sg _.
  rewrite map_map. reflexivity.
Qed.

Lemma in_tuples O S n o sg i :
  In (o, sg, i) (tuples_of O S n) <-> In o O /\ In sg S /\ 0 <= i < Z.max 0 n.
Proof.
  unfold tuples_of. rewrite in_flat_map. split.
  - intros (o' & Ho & H). rewrite in_flat_map in H. destruct H as (sg' & Hsg & H).
    rewrite in_map_iff in H. destruct H as (i' & E & Hi). inversion E; subst.
    rewrite in_seqZ in Hi. repeat split; try assumption; lia.
  - intros (Ho & Hsg & Hi). exists o; split; [assumption|]. rewrite in_flat_map.
    exists sg; split; [assumption|]. rewrite in_map_iff. exists i; split; [reflexivity|].
    rewrite in_seqZ. lia.
Qed.

Lemma in_cells O S n sh k d :
  In d (cells_of O S n sh k) <->
  In (origin_id d) O /\ In (segment d) S /\ sh <= s d < sh + Z.max 0 n /\ resolution d = k.
Proof.
  rewrite cells_of_tuples, in_map_iff. split.
  - intros (((o & sg) & i) & <- & Hin). rewrite in_tuples in Hin. projs.
    destruct Hin as (? & ? & ?). repeat split; try assumption; lia.
  - destruct d as [o sg sv r]; projs. intros (Ho & Hsg & Hs & <-).
    exists (o, sg, sv - sh). split; [f_equal; lia|]. rewrite in_tuples. repeat split; try assumption; lia.
Qed.

(* desc_cells in terms of cells_of *)
Definition d_origins (c : cell) : list Z := if resolution c =? -1 then seqZ 0 12 else [origin_id c].
Definition d_segments (c : cell) (k : Z) : list Z :=
  if ((resolution c =? -1) && (k >? 0)) || (resolution c =? 0) then [0; 1; 2; 3; 4] else [segment c].
Definition d_diff (c : cell) (k : Z) : Z := k - Z.max (resolution c) 1.
Definition d_count (c : cell) (k : Z) : Z := if d_diff c k <=? 0 then 1 else 4 ^ d_diff c k.
Definition d_shifted (c : cell) (k : Z) : Z := if d_diff c k >? 0 then s c * 4 ^ d_diff c k else s c.

Lemma desc_cells_eq c k :
  desc_cells c k =
  if k =? resolution c then [c]
  else cells_of (d_origins c) (d_segments c k) (d_count c k) (d_shifted c k) k.
Proof. reflexivity. Qed.
(* ================================================================== *)
(* ancestors                                                           *)
(* ================================================================== *)

Lemma canon_world : canon world.
Proof. unfold canon, world; projs. lia. Qed.

Lemma canon_is_world c : canon c -> resolution c = -1 -> c = world.
Proof.
  destruct c as [o sg sv r]. unfold canon, world; projs. intros (Hr & Hw & _) ->.
  destruct Hw as (-> & -> & ->); reflexivity.
Qed.

Lemma canon_s_bound c : canon c -> 0 <= s c < 4 ^ 28.
Proof.
  destruct c as [o sg sv r]. unfold canon; projs. intros (Hr & Hw & Ho & H0 & H1 & H1' & H2).
  change (4 ^ 28) with 72057594037927936.
  destruct (Z.ltb_spec r 2).
  - assert (r = -1 \/ r = 0 \/ r = 1) as [->|[->| ->]] by lia; lia.
  - specialize (H2 ltac:(lia)). pose proof (pow4_le (r - 1) 28 ltac:(lia)) as Hle.
    change (4 ^ 28) with 72057594037927936 in Hle. lia.
Qed.

Theorem anc_self c : canon c -> anc c (resolution c) = c.
Proof.
  destruct c as [o sg sv r]. unfold canon, anc, world; projs. intros (Hr & Hw & Ho & H0 & H1 & H1' & H2).
  destruct (Z.eqb_spec r (-1)) as [->|]; [destruct Hw as (-> & -> & ->); reflexivity|].
  destruct (Z.eqb_spec r 0) as [->|]; [destruct H0 as (-> & ->); reflexivity|].
  destruct (Z.eqb_spec r 1) as [->|]; [rewrite H1' by reflexivity; reflexivity|].
  rewrite Z.sub_diag. change (4 ^ 0) with 1. rewrite Z.div_1_r. reflexivity.
Qed.

Theorem anc_canon c k : canon c -> -1 <= k <= resolution c -> canon (anc c k) /\ resolution (anc c k) = k.
Proof.
  destruct c as [o sg sv r]. unfold canon, anc, world; projs. intros (Hr & Hw & Ho & H0 & H1 & H1' & H2) Hk.
  destruct (Z.eqb_spec k (-1)) as [->|]; [projs; lia|].
  destruct (Z.eqb_spec k 0) as [->|]; [projs; lia|].
  destruct (Z.eqb_spec k 1) as [->|]; [projs; lia|].
  projs. split; [|reflexivity].
  assert (Hs : 0 <= sv / 4 ^ (r - k) < 4 ^ (k - 1)).
  { apply div_bound; [apply pow4_pos; lia|].
    rewrite <- pow4_add by lia. replace (k - 1 + (r - k)) with (r - 1) by lia. apply H2; lia. }
  lia.
Qed.

Lemma anc_resolution c k : resolution (anc c k) = k.
Proof.
  unfold anc, world.
  destruct (Z.eqb_spec k (-1)) as [->|]; [reflexivity|].
  destruct (Z.eqb_spec k 0) as [->|]; [reflexivity|].
  destruct (Z.eqb_spec k 1) as [->|]; reflexivity.
Qed.

Theorem anc_compose c a b : canon c -> -1 <= b <= a -> a <= resolution c -> anc (anc c a) b = anc c b.
Proof.
  intros _ Hb Ha. destruct c as [o sg sv r]. projs_in Ha. unfold anc at 1 3.
  rewrite anc_resolution.
  destruct (Z.eqb_spec b (-1)) as [->|]; [reflexivity|].
  assert (Hos : origin_id (anc (mkCell o sg sv r) a) = o /\ (1 <= a -> segment (anc (mkCell o sg sv r) a) = sg)).
  { unfold anc. projs. destruct (Z.eqb_spec a (-1)); [lia|].
    destruct (Z.eqb_spec a 0) as [->|]; [projs; split; [reflexivity|lia]|].
    destruct (Z.eqb_spec a 1); projs; auto. }
  destruct Hos as (Eo & Esg). rewrite Eo. projs.
  destruct (Z.eqb_spec b 0) as [->|]; [reflexivity|].
  rewrite Esg by lia.
  destruct (Z.eqb_spec b 1) as [->|]; [reflexivity|].
  f_equal. unfold anc. projs.
  destruct (Z.eqb_spec a (-1)); [lia|]. destruct (Z.eqb_spec a 0); [lia|]. destruct (Z.eqb_spec a 1); [lia|].
  projs. rewrite Z.div_div by (try apply Z.lt_gt; try apply pow4_pos; try (apply Z.pow_nonzero; lia); lia).
  rewrite <- pow4_add by lia. f_equal. f_equal. lia.
Qed.

(* ================================================================== *)
(* A. cell_to_parent                                                   *)
(* ================================================================== *)

(* below the curve levels serialize ignores [s] (and at resolution 0 the quintant) *)
Lemma serialize_res0 o sg sv :
  0 <= o < 12 -> 0 <= sg < 5 -> serialize (mkCell o sg sv 0) = Ok (layout (mkCell o 0 0 0)).
Proof.
  intros Ho Hsg. unfold serialize, layout, code; projs. ev.
  rewrite (first_quintant_of_ok o) by lia; rewrite bind_ok.
  pose proof (fq_range o ltac:(lia)) as Hfq.
  sym; f_equal; unfold two64; lor_to_add; lia.
Qed.

Lemma serialize_res1 o sg sv :
  0 <= o < 12 -> 0 <= sg < 5 -> serialize (mkCell o sg sv 1) = Ok (layout (mkCell o sg 0 1)).
Proof.
  intros Ho Hsg. unfold serialize, layout, code; projs. ev.
  rewrite (first_quintant_of_ok o) by lia; rewrite bind_ok.
  pose proof (fq_range o ltac:(lia)) as Hfq.
  sym; f_equal; unfold two64; lor_to_add; lia.
Qed.

Lemma canon_res_range c : canon c -> -1 <= resolution c <= 29.
Proof. intros (H & _); exact H. Qed.

Lemma canon_origin c : canon c -> 0 <= resolution c -> 0 <= origin_id c < 12.
Proof. intros (_ & _ & H & _); exact H. Qed.

Lemma canon_segment c : canon c -> 1 <= resolution c -> 0 <= segment c < 5.
Proof. intros (_ & _ & _ & _ & H & _); exact H. Qed.

Theorem parent_spec c k :
  canon c -> -1 <= k <= resolution c -> cell_to_parent (layout c) (Some k) = Ok (layout (anc c k)).
Proof.
  intros Hc Hk. pose proof (canon_res_range c Hc) as Hr.
  unfold cell_to_parent. rewrite deserialize_layout by assumption. rewrite !bind_ok. cbv zeta.
  destruct (Z.eqb_spec k (-1)) as [->|Hk1]; [reflexivity|].
  destruct (Z.ltb_spec k 0); [lia|]. destruct (Z.gtb_spec k (resolution c)); [lia|].
  destruct (Z.eqb_spec k (resolution c)) as [->|Hne].
  - rewrite anc_self by assumption. apply serialize_layout; assumption.
  - rewrite i32_sub_ok by lia. rewrite bind_ok. rewrite i32_mul_ok by lia. rewrite bind_ok.
    rewrite u64_shr_ok by lia. rewrite bind_ok. rewrite pow2_4 by lia.
    pose proof (canon_origin c Hc ltac:(lia)) as Ho. pose proof (canon_segment c Hc ltac:(lia)) as Hsg.
    destruct (Z.eqb_spec k 0) as [->|Hk0].
    + rewrite serialize_res0 by assumption. reflexivity.
    + destruct (Z.eqb_spec k 1) as [->|Hk1'].
      * rewrite serialize_res1 by assumption. reflexivity.
      * destruct (anc_canon c k Hc ltac:(lia)) as (Hca & _).
        rewrite <- (serialize_layout _ Hca). f_equal. unfold anc.
        destruct (Z.eqb_spec k (-1)); [lia|]. destruct (Z.eqb_spec k 0); [lia|].
        destruct (Z.eqb_spec k 1); [lia|]. reflexivity.
Qed.

Theorem parent_default_spec c :
  canon c -> 0 <= resolution c ->
  cell_to_parent (layout c) None = Ok (layout (anc c (resolution c - 1))).
Proof.
  intros Hc H0. pose proof (canon_res_range c Hc) as Hr.
  rewrite <- parent_spec by (try assumption; lia).
  unfold cell_to_parent. rewrite deserialize_layout by assumption. rewrite !bind_ok. cbv zeta.
  rewrite i32_sub_ok by lia. reflexivity.
Qed.

(* the default parent level of the world cell is -2: rejected *)
Theorem parent_default_world : cell_to_parent (layout world) None = Err.
Proof. vm_compute. reflexivity. Qed.

(* a requested level outside [-1, resolution c] is rejected with an error; no arithmetic is
   performed before the range checks, so this holds for every integer k *)
Theorem parent_errors c k :
  canon c -> (k < -1 \/ k > resolution c) -> cell_to_parent (layout c) (Some k) = Err.
Proof.
  intros Hc Hk. pose proof (canon_res_range c Hc) as Hr.
  unfold cell_to_parent. rewrite deserialize_layout by assumption. rewrite !bind_ok. cbv zeta.
  destruct (Z.eqb_spec k (-1)); [lia|].
  destruct (Z.ltb_spec k 0); [reflexivity|]. destruct (Z.gtb_spec k (resolution c)); [reflexivity|lia].
Qed.

Theorem parent_total c k :
  canon c -> - 2 ^ 31 <= k < 2 ^ 31 ->
  cell_to_parent (layout c) (Some k) <> Panic /\ cell_to_parent (layout c) (Some k) <> Diverge.
Proof.
  intros Hc _. pose proof (canon_res_range c Hc) as Hr.
  destruct (Z_le_dec (-1) k) as [H1|H1]; [destruct (Z_le_dec k (resolution c)) as [H2|H2]|].
  - rewrite parent_spec by (try assumption; lia). split; discriminate.
  - rewrite parent_errors by (try assumption; lia). split; discriminate.
  - rewrite parent_errors by (try assumption; lia). split; discriminate.
Qed.

(* ================================================================== *)
(* B. descendants: characterisation                                    *)
(* ================================================================== *)

Lemma div_interval_iff x P a : 0 < P -> (x / P = a <-> a * P <= x < a * P + P).
Proof.
  intros HP. split.
  - intros <-. pose proof (Z.mul_div_le x P HP). pose proof (Z.mul_succ_div_gt x P HP). lia.
  - intros H. symmetry. apply Z.div_unique with (r := x - a * P); lia.
Qed.

Theorem desc_char c k d :
  canon c -> resolution c <= k <= 29 ->
  (In d (desc_cells c k) <-> canon d /\ resolution d = k /\ anc d (resolution c) = c).
Proof.
  intros Hc Hk. rewrite desc_cells_eq.
  destruct (Z.eqb_spec k (resolution c)) as [->|Hne].
  - cbn [In]. split.
    + intros [<-|[]]. split; [assumption|]. split; [reflexivity|]. apply anc_self; assumption.
    + intros (Hd & Hrd & Ha). left. rewrite <- Hrd in Ha. rewrite anc_self in Ha by assumption. congruence.
  - rewrite in_cells. unfold d_origins, d_segments, d_count, d_shifted, d_diff.
    destruct c as [o sg sv r], d as [o' sg' sv' r']. unfold canon in *. unfold anc, world. projs. projs_in Hc. projs_in Hk.
    projs_in Hne.
    destruct Hc as (Hr & Hw & Ho & H0 & H1 & H1' & H2).
    assert (Hcase : r = -1 \/ r = 0 \/ r = 1 \/ 2 <= r) by lia.
    destruct Hcase as [->|[->|[->|Hr2]]].
    + (* world *)
      change (-1 =? -1) with true. change (-1 =? 0) with false. change (Z.max (-1) 1) with 1.
      cbn [andb orb]. destruct Hw as (-> & -> & ->); [reflexivity|]. rewrite in_seqZ.
      destruct (Z.gtb_spec k 0); destruct (Z.leb_spec (k - 1) 0); destruct (Z.gtb_spec (k - 1) 0); try lia;
        cbn [andb orb]; cbv iota; cbn [In]; (split; [intros (? & ? & ? & ->)|intros (? & -> & _)]); use_canon; repeat split; try lia.
    + (* base cell *)
      change (0 =? -1) with false. change (0 =? 0) with true. change (Z.max 0 1) with 1.
      cbn [andb orb]. destruct H0 as (-> & ->); [reflexivity|].
      destruct (Z.leb_spec (k - 1) 0); destruct (Z.gtb_spec (k - 1) 0); try lia;
        cbn [In]; rewrite cell_eq;
        (split; [intros (? & ? & ? & ->)|intros (? & -> & ?)]); use_canon; repeat split; try lia.
    + (* quintant *)
      change (1 =? -1) with false. change (1 =? 0) with false. change (Z.max 1 1) with 1.
      cbn [andb orb]. rewrite H1' by reflexivity.
      destruct (Z.leb_spec (k - 1) 0); destruct (Z.gtb_spec (k - 1) 0); try lia.
      change (1 =? 1) with true. cbv iota.
      cbn [In]; rewrite cell_eq;
        (split; [intros (? & ? & ? & ->)|intros (? & -> & ?)]); use_canon; repeat split; try lia.
    + (* curve levels *)
      destruct (Z.eqb_spec r (-1)); [lia|]. destruct (Z.eqb_spec r 0); [lia|]. destruct (Z.eqb_spec r 1); [lia|].
      cbn [andb orb]. rewrite Z.max_l by lia.
      destruct (Z.leb_spec (k - r) 0); destruct (Z.gtb_spec (k - r) 0); try lia.
      use_canon.
      pose proof (pow4_pos (k - r) ltac:(lia)) as HP.
      pose proof (pow4_pos (r - 1) ltac:(lia)) as HQ.
      assert (HPQ : 4 ^ (k - 1) = 4 ^ (r - 1) * 4 ^ (k - r)).
      { rewrite <- pow4_add by lia. f_equal; lia. }
      cbn [In]; rewrite cell_eq.
      split.
      * intros (? & ? & ? & ->). use_canon.
        rewrite (div_interval_iff sv' (4 ^ (k - r)) sv HP).
        rewrite HPQ. repeat split; try lia; nia.
      * intros (? & -> & ? & ? & Hdiv & _). use_canon.
        rewrite (div_interval_iff sv' (4 ^ (k - r)) sv HP) in Hdiv.
        repeat split; try lia.
Qed.

Lemma desc_canon c k d : canon c -> resolution c <= k <= 29 -> In d (desc_cells c k) -> canon d.
Proof. intros Hc Hk Hin. apply (desc_char c k d Hc Hk) in Hin. apply Hin. Qed.

(* ================================================================== *)
(* A. cell_to_children                                                 *)
(* ================================================================== *)

Lemma usize_pow4_ok e : 0 <= e <= 20 -> usize_pow4 e = Ok (4 ^ e).
Proof.
  intros H. unfold usize_pow4. pose proof (pow4_le e 20 ltac:(lia)) as Hle.
  change (4 ^ 20) with 1099511627776 in Hle.
  destruct (Z.ltb_spec (4 ^ e) two64); [reflexivity|unfold two64 in *; lia].
Qed.

Lemma mapM_cells (f : Z * Z * Z -> out Z) (g : cell -> Z) O S n sh k :
  (forall o sg i, In (mkCell o sg (sh + i) k) (cells_of O S n sh k) ->
                  f (o, sg, i) = Ok (g (mkCell o sg (sh + i) k))) ->
  mapM f (tuples_of O S n) = Ok (map g (cells_of O S n sh k)).
Proof.
  intros H. rewrite cells_of_tuples, map_map. apply mapM_ok_map. intros [[o sg] i] Hin.
  apply H. rewrite cells_of_tuples. apply in_map_iff. exists (o, sg, i). auto.
Qed.

(* the arithmetic of the model agrees with the specification's count and shifted value *)
Lemma shifted_bound c k :
  canon c -> resolution c <= k <= 30 -> 0 < d_diff c k ->
  0 <= s c * 4 ^ d_diff c k < 4 ^ 29.
Proof.
  intros Hc Hk Hd. unfold d_diff in *.
  pose proof (canon_res_range c Hc) as Hr.
  destruct (Z_lt_dec (resolution c) 2) as [Hlt|Hge].
  - assert (s c = 0) as ->; [|change (4 ^ 29) with 288230376151711744; lia].
    destruct c as [o sg sv r]. unfold canon in Hc. projs_in Hc. projs_in Hlt. projs_in Hr. projs.
    destruct Hc as (_ & Hw & _ & H0 & _ & H1' & _). lia.
  - rewrite Z.max_l in * by lia.
    assert (Hs : 0 <= s c < 4 ^ (resolution c - 1)).
    { destruct Hc as (_ & _ & _ & _ & _ & _ & H2). apply H2. lia. }
    pose proof (pow4_pos (k - resolution c) ltac:(lia)) as HP.
    pose proof (pow4_le (resolution c - 1 + (k - resolution c)) 29 ltac:(lia)) as Hle.
    rewrite pow4_add in Hle by lia. nia.
Qed.

Theorem children_spec c k :
  canon c -> resolution c <= k <= 29 -> span_ok (resolution c) k ->
  cell_to_children (layout c) (Some k) = Ok (map layout (desc_cells c k)).
Proof.
  intros Hc Hk Hspan. pose proof (canon_res_range c Hc) as Hr. unfold span_ok in Hspan.
  unfold cell_to_children. rewrite deserialize_layout by assumption. rewrite !bind_ok. cbv zeta.
  unfold MAX_RESOLUTION, FIRST_HILBERT_RESOLUTION.
  destruct (Z.ltb_spec k (resolution c)); [lia|].
  destruct (Z.gtb_spec k 30); [lia|].
  assert (Hcan : k <> resolution c ->
                 forall d, In d (cells_of (d_origins c) (d_segments c k) (d_count c k) (d_shifted c k) k) -> canon d).
  { intros Hne d Hd. apply (desc_canon c k d Hc Hk). rewrite desc_cells_eq.
    destruct (Z.eqb_spec k (resolution c)); [lia|]. exact Hd. }
  rewrite desc_cells_eq.
  destruct (Z.eqb_spec k (resolution c)) as [->|Hne].
  - rewrite serialize_layout by assumption. reflexivity.
  - specialize (Hcan Hne).
    change (i32_sub 2 1) with (@Ok Z 1). rewrite bind_ok.
    rewrite i32_sub_ok by lia. rewrite bind_ok.
    pose proof (shifted_bound c k Hc ltac:(lia)) as Hsb.
    unfold d_count, d_shifted in *. unfold d_diff in *.
    set (diff := k - Z.max (resolution c) 1) in *.
    destruct (Z.leb_spec diff 0) as [Hd0|Hd0].
    + rewrite bind_ok. destruct (Z.gtb_spec diff 0); [lia|]. rewrite bind_ok.
      match goal with |- mapM ?f ?l = _ =>
        change l with (tuples_of (d_origins c) (d_segments c k) 1) end.
      apply mapM_cells. intros o sg i Hin. specialize (Hcan _ Hin).
      pose proof (canon_s_bound _ Hcan) as Hb. projs_in Hb. change (4 ^ 28) with 72057594037927936 in Hb.
      rewrite u64_add_ok by (unfold two64; lia). rewrite bind_ok. apply serialize_layout; assumption.
    + destruct (Z.gtb_spec diff 20); [lia|]. destruct (Z.gtb_spec diff 0); [|lia].
      unfold as_u32. rewrite Z.mod_small by (unfold two32; lia).
      rewrite usize_pow4_ok by lia. rewrite bind_ok.
      rewrite i32_mul_ok by lia. rewrite bind_ok.
      rewrite u64_shl_ok by lia. rewrite bind_ok. rewrite pow2_4 by lia.
      specialize (Hsb ltac:(lia)). change (4 ^ 29) with 288230376151711744 in Hsb.
      rewrite Z.mod_small by (unfold two64; lia).
      match goal with |- mapM ?f ?l = _ =>
        change l with (tuples_of (d_origins c) (d_segments c k) (4 ^ diff)) end.
      apply mapM_cells. intros o sg i Hin. specialize (Hcan _ Hin).
      pose proof (canon_s_bound _ Hcan) as Hb. projs_in Hb. change (4 ^ 28) with 72057594037927936 in Hb.
      rewrite u64_add_ok by (unfold two64; lia). rewrite bind_ok. apply serialize_layout; assumption.
Qed.

(* the default child level is resolution + 1 *)
Lemma children_default_eq c :
  canon c -> cell_to_children (layout c) None = cell_to_children (layout c) (Some (resolution c + 1)).
Proof.
  intros Hc. pose proof (canon_res_range c Hc) as Hr.
  unfold cell_to_children. rewrite deserialize_layout by assumption. rewrite !bind_ok. cbv zeta.
  rewrite i32_add_ok by lia. reflexivity.
Qed.

Theorem children_default_spec c :
  canon c -> resolution c < 29 ->
  cell_to_children (layout c) None = Ok (map layout (desc_cells c (resolution c + 1))).
Proof.
  intros Hc H29. pose proof (canon_res_range c Hc) as Hr.
  rewrite children_default_eq by assumption. apply children_spec; [assumption|lia|unfold span_ok; lia].
Qed.

Lemma mapM_all_err {A B} (f : A -> out B) l :
  l <> [] -> (forall x, In x l -> f x = Err) -> mapM f l = Err.
Proof.
  destruct l as [|x xs]; [congruence|]. intros _ H. simpl. rewrite H by (left; reflexivity). reflexivity.
Qed.

Lemma serialize_30 o sg sv : serialize (mkCell o sg sv 30) = Err.
Proof. reflexivity. Qed.

(* resolution 30 is accepted by the range check of cell_to_children (MAX_RESOLUTION = 30) but
   rejected by serialize for the first child: the call reports an error *)
Lemma children_30 c :
  canon c -> span_ok (resolution c) 30 -> cell_to_children (layout c) (Some 30) = Err.
Proof.
  intros Hc Hspan. pose proof (canon_res_range c Hc) as Hr. unfold span_ok in Hspan.
  unfold cell_to_children. rewrite deserialize_layout by assumption. rewrite !bind_ok. cbv zeta.
  unfold MAX_RESOLUTION, FIRST_HILBERT_RESOLUTION.
  destruct (Z.ltb_spec 30 (resolution c)); [lia|].
  change (30 >? 30) with false. cbv iota.
  destruct (Z.eqb_spec 30 (resolution c)); [lia|].
  change (i32_sub 2 1) with (@Ok Z 1). rewrite bind_ok.
  rewrite i32_sub_ok by lia. rewrite bind_ok.
  pose proof (shifted_bound c 30 Hc ltac:(lia)) as Hsb. unfold d_diff in Hsb.
  set (diff := 30 - Z.max (resolution c) 1) in *.
  destruct (Z.leb_spec diff 0); [lia|].
  destruct (Z.gtb_spec diff 20); [lia|]. destruct (Z.gtb_spec diff 0); [|lia].
  unfold as_u32. rewrite Z.mod_small by (unfold two32; lia).
  rewrite usize_pow4_ok by lia. rewrite bind_ok.
  rewrite i32_mul_ok by lia. rewrite bind_ok.
  rewrite u64_shl_ok by lia. rewrite bind_ok. rewrite pow2_4 by lia.
  specialize (Hsb ltac:(lia)). change (4 ^ 29) with 288230376151711744 in Hsb.
  rewrite Z.mod_small by (unfold two64; lia).
  pose proof (pow4_pos diff ltac:(lia)) as HP.
  pose proof (pow4_le diff 20 ltac:(lia)) as Hle. change (4 ^ 20) with 1099511627776 in Hle.
  match goal with |- mapM ?f ?l = _ =>
    change l with (tuples_of (d_origins c) (d_segments c 30) (4 ^ diff)) end.
  apply mapM_all_err.
  - assert (Hin : exists o sg, In (o, sg, 0) (tuples_of (d_origins c) (d_segments c 30) (4 ^ diff))).
    { assert (Ho : exists o, In o (d_origins c)).
      { unfold d_origins. destruct (resolution c =? -1); [exists 0; rewrite in_seqZ; lia|eexists; left; reflexivity]. }
      assert (Hs : exists sg, In sg (d_segments c 30)).
      { unfold d_segments. destruct ((resolution c =? -1) && (30 >? 0) || (resolution c =? 0)); eexists; left; reflexivity. }
      destruct Ho as (o & Ho), Hs as (sg & Hs). exists o, sg. rewrite in_tuples. repeat split; try assumption; lia. }
    destruct Hin as (o & sg & Hin). intros E. rewrite E in Hin. exact Hin.
  - intros [[o sg] i] Hin. rewrite in_tuples in Hin. destruct Hin as (_ & _ & Hi).
    rewrite u64_add_ok by (unfold two64; lia). rewrite bind_ok. apply serialize_30.
Qed.

Theorem children_default_29 c :
  canon c -> resolution c = 29 -> cell_to_children (layout c) None = Err.
Proof.
  intros Hc H29. rewrite children_default_eq by assumption. rewrite H29. change (29 + 1) with 30.
  apply children_30; [assumption|unfold span_ok; lia].
Qed.

Theorem children_too_deep c k :
  canon c -> resolution c <= k <= 30 -> ~ span_ok (resolution c) k ->
  cell_to_children (layout c) (Some k) = Err.
Proof.
  intros Hc Hk Hspan. pose proof (canon_res_range c Hc) as Hr. unfold span_ok in Hspan.
  unfold cell_to_children. rewrite deserialize_layout by assumption. rewrite !bind_ok. cbv zeta.
  unfold MAX_RESOLUTION, FIRST_HILBERT_RESOLUTION.
  destruct (Z.ltb_spec k (resolution c)); [lia|].
  destruct (Z.gtb_spec k 30); [lia|].
  destruct (Z.eqb_spec k (resolution c)); [lia|].
  change (i32_sub 2 1) with (@Ok Z 1). rewrite bind_ok.
  rewrite i32_sub_ok by lia. rewrite bind_ok.
  destruct (Z.leb_spec (k - Z.max (resolution c) 1) 0); [lia|].
  destruct (Z.gtb_spec (k - Z.max (resolution c) 1) 20); [|lia].
  reflexivity.
Qed.

(* requested level below the cell's own level, or above MAX_RESOLUTION: error *)
Theorem children_out_of_range c k :
  canon c -> (k < resolution c \/ 30 < k) -> cell_to_children (layout c) (Some k) = Err.
Proof.
  intros Hc Hk. pose proof (canon_res_range c Hc) as Hr.
  unfold cell_to_children. rewrite deserialize_layout by assumption. rewrite !bind_ok. cbv zeta.
  unfold MAX_RESOLUTION.
  destruct (Z.ltb_spec k (resolution c)); [reflexivity|].
  destruct (Z.gtb_spec k 30); [reflexivity|lia].
Qed.

(* complete classification of the outcome for an explicit level *)
Theorem children_outcome c k :
  canon c ->
  cell_to_children (layout c) (Some k) =
  if (resolution c <=? k) && (k <=? 29) && (k - Z.max (resolution c) 1 <=? 20)
  then Ok (map layout (desc_cells c k)) else Err.
Proof.
  intros Hc. pose proof (canon_res_range c Hc) as Hr.
  destruct (Z.leb_spec (resolution c) k); cbn [andb]; [|apply children_out_of_range; [assumption|lia]].
  destruct (Z.leb_spec k 29); cbn [andb].
  - destruct (Z.leb_spec (k - Z.max (resolution c) 1) 20).
    + apply children_spec; [assumption|lia|unfold span_ok; lia].
    + apply children_too_deep; [assumption|lia|unfold span_ok; lia].
  - destruct (Z_le_dec k 30); [|apply children_out_of_range; [assumption|lia]].
    assert (k = 30) as -> by lia.
    destruct (Z_le_dec (30 - Z.max (resolution c) 1) 20).
    + apply children_30; [assumption|unfold span_ok; lia].
    + apply children_too_deep; [assumption|lia|unfold span_ok; lia].
Qed.

(* never Panic / Diverge, for every requested level *)
Theorem children_total_all c k :
  canon c ->
  cell_to_children (layout c) (Some k) <> Panic /\ cell_to_children (layout c) (Some k) <> Diverge.
Proof.
  intros Hc. rewrite children_outcome by assumption.
  destruct ((resolution c <=? k) && (k <=? 29) && (k - Z.max (resolution c) 1 <=? 20)); split; discriminate.
Qed.

(* the statement as requested (its two range hypotheses are not needed) *)
Theorem children_total c k :
  canon c -> - 2 ^ 31 <= k < 2 ^ 31 -> k - Z.max (resolution c) 1 <= 8 ->
  cell_to_children (layout c) (Some k) <> Panic /\ cell_to_children (layout c) (Some k) <> Diverge.
Proof. intros Hc _ _. apply children_total_all; assumption. Qed.

Theorem res0_spec : get_res0_cells = Ok (map layout (desc_cells world 0)).
Proof.
  unfold get_res0_cells. change WORLD_CELL with (layout world).
  apply children_spec; [apply canon_world|cbn; lia|unfold span_ok; cbn; lia].
Qed.

Theorem res0_cells : desc_cells world 0 = map (fun o => mkCell o 0 0 0) (seqZ 0 12).
Proof. reflexivity. Qed.

(* ================================================================== *)
(* B. C07: one consistent tree                                         *)
(* ================================================================== *)

Lemma cells_of_NoDup O S n sh k : NoDup O -> NoDup S -> NoDup (cells_of O S n sh k).
Proof.
  intros HO HS. unfold cells_of. apply NoDup_flat_map; [assumption| |].
  - intros o _. apply NoDup_flat_map; [assumption| |].
    + intros sg _. apply NoDup_map_inj_in; [|apply seqZ_NoDup].
      intros x y _ _ E. inversion E. lia.
    + intros x y z _ _ Hx Hy. rewrite in_map_iff in Hx, Hy.
      destruct Hx as (i & <- & _), Hy as (j & E & _). inversion E; reflexivity.
  - intros x y z _ _ Hx Hy. rewrite in_flat_map in Hx, Hy.
    destruct Hx as (sg & _ & Hx), Hy as (sg' & _ & Hy). rewrite in_map_iff in Hx, Hy.
    destruct Hx as (i & <- & _), Hy as (j & E & _). inversion E; reflexivity.
Qed.

Theorem desc_NoDup c k : canon c -> resolution c <= k <= 29 -> NoDup (desc_cells c k).
Proof.
  intros _ _. rewrite desc_cells_eq. destruct (k =? resolution c).
  - constructor; [intros []|constructor].
  - apply cells_of_NoDup.
    + unfold d_origins. destruct (resolution c =? -1); [apply seqZ_NoDup|constructor; [intros []|constructor]].
    + unfold d_segments. destruct ((resolution c =? -1) && (k >? 0) || (resolution c =? 0)).
      * change [0; 1; 2; 3; 4] with (seqZ 0 5). apply seqZ_NoDup.
      * constructor; [intros []|constructor].
Qed.

Theorem children_NoDup c k : canon c -> resolution c <= k <= 29 -> NoDup (map layout (desc_cells c k)).
Proof.
  intros Hc Hk. apply NoDup_map_inj_in; [|apply desc_NoDup; assumption].
  intros x y Hx Hy. apply layout_injective; eapply desc_canon; eassumption.
Qed.

(* fan-out *)
Lemma fanout_n_curve r n : 1 <= r -> fanout_n r n = 4 ^ Z.of_nat n.
Proof.
  revert r; induction n as [|n IH]; intros r Hr; [reflexivity|].
  cbn [fanout_n]. rewrite IH by lia. unfold level_fanout.
  destruct (Z.eqb_spec r (-1)); [lia|]. destruct (Z.eqb_spec r 0); [lia|].
  rewrite Nat2Z.inj_succ, Z.pow_succ_r by lia. reflexivity.
Qed.

Lemma cells_of_length O S n sh k :
  length (cells_of O S n sh k) = (length O * (length S * Z.to_nat n))%nat.
Proof.
  unfold cells_of. apply length_flat_map_const. intros o _.
  apply length_flat_map_const. intros sg _. rewrite map_length, seqZ_length. reflexivity.
Qed.

Theorem desc_length c k :
  canon c -> resolution c <= k <= 29 -> Z.of_nat (length (desc_cells c k)) = fanout (resolution c) k.
Proof.
  intros Hc Hk. pose proof (canon_res_range c Hc) as Hr. rewrite desc_cells_eq. unfold fanout.
  destruct (Z.eqb_spec k (resolution c)) as [->|Hne].
  - rewrite Z.sub_diag. reflexivity.
  - rewrite cells_of_length. unfold d_origins, d_segments, d_count, d_diff.
    remember (resolution c) as r eqn:Er.
    assert (Hcase : r = -1 \/ r = 0 \/ r = 1 \/ 2 <= r) by lia.
    destruct Hcase as [E|[E|[E|Hr2]]]; try rewrite E.
    + change (-1 =? -1) with true. change (-1 =? 0) with false. change (Z.max (-1) 1) with 1.
      cbn [andb orb]. rewrite seqZ_length.
      destruct (Z.gtb_spec k 0); cbn [andb orb]; cbv iota.
      * replace (Z.to_nat (k - -1)) with (S (S (Z.to_nat (k - 1)))) by lia.
        cbn [fanout_n]. change (-1 + 1 + 1) with 1. rewrite fanout_n_curve by lia.
        change (level_fanout (-1)) with 12. change (level_fanout (-1 + 1)) with 5.
        rewrite Z2Nat.id by lia.
        destruct (Z.leb_spec (k - 1) 0).
        -- assert (k = 1) as -> by lia. reflexivity.
        -- pose proof (pow4_pos (k - 1) ltac:(lia)). cbn [length]. lia.
      * assert (k = 0) as -> by lia. reflexivity.
    + change (0 =? -1) with false. change (0 =? 0) with true. change (Z.max 0 1) with 1.
      cbn [andb orb].
      replace (Z.to_nat (k - 0)) with (S (Z.to_nat (k - 1))) by lia.
      cbn [fanout_n]. change (0 + 1) with 1. rewrite fanout_n_curve by lia.
      change (level_fanout 0) with 5. rewrite Z2Nat.id by lia.
      destruct (Z.leb_spec (k - 1) 0).
      * assert (k = 1) as -> by lia. reflexivity.
      * pose proof (pow4_pos (k - 1) ltac:(lia)). cbn [length]. lia.
    + change (1 =? -1) with false. change (1 =? 0) with false. change (Z.max 1 1) with 1.
      cbn [andb orb]. rewrite fanout_n_curve by lia. rewrite Z2Nat.id by lia.
      destruct (Z.leb_spec (k - 1) 0); [lia|].
      pose proof (pow4_pos (k - 1) ltac:(lia)). cbn [length]. lia.
    + destruct (Z.eqb_spec r (-1)); [lia|]. destruct (Z.eqb_spec r 0); [lia|].
      cbn [andb orb]. rewrite Z.max_l by lia. rewrite fanout_n_curve by lia. rewrite Z2Nat.id by lia.
      destruct (Z.leb_spec (k - r) 0); [lia|].
      pose proof (pow4_pos (k - r) ltac:(lia)). cbn [length]. lia.
Qed.

Theorem desc_compose c k1 k2 d :
  canon c -> resolution c <= k1 <= k2 -> k2 <= 29 ->
  (In d (desc_cells c k2) <-> exists m, In m (desc_cells c k1) /\ In d (desc_cells m k2)).
Proof.
  intros Hc Hk1 Hk2. pose proof (canon_res_range c Hc) as Hr.
  rewrite desc_char by (try assumption; lia). split.
  - intros (Hd & Hrd & Ha). exists (anc d k1).
    destruct (anc_canon d k1 Hd ltac:(lia)) as (Hm & Hrm).
    rewrite !desc_char by (try assumption; lia). rewrite Hrm.
    split; [split; [assumption|split; [reflexivity|]]|split; [assumption|split; [assumption|reflexivity]]].
    rewrite anc_compose by (try assumption; lia). assumption.
  - intros (m & Hm & Hd). rewrite desc_char in Hm by (try assumption; lia).
    destruct Hm as (Hcm & Hrm & Ham).
    rewrite desc_char in Hd by (try assumption; lia). destruct Hd as (Hd & Hrd & Ha).
    split; [assumption|split; [assumption|]].
    rewrite Hrm in Ha. rewrite <- (anc_compose d k1 (resolution c)) by (try assumption; lia).
    rewrite Ha. exact Ham.
Qed.

Theorem unique_parent d :
  canon d -> 0 <= resolution d ->
  exists! c, canon c /\ resolution c = resolution d - 1 /\ In d (desc_cells c (resolution d)).
Proof.
  intros Hd H0. pose proof (canon_res_range d Hd) as Hr.
  destruct (anc_canon d (resolution d - 1) Hd ltac:(lia)) as (Hp & Hrp).
  exists (anc d (resolution d - 1)). split.
  - split; [assumption|split; [assumption|]].
    rewrite desc_char by (try assumption; lia). rewrite Hrp. auto.
  - intros c (Hc & Hrc & Hin). rewrite desc_char in Hin by (try assumption; lia).
    destruct Hin as (_ & _ & Ha). rewrite <- Ha, Hrc. reflexivity.
Qed.

(* ================================================================== *)
(* C. C20: ID order versus hierarchy                                   *)
(* ================================================================== *)

(* For resolution >= 1 an ID is  idx * 2^(60-2r) + marker, where idx is the position of the cell
   among all cells of its resolution (6-bit prefix followed by the curve digits). *)
Definition idx (c : cell) : Z := code c * 4 ^ (resolution c - 1) + s c.
Definition mark (r : Z) : Z := if r =? 1 then 2 ^ 56 else 2 ^ (59 - 2 * r).

Lemma pow2_pos e : 0 <= e -> 0 < 2 ^ e.
Proof. intros; apply Z.pow_pos_nonneg; lia. Qed.

Lemma unit_split a b : 1 <= a <= b -> b <= 30 -> 2 ^ (60 - 2 * a) = 4 ^ (b - a) * 2 ^ (60 - 2 * b).
Proof.
  intros H1 H2. rewrite <- pow2_4 by lia. rewrite <- Z.pow_add_r by lia. f_equal. lia.
Qed.

Lemma layout_idx c :
  canon c -> 1 <= resolution c -> layout c = idx c * 2 ^ (60 - 2 * resolution c) + mark (resolution c).
Proof.
  destruct c as [o sg sv r]. unfold canon, layout, idx, mark, code; projs.
  intros (Hr & Hw & Ho & H0 & H1 & H1' & H2) Hr1.
  destruct (Z.eqb_spec r (-1)); [lia|]. destruct (Z.eqb_spec r 0); [lia|].
  destruct (Z.eqb_spec r 1) as [->|].
  - rewrite H1' by reflexivity. change (4 ^ (1 - 1)) with 1. change (60 - 2 * 1) with 58. ring.
  - rewrite <- (pow2_4 (r - 1)) by lia.
    replace (2 ^ 58) with (2 ^ (2 * (r - 1)) * 2 ^ (60 - 2 * r))
      by (rewrite <- Z.pow_add_r by lia; f_equal; lia).
    ring.
Qed.

Lemma mark_bounds r : 1 <= r <= 29 -> 0 < mark r < 2 ^ (60 - 2 * r).
Proof.
  intros Hr. unfold mark. destruct (Z.eqb_spec r 1) as [->|]; [split; reflexivity|].
  replace (60 - 2 * r) with (Z.succ (59 - 2 * r)) by lia. rewrite Z.pow_succ_r by lia.
  pose proof (pow2_pos (59 - 2 * r) ltac:(lia)). lia.
Qed.

Lemma mark_multiple rx rc : 1 <= rx < rc -> rc <= 29 -> exists n, mark rx = n * 2 ^ (60 - 2 * rc).
Proof.
  intros H1 H2. unfold mark. destruct (Z.eqb_spec rx 1) as [->|].
  - exists (2 ^ (2 * rc - 4)). rewrite <- Z.pow_add_r by lia. f_equal. lia.
  - exists (2 ^ (2 * rc - 2 * rx - 1)). rewrite <- Z.pow_add_r by lia. f_equal. lia.
Qed.

Lemma sub_lo_idx c : canon c -> 1 <= resolution c -> sub_lo c = idx c * 2 ^ (60 - 2 * resolution c).
Proof.
  destruct c as [o sg sv r]. unfold canon, sub_lo, idx, code; projs.
  intros (Hr & Hw & Ho & H0 & H1 & H1' & H2) Hr1.
  destruct (Z.eqb_spec r 1) as [->|].
  - rewrite H1' by reflexivity. change (4 ^ (1 - 1)) with 1. change (60 - 2 * 1) with 58. ring.
  - rewrite <- (pow2_4 (r - 1)) by lia.
    replace (2 ^ 58) with (2 ^ (2 * (r - 1)) * 2 ^ (60 - 2 * r))
      by (rewrite <- Z.pow_add_r by lia; f_equal; lia).
    ring.
Qed.

Lemma sub_hi_idx c : canon c -> 1 <= resolution c -> sub_hi c = (idx c + 1) * 2 ^ (60 - 2 * resolution c).
Proof.
  intros Hc Hr. unfold sub_hi. rewrite sub_lo_idx by assumption.
  destruct (Z.eqb_spec (resolution c) 1) as [->|]; [change (60 - 2 * 1) with 58|]; ring.
Qed.

Lemma code_anc c k : 1 <= k -> code (anc c k) = code c.
Proof.
  intros Hk. unfold anc. destruct (Z.eqb_spec k (-1)); [lia|]. destruct (Z.eqb_spec k 0); [lia|].
  destruct (Z.eqb_spec k 1); reflexivity.
Qed.

Lemma idx_anc c k : canon c -> 1 <= k <= resolution c -> idx (anc c k) = idx c / 4 ^ (resolution c - k).
Proof.
  intros Hc Hk. unfold idx. rewrite code_anc by lia. rewrite anc_resolution.
  destruct c as [o sg sv r]. unfold canon in Hc. projs_in Hc. projs_in Hk. projs.
  destruct Hc as (Hr & Hw & Ho & H0 & H1 & H1' & H2).
  set (cd := code (mkCell o sg sv r)).
  pose proof (pow4_pos (r - k) ltac:(lia)) as HP.
  replace (4 ^ (r - 1)) with (4 ^ (k - 1) * 4 ^ (r - k)) by (rewrite <- pow4_add by lia; f_equal; lia).
  rewrite Z.mul_assoc, Z.div_add_l by lia. f_equal.
  unfold anc. destruct (Z.eqb_spec k (-1)); [lia|]. destruct (Z.eqb_spec k 0); [lia|].
  destruct (Z.eqb_spec k 1) as [->|]; projs; [|reflexivity].
  symmetry. apply Z.div_small.
  destruct (Z.eq_dec r 1) as [->|]; [rewrite H1' by reflexivity; change (4 ^ (1 - 1)) with 1; lia|].
  apply H2. lia.
Qed.

Lemma idx_inj c1 c2 :
  canon c1 -> canon c2 -> resolution c1 = resolution c2 -> 1 <= resolution c1 -> idx c1 = idx c2 -> c1 = c2.
Proof.
  intros H1 H2 Er Hr Ei. apply layout_injective; try assumption.
  rewrite !layout_idx by (try assumption; lia). rewrite Ei, Er. reflexivity.
Qed.

Lemma layout_lt_idx a b :
  canon a -> canon b -> resolution a = resolution b -> 1 <= resolution a ->
  (layout a < layout b <-> idx a < idx b).
Proof.
  intros Ha Hb Er Hr. rewrite !layout_idx by (try assumption; lia). rewrite <- Er.
  pose proof (canon_res_range a Ha).
  pose proof (pow2_pos (60 - 2 * resolution a) ltac:(lia)) as HU. nia.
Qed.

Theorem anc_monotone a b k :
  canon a -> canon b -> resolution a = resolution b -> 2 <= resolution a -> 1 <= k <= resolution a ->
  layout a < layout b -> layout (anc a k) <= layout (anc b k).
Proof.
  intros Ha Hb Er Hr Hk Hlt.
  rewrite layout_lt_idx in Hlt by (try assumption; lia).
  destruct (anc_canon a k Ha ltac:(lia)) as (Hca & Hra).
  destruct (anc_canon b k Hb ltac:(lia)) as (Hcb & Hrb).
  rewrite !layout_idx by (try assumption; lia). rewrite Hra, Hrb.
  rewrite !idx_anc by (try assumption; lia). rewrite <- Er.
  pose proof (canon_res_range a Ha).
  pose proof (pow2_pos (60 - 2 * k) ltac:(lia)) as HU.
  pose proof (pow4_pos (resolution a - k) ltac:(lia)) as HP.
  assert (idx a / 4 ^ (resolution a - k) <= idx b / 4 ^ (resolution a - k)) by (apply Z.div_le_mono; lia).
  nia.
Qed.

Theorem subtree_interval c x :
  canon c -> canon x -> 1 <= resolution c -> 1 <= resolution x ->
  (sub_lo c < layout x < sub_hi c <-> resolution c <= resolution x /\ anc x (resolution c) = c).
Proof.
  intros Hc Hx Hrc Hrx.
  pose proof (canon_res_range c Hc) as Hc29. pose proof (canon_res_range x Hx) as Hx29.
  rewrite sub_lo_idx, sub_hi_idx by assumption. rewrite (layout_idx x) by assumption.
  pose proof (mark_bounds (resolution x) ltac:(lia)) as Hm.
  pose proof (pow2_pos (60 - 2 * resolution x) ltac:(lia)) as HUx.
  pose proof (pow2_pos (60 - 2 * resolution c) ltac:(lia)) as HUc.
  split.
  - intros (Hlo & Hhi).
    destruct (Z_lt_dec (resolution x) (resolution c)) as [Hlt|Hge].
    + exfalso.
      destruct (mark_multiple (resolution x) (resolution c) ltac:(lia) ltac:(lia)) as (n & Hn).
      rewrite Hn in Hlo, Hhi.
      rewrite (unit_split (resolution x) (resolution c)) in Hlo, Hhi by lia.
      set (U := 2 ^ (60 - 2 * resolution c)) in *.
      set (Q := 4 ^ (resolution c - resolution x)) in *.
      replace (idx x * (Q * U) + n * U) with ((idx x * Q + n) * U) in Hlo, Hhi by ring.
      apply Z.mul_lt_mono_pos_r in Hlo; [|assumption].
      apply Z.mul_lt_mono_pos_r in Hhi; [|assumption]. lia.
    + split; [lia|].
      destruct (anc_canon x (resolution c) Hx ltac:(lia)) as (Hca & Hra).
      apply idx_inj; try assumption; [lia|].
      rewrite idx_anc by (try assumption; lia).
      pose proof (pow4_pos (resolution x - resolution c) ltac:(lia)) as HQ.
      apply div_interval_iff; [assumption|].
      rewrite (unit_split (resolution c) (resolution x)) in Hlo, Hhi by lia.
      set (U := 2 ^ (60 - 2 * resolution x)) in *.
      set (Q := 4 ^ (resolution x - resolution c)) in *.
      nia.
  - intros (Hle & Ha).
    pose proof (idx_anc x (resolution c) Hx ltac:(lia)) as Hi. rewrite Ha in Hi.
    pose proof (pow4_pos (resolution x - resolution c) ltac:(lia)) as HQ.
    symmetry in Hi. apply div_interval_iff in Hi; [|assumption].
    rewrite (unit_split (resolution c) (resolution x)) by lia.
    set (U := 2 ^ (60 - 2 * resolution x)) in *.
    set (Q := 4 ^ (resolution x - resolution c)) in *.
    nia.
Qed.

Theorem descendants_ordered a b x y :
  canon a -> canon b -> resolution a = resolution b -> 2 <= resolution a -> layout a < layout b ->
  canon x -> canon y -> resolution a <= resolution x -> resolution b <= resolution y ->
  anc x (resolution a) = a -> anc y (resolution b) = b -> layout x < layout y.
Proof.
  intros Ha Hb Er Hr Hlt Hx Hy Hrx Hry Hax Hby.
  rewrite layout_lt_idx in Hlt by (try assumption; lia).
  assert (Hx' : sub_lo a < layout x < sub_hi a) by (apply subtree_interval; try assumption; try lia; auto).
  assert (Hy' : sub_lo b < layout y < sub_hi b) by (apply subtree_interval; try assumption; try lia; auto).
  rewrite sub_hi_idx in Hx' by (try assumption; lia). rewrite sub_lo_idx in Hy' by (try assumption; lia).
  rewrite <- Er in Hy'. pose proof (canon_res_range a Ha).
  pose proof (pow2_pos (60 - 2 * resolution a) ltac:(lia)) as HU. nia.
Qed.

(* ---------- siblings are adjacent: consecutive IDs at the sibling stride *)
Theorem siblings_stride c j :
  canon c -> 2 <= resolution c -> s c mod 4 = 0 -> 0 <= j < 4 ->
  layout (mkCell (origin_id c) (segment c) (s c + j) (resolution c)) =
  layout c + j * 2 ^ (60 - 2 * resolution c).
Proof.
  intros _ Hr _ _. destruct c as [o sg sv r]. projs_in Hr. unfold layout, code; projs.
  destruct (Z.eqb_spec r (-1)); [lia|]. destruct (Z.eqb_spec r 0); [lia|]. destruct (Z.eqb_spec r 1); [lia|].
  ring.
Qed.

(* the four siblings are canonical cells (so the IDs above are the IDs of real cells) *)
Lemma siblings_canon c j :
  canon c -> 2 <= resolution c -> s c mod 4 = 0 -> 0 <= j < 4 ->
  canon (mkCell (origin_id c) (segment c) (s c + j) (resolution c)).
Proof.
  destruct c as [o sg sv r]. unfold canon; projs.
  intros (Hr & Hw & Ho & H0 & H1 & H1' & H2) Hr2 Hm Hj. use_canon.
  assert (4 ^ (r - 1) mod 4 = 0).
  { replace (r - 1) with (Z.succ (r - 2)) by lia. rewrite Z.pow_succ_r by lia.
    rewrite Z.mul_comm. apply Z.mod_mul. lia. }
  repeat split; try lia.
Qed.

(* the children of a cell of resolution >= 1, as returned by the API, have consecutive IDs
   at the stride of their level *)
Theorem children_consecutive p :
  canon p -> 1 <= resolution p <= 28 ->
  map layout (desc_cells p (resolution p + 1)) =
  map (fun j => layout (mkCell (origin_id p) (segment p) (4 * s p) (resolution p + 1))
                + j * 2 ^ (58 - 2 * resolution p)) (seqZ 0 4).
Proof.
  intros _ Hr. destruct p as [o sg sv r]. projs_in Hr. unfold desc_cells; projs.
  destruct (Z.eqb_spec (r + 1) r); [lia|]. destruct (Z.eqb_spec r (-1)); [lia|]. destruct (Z.eqb_spec r 0); [lia|].
  cbn [andb orb]. rewrite Z.max_l by lia. replace (r + 1 - r) with 1 by lia.
  change (1 <=? 0) with false. change (1 >? 0) with true. cbv iota. change (4 ^ 1) with 4.
  change (Z.to_nat 4) with 4%nat. cbn [seqZ flat_map map app].
  unfold layout, code; projs.
  destruct (Z.eqb_spec (r + 1) (-1)); [lia|]. destruct (Z.eqb_spec (r + 1) 0); [lia|].
  destruct (Z.eqb_spec (r + 1) 1); [lia|].
  replace (60 - 2 * (r + 1)) with (58 - 2 * r) by lia.
  repeat (f_equal; try ring).
Qed.

(* the five quintant cells of a face, taken in code order (starting at the face's first
   quintant), are 2^58 apart, directly after each other from 5*face * 2^58 *)
Theorem quintants_stride o q :
  0 <= o < 12 -> 0 <= q < 5 ->
  layout (mkCell o ((fq o + q) mod 5) 0 1) = layout (mkCell o (fq o) 0 1) + q * 2 ^ 58 /\
  layout (mkCell o (fq o) 0 1) = 5 * o * 2 ^ 58 + 2 ^ 56.
Proof.
  intros Ho Hq. pose proof (fq_range o Ho) as Hfq. unfold layout, code; projs.
  change (1 =? -1) with false. change (1 =? 0) with false. change (1 =? 1) with true. cbv iota.
  assert (E1 : ((fq o + q) mod 5 + 5 - fq o) mod 5 = q) by lia.
  assert (E2 : (fq o + 5 - fq o) mod 5 = 0) by lia.
  rewrite E1, E2. split; ring.
Qed.

(* every resolution-1 cell of a face is one of these five *)
Lemma quintant_code c :
  canon c -> resolution c = 1 ->
  layout c = code c * 2 ^ 58 + 2 ^ 56 /\ 5 * origin_id c <= code c < 5 * origin_id c + 5.
Proof.
  destruct c as [o sg sv r]. unfold canon, layout, code; projs.
  intros (Hr & Hw & Ho & H0 & H1 & H1' & H2) ->. split; [reflexivity|]. lia.
Qed.

(* the 12 base cells are 2^58 apart *)
Theorem base_stride o :
  layout (mkCell o 0 0 0) = layout (mkCell 0 0 0 0) + o * 2 ^ 58 /\
  layout (mkCell 0 0 0 0) = 2 ^ 57.
Proof. unfold layout; projs. change (0 =? -1) with false. change (0 =? 0) with true. cbv iota. lia. Qed.

(* ---------- the documented exception: base-cell IDs interleave with resolution-1 IDs *)
Example base_cells_interleave_example :
  canon (mkCell 0 0 0 1) /\ canon (mkCell 1 0 0 0) /\ canon (mkCell 0 1 0 1) /\
  layout (mkCell 0 0 0 1) < layout (mkCell 1 0 0 0) < layout (mkCell 0 1 0 1).
Proof.
  split; [unfold canon; projs; lia|]. split; [unfold canon; projs; lia|]. split; [unfold canon; projs; lia|].
  vm_compute. split; reflexivity.
Qed.
