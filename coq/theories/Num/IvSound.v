(* Soundness of the interval instance with respect to the real instance:
   every operation of [IvInst] returns an enclosure of the result of the same operation of
   [RInst]; every decision that [IvInst] answers is the decision [RInst] takes.
   Part 1: the fields of the record.  Part 2: generic lifting machinery (pairs, options,
   lists) and the walking tactic.  Part 3: the derived functions of Num/Derived.v. *)
From Coq Require Import ZArith Reals List Lra Lia Bool.
From Flocq Require Import Core.
From Interval Require Import Specific_bigint Specific_ops Float_full Xreal Basic Interval
  Generic Generic_proof.
From A5 Require Import Num.NumOps Num.IvInst Num.Derived.
Import ListNotations.
Open Scope R_scope.

(* ------------------------------------------------------------------ 1. the relation *)

Definition encl (i : iv) (x : R) : Prop := contains (I.convert i) (Xreal x).

Definition sound_opt {A B} (rel : A -> B -> Prop) (oi : option A) (orr : option B) : Prop :=
  forall a, oi = Some a -> exists b, orr = Some b /\ rel a b.

Definition rprod {A B A' B'} (RA : A -> A' -> Prop) (RB : B -> B' -> Prop)
  (p : A * B) (q : A' * B') : Prop := RA (fst p) (fst q) /\ RB (snd p) (snd q).

Definition encl2 : iv * iv -> R * R -> Prop := rprod encl encl.
Definition encl3 : iv * iv * iv -> R * R * R -> Prop := rprod encl2 encl.
Definition encl4 : iv * iv * iv * iv -> R * R * R * R -> Prop := rprod encl3 encl.

(* triples of points / of vectors (triangles) *)
Definition tri2 : (iv * iv) * (iv * iv) * (iv * iv) -> (R * R) * (R * R) * (R * R) -> Prop :=
  rprod (rprod encl2 encl2) encl2.
Definition tri3 : (iv * iv * iv) * (iv * iv * iv) * (iv * iv * iv) ->
                  (R * R * R) * (R * R * R) * (R * R * R) -> Prop :=
  rprod (rprod encl3 encl3) encl3.

Lemma contains_Xnan (c : interval) (v : ExtendedR) : contains c Xnan -> contains c v.
Proof. destruct c as [|l u]; simpl; [trivial | intros Hf; destruct Hf]. Qed.

Lemma encl_Inan (x : R) : encl Float.Inan x.
Proof. exact I. Qed.

Lemma convert_bnd (l u : F.type) : I.convert (Float.Ibnd l u) = Ibnd (F.toX l) (F.toX u).
Proof. reflexivity. Qed.

(* ------------------------------------------------------------------ 2. the fields *)

Lemma ofZ_sound (z : Z) : encl (o_ofZ IvInst z) (o_ofZ RInst z).
Proof. exact (I.fromZ_correct prec z). Qed.

Lemma bpow2_dy (e : Z) :
  bpow radix2 e = if (0 <=? e)%Z then IZR (2 ^ e) else / IZR (2 ^ (- e)).
Proof.
  destruct (Z.leb_spec 0 e) as [He|He].
  - symmetry. exact (IZR_Zpower radix2 e He).
  - replace e with (- (- e))%Z at 1 by lia.
    rewrite bpow_opp. f_equal. symmetry. apply (IZR_Zpower radix2 (- e)). lia.
Qed.

Lemma ofdy_toX (m e : Z) :
  F.toX (F.scale2 (F.fromZ m) (F.ZtoS e)) = Xreal (dy2R (m, e)).
Proof.
  rewrite F.scale2_correct by reflexivity.
  rewrite F.fromZ_correct'.
  unfold F.StoZ, F.ZtoS, BigIntRadix2.EtoZ, BigIntRadix2.ZtoE.
  rewrite BigZ.BigZ.spec_of_Z.
  simpl Xmul. unfold dy2R. rewrite bpow2_dy.
  destruct (0 <=? e)%Z; reflexivity.
Qed.

Lemma ofdy_sound (d : Z * Z) : encl (o_ofdy IvInst d) (o_ofdy RInst d).
Proof.
  destruct d as [m e]. unfold encl. change (o_ofdy RInst (m, e)) with (dy2R (m, e)).
  change (o_ofdy IvInst (m, e)) with
    (Float.Ibnd (F.scale2 (F.fromZ m) (F.ZtoS e)) (F.scale2 (F.fromZ m) (F.ZtoS e))).
  rewrite convert_bnd, ofdy_toX. simpl. lra.
Qed.

Lemma add_sound a b x y : encl a x -> encl b y -> encl (o_add IvInst a b) (o_add RInst x y).
Proof. intros Ha Hb. exact (I.add_correct prec a b (Xreal x) (Xreal y) Ha Hb). Qed.

Lemma sub_sound a b x y : encl a x -> encl b y -> encl (o_sub IvInst a b) (o_sub RInst x y).
Proof. intros Ha Hb. exact (I.sub_correct prec a b (Xreal x) (Xreal y) Ha Hb). Qed.

Lemma mul_sound a b x y : encl a x -> encl b y -> encl (o_mul IvInst a b) (o_mul RInst x y).
Proof. intros Ha Hb. exact (I.mul_correct prec a b (Xreal x) (Xreal y) Ha Hb). Qed.

(* division: Interval's statement is about [Xdiv], which is [Xnan] for a zero divisor; an
   interval containing [Xnan] is [Inan], which contains every real, in particular the value
   [x / 0] of the real model *)
Lemma div_sound a b x y : encl a x -> encl b y -> encl (o_div IvInst a b) (o_div RInst x y).
Proof.
  intros Ha Hb.
  pose proof (I.div_correct prec a b (Xreal x) (Xreal y) Ha Hb) as H.
  change (Xdiv (Xreal x) (Xreal y)) with (Xdiv' x y) in H. unfold Xdiv' in H.
  change (contains (I.convert (I.div prec a b)) (Xreal (x / y))).
  destruct (is_zero y); [apply contains_Xnan; exact H | exact H].
Qed.

Lemma neg_sound a x : encl a x -> encl (o_neg IvInst a) (o_neg RInst x).
Proof. intros Ha. exact (I.neg_correct a (Xreal x) Ha). Qed.

Lemma abs_sound a x : encl a x -> encl (o_abs IvInst a) (o_abs RInst x).
Proof. intros Ha. exact (I.abs_correct a (Xreal x) Ha). Qed.

Lemma sqrt_sound a x : encl a x -> encl (o_sqrt IvInst a) (o_sqrt RInst x).
Proof. intros Ha. exact (I.sqrt_correct prec a (Xreal x) Ha). Qed.

Lemma sin_sound a x : encl a x -> encl (o_sin IvInst a) (o_sin RInst x).
Proof. intros Ha. exact (I.sin_correct prec a (Xreal x) Ha). Qed.

Lemma cos_sound a x : encl a x -> encl (o_cos IvInst a) (o_cos RInst x).
Proof. intros Ha. exact (I.cos_correct prec a (Xreal x) Ha). Qed.

Lemma tan_sound a x : encl a x -> encl (o_tan IvInst a) (o_tan RInst x).
Proof.
  intros Ha.
  pose proof (I.tan_correct prec a (Xreal x) Ha) as H.
  change (Xtan (Xreal x)) with (Xtan' x) in H. unfold Xtan' in H.
  change (contains (I.convert (I.tan prec a)) (Xreal (tan x))).
  destruct (is_zero (cos x)); [apply contains_Xnan; exact H | exact H].
Qed.

Lemma atan_sound a x : encl a x -> encl (o_atan IvInst a) (o_atan RInst x).
Proof. intros Ha. exact (I.atan_correct prec a (Xreal x) Ha). Qed.

Lemma pi_sound : encl (o_pi IvInst) (o_pi RInst).
Proof. exact (I.pi_correct prec). Qed.

(* comparison *)
Lemma iv_ltb_sound a b x y c :
  iv_ltb a b = Some c -> encl a x -> encl b y -> Rltb x y = c.
Proof.
  intros Hc Ha Hb. unfold iv_ltb in Hc.
  pose proof (I.sub_correct prec a b (Xreal x) (Xreal y) Ha Hb) as Hs.
  change (Xsub (Xreal x) (Xreal y)) with (Xreal (x - y)) in Hs.
  pose proof (I.sign_strict_correct (I.sub prec a b)) as Hg.
  destruct (I.sign_strict (I.sub prec a b)).
  - injection Hc as <-. specialize (Hg _ Hs). injection Hg as Hg.
    apply Rltb_false. lra.
  - injection Hc as <-. destruct (Hg _ Hs) as [_ Hlt]. simpl in Hlt.
    apply Rltb_true. lra.
  - injection Hc as <-. destruct (Hg _ Hs) as [_ Hlt]. simpl in Hlt.
    apply Rltb_false. lra.
  - discriminate Hc.
Qed.

Lemma ltb_sound a b x y c :
  o_ltb IvInst a b = Some c -> encl a x -> encl b y -> o_ltb RInst x y = Some c.
Proof.
  intros Hc Ha Hb. change (o_ltb RInst x y) with (Some (Rltb x y)).
  f_equal. exact (iv_ltb_sound a b x y c Hc Ha Hb).
Qed.

(* floor *)
Lemma Rfloor_spec (x : R) (z : Z) : IZR z <= x < IZR z + 1 -> Rfloor x = z.
Proof.
  intros [Hl Hu]. unfold Rfloor.
  assert (Hup : (z + 1)%Z = up x).
  { apply up_tech; [exact Hl | rewrite plus_IZR; exact Hu]. }
  lia.
Qed.

Lemma Rfloor_bounds (x : R) : IZR (Rfloor x) <= x < IZR (Rfloor x) + 1.
Proof.
  unfold Rfloor. rewrite minus_IZR. destruct (archimed x) as [H1 H2]. lra.
Qed.

Lemma pow2_pos_IZR (k : Z) : (0 <= k)%Z -> 0 < IZR (2 ^ k).
Proof. intros Hk. apply IZR_lt. apply Z.pow_pos_nonneg; lia. Qed.

Lemma floor_float_spec (f : float F.radix) (z : Z) :
  floor_float f = Some z -> exists r, FtoX f = Xreal r /\ IZR z <= r < IZR z + 1.
Proof.
  destruct f as [| |s m e]; cbv beta iota zeta delta [floor_float].
  - discriminate.
  - intros Hz. injection Hz as <-. exists 0. split; [reflexivity | simpl; lra].
  - intros Hz.
    apply (f_equal (fun o => match o with Some v => v | None => 0%Z end)) in Hz.
    cbv beta iota in Hz. subst z.
    exists (FtoR F.radix s m e). split; [reflexivity|].
    rewrite FtoR_split. unfold F2R. cbv beta iota delta [Fnum Fexp].
    change F.radix with radix2. rewrite bpow2_dy.
    change (Z.neg m) with (- Z.pos m)%Z.
    assert (HP : (0 < Z.pos m)%Z) by lia.
    generalize dependent (Z.pos m). intros P HP.
    destruct (Z.leb_spec 0 e) as [He|He].
    + (* integer value *)
      destruct s; cbv beta iota delta [SpecFloat.cond_Zopp];
        rewrite ?opp_IZR, ?mult_IZR; rewrite ?opp_IZR; lra.
    + cbv beta iota. set (D := (2 ^ (- e))%Z).
      assert (HD : (0 < D)%Z) by (apply Z.pow_pos_nonneg; lia).
      pose proof (Z.div_mod P D ltac:(lia)) as Hdm.
      pose proof (Z.mod_pos_bound P D HD) as Hmb.
      set (q := (P / D)%Z) in *. set (rm := (P mod D)%Z) in *.
      assert (HDr : 0 < IZR D) by (apply IZR_lt; exact HD).
      assert (Hm : IZR P = IZR D * IZR q + IZR rm).
      { rewrite Hdm at 1. rewrite plus_IZR, mult_IZR. reflexivity. }
      assert (Hr0 : 0 <= IZR rm) by (apply IZR_le; lia).
      assert (Hr1 : IZR rm <= IZR D - 1) by (rewrite <- minus_IZR; apply IZR_le; lia).
      assert (Hq : IZR P * / IZR D = IZR q + IZR rm * / IZR D).
      { rewrite Hm. field. lra. }
      assert (Ht : 0 < / IZR D) by (apply Rinv_0_lt_compat; exact HDr).
      assert (Ht1 : IZR D * / IZR D = 1) by (apply Rinv_r; lra).
      destruct s; cbv beta iota delta [SpecFloat.cond_Zopp].
      * rewrite opp_IZR.
        destruct (Z.eqb_spec rm 0) as [Hz|Hz].
        -- rewrite opp_IZR. rewrite Ropp_mult_distr_l_reverse, Hq.
           rewrite Hz. lra.
        -- rewrite minus_IZR, opp_IZR. rewrite Ropp_mult_distr_l_reverse, Hq.
           assert (Hr2 : 1 <= IZR rm) by (apply IZR_le; lia).
           nra.
      * rewrite Hq. nra.
Qed.

Lemma iv_floor_sound a x z : iv_floor a = Some z -> encl a x -> Rfloor x = z.
Proof.
  intros Hz Ha. destruct a as [|l u]; [discriminate Hz|].
  unfold iv_floor in Hz.
  destruct (floor_float (F.toF l)) as [zl|] eqn:El; [|discriminate Hz].
  destruct (floor_float (F.toF u)) as [zu|] eqn:Eu; [|discriminate Hz].
  destruct (Z.eqb_spec zl zu) as [Heq|Hne]; [|discriminate Hz].
  injection Hz as <-. subst zu.
  destruct (floor_float_spec _ _ El) as [rl [Hl Hlb]].
  destruct (floor_float_spec _ _ Eu) as [ru [Hu Hub]].
  unfold encl in Ha. rewrite convert_bnd in Ha. unfold F.toX in Ha.
  rewrite Hl, Hu in Ha. simpl in Ha.
  apply Rfloor_spec. lra.
Qed.

Lemma floor_sound a x z :
  o_floor IvInst a = Some z -> encl a x -> o_floor RInst x = Some z.
Proof.
  intros Hz Ha. change (o_floor RInst x) with (Some (Rfloor x)).
  f_equal. exact (iv_floor_sound a x z Hz Ha).
Qed.

(* ------------------------------------------------------------------ 2b. a completeness fact
   The comparison is decided whenever the enclosures are separated: needed for [clamp1], whose
   undecided branch returns its argument unclamped. *)

Lemma round_UP_neg (p : positive) (x : R) : x < 0 -> Basic.round radix2 rnd_UP p x < 0.
Proof.
  intros Hx. unfold Basic.round. cbn [rnd_of_mode].
  assert (Hp : Prec_gt_0 (Z.pos p)) by reflexivity.
  assert (Hle : Generic_fmt.round radix2 (FLX_exp (Z.pos p)) Zceil x <= 0).
  { rewrite <- (round_0 radix2 (FLX_exp (Z.pos p)) Zceil).
    apply round_le; [apply FLX_exp_valid; exact Hp | apply valid_rnd_UP | lra]. }
  assert (Hne : Generic_fmt.round radix2 (FLX_exp (Z.pos p)) Zceil x <> 0).
  { apply round_neq_0_negligible_exp;
      [apply FLX_exp_valid; exact Hp | apply negligible_exp_FLX; exact Hp
      | apply valid_rnd_UP | lra]. }
  lra.
Qed.

Lemma sub_UP_neg (p : F.precision) (u v : F.type) (ru rv : R) :
  F.toX u = Xreal ru -> F.toX v = Xreal rv -> ru < rv ->
  F.cmp (F.sub_UP p u v) F.zero = Xlt.
Proof.
  intros Hu Hv Hlt.
  assert (Hx : F.toX (F.sub_UP p u v) = Xreal (Basic.round radix2 rnd_UP (F.prec p) (ru - rv))).
  { unfold F.sub_UP, F.add_UP. rewrite F.add_slow_correct.
    rewrite I.F'.neg_correct, Hu, Hv. reflexivity. }
  rewrite F.cmp_correct.
  destruct (F.sub_UP p u v) as [|mm ee] eqn:E.
  - discriminate Hx.
  - cbn [F.classify]. rewrite Hx, F.zero_correct. cbn [Xcmp].
    rewrite Rcompare_Lt; [reflexivity | apply round_UP_neg; lra].
Qed.

Lemma iv_ltb_separated (l u l' u' : F.type) (ru rl' : R) :
  F.toX u = Xreal ru -> F.toX l' = Xreal rl' -> ru < rl' ->
  iv_ltb (Float.Ibnd l u) (Float.Ibnd l' u') = Some true.
Proof.
  intros Hu Hl Hlt. unfold iv_ltb.
  change (I.sub prec (Float.Ibnd l u) (Float.Ibnd l' u'))
    with (Float.Ibnd (F.sub_DN prec l u') (F.sub_UP prec u l')).
  cbn [I.sign_strict]. unfold I.sign_strict_.
  change I.F.cmp with F.cmp. change I.F.zero with F.zero.
  rewrite (sub_UP_neg prec u l' ru rl' Hu Hl Hlt).
  destruct (F.cmp (F.sub_DN prec l u') F.zero); reflexivity.
Qed.

Lemma ofZ_point (z : Z) :
  exists f, o_ofZ IvInst z = Float.Ibnd f f /\ F.toX f = Xreal (IZR z).
Proof. exists (F.fromZ z). split; [reflexivity | apply F.fromZ_correct']. Qed.

(* x in a, x < z, and "a < z" not answered true: then z in a *)
Lemma undecided_lt_encl a x z :
  encl a x -> x < IZR z -> o_ltb IvInst a (o_ofZ IvInst z) <> Some true -> encl a (IZR z).
Proof.
  intros Ha Hx Hn. destruct a as [|l u]; [exact I|].
  destruct (ofZ_point z) as [f [Hf Hfx]]. rewrite Hf in Hn.
  unfold encl in *. rewrite convert_bnd in *.
  destruct (F.toX u) as [|ru] eqn:Eu; destruct (F.toX l) as [|rl] eqn:El;
    cbn [contains] in *.
  - split; exact I.
  - split; [lra | exact I].
  - split; [exact I|].
    destruct (Rle_or_lt (IZR z) ru) as [Hle|Hlt]; [exact Hle|].
    exfalso. apply Hn. exact (iv_ltb_separated l u f f ru (IZR z) Eu Hfx Hlt).
  - split; [lra|].
    destruct (Rle_or_lt (IZR z) ru) as [Hle|Hlt]; [exact Hle|].
    exfalso. apply Hn. exact (iv_ltb_separated l u f f ru (IZR z) Eu Hfx Hlt).
Qed.

Lemma undecided_gt_encl a x z :
  encl a x -> IZR z < x -> o_ltb IvInst (o_ofZ IvInst z) a <> Some true -> encl a (IZR z).
Proof.
  intros Ha Hx Hn. destruct a as [|l u]; [exact I|].
  destruct (ofZ_point z) as [f [Hf Hfx]]. rewrite Hf in Hn.
  unfold encl in *. rewrite convert_bnd in *.
  destruct (F.toX u) as [|ru] eqn:Eu; destruct (F.toX l) as [|rl] eqn:El;
    cbn [contains] in *.
  - split; exact I.
  - split; [|exact I].
    destruct (Rle_or_lt rl (IZR z)) as [Hle|Hlt]; [exact Hle|].
    exfalso. apply Hn. exact (iv_ltb_separated f f l u (IZR z) rl Hfx El Hlt).
  - split; [exact I|lra].
  - split; [|lra].
    destruct (Rle_or_lt rl (IZR z)) as [Hle|Hlt]; [exact Hle|].
    exfalso. apply Hn. exact (iv_ltb_separated f f l u (IZR z) rl Hfx El Hlt).
Qed.

(* ------------------------------------------------------------------ 3. generic lifting *)

Lemma sound_opt_Some {A B} (rel : A -> B -> Prop) a b :
  rel a b -> sound_opt rel (Some a) (Some b).
Proof. intros Hab a' Ha'. injection Ha' as <-. exists b. split; [reflexivity | exact Hab]. Qed.

Lemma sound_opt_None {A B} (rel : A -> B -> Prop) orr : sound_opt rel None orr.
Proof. intros a Ha. discriminate Ha. Qed.

Lemma sound_opt_bind {A B A' B'} (RA : A -> A' -> Prop) (RB : B -> B' -> Prop)
  (oi : option A) (orr : option A') (f : A -> option B) (g : A' -> option B') :
  sound_opt RA oi orr ->
  (forall a b, RA a b -> sound_opt RB (f a) (g b)) ->
  sound_opt RB (Derived.obind oi f) (Derived.obind orr g).
Proof.
  intros Ho Hf r Hr. destruct oi as [a|]; [|discriminate Hr].
  destruct (Ho a eq_refl) as [b [Hb Hab]]. subst orr. cbn [Derived.obind] in *.
  exact (Hf a b Hab r Hr).
Qed.

Lemma sound_opt_map {A B A' B'} (RA : A -> A' -> Prop) (RB : B -> B' -> Prop)
  (oi : option A) (orr : option A') (f : A -> B) (g : A' -> B') :
  sound_opt RA oi orr ->
  (forall a b, RA a b -> RB (f a) (g b)) ->
  sound_opt RB (option_map f oi) (option_map g orr).
Proof.
  intros Ho Hf r Hr. destruct oi as [a|]; [|discriminate Hr].
  destruct (Ho a eq_refl) as [b [Hb Hab]]. subst orr. cbn [option_map] in *.
  injection Hr as <-. exists (g b). split; [reflexivity | exact (Hf a b Hab)].
Qed.

Lemma sound_opt_weaken {A B} (R1 R2 : A -> B -> Prop) oi orr :
  (forall a b, R1 a b -> R2 a b) -> sound_opt R1 oi orr -> sound_opt R2 oi orr.
Proof.
  intros Hw Ho a Ha. destruct (Ho a Ha) as [b [Hb Hab]]. exists b. split; [exact Hb | exact (Hw a b Hab)].
Qed.

Lemma ltb_sound_opt a b x y :
  encl a x -> encl b y -> sound_opt eq (o_ltb IvInst a b) (o_ltb RInst x y).
Proof.
  intros Ha Hb c Hc. exists c. split; [exact (ltb_sound a b x y c Hc Ha Hb) | reflexivity].
Qed.

Lemma floor_sound_opt a x :
  encl a x -> sound_opt eq (o_floor IvInst a) (o_floor RInst x).
Proof.
  intros Ha z Hz. exists z. split; [exact (floor_sound a x z Hz Ha) | reflexivity].
Qed.

Lemma RInst_ltb_true x y : o_ltb RInst x y = Some true -> x < y.
Proof. intros H. injection H as H. apply Rltb_true. exact H. Qed.
Lemma RInst_ltb_false x y : o_ltb RInst x y = Some false -> y <= x.
Proof. intros H. injection H as H. apply Rltb_false. exact H. Qed.

(* lists *)
Lemma Forall2_map2 {A B A' B'} (RA : A -> A' -> Prop) (RB : B -> B' -> Prop)
  (f : A -> B) (g : A' -> B') l l' :
  (forall a b, RA a b -> RB (f a) (g b)) -> Forall2 RA l l' -> Forall2 RB (map f l) (map g l').
Proof. intros Hf Hl. induction Hl as [|a b l l' Hab Hl IH]; cbn [map]; constructor; auto. Qed.

Lemma Forall2_map_same {C B B'} (RB : B -> B' -> Prop) (f : C -> B) (g : C -> B') l :
  (forall c, RB (f c) (g c)) -> Forall2 RB (map f l) (map g l).
Proof. intros Hf. induction l as [|c l IH]; cbn [map]; constructor; auto. Qed.

Lemma Forall2_rev {A A'} (RA : A -> A' -> Prop) l l' :
  Forall2 RA l l' -> Forall2 RA (rev l) (rev l').
Proof.
  intros Hl. induction Hl as [|a b l l' Hab Hl IH]; cbn [rev]; [constructor|].
  apply Forall2_app; [exact IH | constructor; [exact Hab | constructor]].
Qed.

Lemma Forall2_length {A A'} (RA : A -> A' -> Prop) l l' :
  Forall2 RA l l' -> length l = length l'.
Proof. intros Hl. induction Hl as [|a b l l' Hab Hl IH]; cbn [length]; [reflexivity | f_equal; exact IH]. Qed.

Lemma Forall2_nth {A A'} (RA : A -> A' -> Prop) l l' n d d' :
  Forall2 RA l l' -> RA d d' -> RA (nth n l d) (nth n l' d').
Proof.
  intros Hl Hd. revert n. induction Hl as [|a b l l' Hab Hl IH]; intros [|n]; cbn [nth]; auto.
Qed.

Lemma Forall2_firstn {A A'} (RA : A -> A' -> Prop) l l' n :
  Forall2 RA l l' -> Forall2 RA (firstn n l) (firstn n l').
Proof.
  intros Hl. revert n. induction Hl as [|a b l l' Hab Hl IH]; intros [|n]; cbn [firstn];
    constructor; auto.
Qed.

Lemma fold_left_rel {A A' B B'} (RA : A -> A' -> Prop) (RB : B -> B' -> Prop)
  (f : A -> B -> A) (g : A' -> B' -> A') l l' a a' :
  (forall x x' y y', RA x x' -> RB y y' -> RA (f x y) (g x' y')) ->
  Forall2 RB l l' -> RA a a' -> RA (fold_left f l a) (fold_left g l' a').
Proof.
  intros Hf Hl. revert a a'. induction Hl as [|y y' l l' Hy Hl IH]; intros a a' Ha; cbn [fold_left];
    [exact Ha | apply IH; apply Hf; assumption].
Qed.

(* ------------------------------------------------------------------ 4. the walking tactic *)

Lemma encl_fst p q : encl2 p q -> encl (fst p) (fst q).
Proof. intros H. exact (proj1 H). Qed.
Lemma encl_snd p q : encl2 p q -> encl (snd p) (snd q).
Proof. intros H. exact (proj2 H). Qed.

Ltac dprod1 :=
  match goal with
  | H : rprod _ _ ?p _ |- _ => is_var p; destruct p
  | H : rprod _ _ _ ?q |- _ => is_var q; destruct q
  | H : encl2 _ _ |- _ => unfold encl2 in H
  | H : encl3 _ _ |- _ => unfold encl3, encl2 in H
  | H : encl4 _ _ |- _ => unfold encl4, encl3, encl2 in H
  | H : tri2 _ _ |- _ => unfold tri2, encl2 in H
  | H : tri3 _ _ |- _ => unfold tri3, encl3, encl2 in H
  | H : rprod _ _ (_, _) (_, _) |- _ =>
      let H1 := fresh "He" in let H2 := fresh "He" in
      destruct H as [H1 H2]; cbv beta iota delta [fst snd] in H1, H2
  end.
Ltac dprod := repeat dprod1.

(* user-extensible: soundness lemmas of already treated functions *)
Ltac snd_user := fail.

Ltac ltb_split a b x y :=
  let E := fresh "Ei" in let Er := fresh "Er" in
  destruct (o_ltb IvInst a b) as [[|]|] eqn:E;
  [ assert (Er : o_ltb RInst x y = Some true);
    [ eapply ltb_sound; [exact E | | ] | rewrite Er ]
  | assert (Er : o_ltb RInst x y = Some false);
    [ eapply ltb_sound; [exact E | | ] | rewrite Er ]
  | ].

Ltac snd_step :=
  match goal with
  | H : rprod _ _ _ _ |- _ => progress (dprod; cbv beta iota)
  | H : encl2 _ _ |- _ => progress (dprod; cbv beta iota)
  | H : encl3 _ _ |- _ => progress (dprod; cbv beta iota)
  | H : encl4 _ _ |- _ => progress (dprod; cbv beta iota)
  | H : tri2 _ _ |- _ => progress (dprod; cbv beta iota)
  | H : tri3 _ _ |- _ => progress (dprod; cbv beta iota)
  | H : @eq bool ?a ?b |- _ => is_var a; is_var b; subst a
  | H : @eq Z ?a ?b |- _ => is_var a; is_var b; subst a
  | |- _ => snd_user
  | |- encl (o_add IvInst _ _) (o_add RInst _ _) => apply add_sound
  | |- encl (o_sub IvInst _ _) (o_sub RInst _ _) => apply sub_sound
  | |- encl (o_mul IvInst _ _) (o_mul RInst _ _) => apply mul_sound
  | |- encl (o_div IvInst _ _) (o_div RInst _ _) => apply div_sound
  | |- encl (o_neg IvInst _) (o_neg RInst _) => apply neg_sound
  | |- encl (o_abs IvInst _) (o_abs RInst _) => apply abs_sound
  | |- encl (o_sqrt IvInst _) (o_sqrt RInst _) => apply sqrt_sound
  | |- encl (o_sin IvInst _) (o_sin RInst _) => apply sin_sound
  | |- encl (o_cos IvInst _) (o_cos RInst _) => apply cos_sound
  | |- encl (o_tan IvInst _) (o_tan RInst _) => apply tan_sound
  | |- encl (o_atan IvInst _) (o_atan RInst _) => apply atan_sound
  | |- encl (o_ofZ IvInst _) (o_ofZ RInst _) => apply ofZ_sound
  | |- encl (o_ofdy IvInst _) (o_ofdy RInst _) => apply ofdy_sound
  | |- encl (o_pi IvInst) (o_pi RInst) => exact pi_sound
  | H : encl ?a ?b |- encl ?c ?d => constr_eq a c; constr_eq b d; exact H
  | |- encl2 _ _ => unfold encl2
  | |- encl3 _ _ => unfold encl3, encl2
  | |- encl4 _ _ => unfold encl4, encl3, encl2
  | |- tri2 _ _ => unfold tri2
  | |- tri3 _ _ => unfold tri3
  | |- rprod ?RA ?RB (?a, ?b) (?x, ?y) => split; [change (RA a x) | change (RB b y)]
  | |- encl (fst _) (fst _) => apply encl_fst
  | |- encl (snd _) (snd _) => apply encl_snd
  | |- @eq _ _ _ => reflexivity
  | |- sound_opt _ (Some _) (Some _) => apply sound_opt_Some
  | |- sound_opt _ None _ => apply sound_opt_None
  | |- sound_opt _ (o_ltb IvInst _ _) (o_ltb RInst _ _) => apply ltb_sound_opt
  | |- sound_opt _ (o_floor IvInst _) (o_floor RInst _) => apply floor_sound_opt
  | |- sound_opt _ (Derived.obind _ _) (Derived.obind _ _) =>
      eapply sound_opt_bind; [ | intros ? ? ? ]
  | |- sound_opt _ (option_map _ _) (option_map _ _) =>
      eapply sound_opt_map; [ | intros ? ? ? ]
  | |- sound_opt _ (match o_ltb IvInst ?a ?b with _ => _ end)
                   (match o_ltb RInst ?x ?y with _ => _ end) => ltb_split a b x y
  | |- sound_opt _ (if ?c then _ else _) (if ?c then _ else _) => destruct c
  | |- _ (if ?c then _ else _) (if ?c then _ else _) => destruct c
  end.

Ltac snd := repeat snd_step.

(* ------------------------------------------------------------------ 5. Derived.v *)

Lemma half_pi_sound : encl (half_pi IvInst) (half_pi RInst).
Proof. unfold half_pi. snd. Qed.

(* never let [exact]/[assumption] compare closed interval terms by conversion (it would
   evaluate them): every extension of [snd_user] is guarded by a syntactic goal pattern *)
Ltac snd_user ::=
  match goal with
  | |- encl (half_pi IvInst) (half_pi RInst) => exact half_pi_sound
  end.

Lemma half_pi_R : half_pi RInst = PI / 2.
Proof. reflexivity. Qed.

Lemma atan_inv_neg (t : R) : t < 0 -> atan (/ t) = - PI / 2 - atan t.
Proof.
  intros Ht. assert (Hs : 0 < - t) by lra.
  pose proof (atan_inv (- t) Hs) as Hi.
  assert (H1 : / t = - / (- t)) by (field; lra).
  rewrite H1, atan_opp, Hi, atan_opp. lra.
Qed.

Lemma div_inv_div (x y : R) : x <> 0 -> y <> 0 -> y / x = / (x / y).
Proof. intros Hx Hy. field. split; assumption. Qed.

Lemma encl_eq i r r' : encl i r -> r = r' -> encl i r'.
Proof. intros H <-. exact H. Qed.

Lemma atan_q1 x y : 0 < x -> 0 < y -> atan (y / x) = PI / 2 - atan (x / y).
Proof.
  intros Hx Hy. rewrite (div_inv_div x y) by lra. apply atan_inv.
  apply Rdiv_lt_0_compat; assumption.
Qed.
Lemma atan_q3 x y : x < 0 -> y < 0 -> atan (y / x) = PI / 2 - atan (x / y).
Proof.
  intros Hx Hy. replace (y / x) with ((- y) / (- x)) by (field; lra).
  replace (x / y) with ((- x) / (- y)) by (field; lra). apply atan_q1; lra.
Qed.
Lemma atan_q4 x y : 0 < x -> y < 0 -> atan (y / x) = - PI / 2 - atan (x / y).
Proof.
  intros Hx Hy. replace (y / x) with (- ((- y) / x)) by (field; lra).
  replace (x / y) with (- (x / (- y))) by (field; lra).
  rewrite !atan_opp, (atan_q1 x (- y)) by lra. lra.
Qed.
Lemma atan_q2 x y : x < 0 -> 0 < y -> atan (y / x) = - PI / 2 - atan (x / y).
Proof.
  intros Hx Hy. replace (y / x) with (- (y / (- x))) by (field; lra).
  replace (x / y) with (- ((- x) / y)) by (field; lra).
  rewrite !atan_opp, (atan_q1 (- x) y) by lra. lra.
Qed.

Lemma Some_inj {A} (a b : A) : Some a = Some b -> a = b.
Proof. intros H. injection H as H. exact H. Qed.


Ltac rltb_facts :=
  repeat match goal with
  | H : Rltb _ _ = true |- _ => apply Rltb_true in H
  | H : Rltb _ _ = false |- _ => apply Rltb_false in H
  end.

Ltac abs_contra y x :=
  exfalso; unfold Rabs in *; destruct (Rcase_abs y); destruct (Rcase_abs x); lra.

Lemma atan2_sound yi xi y x :
  encl yi y -> encl xi x -> sound_opt encl (atan2 IvInst yi xi) (atan2 RInst y x).
Proof.
  intros Hy Hx.
  assert (H0 : encl (o_ofZ IvInst 0) 0) by apply ofZ_sound.
  assert (Hay : encl (o_abs IvInst yi) (Rabs y)) by (apply abs_sound; exact Hy).
  assert (Hax : encl (o_abs IvInst xi) (Rabs x)) by (apply abs_sound; exact Hx).
  pose proof (fun c E => iv_ltb_sound _ _ _ _ c E Hay Hax) as DA.
  pose proof (fun c E => iv_ltb_sound _ _ _ _ c E H0 Hy) as D0y.
  pose proof (fun c E => iv_ltb_sound _ _ _ _ c E Hy H0) as Dy0.
  pose proof (fun c E => iv_ltb_sound _ _ _ _ c E H0 Hx) as D0x.
  pose proof (fun c E => iv_ltb_sound _ _ _ _ c E Hx H0) as Dx0.
  unfold atan2.
  change (o_ltb RInst (o_abs RInst y) (o_abs RInst x)) with (Some (Rltb (Rabs y) (Rabs x))).
  change (o_ltb RInst (o_ofZ RInst 0) y) with (Some (Rltb 0 y)).
  change (o_ltb RInst y (o_ofZ RInst 0)) with (Some (Rltb y 0)).
  change (o_ltb RInst (o_ofZ RInst 0) x) with (Some (Rltb 0 x)).
  change (o_ltb RInst x (o_ofZ RInst 0)) with (Some (Rltb x 0)).
  cbv beta iota.
  intros a.
  change (o_ltb IvInst) with iv_ltb.
  repeat match goal with
  | |- context[iv_ltb ?p ?q] =>
      let E := fresh "E" in destruct (iv_ltb p q) as [[|]|] eqn:E
  end;
  (intros Ha;
   match type of Ha with
   | None = Some _ => discriminate Ha
   | Some _ = Some _ => apply Some_inj in Ha; subst a
   end);
  repeat match goal with
  | D : forall c : bool, Some ?v = Some c -> _ |- _ =>
      let F := fresh "F" in pose proof (D v eq_refl) as F; clear D
  end;
  repeat match goal with
  | H : Rltb ?p ?q = _ |- context[Rltb ?p ?q] => rewrite H
  end; cbv beta iota;
  repeat match goal with
  | |- context[Rltb ?p ?q] => destruct (Rltb p q) eqn:?; cbv beta iota
  end;
  rltb_facts;
  first
    [ solve [eexists; split; [reflexivity|]; snd]
    | solve [eexists; split; [reflexivity|];
        match goal with
        | |- encl (o_atan IvInst _) _ => apply (encl_eq _ (o_atan RInst (o_div RInst y x)))
        | |- encl (o_sub IvInst (o_atan IvInst _) _) _ =>
            apply (encl_eq _ (o_sub RInst (o_atan RInst (o_div RInst y x)) (o_pi RInst)))
        | |- encl (o_add IvInst (o_atan IvInst _) _) _ =>
            apply (encl_eq _ (o_add RInst (o_atan RInst (o_div RInst y x)) (o_pi RInst)))
        end;
        [ snd
        | cbv [o_sub o_add o_neg o_atan o_div o_pi o_ofZ half_pi RInst];
          first [ rewrite (atan_q1 x y) by lra | rewrite (atan_q2 x y) by lra
                | rewrite (atan_q3 x y) by lra | rewrite (atan_q4 x y) by lra ]; lra ] ]
    | abs_contra y x ].
Qed.

Ltac snd_user ::=
  match goal with
  | |- encl (half_pi IvInst) (half_pi RInst) => exact half_pi_sound
  | |- sound_opt _ (atan2 IvInst _ _) (atan2 RInst _ _) => apply atan2_sound
  end.

Lemma acos_sound xi x : encl xi x -> sound_opt encl (acos IvInst xi) (acos RInst x).
Proof. intros Hx. unfold acos. snd. Qed.

Lemma asin_sound xi x : encl xi x -> sound_opt encl (asin IvInst xi) (asin RInst x).
Proof. intros Hx. unfold asin. snd. Qed.

Lemma round_sound xi x : encl xi x -> sound_opt eq (round IvInst xi) (round RInst x).
Proof.
  intros Hx. unfold round.
  destruct (o_ltb IvInst xi (o_ofZ IvInst 0)) as [[|]|] eqn:E.
  - rewrite (ltb_sound _ _ x (o_ofZ RInst 0) _ E) by snd. snd.
  - rewrite (ltb_sound _ _ x (o_ofZ RInst 0) _ E) by snd. snd.
  - intros a Ha.
    destruct (o_floor IvInst (o_add IvInst xi (o_div IvInst (o_ofZ IvInst 1) (o_ofZ IvInst 2))))
      as [[| |]|] eqn:F1; try discriminate Ha.
    destruct (o_floor IvInst (o_add IvInst (o_neg IvInst xi) (o_div IvInst (o_ofZ IvInst 1) (o_ofZ IvInst 2))))
      as [[| |]|] eqn:F2; try discriminate Ha.
    apply Some_inj in Ha. subst a.
    rewrite (floor_sound _ (o_add RInst x (o_div RInst (o_ofZ RInst 1) (o_ofZ RInst 2))) _ F1) by snd.
    rewrite (floor_sound _ (o_add RInst (o_neg RInst x) (o_div RInst (o_ofZ RInst 1) (o_ofZ RInst 2))) _ F2) by snd.
    exists 0%Z. split; [|reflexivity].
    change (o_ltb RInst x (o_ofZ RInst 0)) with (Some (Rltb x 0)).
    destruct (Rltb x 0); reflexivity.
Qed.

Lemma clamp1_sound xi x : encl xi x -> encl (clamp1 IvInst xi) (clamp1 RInst x).
Proof.
  intros Hx. unfold clamp1.
  change (o_ltb RInst x (o_ofZ RInst (-1))) with (Some (Rltb x (IZR (-1)))).
  change (o_ltb RInst (o_ofZ RInst 1) x) with (Some (Rltb (IZR 1) x)).
  change (o_ofZ RInst (-1)) with (IZR (-1)). change (o_ofZ RInst 1) with (IZR 1).
  pose proof (fun c E => iv_ltb_sound xi (o_ofZ IvInst (-1)) x (IZR (-1)) c E Hx (ofZ_sound (-1))) as D1.
  pose proof (fun c E => iv_ltb_sound (o_ofZ IvInst 1) xi (IZR 1) x c E (ofZ_sound 1) Hx) as D2.
  pose proof (undecided_lt_encl xi x (-1) Hx) as U1.
  pose proof (undecided_gt_encl xi x 1 Hx) as U2.
  change (o_ltb IvInst) with iv_ltb in *.
  destruct (iv_ltb xi (o_ofZ IvInst (-1))) as [[|]|] eqn:E1.
  - rewrite (D1 _ eq_refl). cbv beta iota. apply ofZ_sound.
  - rewrite (D1 _ eq_refl). cbv beta iota.
    destruct (iv_ltb (o_ofZ IvInst 1) xi) as [[|]|] eqn:E2.
    + rewrite (D2 _ eq_refl). apply ofZ_sound.
    + rewrite (D2 _ eq_refl). exact Hx.
    + destruct (Rltb 1 x) eqn:R2; [|exact Hx].
      apply Rltb_true in R2. apply U2; [exact R2 | discriminate].
  - destruct (iv_ltb (o_ofZ IvInst 1) xi) as [[|]|] eqn:E2.
    + pose proof (D2 _ eq_refl) as R2. rewrite R2. apply Rltb_true in R2.
      destruct (Rltb x (-1)) eqn:R1; [apply Rltb_true in R1; lra | apply ofZ_sound].
    + rewrite (D2 _ eq_refl).
      destruct (Rltb x (-1)) eqn:R1; [|exact Hx].
      apply Rltb_true in R1. apply U1; [exact R1 | discriminate].
    + destruct (Rltb x (-1)) eqn:R1.
      * apply Rltb_true in R1. apply U1; [exact R1 | discriminate].
      * destruct (Rltb 1 x) eqn:R2; [|exact Hx].
        apply Rltb_true in R2. apply U2; [exact R2 | discriminate].
Qed.

Ltac snd_num :=
  match goal with
  | |- encl (half_pi IvInst) (half_pi RInst) => exact half_pi_sound
  | |- sound_opt _ (atan2 IvInst _ _) (atan2 RInst _ _) => apply atan2_sound
  | |- sound_opt _ (acos IvInst _) (acos RInst _) => apply acos_sound
  | |- sound_opt _ (asin IvInst _) (asin RInst _) => apply asin_sound
  | |- sound_opt _ (round IvInst _) (round RInst _) => apply round_sound
  | |- encl (clamp1 IvInst _) (clamp1 RInst _) => apply clamp1_sound
  end.
Ltac snd_user ::= snd_num.

(* ------------------------------------------------------------------ assumptions *)
