(* Executable instance of [ops]: Coq-Interval's floating-point intervals (radix 2, big-integer
   mantissas, precision [prec] bits).  Every operation returns an interval that encloses the
   exact real result for all reals in the argument intervals (Interval's *_correct lemmas);
   decisions answer None when the enclosure straddles the decision. *)
From Coq Require Import ZArith Reals List.
From Interval Require Import Specific_bigint Specific_ops Float_full Xreal Basic Interval.
From A5 Require Import Num.NumOps.

Module F := SpecificFloat BigIntRadix2.
Module I := FloatIntervalFull F.

Definition iv : Type := I.type.
Definition prec : F.precision := F.PtoP 100.

Definition iv_ofZ (z : Z) : iv := I.fromZ prec z.
(* m * 2^e exactly: both bounds are the same representable number *)
Definition iv_ofdy (d : Z * Z) : iv :=
  let (m, e) := d in
  let x := F.scale2 (F.fromZ m) (F.ZtoS e) in I.bnd x x.

Definition iv_ltb (a b : iv) : option bool :=
  match I.sign_strict (I.sub prec a b) with
  | Xlt => Some true
  | Xgt => Some false
  | Xeq => Some false
  | Xund => None
  end.

(* floor of a float given as sign / mantissa / exponent *)
Definition floor_float (x : float F.radix) : option Z :=
  match x with
  | Fnan => None
  | Fzero => Some 0%Z
  | Float s m e =>
      let v := if (0 <=? e)%Z then (Zpos m * 2 ^ e)%Z else (Zpos m / 2 ^ (- e))%Z in
      let exact := if (0 <=? e)%Z then true else (Zpos m mod 2 ^ (- e) =? 0)%Z in
      Some (if s then (if exact then - v else - v - 1)%Z else v)
  end.

Definition iv_floor (a : iv) : option Z :=
  match a with
  | Float.Inan => None
  | Float.Ibnd l u =>
      match floor_float (F.toF l), floor_float (F.toF u) with
      | Some x, Some y => if (x =? y)%Z then Some x else None
      | _, _ => None
      end
  end.

Definition IvInst : ops iv := {|
  o_ofZ := iv_ofZ;
  o_ofdy := iv_ofdy;
  o_add := I.add prec;
  o_sub := I.sub prec;
  o_mul := I.mul prec;
  o_div := I.div prec;
  o_neg := I.neg;
  o_abs := I.abs;
  o_sqrt := I.sqrt prec;
  o_sin := I.sin prec;
  o_cos := I.cos prec;
  o_tan := I.tan prec;
  o_atan := I.atan prec;
  o_pi := I.pi prec;
  o_ltb := iv_ltb;
  o_floor := iv_floor;
|}.

(* helpers for the correspondence check: is the exact dyadic value d inside the interval a,
   widened by the absolute tolerance tol (a dyadic)? *)
Definition iv_contains_dy (a : iv) (d : Z * Z) (tol : Z * Z) : bool :=
  let x := iv_ofdy d in
  let t := iv_ofdy tol in
  match a with
  | Float.Inan => false
  | Float.Ibnd l u =>
      match iv_ltb (I.add prec x t) (I.bnd l l), iv_ltb (I.bnd u u) (I.sub prec x t) with
      | Some false, Some false => true
      | _, _ => false
      end
  end.

(* width of an interval as an upper bound (for reporting) *)
Definition iv_width_le (a : iv) (w : Z * Z) : bool :=
  match a with
  | Float.Inan => false
  | Float.Ibnd l u =>
      match iv_ltb (iv_ofdy w) (I.sub prec (I.bnd u u) (I.bnd l l)) with
      | Some false => true
      | _ => false
      end
  end.
