(* One model, two number instances.  Geometric code is written once over [ops T]:
   - [RInst]   (T := R): the ideal-real model; all theorems are about this instance;
   - [IvInst]  (T := Coq-Interval float intervals): executable by vm_compute; used by the
     correspondence check.
   Decisions (comparisons, floor/round) are partial: the interval instance answers [None]
   when the enclosure straddles the decision; the real instance always answers [Some]. *)
From Coq Require Import ZArith Reals List.
Import ListNotations.

Record ops (T : Type) : Type := {
  o_ofZ : Z -> T;
  o_ofdy : Z * Z -> T;              (* (m, e) |-> m * 2^e : every f64 constant, exactly *)
  o_add : T -> T -> T;
  o_sub : T -> T -> T;
  o_mul : T -> T -> T;
  o_div : T -> T -> T;
  o_neg : T -> T;
  o_abs : T -> T;
  o_sqrt : T -> T;
  o_sin : T -> T;
  o_cos : T -> T;
  o_tan : T -> T;
  o_atan : T -> T;
  o_pi : T;
  o_ltb : T -> T -> option bool;    (* a < b *)
  o_floor : T -> option Z;
}.
Arguments o_ofZ {T}. Arguments o_ofdy {T}. Arguments o_add {T}. Arguments o_sub {T}.
Arguments o_mul {T}. Arguments o_div {T}. Arguments o_neg {T}. Arguments o_abs {T}.
Arguments o_sqrt {T}. Arguments o_sin {T}. Arguments o_cos {T}. Arguments o_tan {T}.
Arguments o_atan {T}. Arguments o_pi {T}. Arguments o_ltb {T}. Arguments o_floor {T}.

Declare Scope num_scope.
Delimit Scope num_scope with num.

(* the real instance *)
Open Scope R_scope.

Definition dy2R (d : Z * Z) : R :=
  let (m, e) := d in
  if (0 <=? e)%Z then IZR m * IZR (2 ^ e) else IZR m / IZR (2 ^ (- e)).

Definition Rltb (a b : R) : bool := if Rlt_dec a b then true else false.

Definition Rfloor (x : R) : Z := (up x - 1)%Z.

Definition RInst : ops R := {|
  o_ofZ := IZR;
  o_ofdy := dy2R;
  o_add := Rplus;
  o_sub := Rminus;
  o_mul := Rmult;
  o_div := Rdiv;
  o_neg := Ropp;
  o_abs := Rabs;
  o_sqrt := sqrt;
  o_sin := sin;
  o_cos := cos;
  o_tan := tan;
  o_atan := atan;
  o_pi := PI;
  o_ltb := fun a b => Some (Rltb a b);
  o_floor := fun x => Some (Rfloor x);
|}.

Lemma Rltb_true a b : Rltb a b = true <-> a < b.
Proof. unfold Rltb; destruct (Rlt_dec a b); split; intros; auto; discriminate. Qed.

Lemma Rltb_false a b : Rltb a b = false <-> b <= a.
Proof.
  unfold Rltb; destruct (Rlt_dec a b); split; intros H; try discriminate; auto.
  - exfalso. apply (Rlt_irrefl a). eapply Rlt_le_trans; eauto.
  - apply Rnot_lt_le; assumption.
Qed.
