(* Exact rational instance of [ops]: used for the planar layer (lattice, pentagons), whose
   computations involve only field operations and comparisons on the f64 constants.
   The transcendental fields are dummies; planar model functions never reference them.
   Results of + - * are kept small by cancelling common factors of two ([Qstrip2], which
   preserves the value: [Qstrip2_eq]); almost all numbers here are dyadic. *)
From Coq Require Import ZArith QArith Qround Qabs List Lia.
From A5 Require Import Num.NumOps.

Definition dy2Q (d : Z * Z) : Q :=
  let (m, e) := d in
  if (0 <=? e)%Z then inject_Z (m * 2 ^ e) else Qmake m (Z.to_pos (2 ^ (- e))).

Fixpoint pstrip (a b : positive) : positive * positive :=
  match a, b with
  | xO a', xO b' => pstrip a' b'
  | _, _ => (a, b)
  end.

Definition Qstrip2 (q : Q) : Q :=
  match Qnum q with
  | Z0 => 0 # 1
  | Zpos a => let (a', b') := pstrip a (Qden q) in Zpos a' # b'
  | Zneg a => let (a', b') := pstrip a (Qden q) in Zneg a' # b'
  end.

Lemma pstrip_spec a b : let (a', b') := pstrip a b in (a' * b = a * b')%positive.
Proof.
  revert b; induction a as [a IH|a IH|]; intros b; destruct b as [b|b|]; cbn [pstrip]; try reflexivity.
  specialize (IH b). destruct (pstrip a b) as [a' b']. lia.
Qed.

Lemma Qstrip2_eq q : Qstrip2 q == q.
Proof.
  destruct q as [n d]. unfold Qstrip2, Qeq. cbn [Qnum Qden].
  destruct n as [|a|a]; [reflexivity| |];
    pose proof (pstrip_spec a d) as H; destruct (pstrip a d) as [a' b']; cbn [Qnum Qden]; lia.
Qed.

Definition Qltb (a b : Q) : bool :=
  match Qcompare a b with Lt => true | _ => false end.

Definition QInst : ops Q := {|
  o_ofZ := inject_Z;
  o_ofdy := dy2Q;
  o_add := fun a b => Qstrip2 (Qplus a b);
  o_sub := fun a b => Qstrip2 (Qminus a b);
  o_mul := fun a b => Qstrip2 (Qmult a b);
  o_div := fun a b => Qstrip2 (Qdiv a b);
  o_neg := Qopp;
  o_abs := Qabs;
  o_sqrt := fun _ => 0%Q;
  o_sin := fun _ => 0%Q;
  o_cos := fun _ => 0%Q;
  o_tan := fun _ => 0%Q;
  o_atan := fun _ => 0%Q;
  o_pi := 0%Q;
  o_ltb := fun a b => Some (Qltb a b);
  o_floor := fun x => Some (Qfloor x);
|}.
