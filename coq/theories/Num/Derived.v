(* Functions the code takes from libm that the number structure does not provide directly,
   defined once from atan / sqrt / comparisons: atan2, acos, asin, round (half away from zero).
   Decisions are three-valued (None = undecided in the interval instance). *)
From Coq Require Import ZArith List.
From A5 Require Import Num.NumOps.

Section Derived.
  Context {T : Type} (OP : ops T).
  Local Notation "a + b" := (o_add OP a b).
  Local Notation "a - b" := (o_sub OP a b).
  Local Notation "a * b" := (o_mul OP a b).
  Local Notation "a / b" := (o_div OP a b).
  Local Notation z2T := (o_ofZ OP).

  Definition obind {A B} (x : option A) (f : A -> option B) : option B :=
    match x with Some a => f a | None => None end.

  Definition half_pi : T := o_pi OP / z2T 2.

  (* atan2(y, x): quadrant analysis on the dominant coordinate (so that no quotient has a
     denominator interval containing zero); at the origin the value is 0 as in IEEE *)
  Definition atan2 (y x : T) : option T :=
    let zero := z2T 0 in
    match o_ltb OP (o_abs OP y) (o_abs OP x) with
    | Some false =>
        (* |y| >= |x| : use x / y *)
        match o_ltb OP zero y with
        | Some true => Some (half_pi - o_atan OP (x / y))
        | Some false =>
            match o_ltb OP y zero with
            | Some true => Some (o_neg OP half_pi - o_atan OP (x / y))
            | Some false => Some zero          (* y = 0 and |x| <= |y|: the origin *)
            | None => None
            end
        | None => None
        end
    | _ =>
        (* |y| < |x| (or undecided: then both are far from zero or the sign test below fails) *)
        match o_ltb OP zero x with
        | Some true => Some (o_atan OP (y / x))
        | Some false =>
            match o_ltb OP x zero with
            | Some true =>
                match o_ltb OP y zero with
                | Some true => Some (o_atan OP (y / x) - o_pi OP)
                | Some false => Some (o_atan OP (y / x) + o_pi OP)
                | None => None                 (* on the branch cut *)
                end
            | _ => None
            end
        | None => None
        end
    end.

  (* acos(x) = atan2(sqrt(1 - x^2), x) on [-1, 1] *)
  Definition acos (x : T) : option T :=
    atan2 (o_sqrt OP ((z2T 1 - x) * (z2T 1 + x))) x.

  (* asin(x) = atan2(x, sqrt(1 - x^2)) *)
  Definition asin (x : T) : option T :=
    atan2 x (o_sqrt OP ((z2T 1 - x) * (z2T 1 + x))).

  (* f64::round: half away from zero *)
  Definition round (x : T) : option Z :=
    match o_ltb OP x (z2T 0) with
    | Some false => o_floor OP (x + z2T 1 / z2T 2)
    | Some true => option_map Z.opp (o_floor OP (o_neg OP x + z2T 1 / z2T 2))
    | None =>
        (* x is around zero: both formulas agree unless |x| is near 1/2 *)
        match o_floor OP (x + z2T 1 / z2T 2), o_floor OP (o_neg OP x + z2T 1 / z2T 2) with
        | Some 0%Z, Some 0%Z => Some 0%Z
        | _, _ => None
        end
    end.

  Definition gtb (a b : T) : option bool := o_ltb OP b a.
  (* x.clamp(-1, 1).  When a comparison is undecided (interval instance) the unclamped value is
     returned: its enclosure contains the clamped value *)
  Definition clamp1 (x : T) : T :=
    match o_ltb OP x (z2T (-1)), o_ltb OP (z2T 1) x with
    | Some true, _ => z2T (-1)
    | _, Some true => z2T 1
    | _, _ => x
    end.
End Derived.
