(* Outcomes of modelled Rust functions: normal result, reported error (Result::Err),
   panic (overflow, index out of bounds, explicit panic!), or fuel exhaustion. *)
From Coq Require Import List.
Import ListNotations.

Inductive out (A : Type) : Type :=
| Ok (a : A)
| Err
| Panic
| Diverge.
Arguments Ok {A} a.
Arguments Err {A}.
Arguments Panic {A}.
Arguments Diverge {A}.

Definition bind {A B} (x : out A) (f : A -> out B) : out B :=
  match x with
  | Ok a => f a
  | Err => Err
  | Panic => Panic
  | Diverge => Diverge
  end.

Notation "x <- e1 ;; e2" := (bind e1 (fun x => e2))
  (at level 61, e1 at next level, right associativity).
Notation "' p <- e1 ;; e2" := (bind e1 (fun p => e2))
  (at level 61, p pattern, e1 at next level, right associativity).

Definition is_ok {A} (x : out A) : bool := match x with Ok _ => true | _ => false end.
Definition abnormal {A} (x : out A) : bool :=
  match x with Panic | Diverge => true | _ => false end.

(* sequential map with early exit, as a `for` loop with `?` *)
Fixpoint mapM {A B} (f : A -> out B) (l : list A) : out (list B) :=
  match l with
  | [] => Ok []
  | x :: xs => y <- f x ;; ys <- mapM f xs ;; Ok (y :: ys)
  end.

Lemma bind_ok {A B} (a : A) (f : A -> out B) : bind (Ok a) f = f a.
Proof. reflexivity. Qed.

Lemma bind_eq_ok {A B} (x : out A) (f : A -> out B) b :
  bind x f = Ok b -> exists a, x = Ok a /\ f a = Ok b.
Proof. destruct x; simpl; intros H; try discriminate. eauto. Qed.

Lemma mapM_ok_map {A B} (f : A -> out B) (g : A -> B) l :
  (forall x, In x l -> f x = Ok (g x)) -> mapM f l = Ok (map g l).
Proof.
  induction l as [|x xs IH]; simpl; intros H; [reflexivity|].
  rewrite H by auto. simpl. rewrite IH by auto. reflexivity.
Qed.

Lemma mapM_ok_inv {A B} (f : A -> out B) l r :
  mapM f l = Ok r -> length r = length l /\ forall y, In y r -> exists x, In x l /\ f x = Ok y.
Proof.
  revert r; induction l as [|x xs IH]; simpl; intros r H.
  - inversion H; subst; split; [reflexivity|intros y []].
  - destruct (f x) eqn:Hx; simpl in H; try discriminate.
    destruct (mapM f xs) eqn:Hm; simpl in H; try discriminate.
    inversion H; subst; clear H.
    destruct (IH _ eq_refl) as [Hl Hin]. split; [simpl; congruence|].
    intros y [<-|Hy]; [exists x; auto|].
    destruct (Hin y Hy) as [x' [? ?]]; exists x'; auto.
Qed.
