(* Rust machine-integer semantics as used by the modelled code.
   Values are mathematical integers (Z); every operation that can panic in an
   overflow-checked build returns [out].  A release build wraps instead of panicking;
   since the theorems prove the absence of [Panic], both profiles agree on all inputs
   covered by them. *)
From Coq Require Import ZArith Lia List Bool.
From A5 Require Import Base.Outcome.
Import ListNotations.
Open Scope Z_scope.

Definition two64 : Z := 2 ^ 64.
Definition two32 : Z := 2 ^ 32.

Definition is_u64 (x : Z) : Prop := 0 <= x < two64.
Definition is_u64b (x : Z) : bool := (0 <=? x) && (x <? two64).
Definition in_i32 (x : Z) : bool := (- 2 ^ 31 <=? x) && (x <? 2 ^ 31).

(* checked arithmetic *)
Definition u64_add (a b : Z) : out Z := if a + b <? two64 then Ok (a + b) else Panic.
Definition u64_mul (a b : Z) : out Z := if a * b <? two64 then Ok (a * b) else Panic.
Definition u64_sub (a b : Z) : out Z := if b <=? a then Ok (a - b) else Panic.
Definition u32_add (a b : Z) : out Z := if a + b <? two32 then Ok (a + b) else Panic.
Definition u32_mul (a b : Z) : out Z := if a * b <? two32 then Ok (a * b) else Panic.
Definition u32_sub (a b : Z) : out Z := if b <=? a then Ok (a - b) else Panic.
Definition i32_add (a b : Z) : out Z := if in_i32 (a + b) then Ok (a + b) else Panic.
Definition i32_sub (a b : Z) : out Z := if in_i32 (a - b) then Ok (a - b) else Panic.
Definition i32_mul (a b : Z) : out Z := if in_i32 (a * b) then Ok (a * b) else Panic.

(* shifts: the amount must be below the width, bits shifted out are lost silently *)
(* [wrap64] and the shifts are written with bit operations so that the model evaluates
   quickly; [wrap64_mod], [shr_div], [shl_mul] below give their arithmetic meaning *)
Definition wrap64 (x : Z) : Z := Z.land x (two64 - 1).
Definition u64_shl (a k : Z) : out Z :=
  if (0 <=? k) && (k <? 64) then Ok (wrap64 (Z.shiftl a k)) else Panic.
Definition u64_shr (a k : Z) : out Z :=
  if (0 <=? k) && (k <? 64) then Ok (Z.shiftr a k) else Panic.

(* `as` casts between integer types wrap *)
Definition as_u32 (x : Z) : Z := x mod two32.
Definition as_u64 (x : Z) : Z := x mod two64.
Definition as_i32 (x : Z) : Z := (x + 2 ^ 31) mod two32 - 2 ^ 31.

(* slice / Vec indexing panics when out of bounds *)
Definition tab_get {A} (t : list A) (i : Z) : out A :=
  if i <? 0 then Panic else
  match nth_error t (Z.to_nat i) with Some v => Ok v | None => Panic end.

Fixpoint seqZ (start : Z) (len : nat) : list Z :=
  match len with O => [] | S n => start :: seqZ (start + 1) n end.

Lemma seqZ_length s n : length (seqZ s n) = n.
Proof. revert s; induction n; simpl; auto. Qed.

Lemma in_seqZ s n x : In x (seqZ s n) <-> s <= x < s + Z.of_nat n.
Proof.
  revert s; induction n as [|n IH]; intros s; simpl.
  - lia.
  - rewrite IH. lia.
Qed.

Lemma seqZ_NoDup s n : NoDup (seqZ s n).
Proof.
  revert s; induction n as [|n IH]; intros s; simpl; constructor; auto.
  rewrite in_seqZ. lia.
Qed.

Lemma seqZ_app s n m : seqZ s (n + m) = seqZ s n ++ seqZ (s + Z.of_nat n) m.
Proof.
  revert s; induction n as [|n IH]; intros s; simpl.
  - f_equal. lia.
  - f_equal. rewrite IH. f_equal. f_equal. lia.
Qed.

Lemma seqZ_map_shift s n d : map (fun x => x + d) (seqZ s n) = seqZ (s + d) n.
Proof.
  revert s; induction n as [|n IH]; intros s; simpl; auto.
  f_equal. rewrite IH. f_equal. lia.
Qed.

(* bit-level facts used by the codec proofs *)
Lemma wrap64_mod x : wrap64 x = x mod two64.
Proof.
  unfold wrap64, two64. replace (2 ^ 64 - 1) with (Z.ones 64) by reflexivity.
  apply Z.land_ones. lia.
Qed.

Lemma shr_div a k : 0 <= k -> Z.shiftr a k = a / 2 ^ k.
Proof. intros; apply Z.shiftr_div_pow2; assumption. Qed.

Lemma shl_mul a k : 0 <= k -> Z.shiftl a k = a * 2 ^ k.
Proof. intros; apply Z.shiftl_mul_pow2; assumption. Qed.

Lemma lor_pow2_add a k :
  0 <= a -> 0 <= k -> a mod 2 ^ (k + 1) = 0 -> Z.lor a (2 ^ k) = a + 2 ^ k.
Proof.
  intros Ha Hk Hm.
  assert (Hland : Z.land a (2 ^ k) = 0).
  { apply Z.bits_inj'. intros n Hn. rewrite Z.land_spec, Z.bits_0.
    destruct (Z.eq_dec n k) as [->|Hne].
    - assert (Z.testbit a k = false) as ->; [|reflexivity].
      replace a with (a mod 2 ^ (k + 1) + 2 ^ (k + 1) * (a / 2 ^ (k + 1)))
        by (rewrite Z.add_comm; symmetry; apply Z.div_mod; apply Z.pow_nonzero; lia).
      rewrite Hm, Z.add_0_l, Z.mul_comm, Z.mul_pow2_bits_low; auto; lia.
    - rewrite Z.pow2_bits_false by lia. apply andb_false_r. }
  rewrite <- Z.lxor_lor by exact Hland.
  symmetry. apply Z.add_nocarry_lxor. exact Hland.
Qed.

Lemma land_ones_mod a n : 0 <= n -> Z.land a (2 ^ n - 1) = a mod 2 ^ n.
Proof.
  intros Hn.
  replace (2 ^ n - 1) with (Z.ones n) by (rewrite Z.ones_equiv; lia).
  apply Z.land_ones; assumption.
Qed.

Lemma land1_testbit a : Z.land a 1 = if Z.testbit a 0 then 1 else 0.
Proof.
  replace 1 with (Z.ones 1) at 1 by reflexivity.
  rewrite Z.land_ones by lia. change (2 ^ 1) with 2.
  rewrite Z.bit0_odd. rewrite Zmod_odd. reflexivity.
Qed.
