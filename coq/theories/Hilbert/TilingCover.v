(* C03, planar half, no gaps (exact rational model, quintant 0, unscaled lattice units): every point of the
   plane lies in a canonical tile (Hilbert/TilingDisjoint.v) up to a rounding sliver; more precisely every
   point of a unit lattice triangle lies in the tile of that triangle or in one of two named neighbours.
   See the summary at the end of the file. *)
From Coq Require Import ZArith QArith Qabs Qround List Bool Lia Lqa Setoid Morphisms.
From A5 Require Import Base.Outcome Base.Word Num.NumOps Num.QInst Hilbert.Hilbert Geo.Tiling
  Hilbert.LocateProofs Hilbert.ChildProofs Hilbert.TilingDisjoint.
From A5gen Require Import TablesCur.
Import ListNotations.
Open Scope Q_scope.

(* BASIS applied to a rational lattice point *)
Definition Bq (x y : Q) : qp := (Bm 0 * x + Bm 1 * y, Bm 2 * x + Bm 3 * y).
(* w is in the pentagon l up to eps: no edge cross product is below -eps (eps = 0: contains_point) *)
Definition within (eps : Q) (l : list qp) (w : qp) : Prop := Forall (fun c => - eps <= c) (crosses QInst l w).

Lemma Forall_ge_Qeq eps l l' : Forall2 Qeq l l' -> Forall (fun c => eps <= c) l -> Forall (fun c => eps <= c) l'.
Proof.
  induction 1 as [|a b r r' Hab Hr IH]; intros H; [constructor|]. inversion H; subst.
  constructor; [rewrite <- Hab; assumption|auto].
Qed.

Lemma within_peq eps l l' w w' : peq l l' -> peq1 w w' -> within eps l w -> within eps l' w'.
Proof. intros H Hw. apply Forall_ge_Qeq. apply crosses_peq; assumption. Qed.

Lemma Bq_compat x x' y y' : x == x' -> y == y' -> peq1 (Bq x y) (Bq x' y').
Proof. intros Hx Hy. unfold Bq, peq1. cbn [fst snd]. rewrite Hx, Hy. split; reflexivity. Qed.

(* translation by an even lattice vector *)
Lemma within_shift eps (a b hi hj : Z) (u : bool) (x y : Q) : Z.even (hi + hj) = true ->
  within eps (canon_tile ((a, b), u)) (Bq x y) ->
  within eps (canon_tile ((a + hi, b + hj)%Z, u)) (Bq (x + inject_Z hi) (y + inject_Z hj)).
Proof.
  intros Ev H. pose proof (canon_shift a b hi hj u Ev) as P.
  assert (HW : peq1 (Bq (x + inject_Z hi) (y + inject_Z hj)) (affp 1 (Bz (hi, hj)) (Bq x y))).
  { unfold peq1, affp, Bq, Bz. cbn [fst snd]. split; ring. }
  unfold within in *.
  pose proof (crosses_peq _ _ _ _ P HW) as H1. pose proof (crosses_aff 1 (Bz (hi, hj)) (canon_tile ((a, b), u)) (Bq x y)) as H2.
  apply (Forall_ge_Qeq _ _ _ (Forall2_Qeq_sym _ _ H1)). revert H2 H.
  generalize (crosses QInst (aff 1 (Bz (hi, hj)) (canon_tile ((a, b), u))) (affp 1 (Bz (hi, hj)) (Bq x y)))
             (crosses QInst (canon_tile ((a, b), u)) (Bq x y)).
  intros c1 c2 H2. induction H2 as [|p q r r' Hab Hr IH]; intros H; [constructor|].
  inversion H; subst. constructor; [|auto]. assert (p == q) by (rewrite Hab; ring). lra.
Qed.

(* ------------------------------------------------------------------ edge cross products as affine forms in (X, Y) *)
(* for the point BASIS * (c + X, Y): ecross v1 v2 = A X + B Y + C *)
Definition aform (v1 v2 : qp) (c : Q) : Q * Q * Q :=
  let dx := fst v1 - fst v2 in let dy := snd v1 - snd v2 in
  (Qred (dx * Bm 2 - dy * Bm 0), Qred (dx * Bm 3 - dy * Bm 1),
   Qred (dx * (Bm 2 * c - snd v1) - dy * (Bm 0 * c - fst v1))).
Definition aval (f : Q * Q * Q) (X Y : Q) : Q := fst (fst f) * X + snd (fst f) * Y + snd f.
Lemma aform_ok v1 v2 c X Y : ecross v1 v2 (Bq (c + X) Y) == aval (aform v1 v2 c) X Y.
Proof. unfold aval, aform, ecross, Bq. cbn [fst snd]. rewrite !Qred_correct. ring. Qed.

Definition lin5 (l : list qp) (c : Q) : list (Q * Q * Q) := map (fun e => aform (fst e) (snd e) c) (edges5 l).

Lemma within_lin eps l c X Y : length l = 5%nat ->
  Forall (fun f => - eps <= aval f X Y) (lin5 l c) -> within eps l (Bq (c + X) Y).
Proof.
  intros HL H. destruct l as [|p0 [|p1 [|p2 [|p3 [|p4 [|? ?]]]]]]; try discriminate HL.
  unfold within. apply (Forall_ge_Qeq _ _ _ (Forall2_Qeq_sym _ _ (crosses5 p0 p1 p2 p3 p4 (Bq (c + X) Y)))).
  cbn [lin5 edges5 map fst snd] in H.
  inversion H as [|? ? H0 F1]; subst. inversion F1 as [|? ? H1 F2]; subst. inversion F2 as [|? ? H2 F3]; subst.
  inversion F3 as [|? ? H3 F4]; subst. inversion F4 as [|? ? H4 _]; subst.
  repeat constructor; rewrite aform_ok; assumption.
Qed.

Lemma Forall5 {A} (P : A -> Prop) a b c d e : P a /\ P b /\ P c /\ P d /\ P e -> Forall P [a; b; c; d; e].
Proof. intros [Ha [Hb [Hc [Hd He]]]]. repeat constructor; assumption. Qed.

(* ------------------------------------------------------------------ the four classes *)
Definition epsc : Q := 1 # 18014398509481984.

(* decision tree over the violated edges; linear arithmetic closes the impossible branches *)
Ltac cov_viol := first [ exfalso; lra | right; cov_tree ]
with cov_tree :=
  lazymatch goal with
  | |- (?e <= ?l1 /\ ?e <= ?l2 /\ ?e <= ?l3 /\ ?e <= ?l4 /\ ?e <= ?l5) \/ _ =>
      destruct (Qlt_le_dec l1 e); [cov_viol|]; destruct (Qlt_le_dec l2 e); [cov_viol|];
      destruct (Qlt_le_dec l3 e); [cov_viol|]; destruct (Qlt_le_dec l4 e); [cov_viol|];
      destruct (Qlt_le_dec l5 e); [cov_viol|]; left; repeat split; assumption
  | |- (?e <= ?l1 /\ ?e <= ?l2 /\ ?e <= ?l3 /\ ?e <= ?l4 /\ ?e <= ?l5) =>
      destruct (Qlt_le_dec l1 e); [exfalso; lra|]; destruct (Qlt_le_dec l2 e); [exfalso; lra|];
      destruct (Qlt_le_dec l3 e); [exfalso; lra|]; destruct (Qlt_le_dec l4 e); [exfalso; lra|];
      destruct (Qlt_le_dec l5 e); [exfalso; lra|]; repeat split; assumption
  end.

Ltac explicit_lin t c :=
  let v := eval vm_compute in (lin5 (canon_tile t) c) in
  replace (lin5 (canon_tile t) c) with v by (vm_compute; reflexivity).

Definition lin_ok (eps : Q) (t : tri) (c X Y : Q) : Prop := Forall (fun f => - eps <= aval f X Y) (lin5 (canon_tile t) c).

Ltac cover_class t1 t2 t3 c :=
  unfold lin_ok; explicit_lin t1 c; explicit_lin t2 c; explicit_lin t3 c;
  match goal with |- Forall ?P _ \/ Forall _ _ \/ Forall _ _ =>
    cut (forall a1 b1 c1 d1 e1 a2 b2 c2 d2 e2 a3 b3 c3 d3 e3,
           (P a1 /\ P b1 /\ P c1 /\ P d1 /\ P e1) \/ (P a2 /\ P b2 /\ P c2 /\ P d2 /\ P e2) \/ (P a3 /\ P b3 /\ P c3 /\ P d3 /\ P e3) ->
           Forall P [a1; b1; c1; d1; e1] \/ Forall P [a2; b2; c2; d2; e2] \/ Forall P [a3; b3; c3; d3; e3]);
    [|intros ? ? ? ? ? ? ? ? ? ? ? ? ? ? ? [H|[H|H]]; [left|right; left|right; right]; apply Forall5; exact H]
  end;
  intros HC; apply HC; clear HC; unfold aval, epsc; cbn [fst snd]; cov_tree.

Lemma cover_0u X Y : 0 <= X -> 0 <= Y -> X + Y <= 1 ->
  lin_ok epsc ((0, 0)%Z, true) 0 X Y \/ lin_ok epsc ((0, 0)%Z, false) 0 X Y \/ lin_ok epsc ((-1, 0)%Z, false) 0 X Y.
Proof. intros HX HY HS. cover_class ((0, 0)%Z, true) ((0, 0)%Z, false) ((-1, 0)%Z, false) 0. Qed.

Lemma cover_0d X Y : X <= 1 -> Y <= 1 -> 1 <= X + Y ->
  lin_ok epsc ((0, 0)%Z, false) 0 X Y \/ lin_ok epsc ((0, 0)%Z, true) 0 X Y \/ lin_ok epsc ((1, 0)%Z, true) 0 X Y.
Proof. intros HX HY HS. cover_class ((0, 0)%Z, false) ((0, 0)%Z, true) ((1, 0)%Z, true) 0. Qed.

Lemma cover_1u X Y : 0 <= X -> 0 <= Y -> X + Y <= 1 ->
  lin_ok epsc ((1, 0)%Z, true) 1 X Y \/ lin_ok epsc ((1, 0)%Z, false) 1 X Y \/ lin_ok epsc ((1, -1)%Z, false) 1 X Y.
Proof. intros HX HY HS. cover_class ((1, 0)%Z, true) ((1, 0)%Z, false) ((1, -1)%Z, false) 1. Qed.

Lemma cover_1d X Y : X <= 1 -> Y <= 1 -> 1 <= X + Y ->
  lin_ok epsc ((1, 0)%Z, false) 1 X Y \/ lin_ok epsc ((1, 0)%Z, true) 1 X Y \/ lin_ok epsc ((1, 1)%Z, true) 1 X Y.
Proof. intros HX HY HS. cover_class ((1, 0)%Z, false) ((1, 0)%Z, true) ((1, 1)%Z, true) 1. Qed.

(* ------------------------------------------------------------------ every lattice triangle *)
(* the tiles that cover the triangle t: its own, the one of the other half of its cell, and one more *)
Definition nbrs (t : tri) : list tri :=
  let i := fst (fst t) in let j := snd (fst t) in
  if snd t
  then [t; ((i, j), false); (if Z.odd (i + j) then ((i, j - 1)%Z, false) else ((i - 1, j)%Z, false))]
  else [t; ((i, j), true); (if Z.odd (i + j) then ((i, j + 1)%Z, true) else ((i + 1, j)%Z, true))].

Lemma class_to_general eps (i j c a b : Z) (u' : bool) (X Y : Q) : Z.even (i - c + j) = true ->
  lin_ok eps ((a, b), u') (inject_Z c) X Y ->
  within eps (canon_tile ((i + (a - c), j + b)%Z, u')) (Bq (inject_Z i + X) (inject_Z j + Y)).
Proof.
  intros Ev H. apply within_lin in H; [|apply canon_tile_length].
  apply (within_shift eps a b (i - c) j u' _ _ Ev) in H.
  replace (a + (i - c))%Z with (i + (a - c))%Z in H by ring. replace (b + j)%Z with (j + b)%Z in H by ring.
  revert H. apply within_peq; [apply peq_refl|]. apply Bq_compat; push_inj; ring.
Qed.

Theorem triangle_cover (i j : Z) (u : bool) (X Y : Q) :
  0 <= X -> 0 <= Y -> (if u then X + Y <= 1 else X <= 1 /\ Y <= 1 /\ 1 <= X + Y) ->
  exists t', In t' (nbrs ((i, j), u)) /\
    within epsc (canon_tile t') (Bq (inject_Z i + X) (inject_Z j + Y)).
Proof.
  intros HX HY HU. unfold nbrs. cbn [fst snd].
  destruct (Z.odd (i + j)) eqn:Eo.
  - assert (Ev : Z.even (i - 1 + j) = true).
    { replace (i - 1 + j)%Z with (i + j - 1)%Z by ring. rewrite Z.even_sub, <- Z.negb_odd, Eo. reflexivity. }
    destruct u.
    + destruct (cover_1u X Y HX HY HU) as [H|[H|H]]; apply (class_to_general epsc i j 1 _ _ _ X Y Ev) in H;
      eexists; (split; [|exact H]); cbn [In];
      [left|right; left|right; right; left]; f_equal; f_equal; ring.
    + destruct HU as [U1 [U2 U3]].
      destruct (cover_1d X Y U1 U2 U3) as [H|[H|H]]; apply (class_to_general epsc i j 1 _ _ _ X Y Ev) in H;
      eexists; (split; [|exact H]); cbn [In];
      [left|right; left|right; right; left]; f_equal; f_equal; ring.
  - assert (Ev : Z.even (i - 0 + j) = true).
    { replace (i - 0 + j)%Z with (i + j)%Z by ring. rewrite <- Z.negb_odd, Eo. reflexivity. }
    destruct u.
    + destruct (cover_0u X Y HX HY HU) as [H|[H|H]]; apply (class_to_general epsc i j 0 _ _ _ X Y Ev) in H;
      eexists; (split; [|exact H]); cbn [In];
      [left|right; left|right; right; left]; f_equal; f_equal; ring.
    + destruct HU as [U1 [U2 U3]].
      destruct (cover_0d X Y U1 U2 U3) as [H|[H|H]]; apply (class_to_general epsc i j 0 _ _ _ X Y Ev) in H;
      eexists; (split; [|exact H]); cbn [In];
      [left|right; left|right; right; left]; f_equal; f_equal; ring.
Qed.

(* G4: no gaps in the plane, up to epsc: every point BASIS * (x, y) lies in some canonical tile with every edge
   cross product >= -epsc *)
Theorem plane_cover (x y : Q) : exists t, within epsc (canon_tile t) (Bq x y).
Proof.
  set (i := Qfloor x). set (j := Qfloor y). set (X := x - inject_Z i). set (Y := y - inject_Z j).
  assert (HX : 0 <= X < 1).
  { unfold X, i. pose proof (Qfloor_le x). pose proof (Qlt_floor x). rewrite inject_Z_plus in *. change (inject_Z 1) with 1 in *. lra. }
  assert (HY : 0 <= Y < 1).
  { unfold Y, j. pose proof (Qfloor_le y). pose proof (Qlt_floor y). rewrite inject_Z_plus in *. change (inject_Z 1) with 1 in *. lra. }
  assert (P : peq1 (Bq (inject_Z i + X) (inject_Z j + Y)) (Bq x y)) by (apply Bq_compat; unfold X, Y; ring).
  destruct (Qlt_le_dec 1 (X + Y)) as [Hd|Hu].
  - destruct (triangle_cover i j false X Y) as [t [_ H]]; [lra|lra|repeat split; lra|].
    exists t. revert H. apply within_peq; [apply peq_refl|exact P].
  - destruct (triangle_cover i j true X Y) as [t [_ H]]; [lra|lra|exact Hu|].
    exists t. revert H. apply within_peq; [apply peq_refl|exact P].
Qed.

(* the covering tile is a cell of the same quintant whenever its triangle lies in the quintant triangle
   (always the case for the triangle's own tile; for the two others except along the border of the quintant) *)
Theorem cell_cover (n : nat) (o : Z) (t : tri) (X Y : Q) :
  (1 <= n <= 29)%nat -> (0 <= o < 6)%Z -> in_quintant n t ->
  0 <= X -> 0 <= Y -> (if snd t then X + Y <= 1 else X <= 1 /\ Y <= 1 /\ 1 <= X + Y) ->
  let P := Bq (inject_Z (fst (fst t)) + X) (inject_Z (snd (fst t)) + Y) in
  exists t', In t' (nbrs t) /\ within epsc (canon_tile t') P /\
    (in_quintant n t' ->
     exists s l, (0 <= s < 4 ^ Z.of_nat n)%Z /\ get_pentagon_vertices QInst 0 0 (s_to_anchor s n o) = Some l /\
       tau_of (s_to_anchor s n o) = t' /\ within epsc l P).
Proof.
  intros Hn Ho Hq HX HY HU. destruct t as [[i j] u]. cbn [fst snd] in *. cbv zeta.
  destruct (triangle_cover i j u X Y HX HY HU) as [t' [Hin HW]].
  exists t'. split; [exact Hin|]. split; [exact HW|]. intros Hq'.
  destruct (tau_surjective n o t' Hn Ho Hq') as [s [Hs E]].
  destruct (canonical_form n o s Hn Ho Hs) as [l [Hl Pl]].
  exists s, l. split; [exact Hs|]. split; [exact Hl|]. split; [exact E|].
  rewrite E in Pl. revert HW. apply within_peq; [apply peq_sym; exact Pl|apply peq1_refl].
Qed.

(* ------------------------------------------------------------------ epsc = 0 is false: an exact gap *)
(* closed version of the hull lemma; needs the fan triangles of the pentagon to have positive area *)
Lemma ecross_sum a b c w : ecross a b w + ecross b c w + ecross c a w == ecross a b c.
Proof. unfold ecross. ring. Qed.

Lemma hull5_closed (A B C : Q) (q0 q1 q2 q3 q4 w : qp) :
  0 < ecross q0 q1 q2 -> 0 < ecross q0 q2 q3 -> 0 < ecross q0 q3 q4 ->
  0 <= ecross q0 q1 w -> 0 <= ecross q1 q2 w -> 0 <= ecross q2 q3 w -> 0 <= ecross q3 q4 w -> 0 <= ecross q4 q0 w ->
  A * fst q0 + B * snd q0 + C <= 0 -> A * fst q1 + B * snd q1 + C <= 0 -> A * fst q2 + B * snd q2 + C <= 0 ->
  A * fst q3 + B * snd q3 + C <= 0 -> A * fst q4 + B * snd q4 + C <= 0 ->
  A * fst w + B * snd w + C <= 0.
Proof.
  intros F1 F2 F3 C0 C1 C2 C3 C4 L0 L1 L2 L3 L4.
  destruct (Qlt_le_dec (ecross q2 q0 w) 0) as [D2|D2].
  - pose proof (ecross_rev q2 q0 w) as R2.
    destruct (Qlt_le_dec (ecross q3 q0 w) 0) as [D3|D3].
    + pose proof (ecross_rev q3 q0 w) as R3.
      apply (tri_hull A B C q0 q3 q4 w); try assumption; [lra|rewrite ecross_sum; exact F3].
    + apply (tri_hull A B C q0 q2 q3 w); try assumption; [lra|rewrite ecross_sum; exact F2].
  - apply (tri_hull A B C q0 q1 q2 w); try assumption. rewrite ecross_sum. exact F1.
Qed.

Definition fan_b (l : list qp) : bool :=
  match l with
  | [q0; q1; q2; q3; q4] => Qltb 0 (ecross q0 q1 q2) && Qltb 0 (ecross q0 q2 q3) && Qltb 0 (ecross q0 q3 q4)
  | _ => false
  end.
Lemma shape_fan_table : forallb (fun par => forallb (fun up => fan_b (shape par up)) [true; false]) [true; false] = true.
Proof. vm_compute. reflexivity. Qed.

Lemma ecross_affp t a b c : ecross (affp 1 t a) (affp 1 t b) (affp 1 t c) == ecross a b c.
Proof. unfold ecross, affp. cbn [fst snd]. ring. Qed.

Lemma within5 eps p0 p1 p2 p3 p4 w : within eps [p0; p1; p2; p3; p4] w ->
  - eps <= ecross p0 p1 w /\ - eps <= ecross p1 p2 w /\ - eps <= ecross p2 p3 w /\ - eps <= ecross p3 p4 w /\ - eps <= ecross p4 p0 w.
Proof.
  intros H. apply (Forall_ge_Qeq _ _ _ (crosses5 p0 p1 p2 p3 p4 w)) in H.
  inversion H as [|? ? H0 H']; subst. inversion H' as [|? ? H1 H'']; subst. inversion H'' as [|? ? H2 H3']; subst.
  inversion H3' as [|? ? H3 H4']; subst. inversion H4' as [|? ? H4 _]; subst. tauto.
Qed.

Lemma hull_canon_closed (A B C : Q) (t : tri) (w : qp) : within 0 (canon_tile t) w ->
  Forall (fun p => A * fst p + B * snd p + C <= 0) (canon_tile t) -> A * fst w + B * snd w + C <= 0.
Proof.
  unfold canon_tile. set (par := Z.odd _). set (up := snd t). set (g := Bz (fst t)).
  assert (HF : fan_b (shape par up) = true).
  { pose proof shape_fan_table as T. rewrite forallb_forall in T. specialize (T par (in_bools par)). cbv beta in T.
    rewrite forallb_forall in T. exact (T up (in_bools up)). }
  pose proof (shape_length par up) as HL.
  destruct (shape par up) as [|q0 [|q1 [|q2 [|q3 [|q4 [|? ?]]]]]]; try discriminate HL.
  cbn [fan_b] in HF. rewrite !andb_true_iff in HF. destruct HF as [[F1 F2] F3].
  apply AreaProofs.Qltb_true in F1, F2, F3.
  cbn [aff map]. fold (affp 1 g q0) (affp 1 g q1) (affp 1 g q2) (affp 1 g q3) (affp 1 g q4).
  intros HW HV. apply within5 in HW. destruct HW as [C0 [C1 [C2 [C3 C4]]]].
  inversion HV as [|? ? L0 V1]; subst. inversion V1 as [|? ? L1 V2]; subst. inversion V2 as [|? ? L2 V3]; subst.
  inversion V3 as [|? ? L3 V4]; subst. inversion V4 as [|? ? L4 _]; subst.
  apply (hull5_closed A B C (affp 1 g q0) (affp 1 g q1) (affp 1 g q2) (affp 1 g q3) (affp 1 g q4) w);
  rewrite ?ecross_affp; try assumption; lra.
Qed.

Definition within_b (eps : Q) (l : list qp) (w : qp) : bool := forallb (fun c => Qle_bool (- eps) c) (crosses QInst l w).
Lemma within_b_false eps l w : within_b eps l w = false -> ~ within eps l w.
Proof.
  intros H HW. assert (X : within_b eps l w = true); [|congruence].
  unfold within_b, within in *. rewrite forallb_forall. rewrite Forall_forall in HW.
  intros c Hc. apply Qle_bool_iff. exact (HW c Hc).
Qed.

(* the lattice point (1/2, 1/2) = midpoint of the diagonal of the even cell (0, 0), in face coordinates *)
Definition gap_point : qp := (Bm 0, 0).
Lemma gap_table :
  forallb (fun i => forallb (fun j => forallb (fun u => negb (within_b 0 (canon_tile ((i, j), u)) gap_point))
    [true; false]) [-1; 0; 1]%Z) [-1; 0; 1]%Z = true.
Proof. vm_compute. reflexivity. Qed.

(* exact coverage fails: the point lies in no canonical tile, not even on a boundary (it misses the tiles
   of the two halves of the cell (0, 0) by 24 * 2^-60 in cross-product units each) *)
Theorem plane_exact_cover_refuted : forall t : tri, ~ within 0 (canon_tile t) gap_point.
Proof.
  intros [[i j] u] H.
  pose proof (canon_bbox i j u) as BB.
  assert (X1 : Bm 0 * inject_Z (i + j) <= Bm 0).
  { assert (X : -1 * fst gap_point + 0 * snd gap_point + Bm 0 * inject_Z (i + j) <= 0).
    { apply (hull_canon_closed _ _ _ _ _ H). eapply Forall_impl; [|exact BB]. cbv beta. intros p Hp. lra. }
    cbn [gap_point fst snd] in X. lra. }
  assert (X2 : Bm 0 <= Bm 0 * inject_Z (i + j + 2)).
  { assert (X : 1 * fst gap_point + 0 * snd gap_point + - (Bm 0 * inject_Z (i + j + 2)) <= 0).
    { apply (hull_canon_closed _ _ _ _ _ H). eapply Forall_impl; [|exact BB]. cbv beta. intros p Hp. lra. }
    cbn [gap_point fst snd] in X. lra. }
  assert (Y1 : Bm 2 * inject_Z (i - j - 1) <= 0).
  { assert (X : 0 * fst gap_point + -1 * snd gap_point + Bm 2 * inject_Z (i - j - 1) <= 0).
    { apply (hull_canon_closed _ _ _ _ _ H). eapply Forall_impl; [|exact BB]. cbv beta. intros p Hp. lra. }
    cbn [gap_point fst snd] in X. lra. }
  assert (Y2 : 0 <= Bm 2 * inject_Z (i - j + 1)).
  { assert (X : 0 * fst gap_point + 1 * snd gap_point + - (Bm 2 * inject_Z (i - j + 1)) <= 0).
    { apply (hull_canon_closed _ _ _ _ _ H). eapply Forall_impl; [|exact BB]. cbv beta. intros p Hp. lra. }
    cbn [gap_point fst snd] in X. lra. }
  destruct Bm_pos as [Pa Pb].
  assert (Z1 : inject_Z (i + j) <= inject_Z 1) by (change (inject_Z 1) with 1; generalize dependent (Bm 0); intros; nra).
  assert (Z2 : inject_Z (-1) <= inject_Z (i + j)).
  { rewrite inject_Z_plus in X2. change (inject_Z 2) with 2 in X2. change (inject_Z (-1)) with (-1).
    generalize dependent (Bm 0). intros. nra. }
  assert (Z3 : inject_Z (i - j) <= inject_Z 1).
  { unfold Z.sub in Y1. rewrite inject_Z_plus in Y1. change (inject_Z (- (1))) with (-1) in Y1.
    unfold Z.sub. change (inject_Z 1) with 1. generalize dependent (Bm 2). intros. nra. }
  assert (Z4 : inject_Z (-1) <= inject_Z (i - j)).
  { rewrite inject_Z_plus in Y2. change (inject_Z 1) with 1 in Y2. change (inject_Z (-1)) with (-1).
    generalize dependent (Bm 2). intros. nra. }
  rewrite <- Zle_Qle in Z1, Z2, Z3, Z4.
  assert (Hi : In i [-1; 0; 1]%Z) by (assert (i = -1 \/ i = 0 \/ i = 1)%Z by lia; cbn; intuition).
  assert (Hj : In j [-1; 0; 1]%Z) by (assert (j = -1 \/ j = 0 \/ j = 1)%Z by lia; cbn; intuition).
  pose proof (proj1 (forallb_forall _ _) gap_table i Hi) as T1. cbv beta in T1.
  pose proof (proj1 (forallb_forall _ _) T1 j Hj) as T2. cbv beta in T2.
  pose proof (proj1 (forallb_forall _ _) T2 u (in_bools u)) as T3. cbv beta in T3.
  apply negb_true_iff in T3. exact (within_b_false _ _ _ T3 H).
Qed.

(* Summary.
   Model: as in TilingDisjoint.v (exact rationals, quintant 0, unscaled lattice units); Bq x y = BASIS * (x, y)
   for rational lattice coordinates; within eps l w: every edge cross product of the pentagon l at w is >= -eps
   (eps = 0 is contains_point = Some true).
   - triangle_cover (G4): every point of the unit lattice triangle ((i, j), u) (X, Y >= 0, X + Y <= 1 resp. the
     other half of the cell) lies, up to epsc = 2^-54, in the canonical tile of that triangle, of the other half
     of its cell, or of one named neighbour (nbrs).  Proof per class (parity, half): the fifteen edge cross
     products are affine in (X, Y) with closed rational coefficients (lin5, computed by vm_compute); a decision
     tree over the violated edges is closed by linear arithmetic (cover_0u, cover_0d, cover_1u, cover_1d);
   - plane_cover: hence every point of the plane lies in some canonical tile up to epsc;
   - cell_cover: for a triangle of the quintant triangle, the covering tile is the cell of a position s of the
     same quintant (any orientation) whenever the covering tile's triangle lies in the quintant triangle
     (TilingDisjoint.tau_surjective);
   - plane_exact_cover_refuted: with epsc = 0 this is FALSE: BASIS * (1/2, 1/2) lies in no canonical tile
     (closed-hull lemma hull5_closed + bounding boxes for far tiles, gap_table for the nine cells around).
   What the certificate means: a point of a lattice triangle is at most 2^-54 / 0.425 = 1.3e-16 lattice units
   outside one of three named tiles.  Not covered: that the tiles named are cells of the same quintant (near
   the border of the quintant triangle the neighbour belongs to the adjacent quintant), the sphere. *)
