(* Model of src/core/hilbert.rs.  Digits, flips, anchors live in Z (the f64 values the code
   uses for them are integers); points handed to ij_to_s are over an arbitrary [ops T]. *)
From Coq Require Import ZArith List Bool.
From A5 Require Import Base.Outcome Base.Word Num.NumOps.
From A5gen Require Import TablesCur.
Import ListNotations.
Open Scope Z_scope.

(* flips: pairs with entries YES = -1, NO = 1 *)
Definition flips := (Z * Z)%type.
Definition NOF : flips := (1, 1)%Z.
Definition fmul (a b : flips) : flips := (fst a * fst b, snd a * snd b).
Definition flip_index (f : flips) : nat :=
  Nat.add (if fst f =? -1 then 1%nat else 0%nat) (if snd f =? -1 then 2%nat else 0%nat).

(* quaternary_to_flips / quaternary_to_kj: finite functions, dumped by calling them *)
Definition q2flips (n : Z) : flips := nth (Z.to_nat n) q2flips_tab (1, 1).
Definition q2kj (n : Z) (f : flips) : Z * Z :=
  nth (Z.to_nat n) (nth (flip_index f) q2kj_tab []) (0, 0).
Definition kj_to_ij (kj : Z * Z) : Z * Z := (fst kj - snd kj, snd kj).

(* orientations: UV=0 VU=1 UW=2 WU=3 VW=4 WV=5 *)
Definition o_reverse (o : Z) : bool := (o =? 1) || (o =? 3) || (o =? 4).
Definition o_invert_j (o : Z) : bool := (o =? 5) || (o =? 4).
Definition o_flip_ij (o : Z) : bool := (o =? 3) || (o =? 2).

Fixpoint index_of (v : Z) (l : list Z) (i : Z) : Z :=
  match l with [] => 0 | x :: xs => if x =? v then i else index_of v xs (i + 1) end.
(* reverse_pattern: result[val] = i *)
Definition reverse_pattern (p : list Z) : list Z :=
  map (fun v => index_of v p 0) (seqZ 0 (length p)).

(* one application of shift_digits to the pair (parent = digits[i], child = digits[i-1]) *)
Definition shift_pair (parent_k child_k : Z) (f : flips) (invert_j : bool) (pat : list Z) : Z * Z :=
  let fsum := fst f + snd f in
  let '(needs_shift, first) :=
    if negb (Bool.eqb invert_j (fsum =? 0))
    then ((parent_k =? 1) || (parent_k =? 2), parent_k =? 1)
    else (parent_k <? 2, parent_k =? 0) in
  if negb needs_shift then (parent_k, child_k) else
  let src := if first then child_k else child_k + 4 in
  let dst := nth (Z.to_nat src) pat 0 in
  ((parent_k + 4 + dst / 4 - src / 4) mod 4, dst mod 4).

(* first loop of s_to_anchor_internal, on the digit list most-significant first:
   for i = len-1 .. 0: shift_digits(i); flips *= flips(digits[i]) *)
Fixpoint shift_forward_from (f : flips) (invert_j : bool) (pat : list Z) (p : Z) (rest : list Z)
  : list Z :=
  match rest with
  | [] => [p]
  | c :: rest' =>
      let '(p', c') := shift_pair p c f invert_j pat in
      p' :: shift_forward_from (fmul f (q2flips p')) invert_j pat c' rest'
  end.

Definition shift_forward (f : flips) (invert_j : bool) (pat : list Z) (msb : list Z) : list Z :=
  match msb with
  | [] => []
  | p :: rest => shift_forward_from f invert_j pat p rest
  end.

(* second loop: offset = 2*offset + kj(digit, flips); flips *= flips(digit) *)
Fixpoint anchor_offset (f : flips) (off : Z * Z) (msb : list Z) : (Z * Z) * flips :=
  match msb with
  | [] => (off, f)
  | d :: rest =>
      let c := q2kj d f in
      anchor_offset (fmul f (q2flips d)) (2 * fst off + fst c, 2 * snd off + snd c) rest
  end.

(* quaternary digits of s, most significant first, exactly `resolution` of them when
   s < 4^resolution (the code pushes more digits when s is larger) *)
Fixpoint digits_lsb (fuel : nat) (n : nat) (input : Z) : list Z :=
  match fuel with
  | O => []
  | S fl =>
      if (0 <? input) || (0 <? Z.of_nat n)%Z then (input mod 4) :: digits_lsb fl (pred n) (Z.shiftr input 2)
      else []
  end.
Definition digits_msb (s : Z) (resolution : nat) : list Z := rev (digits_lsb 40 resolution s).

Record anchor := mkAnchor { a_k : Z; a_off : Z * Z; a_flips : flips }.

Definition s_to_anchor_internal (s : Z) (resolution : nat) (invert_j flip_ij : bool) : anchor :=
  let digits := digits_msb s resolution in
  let pat := if flip_ij then pattern_flipped else pattern in
  let shifted := shift_forward NOF invert_j pat digits in
  let '(off, f) := anchor_offset NOF (0, 0) shifted in
  mkAnchor (last shifted 0) (kj_to_ij off) f.

Definition s_to_anchor (s : Z) (resolution : nat) (orientation : Z) : anchor :=
  let reverse := o_reverse orientation in
  let invert_j := o_invert_j orientation in
  let flip_ij := o_flip_ij orientation in
  let adjusted := if reverse then 2 ^ (2 * Z.of_nat resolution) - s - 1 else s in
  let a := s_to_anchor_internal adjusted resolution invert_j flip_ij in
  let a1 :=
    if flip_ij then
      let '(i, j) := a_off a in
      let off := (j, i) in
      let off := if fst (a_flips a) =? -1 then (fst off + (-1), snd off + 1) else off in
      let off := if snd (a_flips a) =? -1 then (fst off - (-1), snd off - 1) else off in
      mkAnchor (a_k a) off (a_flips a)
    else a in
  if invert_j then
    let '(i, j) := a_off a1 in
    mkAnchor (a_k a1) (i, 2 ^ Z.of_nat resolution - (i + j)) (- fst (a_flips a1), snd (a_flips a1))
  else a1.

(* ---------------------------------------------------------------- ij_to_s over [ops T] *)
Section IJ.
  Context {T : Type} (OP : ops T).
  Local Notation "a + b" := (o_add OP a b).
  Local Notation "a - b" := (o_sub OP a b).
  Local Notation "a * b" := (o_mul OP a b).
  Local Notation z2T := (o_ofZ OP).

  Definition obind {A B} (x : option A) (f : A -> option B) : option B :=
    match x with Some a => f a | None => None end.

  (* ij_to_quaternary; None when a comparison is undecided *)
  Definition ij_to_quaternary (u v : T) (f : flips) : option Z :=
    let a := if fst f =? -1 then o_neg OP (u + v) else u + v in
    let b := if snd f =? -1 then o_neg OP u else u in
    let c := if fst f =? -1 then o_neg OP v else v in
    let one := z2T 1 in
    if (fst f + snd f =? 0)%Z then
      obind (o_ltb OP c one) (fun c_lt =>
      if c_lt then Some 0%Z else
      obind (o_ltb OP one b) (fun b_gt =>
      if b_gt then Some 3%Z else
      obind (o_ltb OP one a) (fun a_gt =>
      if a_gt then Some 2%Z else Some 1%Z)))
    else
      obind (o_ltb OP a one) (fun a_lt =>
      if a_lt then Some 0%Z else
      obind (o_ltb OP one b) (fun b_gt =>
      if b_gt then Some 3%Z else
      obind (o_ltb OP one c) (fun c_gt =>
      if c_gt then Some 2%Z else Some 1%Z))).

  (* first loop of ij_to_s_internal: digits most significant first, with the pivot;
     level i = number of remaining digits - 1; scale 1/2^i is applied as exact division *)
  Fixpoint locate_digits (n : nat) (x y : T) (px py : T) (f : flips) : option (list Z * flips) :=
    match n with
    | O => Some ([], f)
    | S i =>
        let sc := z2T (2 ^ Z.of_nat i) in
        let u := o_div OP (x - px) sc in
        let v := o_div OP (y - py) sc in
        obind (ij_to_quaternary u v f) (fun d =>
        let c := kj_to_ij (q2kj d f) in
        let px' := px + z2T (fst c) * sc in
        let py' := py + z2T (snd c) * sc in
        obind (locate_digits i x y px' py' (fmul f (q2flips d))) (fun '(ds, f') =>
        Some (d :: ds, f')))
    end.
End IJ.

(* second loop of ij_to_s_internal: for i = 0 .. len-1: flips *= flips(digits[i]);
   shift_digits(i) with the reversed pattern.  [done] holds the processed digits, most
   recent (= most significant so far) first. *)
Fixpoint shift_backward (f : flips) (invert_j : bool) (rpat : list Z) (done : list Z) (lsb : list Z)
  : list Z :=
  match lsb with
  | [] => done
  | d :: rest =>
      let f' := fmul f (q2flips d) in
      match done with
      | [] => shift_backward f' invert_j rpat [d] rest
      | c :: older =>
          let '(p', c') := shift_pair d c f' invert_j rpat in
          shift_backward f' invert_j rpat (p' :: c' :: older) rest
      end
  end.

Fixpoint digits_value (msb : list Z) (acc : Z) : Z :=
  match msb with [] => acc | d :: rest => digits_value rest (4 * acc + d) end.

Section IJ2.
  Context {T : Type} (OP : ops T).

  Definition ij_to_s_internal (x y : T) (invert_j flip_ij : bool) (resolution : nat) : option Z :=
    obind (locate_digits OP resolution x y (o_ofZ OP 0) (o_ofZ OP 0) NOF) (fun '(msb, f) =>
    let rpat := reverse_pattern (if flip_ij then pattern_flipped else pattern) in
    let unshifted := shift_backward f invert_j rpat [] (rev msb) in
    Some (digits_value unshifted 0)).

  Definition ij_to_s (x y : T) (resolution : nat) (orientation : Z) : option Z :=
    let reverse := o_reverse orientation in
    let invert_j := o_invert_j orientation in
    let flip_ij := o_flip_ij orientation in
    let '(i, j) := if flip_ij then (y, x) else (x, y) in
    let '(i, j) := if invert_j
                   then (i, o_sub OP (o_ofZ OP (2 ^ Z.of_nat resolution)) (o_add OP i j))
                   else (i, j) in
    obind (ij_to_s_internal i j invert_j flip_ij resolution) (fun s =>
    Some (if reverse then 2 ^ (2 * Z.of_nat resolution) - s - 1 else s)).
End IJ2.
