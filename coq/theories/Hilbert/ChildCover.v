(* C12, planar half, covering clause (exact rational model, quintant 0): the four children 4s+t of the
   cell at curve position s together cover more than half (in fact more than 58 %) of the parent's
   planar area.  Certificate checking: for each of the 48 normalised parent configurations an
   unverified clipper proposes four witness polygons; their properties are checked by exact rational
   computation and transferred to every depth, position and orientation.  See the summary at the end. *)
From Coq Require Import ZArith QArith Qabs Qround List Bool Lia Lqa Setoid Morphisms.
From A5 Require Import Base.Outcome Base.Word Num.NumOps Num.QInst Hilbert.Hilbert Geo.Tiling
  Hilbert.DigitsProofs Hilbert.LocateProofs Hilbert.CurveBijection Geo.AreaProofs Hilbert.ChildProofs.
From A5gen Require Import TablesCur.
Import ListNotations.
Open Scope Z_scope.

(* ------------------------------------------------------------------ 0. the four children share one parent state *)
(* the state with the appended child digit replaced *)
Definition st_with (st : state) (t : Z) : state := mkSt (st_flip st) (st_inv st) (st_F st) (st_q st) t.
(* the 48 parent states: orientation class, flips before the last digit, last digit *)
Definition parent_states : list state := filter (fun st => st_t st =? 0) all_states.

(* child_offset_finite with the translation G and the parent state common to the four children *)
Theorem children_offset_finite (n : nat) (o s : Z) :
  (1 <= n <= 28)%nat -> 0 <= o < 6 -> 0 <= s < 4 ^ Z.of_nat n ->
  exists G st, In st parent_states /\
    s_to_anchor s n o = shift_anchor G (st_parent st) /\
    forall t, 0 <= t < 4 ->
      s_to_anchor (4 * s + t) (S n) o = shift_anchor (vsc 2 G) (st_child (st_with st (adj_t o t))).
Proof.
  intros Hn Ho Hs.
  pose proof (fun t Ht => child_digits_prefix n o s t Hn Hs Ht) as HC. cbv zeta in HC.
  destruct (shifted_digits_spec n o s ltac:(lia) Hs) as [HL HD].
  assert (NE : shifted_digits n o s <> []) by (intros E; rewrite E in HL; cbn in HL; lia).
  pose proof (app_removelast_last 0 NE) as E.
  set (pre := removelast (shifted_digits n o s)) in *. set (q := last (shifted_digits n o s) 0) in *.
  assert (Dpre : Forall dig pre /\ dig q).
  { rewrite E in HD. apply Forall_app in HD. destruct HD as [A B]. inversion B; subst. auto. }
  destruct Dpre as [Dpre Dq].
  pose proof (fok_total NOF pre fok_NOF Dpre) as HF.
  set (F := total_flips NOF pre) in *.
  assert (EF : total pre = F) by (unfold F; rewrite total_flips_total, fmul_NOF_l; reflexivity).
  set (st := mkSt (o_flip_ij o) (o_invert_j o) F q 0).
  exists (Gof (2 ^ Z.of_nat n) (o_flip_ij o) (o_invert_j o) (vsc 2 (pos NOF pre))), st.
  split.
  { unfold parent_states. apply filter_In. split; [|reflexivity].
    apply in_all_states; auto using orientation_class. unfold dig; lia. }
  split.
  - rewrite s_to_anchor_epi, internal_anchor, epi_epiZ. cbv zeta. fold (shifted_digits n o s).
    unfold st_parent. change (st_flip st) with (o_flip_ij o). change (st_inv st) with (o_invert_j o).
    rewrite <- epiZ_shift. f_equal. rewrite E.
    rewrite last_snoc, pos_app, total_flips_app. fold F.
    unfold shift_anchor, int_parent, st. cbn [st_q st_F a_k a_off a_flips pos total_flips fold_left length].
    change (2 ^ Z.of_nat 1) with 2. f_equal.
    unfold vadd, vsc. cbn [fst snd]. change (2 ^ Z.of_nat 0) with 1. f_equal; ring.
  - intros t Ht. specialize (HC t Ht). rewrite EF in HC.
    rewrite s_to_anchor_epi, internal_anchor, epi_epiZ. cbv zeta. fold (shifted_digits (S n) o (4 * s + t)).
    unfold st_child.
    change (st_flip (st_with st (adj_t o t))) with (o_flip_ij o).
    change (st_inv (st_with st (adj_t o t))) with (o_invert_j o).
    rewrite pow2_S, <- Gof_double, <- epiZ_shift. f_equal.
    unfold int_child, st_with, st. cbn [st_q st_F st_t st_inv st_flip].
    destruct (shift_pair q (adj_t o t) F (o_invert_j o) (cur_pat (o_flip_ij o))) as [q' c'].
    rewrite HC, last_snoc2, pos_app, total_flips_app. fold F.
    unfold shift_anchor. cbn [a_k a_off a_flips pos total_flips fold_left length].
    change (2 ^ Z.of_nat 2) with 4. change (2 ^ Z.of_nat 1) with 2. change (2 ^ Z.of_nat 0) with 1. f_equal.
    unfold vadd, vsc. cbn [fst snd]. f_equal; ring.
Qed.

Lemma adj_t_inj o a b : adj_t o a = adj_t o b -> a = b.
Proof. unfold adj_t. destruct (o_reverse o); lia. Qed.

Open Scope Q_scope.

(* ------------------------------------------------------------------ 1. an unverified witness generator *)
(* Sutherland-Hodgman clip of a (slightly shrunk) child against the (slightly shrunk) parent, with all
   new points rounded to the dyadic grid 2^-64.  Nothing is proved about it: its output is checked. *)
(* the cross product of Tiling.crosses for the single edge v1 -> v2, plain Q arithmetic *)
Definition crp (v1 v2 p : qp) : Q :=
  (fst v1 - fst v2) * (snd p - snd v1) - (snd v1 - snd v2) * (fst p - fst v1).
(* the same value, with common powers of two cancelled after each operation (all inputs are dyadic) *)
Definition crs (v1 v2 p : qp) : Q :=
  Qstrip2 (Qstrip2 (Qstrip2 (fst v1 - fst v2) * Qstrip2 (snd p - snd v1))
           - Qstrip2 (Qstrip2 (snd v1 - snd v2) * Qstrip2 (fst p - fst v1))).
Lemma crs_eq v1 v2 p : crs v1 v2 p == crp v1 v2 p.
Proof. unfold crs, crp. rewrite !Qstrip2_eq. reflexivity. Qed.

Definition grid : positive := (2 ^ 64)%positive.
Definition rnd (x : Q) : Q := Qstrip2 (Qfloor (x * inject_Z (Zpos grid)) # grid).
Definition rndp (p : qp) : qp := (rnd (fst p), rnd (snd p)).
Definition nrm (p : qp) : qp := (Qstrip2 (fst p), Qstrip2 (snd p)).

(* the point of the segment a b on the line with cross products ca at a and cb at b *)
Definition isect (a b : qp) (ca cb : Q) : qp :=
  let t := Qstrip2 (ca / Qstrip2 (ca - cb)) in
  rndp (fst a + t * Qstrip2 (fst b - fst a), snd a + t * Qstrip2 (snd b - snd a)).

(* l: vertices paired with their cross products *)
Fixpoint clip_from (prev : qp * Q) (l : list (qp * Q)) : list qp :=
  match l with
  | [] => []
  | cur :: rest =>
      let ip := Qle_bool 0 (snd prev) in
      let ic := Qle_bool 0 (snd cur) in
      (if ic then (if ip then [fst cur] else [isect (fst prev) (fst cur) (snd prev) (snd cur); fst cur])
       else (if ip then [isect (fst prev) (fst cur) (snd prev) (snd cur)] else [])) ++ clip_from cur rest
  end.
Definition clip_edge (l : list qp) (e : qp * qp) : list qp :=
  let lc := map (fun p => (p, crs (fst e) (snd e) p)) l in
  clip_from (last lc ((0, 0), 0)) lc.
Definition edges (l : list qp) : list (qp * qp) := combine l (tl l ++ firstn 1 l).
Definition qp_eqb (a b : qp) : bool := Qeq_bool (fst a) (fst b) && Qeq_bool (snd a) (snd b).
Fixpoint dedupe_from (prev : qp) (l : list qp) : list qp :=
  match l with
  | [] => []
  | cur :: rest => (if qp_eqb prev cur then [] else [cur]) ++ dedupe_from cur rest
  end.
Definition dedupe (l : list qp) : list qp := dedupe_from (last l (0, 0)) l.
Definition clip (subject clipper : list qp) : list qp :=
  dedupe (fold_left clip_edge (edges clipper) subject).

(* move every vertex towards the centre by the fraction delta *)
Definition delta : Q := 1 # (2 ^ 24).
Definition shrink (l : list qp) : list qp :=
  let c := rndp (get_center QInst l) in
  map (fun p => rndp (fst p + delta * (fst c - fst p), snd p + delta * (snd c - snd p))) l.

(* the normalised configurations with the common powers of two cancelled *)
Definition ncfgp (st : state) : list qp := map nrm (cfgp st).
Definition ncfgc (st : state) (t : Z) : list qp := map nrm (cfgc (st_with st t)).

(* the witness polygons for the child digits 0..3 of the parent state st *)
Definition wits (st : state) : list (list qp) :=
  let SP := shrink (ncfgp st) in
  map (fun t => clip (shrink (ncfgc st t)) SP) [0; 1; 2; 3]%Z.
Definition wit (st : state) (t : Z) : list qp := nth (Z.to_nat t) (wits st) [].

(* In the exact rational reading of the f64 constants neighbouring child pentagons overlap in slivers
   of width about 4e-18, so it is the witnesses (inside the shrunk children) that are shown to be
   interior-disjoint.  Candidate separating line for the children a < b: the edge of one of them whose
   largest cross product over the vertices of the other is least. *)
Definition maxl (l : list Q) : Q :=
  match l with [] => 0 | x :: r => fold_left (fun acc y => if Qle_bool acc y then y else acc) r x end.
Definition best_edge (la lb : list qp) : Q * (qp * qp) :=
  fold_left (fun best e =>
               let v := maxl (map (crs (fst e) (snd e)) lb) in
               if Qle_bool (fst best) v then best else (v, e))
            (edges la) (1000, ((0, 0), (0, 0))).
Definition swap_edge (e : qp * qp) : qp * qp := (snd e, fst e).
Definition sep_choice (la lb : list qp) : qp * qp :=
  let ba := best_edge la lb in
  let bb := best_edge lb la in
  if Qle_bool (fst ba) (fst bb) then snd ba else swap_edge (snd bb).
Definition sep_line (st : state) (a b : Z) : qp * qp := sep_choice (ncfgc st a) (ncfgc st b).

(* ------------------------------------------------------------------ 2. the predicates of the certificate *)
(* w is in the closed polygon l (winding of the library: get_area >= 0): no edge cross product is negative *)
Definition inside_closed (l : list qp) (w : qp) : Prop := Forall (fun c => 0 <= c) (crosses QInst l w).
(* every vertex of W is in the closed polygon l *)
Definition poly_in (l W : list qp) : Prop := Forall (inside_closed l) W.
(* v lies on exactly two of the edge lines of W *)
Definition on_two_edges (W : list qp) (v : qp) : Prop :=
  length (filter (fun c => Qle_bool c 0) (crosses QInst W v)) = 2%nat.
(* W is a strictly convex polygon with the winding of the library: every vertex is on the inner side of
   every edge line, and on no edge line other than those of its own two edges.  (The second condition
   excludes repeated and collinear vertices and multiply wound cycles.)  For such a cycle
   get_area QInst W / 2 is the planar area of the region it bounds. *)
Definition convex_pos (W : list qp) : Prop :=
  (3 <= length W)%nat /\ poly_in W W /\ Forall (on_two_edges W) W.
(* the line u1 -> u2 (u1 <> u2) has W1 on its inner side and W2 on its outer side *)
Definition separated (W1 W2 : list qp) : Prop :=
  exists u1 u2, ~ peq1 u1 u2 /\ Forall (fun v => 0 <= crp u1 u2 v) W1 /\ Forall (fun v => crp u1 u2 v <= 0) W2.

Definition inside_closed_b (l : list qp) (w : qp) : bool := forallb (fun c => Qle_bool 0 c) (crosses QInst l w).
Definition poly_in_b (l W : list qp) : bool := forallb (inside_closed_b l) W.
Definition on_two_b (W : list qp) (v : qp) : bool :=
  Nat.eqb (length (filter (fun c => Qle_bool c 0) (crosses QInst W v))) 2.
Definition convex_pos_b (W : list qp) : bool :=
  Nat.leb 3 (length W) && poly_in_b W W && forallb (on_two_b W) W.
Definition separated_b (e : qp * qp) (W1 W2 : list qp) : bool :=
  negb (qp_eqb (fst e) (snd e)) &&
  forallb (fun v => Qle_bool 0 (crs (fst e) (snd e) v)) W1 && forallb (fun v => Qle_bool (crs (fst e) (snd e) v) 0) W2.

Lemma inside_closed_b_ok l w : inside_closed_b l w = true -> inside_closed l w.
Proof.
  unfold inside_closed_b, inside_closed. rewrite forallb_forall, Forall_forall. intros H c Hc.
  apply Qle_bool_iff. apply H. exact Hc.
Qed.
Lemma poly_in_b_ok l W : poly_in_b l W = true -> poly_in l W.
Proof.
  unfold poly_in_b, poly_in. rewrite forallb_forall, Forall_forall. intros H v Hv.
  apply inside_closed_b_ok. apply H. exact Hv.
Qed.
Lemma convex_pos_b_ok W : convex_pos_b W = true -> convex_pos W.
Proof.
  unfold convex_pos_b, convex_pos. rewrite !andb_true_iff. intros [[H1 H2] H3].
  split; [apply Nat.leb_le; exact H1|]. split; [apply poly_in_b_ok; exact H2|].
  rewrite forallb_forall in H3. apply Forall_forall. intros v Hv.
  unfold on_two_edges. apply Nat.eqb_eq. exact (H3 v Hv).
Qed.
Lemma separated_b_ok e W1 W2 : separated_b e W1 W2 = true -> separated W1 W2.
Proof.
  unfold separated_b. rewrite !andb_true_iff, negb_true_iff. intros [[H0 H1] H2].
  exists (fst e), (snd e). split; [|split].
  - intros [E1 E2]. unfold qp_eqb in H0. apply andb_false_iff in H0.
    destruct H0 as [H0|H0]; apply not_true_iff_false in H0; apply H0; apply Qeq_bool_iff; assumption.
  - rewrite forallb_forall in H1. apply Forall_forall. intros v Hv. rewrite <- crs_eq. apply Qle_bool_iff. exact (H1 v Hv).
  - rewrite forallb_forall in H2. apply Forall_forall. intros v Hv. rewrite <- crs_eq. apply Qle_bool_iff. exact (H2 v Hv).
Qed.

Lemma crp_swap u1 u2 v : crp u2 u1 v == - crp u1 u2 v.
Proof. unfold crp. ring. Qed.

Lemma separated_sym W1 W2 : separated W1 W2 -> separated W2 W1.
Proof.
  intros [u1 [u2 [Hne [H1 H2]]]]. exists u2, u1. split; [|split].
  - intros E. apply Hne. apply peq1_sym. exact E.
  - eapply Forall_impl; [|exact H2]. intros v Hv. cbv beta in *. rewrite crp_swap. lra.
  - eapply Forall_impl; [|exact H1]. intros v Hv. cbv beta in *. rewrite crp_swap. lra.
Qed.

(* ------------------------------------------------------------------ 3. the meaning of "vertex-wise" *)
(* Each edge cross product is an affine function of the point, so a closed polygon contains every
   convex combination of points it contains: a polygon whose vertices are in l is in l entirely. *)
Definition wsum (ws : list (Q * qp)) : Q := fold_right (fun wp acc => fst wp + acc) 0 ws.
Definition wdot (ws : list (Q * qp)) (g : qp -> Q) : Q := fold_right (fun wp acc => fst wp * g (snd wp) + acc) 0 ws.
(* the combination  sum_i w_i * p_i *)
Definition wpt (ws : list (Q * qp)) : qp := (wdot ws fst, wdot ws snd).

Lemma crp_affine v1 v2 ws :
  crp v1 v2 (wpt ws) == wdot ws (crp v1 v2) + (1 - wsum ws) * crp v1 v2 (0, 0).
Proof.
  unfold wpt, crp. cbn [fst snd].
  induction ws as [|[w p] r IH]; cbn [wdot wsum fold_right fst snd] in *; [ring|].
  fold (wdot r fst) (wdot r snd) (wsum r) in *.
  fold (wdot r (fun p => (fst v1 - fst v2) * (snd p - snd v1) - (snd v1 - snd v2) * (fst p - fst v1))) in *.
  set (D := wdot r (fun p => (fst v1 - fst v2) * (snd p - snd v1) - (snd v1 - snd v2) * (fst p - fst v1))) in *.
  clearbody D.
  setoid_replace ((fst v1 - fst v2) * (w * snd p + wdot r snd - snd v1) - (snd v1 - snd v2) * (w * fst p + wdot r fst - fst v1))
    with (((fst v1 - fst v2) * (wdot r snd - snd v1) - (snd v1 - snd v2) * (wdot r fst - fst v1))
          + w * ((fst v1 - fst v2) * snd p - (snd v1 - snd v2) * fst p)) by ring.
  rewrite IH. ring.
Qed.

Lemma wdot_nonneg ws g : (forall wp, In wp ws -> 0 <= fst wp) -> (forall wp, In wp ws -> 0 <= g (snd wp)) ->
  0 <= wdot ws g.
Proof.
  induction ws as [|[w p] r IH]; intros Hw Hg; cbn [wdot fold_right fst snd]; [apply Qle_refl|].
  fold (wdot r g).
  assert (0 <= w) by (apply (Hw (w, p)); left; reflexivity).
  assert (0 <= g p) by (apply (Hg (w, p)); left; reflexivity).
  assert (0 <= wdot r g) by (apply IH; intros wp Hin; [apply Hw|apply Hg]; right; exact Hin).
  assert (0 <= w * g p) by (apply Qmult_le_0_compat; assumption).
  lra.
Qed.

Lemma crosses_from_head f v1 rest p :
  exists c, crosses_from QInst f (v1 :: rest) p = c :: crosses_from QInst f rest p /\
    c == crp v1 (match rest with [] => f | b :: _ => b end) p.
Proof.
  eexists. split; [reflexivity|]. unfold crp. cbn [o_sub o_mul QInst]. rewrite !Qstrip2_eq. reflexivity.
Qed.

Lemma crosses_from_convex f l ws :
  wsum ws == 1 -> (forall wp, In wp ws -> 0 <= fst wp) ->
  (forall wp, In wp ws -> Forall (fun c => 0 <= c) (crosses_from QInst f l (snd wp))) ->
  Forall (fun c => 0 <= c) (crosses_from QInst f l (wpt ws)).
Proof.
  intros Hs Hw. induction l as [|v1 rest IH]; intros H; [constructor|].
  destruct (crosses_from_head f v1 rest (wpt ws)) as [c [E Hc]]. rewrite E. constructor.
  - rewrite Hc, crp_affine, Hs.
    assert (0 <= wdot ws (crp v1 (match rest with [] => f | b :: _ => b end))).
    { apply wdot_nonneg; [exact Hw|]. intros wp Hin. specialize (H wp Hin).
      destruct (crosses_from_head f v1 rest (snd wp)) as [c' [E' Hc']]. rewrite E' in H.
      apply Forall_inv in H. rewrite <- Hc'. exact H. }
    lra.
  - apply IH. intros wp Hin. specialize (H wp Hin).
    destruct (crosses_from_head f v1 rest (snd wp)) as [c' [E' _]]. rewrite E' in H.
    apply Forall_inv_tail in H. exact H.
Qed.

(* inside_closed_convex: a closed polygon contains all convex combinations of points it contains *)
Theorem inside_closed_convex (l : list qp) (ws : list (Q * qp)) :
  wsum ws == 1 -> (forall wp, In wp ws -> 0 <= fst wp) ->
  (forall wp, In wp ws -> inside_closed l (snd wp)) ->
  inside_closed l (wpt ws).
Proof.
  intros Hs Hw H. unfold inside_closed, crosses in *. destruct l as [|a r]; [constructor|].
  apply crosses_from_convex; assumption.
Qed.

(* in particular: every convex combination of the vertices of W, when the vertices of W are in l *)
Corollary poly_in_convex (l W : list qp) (ws : list (Q * qp)) :
  poly_in l W -> wsum ws == 1 -> (forall wp, In wp ws -> 0 <= fst wp /\ In (snd wp) W) ->
  inside_closed l (wpt ws).
Proof.
  intros HW Hs H. apply inside_closed_convex; [exact Hs|intros wp Hin; apply H; exact Hin|].
  intros wp Hin. unfold poly_in in HW. rewrite Forall_forall in HW. apply HW. apply H. exact Hin.
Qed.

(* ------------------------------------------------------------------ 4. invariance under x |-> (x + t) * k *)
Lemma aff_map k t l : aff k t l = map (affp k t) l.
Proof. reflexivity. Qed.

Definition rel2 (k : Q) (a b : Q) : Prop := a == k * k * b.

Lemma crosses_rel k t l l' w w' : peq l' (aff k t l) -> peq1 w' (affp k t w) ->
  Forall2 (rel2 k) (crosses QInst l' w') (crosses QInst l w).
Proof.
  intros Hl Hw. pose proof (crosses_peq _ _ _ _ Hl Hw) as H1. pose proof (crosses_aff k t l w) as H2.
  revert H1 H2. generalize (crosses QInst l' w') (crosses QInst (aff k t l) (affp k t w)) (crosses QInst l w).
  intros c1 c2 c3 H1. revert c3. induction H1 as [|a b r r' Hab Hr IH]; intros c3 H2.
  - inversion H2; subst. constructor.
  - inversion H2; subst. constructor; [|apply IH; assumption]. unfold rel2. rewrite Hab. assumption.
Qed.

Lemma kk_pos k : 0 < k -> 0 < k * k.
Proof. intros H. apply Qmult_lt_0_compat; exact H. Qed.

Lemma rel2_nonneg k cs' cs : 0 < k -> Forall2 (rel2 k) cs' cs ->
  Forall (fun c => 0 <= c) cs -> Forall (fun c => 0 <= c) cs'.
Proof.
  intros Hk H. pose proof (kk_pos k Hk) as HK. induction H as [|a b r r' Hab Hr IH]; intros HF; [constructor|].
  inversion HF; subst. constructor; [|apply IH; assumption]. unfold rel2 in Hab. rewrite Hab.
  apply Qmult_le_0_compat; [apply Qlt_le_weak; exact HK|assumption].
Qed.

Lemma rel2_le0 k a b : 0 < k -> rel2 k a b -> Qle_bool a 0 = Qle_bool b 0.
Proof.
  intros Hk H. pose proof (kk_pos k Hk) as HK. unfold rel2 in H.
  apply eq_true_iff_eq. rewrite !Qle_bool_iff, H. split; intros HL.
  - destruct (Qlt_le_dec 0 b) as [Hb|Hb]; [|exact Hb]. exfalso.
    assert (0 < k * k * b) by (apply Qmult_lt_0_compat; assumption). lra.
  - assert (0 <= k * k * (- b)) by (apply Qmult_le_0_compat; lra).
    setoid_replace (k * k * - b) with (- (k * k * b)) in H0 by ring. lra.
Qed.

Lemma rel2_count k cs' cs : 0 < k -> Forall2 (rel2 k) cs' cs ->
  length (filter (fun c => Qle_bool c 0) cs') = length (filter (fun c => Qle_bool c 0) cs).
Proof.
  intros Hk H. induction H as [|a b r r' Hab Hr IH]; [reflexivity|].
  cbn [filter]. rewrite (rel2_le0 k a b Hk Hab). destruct (Qle_bool b 0); cbn [length]; rewrite IH; reflexivity.
Qed.

Lemma inside_closed_transfer k t l l' w w' : 0 < k -> peq l' (aff k t l) -> peq1 w' (affp k t w) ->
  inside_closed l w -> inside_closed l' w'.
Proof. intros Hk Hl Hw H. exact (rel2_nonneg k _ _ Hk (crosses_rel k t l l' w w' Hl Hw) H). Qed.

Lemma poly_in_transfer k t l l' W : 0 < k -> peq l' (aff k t l) -> poly_in l W -> poly_in l' (aff k t W).
Proof.
  intros Hk Hl H. unfold poly_in in *. rewrite aff_map. induction H as [|v r Hv Hr IH]; cbn [map]; constructor.
  - eapply inside_closed_transfer; [exact Hk|exact Hl|apply peq1_refl|exact Hv].
  - exact IH.
Qed.

Lemma convex_pos_transfer k t W : 0 < k -> convex_pos W -> convex_pos (aff k t W).
Proof.
  intros Hk [H1 [H2 H3]]. split; [|split].
  - rewrite aff_map, map_length. exact H1.
  - apply (poly_in_transfer k t W); [exact Hk|apply peq_refl|exact H2].
  - rewrite aff_map at 2. generalize (peq_refl (aff k t W)). generalize (aff k t W) at 1 3. intros W' HW'.
    induction H3 as [|v r Hv Hr IH]; cbn [map]; constructor; [|exact IH].
    unfold on_two_edges in *. rewrite <- Hv.
    apply (rel2_count k); [exact Hk|]. apply (crosses_rel k t); [exact HW'|apply peq1_refl].
Qed.

Lemma crp_aff k t u1 u2 v : crp (affp k t u1) (affp k t u2) (affp k t v) == k * k * crp u1 u2 v.
Proof. unfold crp, affp. cbn [fst snd]. ring. Qed.

Lemma separated_transfer k t W1 W2 : 0 < k -> separated W1 W2 -> separated (aff k t W1) (aff k t W2).
Proof.
  intros Hk [u1 [u2 [Hne [H1 H2]]]]. pose proof (kk_pos k Hk) as HK.
  exists (affp k t u1), (affp k t u2). split; [|split].
  - intros [E1 E2]. apply Hne. unfold affp in E1, E2. cbn [fst snd] in E1, E2.
    assert (NZ : ~ k == 0) by lra.
    split.
    + apply (Qmult_inj_r (fst u1 + fst t) (fst u2 + fst t) k NZ) in E1. lra.
    + apply (Qmult_inj_r (snd u1 + snd t) (snd u2 + snd t) k NZ) in E2. lra.
  - rewrite aff_map. apply Forall_forall. intros v' Hv'. apply in_map_iff in Hv'. destruct Hv' as [v [<- Hv]].
    rewrite Forall_forall in H1. specialize (H1 v Hv). cbv beta in H1. rewrite crp_aff.
    apply Qmult_le_0_compat; [lra|exact H1].
  - rewrite aff_map. apply Forall_forall. intros v' Hv'. apply in_map_iff in Hv'. destruct Hv' as [v [<- Hv]].
    rewrite Forall_forall in H2. specialize (H2 v Hv). cbv beta in H2. rewrite crp_aff.
    assert (0 <= k * k * (- crp u1 u2 v)) by (apply Qmult_le_0_compat; lra).
    setoid_replace (k * k * - crp u1 u2 v) with (- (k * k * crp u1 u2 v)) in H by ring. lra.
Qed.

Lemma aff_peq k t l l' : peq l l' -> peq (aff k t l) (aff k t l').
Proof.
  intros H. unfold aff. induction H as [|p q r r' Hpq Hr IH]; cbn [map]; constructor; [|exact IH].
  destruct Hpq as [A B]. unfold peq1. cbn [fst snd]. rewrite A, B. split; reflexivity.
Qed.

Lemma nrm_peq l : peq (map nrm l) l.
Proof.
  induction l as [|p r IH]; cbn [map]; constructor; [|exact IH].
  unfold nrm, peq1. cbn [fst snd]. split; apply Qstrip2_eq.
Qed.

Lemma area_aff k t W : get_area QInst (aff k t W) == k * k * get_area QInst W.
Proof.
  rewrite !area_plain. unfold aff.
  rewrite (get_area_map _ (k * k) (fun p => 2 * (k * k) * snd t * fst p)); [ring|].
  intros [xa ya] [xb yb]. unfold edge. cbn [fst snd]. ring.
Qed.

(* ------------------------------------------------------------------ 5. the finite table *)
(* covered fraction certified below (the minimum over the 48 states is 0.58197...) *)
Definition cover_bound : Q := 29 # 50.

Definition digits4 : list Z := [0; 1; 2; 3]%Z.
Lemma in_digits4 t : (0 <= t < 4)%Z -> In t digits4.
Proof.
  intros H. assert (C : (t = 0 \/ t = 1 \/ t = 2 \/ t = 3)%Z) by lia.
  unfold digits4. destruct C as [->|[->|[->| ->]]]; cbn [In]; auto.
Qed.

Definition part_b (P C W : list qp) : bool := poly_in_b P W && poly_in_b C W && convex_pos_b W.
Lemma part_b_ok P C W : part_b P C W = true -> poly_in P W /\ poly_in C W /\ convex_pos W.
Proof.
  unfold part_b. rewrite !andb_true_iff. intros [[H1 H2] H3].
  auto using poly_in_b_ok, convex_pos_b_ok.
Qed.

Definition area4 (Ws : list (list qp)) : Q :=
  get_area QInst (nth 0 Ws []) + get_area QInst (nth 1 Ws []) + get_area QInst (nth 2 Ws []) + get_area QInst (nth 3 Ws []).

(* the whole certificate for one parent state; the witnesses are computed once *)
Definition state_check (st : state) : bool :=
  let Ws := wits st in
  let P := ncfgp st in
  forallb (fun t => part_b P (ncfgc st t) (nth (Z.to_nat t) Ws [])) digits4 &&
  forallb (fun a => forallb (fun b =>
    if (a <? b)%Z then separated_b (sep_line st a b) (nth (Z.to_nat a) Ws []) (nth (Z.to_nat b) Ws []) else true)
    digits4) digits4 &&
  Qltb (cover_bound * A0) (area4 Ws).

Lemma cover_table_a : forallb state_check (firstn 24 parent_states) = true.
Proof. vm_cast_no_check (eq_refl true). Qed.
Lemma cover_table_b : forallb state_check (skipn 24 parent_states) = true.
Proof. vm_cast_no_check (eq_refl true). Qed.
Lemma cover_table : forallb state_check parent_states = true.
Proof.
  rewrite <- (firstn_skipn 24 parent_states), forallb_app, cover_table_a, cover_table_b. reflexivity.
Qed.

Lemma state_cover st : In st parent_states ->
  (forall t, (0 <= t < 4)%Z ->
     poly_in (ncfgp st) (wit st t) /\ poly_in (ncfgc st t) (wit st t) /\ convex_pos (wit st t)) /\
  (forall a b, (0 <= a < 4)%Z -> (0 <= b < 4)%Z -> a <> b -> separated (wit st a) (wit st b)) /\
  cover_bound * A0 < get_area QInst (wit st 0) + get_area QInst (wit st 1) + get_area QInst (wit st 2) + get_area QInst (wit st 3).
Proof.
  intros Hin. pose proof (proj1 (forallb_forall _ _) cover_table st Hin) as H.
  unfold state_check in H. cbv zeta in H. rewrite !andb_true_iff in H. destruct H as [[H1 H2] H3].
  split; [|split].
  - intros t Ht. apply part_b_ok. exact (proj1 (forallb_forall _ _) H1 t (in_digits4 t Ht)).
  - assert (K : forall a b, (0 <= a < 4)%Z -> (0 <= b < 4)%Z -> (a < b)%Z -> separated (wit st a) (wit st b)).
    { intros a b Ha Hb Hab.
      pose proof (proj1 (forallb_forall _ _) H2 a (in_digits4 a Ha)) as H2a. cbv beta in H2a.
      pose proof (proj1 (forallb_forall _ _) H2a b (in_digits4 b Hb)) as H2b. cbv beta in H2b.
      apply Z.ltb_lt in Hab. rewrite Hab in H2b. exact (separated_b_ok _ _ _ H2b). }
    intros a b Ha Hb Hab. destruct (Z_lt_le_dec a b) as [L|L]; [apply K; assumption|].
    apply separated_sym. apply K; try assumption. lia.
  - apply AreaProofs.Qltb_true. exact H3.
Qed.

(* ------------------------------------------------------------------ 6. transfer to every depth, position, orientation *)
Lemma ncfgp_peq st : peq (ncfgp st) (cfgp st).
Proof. apply nrm_peq. Qed.
Lemma ncfgc_peq st t : peq (ncfgc st t) (cfgc (st_with st t)).
Proof. apply nrm_peq. Qed.

Lemma peq_sym l l' : peq l l' -> peq l' l.
Proof. induction 1 as [|p q r r' Hpq Hr IH]; constructor; [apply peq1_sym; exact Hpq|exact IH]. Qed.

(* the child pentagon of state digit t', in terms of the stripped configuration *)
Lemma child_geometry (n : nat) (G : Z * Z) (st : state) (t' : Z) :
  exists lc,
    get_pentagon_vertices QInst (Z.of_nat (S n)) 0 (shift_anchor (vsc 2 G) (st_child (st_with st t'))) = Some lc /\
    peq lc (aff (1 / pw n) (Bz G) (ncfgc st t')).
Proof.
  destruct (state_geometry n G (st_with st t')) as [lp [lc [_ [Hc [_ Pc]]]]].
  exists lc. split; [exact Hc|]. eapply peq_trans; [exact Pc|]. apply aff_peq. apply peq_sym. apply ncfgc_peq.
Qed.

Lemma parent_geometry (n : nat) (G : Z * Z) (st : state) :
  exists lp,
    get_pentagon_vertices QInst (Z.of_nat n) 0 (shift_anchor G (st_parent st)) = Some lp /\
    peq lp (aff (1 / pw n) (Bz G) (ncfgp st)).
Proof.
  destruct (state_geometry n G st) as [lp [lc [Hp [_ [Pp _]]]]].
  exists lp. split; [exact Hp|]. eapply peq_trans; [exact Pp|]. apply aff_peq. apply peq_sym. apply ncfgp_peq.
Qed.

Definition child_vertices (n : nat) (o s t : Z) : list qp :=
  match get_pentagon_vertices QInst (Z.of_nat (S n)) 0 (s_to_anchor (4 * s + t) (S n) o) with
  | Some l => l
  | None => []
  end.

(* Convention: true face coordinates, as in ChildProofs.v.  get_area is twice the planar area, so the
   planar area of a polygon l (parent, witness) is get_area QInst l / 2.
   children_cover: for every cell of curve depth n = 1..28 there are four polygons W 0 .. W 3 such that
   - W t is a strictly convex polygon with the winding of the library (convex_pos),
   - every vertex of W t, hence (inside_closed_convex) every point of W t, lies in the closed parent
     pentagon and in the closed child pentagon 4s+t,
   - W t1 and W t2 (t1 <> t2) lie on opposite sides of a line,
   - the planar areas of the W t add up to more than cover_bound = 0.58 times the parent's planar area. *)
Theorem children_cover (n : nat) (o s : Z) :
  (1 <= n <= 28)%nat -> (0 <= o < 6)%Z -> (0 <= s < 4 ^ Z.of_nat n)%Z ->
  exists (lp : list qp) (lc W : Z -> list qp),
    get_pentagon_vertices QInst (Z.of_nat n) 0 (s_to_anchor s n o) = Some lp /\
    (forall t, (0 <= t < 4)%Z ->
       get_pentagon_vertices QInst (Z.of_nat (S n)) 0 (s_to_anchor (4 * s + t) (S n) o) = Some (lc t) /\
       poly_in lp (W t) /\ poly_in (lc t) (W t) /\ convex_pos (W t)) /\
    (forall t1 t2, (0 <= t1 < 4)%Z -> (0 <= t2 < 4)%Z -> t1 <> t2 -> separated (W t1) (W t2)) /\
    cover_bound * (get_area QInst lp / 2) <
      get_area QInst (W 0%Z) / 2 + get_area QInst (W 1%Z) / 2 + get_area QInst (W 2%Z) / 2 + get_area QInst (W 3%Z) / 2.
Proof.
  intros Hn Ho Hs.
  destruct (children_offset_finite n o s Hn Ho Hs) as [G [st [Hin [Ep Ec]]]].
  destruct (parent_geometry n G st) as [lp [Hp Pp]].
  destruct (state_cover st Hin) as [HW [HS HA]].
  assert (Hk : 0 < 1 / pw n).
  { apply Qlt_shift_div_l; [apply pw_pos|]. rewrite Qmult_0_l. reflexivity. }
  exists lp, (child_vertices n o s), (fun t => aff (1 / pw n) (Bz G) (wit st (adj_t o t))).
  split; [rewrite Ep; exact Hp|]. split; [|split].
  - intros t Ht. pose proof (adj_t_range o t Ht) as Ht'.
    destruct (child_geometry n G st (adj_t o t)) as [lc [Hc Pc]].
    unfold child_vertices. rewrite (Ec t Ht), Hc. split; [reflexivity|].
    destruct (HW (adj_t o t) Ht') as [W1 [W2 W3]].
    split; [|split].
    + apply (poly_in_transfer _ _ (ncfgp st)); assumption.
    + apply (poly_in_transfer _ _ (ncfgc st (adj_t o t))); assumption.
    + apply convex_pos_transfer; assumption.
  - intros t1 t2 Ht1 Ht2 Hne. cbv beta. apply separated_transfer; [exact Hk|].
    apply HS; [apply adj_t_range; exact Ht1|apply adj_t_range; exact Ht2|].
    intros E. apply Hne. exact (adj_t_inj o t1 t2 E).
  - cbv beta. rewrite !area_aff.
    destruct (pentagon_planar_area (Z.of_nat n) _ lp ltac:(lia) Hp) as [HAp _].
    rewrite HAp, inv_pw_sq.
    pose proof (inject_pow_pos 4 (Z.of_nat n) ltac:(lia) ltac:(lia)) as H4.
    set (K := inject_Z (4 ^ Z.of_nat n)) in *.
    assert (E : get_area QInst (wit st (adj_t o 0)) + get_area QInst (wit st (adj_t o 1)) +
                get_area QInst (wit st (adj_t o 2)) + get_area QInst (wit st (adj_t o 3)) ==
                get_area QInst (wit st 0) + get_area QInst (wit st 1) + get_area QInst (wit st 2) + get_area QInst (wit st 3)).
    { assert (R : forall b0 b1 b2 b3 : Q, b3 + b2 + b1 + b0 == b0 + b1 + b2 + b3) by (intros; ring).
      unfold adj_t. destruct (o_reverse o); [|reflexivity].
      change (3 - 0)%Z with 3%Z. change (3 - 1)%Z with 2%Z. change (3 - 2)%Z with 1%Z. change (3 - 3)%Z with 0%Z.
      apply R. }
    rewrite <- E in HA.
    set (a0 := get_area QInst (wit st (adj_t o 0))) in *. set (a1 := get_area QInst (wit st (adj_t o 1))) in *.
    set (a2 := get_area QInst (wit st (adj_t o 2))) in *. set (a3 := get_area QInst (wit st (adj_t o 3))) in *.
    clearbody a0 a1 a2 a3 K. clear E.
    assert (NZ : ~ K == 0) by lra.
    setoid_replace (cover_bound * (A0 / K / 2)) with ((cover_bound * A0) * (1 / (2 * K))) by (field; exact NZ).
    setoid_replace (1 / K * a0 / 2 + 1 / K * a1 / 2 + 1 / K * a2 / 2 + 1 / K * a3 / 2)
      with ((a0 + a1 + a2 + a3) * (1 / (2 * K))) by (field; exact NZ).
    apply Qmult_lt_compat_r; [|exact HA].
    apply Qlt_shift_div_l; [lra|]. rewrite Qmult_0_l. reflexivity.
Qed.

(* the statement of the property: more than half *)
Corollary children_cover_half (n : nat) (o s : Z) :
  (1 <= n <= 28)%nat -> (0 <= o < 6)%Z -> (0 <= s < 4 ^ Z.of_nat n)%Z ->
  exists (lp : list qp) (lc W : Z -> list qp),
    get_pentagon_vertices QInst (Z.of_nat n) 0 (s_to_anchor s n o) = Some lp /\
    (forall t, (0 <= t < 4)%Z ->
       get_pentagon_vertices QInst (Z.of_nat (S n)) 0 (s_to_anchor (4 * s + t) (S n) o) = Some (lc t) /\
       poly_in lp (W t) /\ poly_in (lc t) (W t) /\ convex_pos (W t)) /\
    (forall t1 t2, (0 <= t1 < 4)%Z -> (0 <= t2 < 4)%Z -> t1 <> t2 -> separated (W t1) (W t2)) /\
    (get_area QInst lp / 2) / 2 <
      get_area QInst (W 0%Z) / 2 + get_area QInst (W 1%Z) / 2 + get_area QInst (W 2%Z) / 2 + get_area QInst (W 3%Z) / 2.
Proof.
  intros Hn Ho Hs. destruct (children_cover n o s Hn Ho Hs) as [lp [lc [W [Hp [HW [HS HA]]]]]].
  exists lp, lc, W. split; [exact Hp|]. split; [exact HW|]. split; [exact HS|].
  eapply Qle_lt_trans; [|exact HA].
  destruct (pentagon_planar_area (Z.of_nat n) _ lp ltac:(lia) Hp) as [HAp _].
  assert (0 <= get_area QInst lp).
  { rewrite HAp. pose proof (inject_pow_pos 4 (Z.of_nat n) ltac:(lia) ltac:(lia)) as H4. pose proof A0_pos.
    apply Qlt_le_weak. apply Qlt_shift_div_l; [exact H4|]. rewrite Qmult_0_l. assumption. }
  unfold cover_bound. set (A := get_area QInst lp) in *. clearbody A.
  setoid_replace (A / 2 / 2) with ((1 # 4) * A) by field.
  setoid_replace ((29 # 50) * (A / 2)) with ((29 # 100) * A) by field.
  apply Qmult_le_compat_r; [discriminate|assumption].
Qed.

(* ------------------------------------------------------------------ 7. resolutions 0 -> 1 -> 2 *)
(* the same certificate for closed polygons: parent P, children Cs, witnesses Ws (four of each) *)
Definition gen_wits (P : list qp) (Cs : list (list qp)) : list (list qp) :=
  let SP := shrink P in map (fun C => clip (shrink C) SP) Cs.
Definition idx4 : list nat := [0; 1; 2; 3]%nat.
Definition cover_check (bound : Q) (P : list qp) (Cs Ws : list (list qp)) : bool :=
  forallb (fun i => part_b P (nth i Cs []) (nth i Ws [])) idx4 &&
  forallb (fun a => forallb (fun b =>
    if (a <? b)%nat then separated_b (sep_choice (nth a Cs []) (nth b Cs [])) (nth a Ws []) (nth b Ws []) else true)
    idx4) idx4 &&
  Qltb (bound * get_area QInst P) (area4 Ws).

Lemma in_idx4 i : (i < 4)%nat -> In i idx4.
Proof.
  intros H. assert (C : (i = 0 \/ i = 1 \/ i = 2 \/ i = 3)%nat) by lia.
  unfold idx4. destruct C as [->|[->|[->| ->]]]; cbn [In]; auto.
Qed.

Lemma cover_check_ok bound P Cs Ws : cover_check bound P Cs Ws = true ->
  (forall i, (i < 4)%nat -> poly_in P (nth i Ws []) /\ poly_in (nth i Cs []) (nth i Ws []) /\ convex_pos (nth i Ws [])) /\
  (forall a b, (a < 4)%nat -> (b < 4)%nat -> a <> b -> separated (nth a Ws []) (nth b Ws [])) /\
  bound * get_area QInst P <
    get_area QInst (nth 0 Ws []) + get_area QInst (nth 1 Ws []) + get_area QInst (nth 2 Ws []) + get_area QInst (nth 3 Ws []).
Proof.
  unfold cover_check, area4. rewrite !andb_true_iff. intros [[H1 H2] H3]. split; [|split].
  - intros i Hi. apply part_b_ok. exact (proj1 (forallb_forall _ _) H1 i (in_idx4 i Hi)).
  - assert (K : forall a b, (a < 4)%nat -> (b < 4)%nat -> (a < b)%nat -> separated (nth a Ws []) (nth b Ws [])).
    { intros a b Ha Hb Hab.
      pose proof (proj1 (forallb_forall _ _) H2 a (in_idx4 a Ha)) as H2a. cbv beta in H2a.
      pose proof (proj1 (forallb_forall _ _) H2a b (in_idx4 b Hb)) as H2b. cbv beta in H2b.
      apply Nat.ltb_lt in Hab. rewrite Hab in H2b. exact (separated_b_ok _ _ _ H2b). }
    intros a b Ha Hb Hab. destruct (Nat.lt_ge_cases a b) as [L|L]; [apply K; assumption|].
    apply separated_sym. apply K; try assumption. lia.
  - apply AreaProofs.Qltb_true. exact H3.
Qed.

Definition opt_list (x : option (list qp)) : list qp := match x with Some l => l | None => [] end.
Definition depth1_vertices (o s : Z) : list qp := opt_list (get_pentagon_vertices QInst 1 0 (s_to_anchor s 1 o)).
Notation quintant0 := (opt_list (get_quintant_vertices QInst 0)).
Definition depth1_all (o : Z) : list (list qp) := map (depth1_vertices o) digits4.

(* resolution 1 -> 2: covered fraction certified (the value found is 0.79098...) *)
Definition cover_bound1 : Q := 79 # 100.

Lemma quintant_cover_table :
  forallb (fun o =>
    is_some (get_quintant_vertices QInst 0) &&
    forallb (fun s => is_some (get_pentagon_vertices QInst 1 0 (s_to_anchor s 1 o))) digits4 &&
    cover_check cover_bound1 quintant0 (depth1_all o) (gen_wits quintant0 (depth1_all o))) (seqZ 0 6) = true.
Proof. vm_cast_no_check (eq_refl true). Qed.

Lemma opt_list_some (x : option (list qp)) : is_some x = true -> x = Some (opt_list x).
Proof. destruct x; [reflexivity|discriminate]. Qed.

(* resolution 0 -> 1.  In the exact rational reading of the f64 constants the vertex w of the quintant-0
   triangle lies outside the face pentagon by a cross product of about -1.1e-16, so the triangle is not
   vertex-wise inside the face; a convex polygon inside both covers more than 0.1999 of the face
   (the triangle's own planar area is 1/5 of the face's within 1e-15: planar_quintant_area). *)
Notation face0 := (opt_list (get_face_vertices QInst)).
Definition quintant_share : Q := 1999 # 10000.

Lemma face_cover_check :
  is_some (get_face_vertices QInst) && is_some (get_quintant_vertices QInst 0) &&
  negb (poly_in_b face0 quintant0) &&
  part_b face0 quintant0 (clip (shrink quintant0) (shrink face0)) &&
  Qltb (quintant_share * get_area QInst face0) (get_area QInst (clip (shrink quintant0) (shrink face0))) = true.
Proof. vm_cast_no_check (eq_refl true). Qed.

Lemma half_scale4 (b A a0 a1 a2 a3 : Q) : b * A < a0 + a1 + a2 + a3 -> b * (A / 2) < a0 / 2 + a1 / 2 + a2 / 2 + a3 / 2.
Proof.
  intros HA.
  setoid_replace (b * (A / 2)) with ((b * A) / 2) by field.
  setoid_replace (a0 / 2 + a1 / 2 + a2 / 2 + a3 / 2) with ((a0 + a1 + a2 + a3) / 2) by field.
  apply Qmult_lt_compat_r; [reflexivity|exact HA].
Qed.
Lemma half_scale1 (b A a : Q) : b * A < a -> b * (A / 2) < a / 2.
Proof.
  intros HA. setoid_replace (b * (A / 2)) with ((b * A) / 2) by field.
  apply Qmult_lt_compat_r; [reflexivity|exact HA].
Qed.

(* the quintant-0 triangle and its four depth-1 pentagons (positions s = 0..3), six orientations *)
Theorem quintant_children_cover (o : Z) : (0 <= o < 6)%Z ->
  exists (lq : list qp) (lc W : Z -> list qp),
    get_quintant_vertices QInst 0 = Some lq /\
    (forall s, (0 <= s < 4)%Z ->
       get_pentagon_vertices QInst 1 0 (s_to_anchor s 1 o) = Some (lc s) /\
       poly_in lq (W s) /\ poly_in (lc s) (W s) /\ convex_pos (W s)) /\
    (forall s1 s2, (0 <= s1 < 4)%Z -> (0 <= s2 < 4)%Z -> s1 <> s2 -> separated (W s1) (W s2)) /\
    cover_bound1 * (get_area QInst lq / 2) <
      get_area QInst (W 0%Z) / 2 + get_area QInst (W 1%Z) / 2 + get_area QInst (W 2%Z) / 2 + get_area QInst (W 3%Z) / 2.
Proof.
  intros Ho.
  pose proof (proj1 (forallb_forall _ _) quintant_cover_table o ltac:(apply in_seqZ; lia)) as H. cbv beta in H.
  destruct (andb_prop _ _ H) as [H2 HC]. destruct (andb_prop _ _ H2) as [Hq Hc]. clear H H2.
  apply cover_check_ok in HC. destruct HC as [HW [HS HA]].
  pose proof (opt_list_some _ Hq) as Eq.
  assert (Ec : forall s, (0 <= s < 4)%Z ->
            get_pentagon_vertices QInst 1 0 (s_to_anchor s 1 o) = Some (depth1_vertices o s)).
  { intros s Hs. apply opt_list_some. exact (proj1 (forallb_forall _ _) Hc s (in_digits4 s Hs)). }
  assert (Hnth : forall s, (0 <= s < 4)%Z -> nth (Z.to_nat s) (depth1_all o) [] = depth1_vertices o s).
  { intros s Hs. assert (C : (s = 0 \/ s = 1 \/ s = 2 \/ s = 3)%Z) by lia.
    destruct C as [->|[->|[->| ->]]]; reflexivity. }
  clear Hq Hc.
  set (Ws := gen_wits quintant0 (depth1_all o)) in *. clearbody Ws.
  set (Cs := depth1_all o) in *. clearbody Cs.
  set (lq := quintant0) in *. clearbody lq.
  exists lq, (depth1_vertices o), (fun s => nth (Z.to_nat s) Ws []).
  split; [exact Eq|]. split; [|split].
  - intros s Hs. split; [exact (Ec s Hs)|].
    rewrite <- (Hnth s Hs). apply HW. lia.
  - intros s1 s2 Hs1 Hs2 Hne. apply HS; lia.
  - change (Z.to_nat 0) with 0%nat. change (Z.to_nat 1) with 1%nat.
    change (Z.to_nat 2) with 2%nat. change (Z.to_nat 3) with 3%nat.
    apply half_scale4. exact HA.
Qed.

Theorem face_quintant_cover :
  exists (lf lq W : list qp),
    get_face_vertices QInst = Some lf /\ get_quintant_vertices QInst 0 = Some lq /\
    poly_in lf W /\ poly_in lq W /\ convex_pos W /\
    quintant_share * (get_area QInst lf / 2) < get_area QInst W / 2 /\
    Qabs (get_area QInst lq / 2 - (get_area QInst lf / 2) / 5) <= eps15 * ((get_area QInst lf / 2) / 5).
Proof.
  pose proof face_cover_check as H.
  destruct (andb_prop _ _ H) as [H4 HA]. destruct (andb_prop _ _ H4) as [H3 HP].
  destruct (andb_prop _ _ H3) as [H2 _]. destruct (andb_prop _ _ H2) as [Hf Hq]. clear H H4 H3 H2.
  apply part_b_ok in HP. destruct HP as [P1 [P2 P3]]. apply AreaProofs.Qltb_true in HA.
  pose proof (opt_list_some _ Hf) as Ef. pose proof (opt_list_some _ Hq) as Eq.
  pose proof (planar_face_area _ Ef) as EA.
  pose proof (planar_quintant_area 0 _ ltac:(lia) Eq) as EQ.
  clear Hf Hq.
  set (W := clip (shrink quintant0) (shrink face0)) in *. clearbody W.
  set (lq := quintant0) in *. clearbody lq.
  set (lf := face0) in *. clearbody lf.
  exists lf, lq, W.
  split; [exact Ef|]. split; [exact Eq|]. split; [exact P1|]. split; [exact P2|]. split; [exact P3|]. split.
  - apply half_scale1. exact HA.
  - rewrite EA. exact EQ.
Qed.

(* the strict containment of the triangle in the face fails in this model *)
Lemma quintant_not_vertexwise_in_face : poly_in_b face0 quintant0 = false.
Proof.
  pose proof face_cover_check as H.
  destruct (andb_prop _ _ H) as [H4 _]. destruct (andb_prop _ _ H4) as [H3 _].
  destruct (andb_prop _ _ H3) as [_ Hn].
  exact (proj1 (negb_true_iff _) Hn).
Qed.

(* Summary.
   Model and conventions as in ChildProofs.v: exact rational instance QInst, quintant 0, true face
   coordinates; parent = get_pentagon_vertices QInst n 0 (s_to_anchor s n o), children = positions 4s+t at
   depth n+1; 1 <= n <= 28, all six orientations, all s < 4^n.  get_area is twice the planar area.
   - children_offset_finite : the parent and its four children are (P + G, C_t' + 2G) for ONE of 48 parent
     states and one translation G (t' = t, or 3 - t for the reversed orientations);
   - inside_closed_convex / poly_in_convex : a closed polygon (all edge cross products >= 0) contains every
     convex combination of points it contains, so "vertex-wise inside" means "inside";
   - cover_table (cover_table_a, cover_table_b; vm_compute over the 48 states): for the witness polygons
     proposed by the unverified generator (wits), exact rational checks of: vertices inside parent and
     child, strict convexity with the library's winding, a separating line for each pair, and
     sum of areas > 29/50 of the parent's;
   - children_cover, children_cover_half : transfer to every n, o, s (cross products and areas scale by the
     positive factor 4^-n under the common affine map);
   - quintant_children_cover (resolution 1 -> 2, bound 79/100; value found 0.79098) and face_quintant_cover
     (resolution 0 -> 1, quintant 0's share > 0.1999 of the face).
   Side computation (not part of any statement): the covered fraction takes two values over the 48 states,
   0.581970565... and 0.680586853... (exact clip); the witnesses certify 0.581970442... and 0.680586717....
   Findings about the exact rational reading of the f64 constants: neighbouring children overlap in
   slivers (cross products about 4e-18), and the vertex w of the quintant-0 triangle is outside the face
   pentagon by a cross product of -1.1e-16 (quintant_not_vertexwise_in_face); both are far below f64
   resolution.
   Not covered: the sphere, quintants 1..4, parents of depth 29. *)
