(* C17, digit part: the backward digit pass of ij_to_s_internal exactly undoes the forward
   pass of s_to_anchor_internal, for every digit-list length, every pattern table that is a
   permutation of 0..7 (in particular [pattern] and [pattern_flipped]) and both values of
   invert_j.  Consequences: positions s and shifted digit strings correspond one-to-one. *)
From Coq Require Import ZArith List Bool Lia Permutation.
From A5 Require Import Base.Outcome Base.Word Num.NumOps Hilbert.Hilbert.
From A5gen Require Import TablesCur.
Import ListNotations.
Open Scope Z_scope.

(* ------------------------------------------------------------------------------------ *)
(** * 0. Vocabulary *)

Definition digit (d : Z) : Prop := 0 <= d < 4.
Definition digitb (d : Z) : bool := (0 <=? d) && (d <? 4).
Definition digits (l : list Z) : Prop := Forall digit l.

Lemma digitb_spec d : digitb d = true <-> digit d.
Proof. unfold digitb, digit. rewrite andb_true_iff, Z.leb_le, Z.ltb_lt. tauto. Qed.

Lemma digit_in_seqZ d : digit d <-> In d (seqZ 0 4).
Proof. unfold digit. rewrite in_seqZ. simpl. lia. Qed.

(* flips values with both components in {1,-1} *)
Definition pm1 (x : Z) : Prop := x = 1 \/ x = -1.
Definition flips_ok (f : flips) : Prop := pm1 (fst f) /\ pm1 (snd f).
Definition pm1b (x : Z) : bool := (x =? 1) || (x =? -1).
Definition flips_okb (f : flips) : bool := pm1b (fst f) && pm1b (snd f).

Lemma pm1b_spec x : pm1b x = true <-> pm1 x.
Proof. unfold pm1b, pm1. rewrite orb_true_iff, !Z.eqb_eq. tauto. Qed.

Lemma flips_okb_spec f : flips_okb f = true <-> flips_ok f.
Proof. unfold flips_okb, flips_ok. rewrite andb_true_iff, !pm1b_spec. tauto. Qed.

Lemma NOF_ok : flips_ok NOF.
Proof. split; left; reflexivity. Qed.

Lemma pm1_mul x y : pm1 x -> pm1 y -> pm1 (x * y).
Proof. unfold pm1. intros [-> | ->] [-> | ->]; simpl; auto. Qed.

Lemma fmul_ok a b : flips_ok a -> flips_ok b -> flips_ok (fmul a b).
Proof. intros [Ha1 Ha2] [Hb1 Hb2]. split; simpl; apply pm1_mul; assumption. Qed.

Lemma fmul_comm a b : fmul a b = fmul b a.
Proof. unfold fmul. f_equal; apply Z.mul_comm. Qed.

Lemma fmul_assoc a b c : fmul (fmul a b) c = fmul a (fmul b c).
Proof. unfold fmul; simpl. f_equal; symmetry; apply Z.mul_assoc. Qed.

Lemma fmul_NOF_r a : fmul a NOF = a.
Proof. destruct a as [x y]. unfold fmul, NOF; simpl. rewrite !Z.mul_1_r. reflexivity. Qed.

Lemma fmul_NOF_l a : fmul NOF a = a.
Proof. rewrite fmul_comm. apply fmul_NOF_r. Qed.

Lemma fmul_square a : flips_ok a -> fmul a a = NOF.
Proof.
  destruct a as [x y]. intros [Hx Hy]. simpl in Hx, Hy. unfold fmul, NOF; simpl.
  destruct Hx as [-> | ->], Hy as [-> | ->]; reflexivity.
Qed.

(* multiplying twice by a +-1 flips value is the identity (no condition on [a]) *)
Lemma fmul_cancel a q : flips_ok q -> fmul (fmul a q) q = a.
Proof. intros Hq. rewrite fmul_assoc, (fmul_square q Hq). apply fmul_NOF_r. Qed.

(* product of q2flips over a digit list *)
Fixpoint total (l : list Z) : flips :=
  match l with [] => NOF | d :: r => fmul (q2flips d) (total r) end.

(* ------------------------------------------------------------------------------------ *)
(** * 1. Table well-formedness (re-checked against the CURRENT tables) *)

Fixpoint nodupb (l : list Z) : bool :=
  match l with [] => true | x :: xs => negb (existsb (Z.eqb x) xs) && nodupb xs end.
Definition in_range8 (v : Z) : bool := (0 <=? v) && (v <? 8).
(* length 8, all entries in 0..7, pairwise distinct  <=>  permutation of 0..7 *)
Definition is_perm8 (p : list Z) : bool :=
  Nat.eqb (length p) 8 && forallb in_range8 p && nodupb p.

Lemma pattern_perm : is_perm8 pattern = true /\ is_perm8 pattern_flipped = true.
Proof. split; vm_compute; reflexivity. Qed.

Lemma q2flips_tab_wf : length q2flips_tab = 4%nat /\ forallb flips_okb q2flips_tab = true.
Proof. split; vm_compute; reflexivity. Qed.

Lemma q2flips_wf : forall d, digit d -> flips_ok (q2flips d).
Proof.
  intros d Hd. apply flips_okb_spec.
  assert (forallb (fun d => flips_okb (q2flips d)) (seqZ 0 4) = true) as Hall
      by (vm_compute; reflexivity).
  rewrite forallb_forall in Hall. apply Hall. apply digit_in_seqZ. exact Hd.
Qed.

Lemma nodupb_NoDup l : nodupb l = true -> NoDup l.
Proof.
  induction l as [|x xs IH]; simpl; intro H.
  - constructor.
  - apply andb_true_iff in H. destruct H as [Hx Hxs].
    constructor; [|auto].
    intro Hin. apply negb_true_iff in Hx.
    assert (existsb (Z.eqb x) xs = true) as E.
    { apply existsb_exists. exists x. split; [exact Hin | apply Z.eqb_refl]. }
    congruence.
Qed.

Lemma is_perm8_spec p :
  is_perm8 p = true ->
  length p = 8%nat /\ (forall v, In v p -> 0 <= v < 8) /\ NoDup p.
Proof.
  unfold is_perm8. rewrite !andb_true_iff. intros [[Hlen Hrng] Hnd].
  split; [apply Nat.eqb_eq; exact Hlen|]. split.
  - intros v Hv. rewrite forallb_forall in Hrng. specialize (Hrng v Hv).
    unfold in_range8 in Hrng. rewrite andb_true_iff, Z.leb_le, Z.ltb_lt in Hrng. exact Hrng.
  - apply nodupb_NoDup; exact Hnd.
Qed.

(* the boolean test really characterises permutations of 0..7 *)
Lemma is_perm8_Permutation p : is_perm8 p = true -> Permutation p (seqZ 0 8).
Proof.
  intros Hp. destruct (is_perm8_spec p Hp) as [Hlen [Hrng Hnd]].
  apply NoDup_Permutation_bis.
  - exact Hnd.
  - rewrite seqZ_length, Hlen. apply le_n.
  - intros v Hv. apply in_seqZ. specialize (Hrng v Hv). simpl. lia.
Qed.

Lemma nth_seqZ : forall n s i d, (i < n)%nat -> nth i (seqZ s n) d = s + Z.of_nat i.
Proof.
  induction n as [|n IH]; intros s i d Hi; [lia|].
  destruct i as [|i']; simpl.
  - lia.
  - rewrite IH by lia. lia.
Qed.

Lemma index_of_nth l :
  NoDup l -> forall i k, (i < length l)%nat -> index_of (nth i l 0) l k = k + Z.of_nat i.
Proof.
  induction 1 as [|x xs Hnin Hnd IH]; intros i k Hi; simpl in Hi.
  - lia.
  - destruct i as [|i']; simpl.
    + rewrite Z.eqb_refl. lia.
    + destruct (Z.eqb_spec x (nth i' xs 0)) as [E|E].
      * exfalso. apply Hnin. rewrite E. apply nth_In. lia.
      * rewrite IH by lia. lia.
Qed.

Lemma nth_reverse_pattern p v :
  0 <= v < Z.of_nat (length p) ->
  nth (Z.to_nat v) (reverse_pattern p) 0 = index_of v p 0.
Proof.
  intros Hv. unfold reverse_pattern.
  transitivity ((fun w => index_of w p 0) (nth (Z.to_nat v) (seqZ 0 (length p)) 0)).
  - rewrite <- (map_nth (fun w => index_of w p 0)).
    apply nth_indep. rewrite map_length, seqZ_length. lia.
  - cbv beta. rewrite nth_seqZ by lia. f_equal. lia.
Qed.

Lemma reverse_pattern_inv :
  forall p, is_perm8 p = true ->
  forall i, 0 <= i < 8 ->
  nth (Z.to_nat (nth (Z.to_nat i) p 0)) (reverse_pattern p) 0 = i.
Proof.
  intros p Hp i Hi. destruct (is_perm8_spec p Hp) as [Hlen [Hrng Hnd]].
  assert (Z.to_nat i < length p)%nat as Hil by (rewrite Hlen; lia).
  assert (0 <= nth (Z.to_nat i) p 0 < 8) as Hv by (apply Hrng, nth_In; exact Hil).
  rewrite nth_reverse_pattern by (rewrite Hlen; lia).
  rewrite index_of_nth by assumption. lia.
Qed.

Lemma perm8_nth_range p i :
  is_perm8 p = true -> 0 <= i < 8 -> 0 <= nth (Z.to_nat i) p 0 < 8.
Proof.
  intros Hp Hi. destruct (is_perm8_spec p Hp) as [Hlen [Hrng _]].
  apply Hrng, nth_In. rewrite Hlen. lia.
Qed.


(* ------------------------------------------------------------------------------------ *)
(** * 2. Local inverse of one shift_digits application *)

(* [shift_pair] depends on the flips and invert_j only through one boolean, and on the
   pattern table only through the single entry it reads. *)
Definition sp_branch (f : flips) (invert_j : bool) : bool :=
  negb (Bool.eqb invert_j (fst f + snd f =? 0)).

(* the table slot read by shift_pair, None when needs_shift is false *)
Definition sp_src (b : bool) (p c : Z) : option Z :=
  let '(needs_shift, first) :=
    if b then ((p =? 1) || (p =? 2), p =? 1) else (p <? 2, p =? 0) in
  if negb needs_shift then None else Some (if first then c else c + 4).

Definition sp_out (p src dst : Z) : Z * Z :=
  ((p + 4 + dst / 4 - src / 4) mod 4, dst mod 4).

Lemma shift_pair_alt p c f invert_j pat :
  shift_pair p c f invert_j pat =
  match sp_src (sp_branch f invert_j) p c with
  | None => (p, c)
  | Some src => sp_out p src (nth (Z.to_nat src) pat 0)
  end.
Proof.
  unfold shift_pair, sp_src, sp_branch, sp_out.
  destruct (negb (Bool.eqb invert_j (fst f + snd f =? 0))).
  - destruct (negb ((p =? 1) || (p =? 2))); reflexivity.
  - destruct (negb (p <? 2)); reflexivity.
Qed.

Definition pair_eqb (a b : Z * Z) : bool := (fst a =? fst b) && (snd a =? snd b).

Lemma pair_eqb_eq a b : pair_eqb a b = true -> a = b.
Proof.
  destruct a, b. unfold pair_eqb; simpl. rewrite andb_true_iff, !Z.eqb_eq.
  intros [-> ->]; reflexivity.
Qed.

(* Core finite check (2 * 4 * 4 * 8 cases), independent of the tables: whatever value
   dst in 0..7 the table holds at the slot src read by the forward application, the new
   pair is a digit pair, the backward application reads slot dst, and if the reversed
   table holds src there, the original pair is restored. *)
Definition sp_core_check : bool :=
  forallb (fun b => forallb (fun p => forallb (fun c =>
    match sp_src b p c with
    | None => true
    | Some src =>
        in_range8 src &&
        forallb (fun dst =>
          let '(p', c') := sp_out p src dst in
          digitb p' && digitb c' &&
          match sp_src b p' c' with
          | None => false
          | Some s' => (s' =? dst) && pair_eqb (sp_out p' s' src) (p, c)
          end) (seqZ 0 8)
    end) (seqZ 0 4)) (seqZ 0 4)) [true; false].

Lemma sp_core_check_ok : sp_core_check = true.
Proof. vm_compute. reflexivity. Qed.

Lemma sp_core b p c :
  digit p -> digit c ->
  match sp_src b p c with
  | None => True
  | Some src =>
      0 <= src < 8 /\
      forall dst, 0 <= dst < 8 ->
        digit (fst (sp_out p src dst)) /\ digit (snd (sp_out p src dst)) /\
        sp_src b (fst (sp_out p src dst)) (snd (sp_out p src dst)) = Some dst /\
        sp_out (fst (sp_out p src dst)) dst src = (p, c)
  end.
Proof.
  intros Hp Hc.
  pose proof sp_core_check_ok as H. unfold sp_core_check in H.
  rewrite forallb_forall in H.
  assert (In b [true; false]) as Hb by (destruct b; simpl; auto).
  specialize (H b Hb). rewrite forallb_forall in H.
  specialize (H p (proj1 (digit_in_seqZ p) Hp)). rewrite forallb_forall in H.
  specialize (H c (proj1 (digit_in_seqZ c) Hc)).
  destruct (sp_src b p c) as [src|]; [|exact I].
  apply andb_true_iff in H. destruct H as [Hsrc Hall].
  split.
  { unfold in_range8 in Hsrc. rewrite andb_true_iff, Z.leb_le, Z.ltb_lt in Hsrc. exact Hsrc. }
  intros dst Hdst. rewrite forallb_forall in Hall.
  assert (In dst (seqZ 0 8)) as Hin by (apply in_seqZ; simpl; lia).
  specialize (Hall dst Hin).
  destruct (sp_out p src dst) as [p' c'] eqn:Eout. simpl.
  rewrite !andb_true_iff in Hall. destruct Hall as [[Hp' Hc'] Hback].
  apply digitb_spec in Hp'. apply digitb_spec in Hc'.
  destruct (sp_src b p' c') as [s'|]; [|discriminate].
  apply andb_true_iff in Hback. destruct Hback as [Es Eq].
  apply Z.eqb_eq in Es. subst s'. apply pair_eqb_eq in Eq.
  repeat split; try assumption; try apply Hp'; try apply Hc'.
Qed.


(* [rpat] undoes [pat] on the slots 0..7 *)
Definition inv_tables (pat rpat : list Z) : Prop :=
  forall i, 0 <= i < 8 ->
    0 <= nth (Z.to_nat i) pat 0 < 8 /\
    nth (Z.to_nat (nth (Z.to_nat i) pat 0)) rpat 0 = i.

Lemma inv_tables_reverse pat : is_perm8 pat = true -> inv_tables pat (reverse_pattern pat).
Proof.
  intros Hpat i Hi. split.
  - apply perm8_nth_range; assumption.
  - apply reverse_pattern_inv; assumption.
Qed.

Lemma index_of_In l v :
  In v l -> forall k, exists i, (i < length l)%nat /\ index_of v l k = k + Z.of_nat i /\ nth i l 0 = v.
Proof.
  induction l as [|x xs IH]; intros Hin k; [destruct Hin|].
  simpl index_of. destruct (Z.eqb_spec x v) as [E|E].
  - exists 0%nat. simpl. split; [lia|]. split; [lia | exact E].
  - destruct Hin as [Hx|Hin]; [contradiction|].
    destruct (IH Hin (k + 1)) as [i [Hi [Eidx Enth]]].
    exists (S i). simpl. split; [lia|]. split; [lia | exact Enth].
Qed.

(* the other direction: [pat] undoes [reverse_pattern pat] *)
Lemma inv_tables_reverse' pat : is_perm8 pat = true -> inv_tables (reverse_pattern pat) pat.
Proof.
  intros Hpat v Hv. destruct (is_perm8_spec pat Hpat) as [Hlen _].
  assert (In v pat) as Hin.
  { apply (Permutation_in v (Permutation_sym (is_perm8_Permutation pat Hpat))).
    apply in_seqZ. simpl. lia. }
  rewrite nth_reverse_pattern by (rewrite Hlen; lia).
  destruct (index_of_In pat v Hin 0) as [i [Hi [Eidx Enth]]].
  rewrite Eidx. rewrite Hlen in Hi. split; [lia|].
  replace (Z.to_nat (0 + Z.of_nat i)) with i by lia. exact Enth.
Qed.

(* Local inverse for any two tables of which the second undoes the first, and ANY flips
   value (shift_pair only tests whether the two components sum to 0). *)
Lemma shift_pair_inverse_tables pat rpat :
  inv_tables pat rpat ->
  forall (f : flips) (invert_j : bool) (p c : Z), digit p -> digit c ->
  let '(p', c') := shift_pair p c f invert_j pat in
  digit p' /\ digit c' /\ shift_pair p' c' f invert_j rpat = (p, c).
Proof.
  intros Hinv f invert_j p c Hp Hc.
  rewrite shift_pair_alt.
  pose proof (sp_core (sp_branch f invert_j) p c Hp Hc) as Hcore.
  destruct (sp_src (sp_branch f invert_j) p c) as [src|] eqn:Esrc.
  - destruct Hcore as [Hsrc Hcore].
    destruct (Hinv src Hsrc) as [Hdst Hrev].
    specialize (Hcore _ Hdst).
    destruct (sp_out p src (nth (Z.to_nat src) pat 0)) as [p' c'] eqn:Eout.
    simpl in Hcore. destruct Hcore as [Hp' [Hc' [Esrc' Eback]]].
    split; [exact Hp'|]. split; [exact Hc'|].
    rewrite shift_pair_alt, Esrc'. rewrite Hrev. exact Eback.
  - split; [exact Hp|]. split; [exact Hc|].
    rewrite shift_pair_alt, Esrc. reflexivity.
Qed.

(* Generic local inverse: any pattern table that is a permutation of 0..7. *)
Theorem shift_pair_inverse_generic :
  forall pat, is_perm8 pat = true ->
  forall (f : flips) (invert_j : bool) (p c : Z), digit p -> digit c ->
  let '(p', c') := shift_pair p c f invert_j pat in
  digit p' /\ digit c' /\ shift_pair p' c' f invert_j (reverse_pattern pat) = (p, c).
Proof.
  intros pat Hpat. apply shift_pair_inverse_tables. apply inv_tables_reverse. exact Hpat.
Qed.

(* ... and the forward application undoes the backward one *)
Theorem shift_pair_inverse_generic' :
  forall pat, is_perm8 pat = true ->
  forall (f : flips) (invert_j : bool) (p c : Z), digit p -> digit c ->
  let '(p', c') := shift_pair p c f invert_j (reverse_pattern pat) in
  digit p' /\ digit c' /\ shift_pair p' c' f invert_j pat = (p, c).
Proof.
  intros pat Hpat. apply shift_pair_inverse_tables. apply inv_tables_reverse'. exact Hpat.
Qed.

Definition is_cur_pattern (pat : list Z) : Prop := pat = pattern \/ pat = pattern_flipped.

Lemma cur_pattern_perm pat : is_cur_pattern pat -> is_perm8 pat = true.
Proof. intros [-> | ->]; apply pattern_perm. Qed.

(* Independent direct check on the concrete tables: 2 patterns * 4 flips * 2 * 4 * 4. *)
Definition all_flips : list flips := [(1, 1); (1, -1); (-1, 1); (-1, -1)].
Definition shift_pair_inverse_check (pat : list Z) : bool :=
  forallb (fun f => forallb (fun ij => forallb (fun p => forallb (fun c =>
    let '(p', c') := shift_pair p c f ij pat in
    digitb p' && digitb c' && pair_eqb (shift_pair p' c' f ij (reverse_pattern pat)) (p, c))
    (seqZ 0 4)) (seqZ 0 4)) [true; false]) all_flips.

Lemma shift_pair_inverse_check_ok :
  shift_pair_inverse_check pattern = true /\ shift_pair_inverse_check pattern_flipped = true.
Proof. split; vm_compute; reflexivity. Qed.

Theorem shift_pair_inverse :
  forall pat, is_cur_pattern pat ->
  forall (f : flips), flips_ok f ->
  forall (invert_j : bool) (p c : Z), 0 <= p < 4 -> 0 <= c < 4 ->
  let '(p', c') := shift_pair p c f invert_j pat in
  0 <= p' < 4 /\ 0 <= c' < 4 /\ shift_pair p' c' f invert_j (reverse_pattern pat) = (p, c).
Proof.
  intros pat Hpat f _ invert_j p c Hp Hc.
  exact (shift_pair_inverse_generic pat (cur_pattern_perm pat Hpat) f invert_j p c Hp Hc).
Qed.

(* equational form used below *)
Lemma shift_pair_inverse_eq pat rpat f invert_j p c p' c' :
  inv_tables pat rpat -> digit p -> digit c ->
  shift_pair p c f invert_j pat = (p', c') ->
  digit p' /\ digit c' /\ shift_pair p' c' f invert_j rpat = (p, c).
Proof.
  intros Hinv Hp Hc E.
  pose proof (shift_pair_inverse_tables pat rpat Hinv f invert_j p c Hp Hc) as H.
  rewrite E in H. exact H.
Qed.


(* ------------------------------------------------------------------------------------ *)
(** * 3. Global inverse, for digit lists of every length *)

Lemma total_app l1 l2 : total (l1 ++ l2) = fmul (total l1) (total l2).
Proof.
  induction l1 as [|d r IH]; simpl.
  - symmetry; apply fmul_NOF_l.
  - rewrite IH. symmetry; apply fmul_assoc.
Qed.

Lemma total_rev l : total (rev l) = total l.
Proof.
  induction l as [|d r IH]; simpl; [reflexivity|].
  rewrite total_app, IH. simpl. rewrite fmul_NOF_r. apply fmul_comm.
Qed.

Lemma total_ok l : digits l -> flips_ok (total l).
Proof.
  induction 1 as [|d r Hd Hr IH]; simpl.
  - exact NOF_ok.
  - apply fmul_ok; [apply q2flips_wf; exact Hd | exact IH].
Qed.

Lemma shift_forward_from_digits pat rpat invert_j :
  inv_tables pat rpat ->
  forall rest f p, digit p -> digits rest ->
  digits (shift_forward_from f invert_j pat p rest).
Proof.
  intros Hinv. induction rest as [|c rest' IH]; intros f p Hp Hrest; simpl.
  - constructor; [exact Hp | constructor].
  - inversion Hrest as [|c0 r0 Hc Hrest']; subst.
    destruct (shift_pair p c f invert_j pat) as [p' c'] eqn:E.
    destruct (shift_pair_inverse_eq pat rpat f invert_j p c p' c' Hinv Hp Hc E)
      as [Hp' [Hc' _]].
    constructor; [exact Hp'|]. apply IH; assumption.
Qed.

Lemma shift_forward_from_length pat invert_j :
  forall rest f p, length (shift_forward_from f invert_j pat p rest) = S (length rest).
Proof.
  induction rest as [|c rest' IH]; intros f p; simpl; [reflexivity|].
  destruct (shift_pair p c f invert_j pat) as [p' c']. simpl. rewrite IH. reflexivity.
Qed.

Lemma shift_forward_length f invert_j pat msb :
  length (shift_forward f invert_j pat msb) = length msb.
Proof. destruct msb as [|p rest]; [reflexivity|]. apply shift_forward_from_length. Qed.

(* The invariant: running the backward loop over the (reversed) output of the forward
   recursion started at state (f, p, rest), from the flips value f * total(output),
   brings the backward loop to the state (f, p :: rest); [more] = digits still to come. *)
Lemma backward_forward_from pat rpat invert_j :
  inv_tables pat rpat ->
  forall rest f p more, digit p -> digits rest ->
  shift_backward (fmul f (total (shift_forward_from f invert_j pat p rest))) invert_j
                 rpat []
                 (rev (shift_forward_from f invert_j pat p rest) ++ more)
  = shift_backward f invert_j rpat (p :: rest) more.
Proof.
  intros Hinv. induction rest as [|c rest' IH]; intros f p more Hp Hrest.
  - simpl. rewrite fmul_NOF_r. rewrite (fmul_cancel f (q2flips p) (q2flips_wf p Hp)).
    reflexivity.
  - inversion Hrest as [|c0 r0 Hc Hrest']; subst.
    simpl shift_forward_from.
    destruct (shift_pair p c f invert_j pat) as [p' c'] eqn:E.
    destruct (shift_pair_inverse_eq pat rpat f invert_j p c p' c' Hinv Hp Hc E)
      as [Hp' [Hc' Eback]].
    simpl total. simpl rev. rewrite <- app_assoc. simpl app.
    rewrite <- fmul_assoc.
    rewrite (IH (fmul f (q2flips p')) c' (p' :: more) Hc' Hrest').
    simpl shift_backward.
    rewrite (fmul_cancel f (q2flips p') (q2flips_wf p' Hp')).
    rewrite Eback. reflexivity.
Qed.

(* Generic form: any permutation table, any starting flips. *)
Theorem shift_backward_forward_generic :
  forall pat, is_perm8 pat = true ->
  forall (f0 : flips) (invert_j : bool) (msb : list Z), digits msb ->
  let sh := shift_forward f0 invert_j pat msb in
  digits sh /\
  shift_backward (fmul f0 (total sh)) invert_j (reverse_pattern pat) [] (rev sh) = msb.
Proof.
  intros pat Hpat f0 invert_j msb Hmsb.
  pose proof (inv_tables_reverse pat Hpat) as Hinv.
  destruct msb as [|p rest]; simpl.
  - split; [constructor | reflexivity].
  - inversion Hmsb as [|p0 r0 Hp Hrest]; subst. split.
    + apply (shift_forward_from_digits pat (reverse_pattern pat)); assumption.
    + pose proof (backward_forward_from pat _ invert_j Hinv rest f0 p [] Hp Hrest) as H.
      rewrite app_nil_r in H. rewrite H. reflexivity.
Qed.

Theorem shift_backward_forward :
  forall pat, is_cur_pattern pat ->
  forall (f0 : flips), flips_ok f0 ->
  forall (invert_j : bool) (msb : list Z), Forall (fun d => 0 <= d < 4) msb ->
  let sh := shift_forward f0 invert_j pat msb in
  Forall (fun d => 0 <= d < 4) sh /\
  shift_backward (fmul f0 (total sh)) invert_j (reverse_pattern pat) [] (rev sh) = msb.
Proof.
  intros pat Hpat f0 _ invert_j msb Hmsb.
  exact (shift_backward_forward_generic pat (cur_pattern_perm pat Hpat) f0 invert_j msb Hmsb).
Qed.


(* ---- the converse: the forward pass undoes the backward pass (so the two passes are
   mutually inverse bijections of the digit strings of each length) *)

(* state of the backward loop: digits stay digits, length is kept, and re-running the
   forward recursion from the reached state reproduces the digits consumed so far *)
Lemma forward_backward_from pat rpat invert_j :
  inv_tables rpat pat ->
  forall lsb f p rest, digit p -> digits rest -> digits lsb ->
  exists p2 rest2,
    shift_backward f invert_j rpat (p :: rest) lsb = p2 :: rest2 /\
    digit p2 /\ digits rest2 /\
    length rest2 = (length rest + length lsb)%nat /\
    shift_forward_from (fmul f (total lsb)) invert_j pat p2 rest2
    = rev lsb ++ shift_forward_from f invert_j pat p rest.
Proof.
  intros Hinv. induction lsb as [|d lsb' IH]; intros f p rest Hp Hrest Hlsb.
  - exists p, rest. simpl. rewrite fmul_NOF_r.
    split; [reflexivity|]. split; [exact Hp|]. split; [exact Hrest|].
    split; [lia | reflexivity].
  - inversion Hlsb as [|d0 l0 Hd Hlsb']; subst.
    simpl shift_backward.
    destruct (shift_pair d p (fmul f (q2flips d)) invert_j rpat) as [p' c'] eqn:E.
    destruct (shift_pair_inverse_eq rpat pat _ invert_j d p p' c' Hinv Hd Hp E)
      as [Hp' [Hc' Eback]].
    assert (digits (c' :: rest)) as Hrest1 by (constructor; assumption).
    destruct (IH (fmul f (q2flips d)) p' (c' :: rest) Hp' Hrest1 Hlsb')
      as [p2 [rest2 [Ebw [Hp2 [Hrest2 [Hlen Efw]]]]]].
    exists p2, rest2. split; [exact Ebw|]. split; [exact Hp2|]. split; [exact Hrest2|].
    split; [simpl in Hlen |- *; lia|].
    simpl total. rewrite <- fmul_assoc. rewrite Efw.
    simpl shift_forward_from at 1. rewrite Eback.
    rewrite (fmul_cancel f (q2flips d) (q2flips_wf d Hd)).
    simpl rev. rewrite <- app_assoc. reflexivity.
Qed.

Lemma forward_backward_lsb pat f0 invert_j lsb :
  is_perm8 pat = true -> digits lsb ->
  let msb := shift_backward (fmul f0 (total lsb)) invert_j (reverse_pattern pat) [] lsb in
  digits msb /\ length msb = length lsb /\ shift_forward f0 invert_j pat msb = rev lsb.
Proof.
  intros Hpat Hlsb.
  pose proof (inv_tables_reverse' pat Hpat) as Hinv.
  destruct lsb as [|d lsb'].
  - simpl. split; [constructor|]. split; reflexivity.
  - pose proof (total_ok (d :: lsb') Hlsb) as Htot.
    inversion Hlsb as [|d0 l0 Hd Hlsb']; subst d0 l0.
    cbv zeta. cbn [shift_backward].
    destruct (forward_backward_from pat (reverse_pattern pat) invert_j Hinv lsb'
                (fmul (fmul f0 (total (d :: lsb'))) (q2flips d)) d [] Hd (Forall_nil _) Hlsb')
      as [p2 [rest2 [Ebw [Hp2 [Hrest2 [Hl Efw]]]]]].
    rewrite Ebw.
    split; [constructor; assumption|].
    split; [simpl in Hl |- *; lia|].
    cbn [shift_forward].
    rewrite fmul_assoc in Efw. change (fmul (q2flips d) (total lsb')) with (total (d :: lsb')) in Efw.
    rewrite (fmul_cancel f0 _ Htot) in Efw.
    rewrite Efw. reflexivity.
Qed.

Theorem shift_forward_backward_generic :
  forall pat, is_perm8 pat = true ->
  forall (f0 : flips) (invert_j : bool) (sh : list Z), digits sh ->
  let msb := shift_backward (fmul f0 (total sh)) invert_j (reverse_pattern pat) [] (rev sh) in
  digits msb /\ length msb = length sh /\ shift_forward f0 invert_j pat msb = sh.
Proof.
  intros pat Hpat f0 invert_j sh Hsh.
  assert (digits (rev sh)) as Hrev by (apply Forall_rev; exact Hsh).
  pose proof (forward_backward_lsb pat f0 invert_j (rev sh) Hpat Hrev) as H.
  cbv zeta in H. rewrite total_rev, rev_length, rev_involutive in H. exact H.
Qed.


(* ------------------------------------------------------------------------------------ *)
(** * 4. Consequences: base-4 digits of s, injectivity, value round trip *)

(* reference: n base-4 digits, least significant first *)
Fixpoint lsbs (n : nat) (s : Z) : list Z :=
  match n with O => [] | S k => s mod 4 :: lsbs k (s / 4) end.
Fixpoint val_lsb (l : list Z) : Z :=
  match l with [] => 0 | d :: r => d + 4 * val_lsb r end.

Lemma pow4_succ k : 4 ^ Z.of_nat (S k) = 4 * 4 ^ Z.of_nat k.
Proof. rewrite Nat2Z.inj_succ, Z.pow_succ_r by lia. reflexivity. Qed.

Lemma pow4_pos k : 0 < 4 ^ Z.of_nat k.
Proof. apply Z.pow_pos_nonneg; lia. Qed.

Lemma digits_lsb_lsbs :
  forall fuel n s, (n <= fuel)%nat -> 0 <= s < 4 ^ Z.of_nat n -> digits_lsb fuel n s = lsbs n s.
Proof.
  induction fuel as [|fl IH]; intros n s Hn Hs.
  - assert (n = 0%nat) as -> by lia. reflexivity.
  - destruct n as [|k].
    + simpl in Hs. assert (s = 0) as -> by lia. reflexivity.
    + cbn [digits_lsb lsbs].
      assert ((0 <? Z.of_nat (S k)) = true) as -> by (apply Z.ltb_lt; lia).
      rewrite orb_true_r. cbn [pred].
      rewrite Z.shiftr_div_pow2 by lia. change (2 ^ 2) with 4.
      rewrite pow4_succ in Hs.
      rewrite IH; [reflexivity | lia |].
      split; [apply Z.div_pos; lia | apply Z.div_lt_upper_bound; lia].
Qed.

Lemma lsbs_length n : forall s, length (lsbs n s) = n.
Proof. induction n as [|k IH]; intros s; simpl; [reflexivity | rewrite IH; reflexivity]. Qed.

Lemma lsbs_digits n : forall s, digits (lsbs n s).
Proof.
  induction n as [|k IH]; intros s; simpl; constructor; [|apply IH].
  unfold digit. apply Z.mod_pos_bound. lia.
Qed.

Lemma val_lsb_lsbs n : forall s, 0 <= s < 4 ^ Z.of_nat n -> val_lsb (lsbs n s) = s.
Proof.
  induction n as [|k IH]; intros s Hs.
  - simpl in *. lia.
  - rewrite pow4_succ in Hs. cbn [lsbs val_lsb]. rewrite IH.
    + pose proof (Z.div_mod s 4). lia.
    + split; [apply Z.div_pos; lia | apply Z.div_lt_upper_bound; lia].
Qed.

Lemma val_lsb_range l : digits l -> 0 <= val_lsb l < 4 ^ Z.of_nat (length l).
Proof.
  induction 1 as [|d r Hd Hr IH].
  - simpl. lia.
  - cbn [length val_lsb]. rewrite pow4_succ. unfold digit in Hd. lia.
Qed.

Lemma lsbs_val_lsb l : digits l -> lsbs (length l) (val_lsb l) = l.
Proof.
  induction 1 as [|d r Hd Hr IH]; [reflexivity|].
  cbn [length val_lsb lsbs]. unfold digit in Hd.
  assert ((d + 4 * val_lsb r) mod 4 = d) as ->
      by (symmetry; apply (Z.mod_unique _ 4 (val_lsb r) d); lia).
  assert ((d + 4 * val_lsb r) / 4 = val_lsb r) as ->
      by (symmetry; apply (Z.div_unique _ 4 (val_lsb r) d); lia).
  rewrite IH. reflexivity.
Qed.

Lemma digits_value_app l1 : forall l2 acc,
  digits_value (l1 ++ l2) acc = digits_value l2 (digits_value l1 acc).
Proof. induction l1 as [|d r IH]; intros l2 acc; simpl; [reflexivity | apply IH]. Qed.

Lemma digits_value_rev l : digits_value (rev l) 0 = val_lsb l.
Proof.
  induction l as [|d r IH]; [reflexivity|].
  simpl rev. rewrite digits_value_app, IH. simpl. lia.
Qed.

Lemma digits_value_range l : digits l -> 0 <= digits_value l 0 < 4 ^ Z.of_nat (length l).
Proof.
  intros Hl. rewrite <- (rev_involutive l) at 1 2. rewrite digits_value_rev.
  rewrite <- (rev_length l). apply val_lsb_range. apply Forall_rev. exact Hl.
Qed.

(* the fuel of digits_lsb is 40, so these hold up to resolution 40; the code uses <= 29 *)
Theorem digits_msb_spec :
  forall s n, (n <= 40)%nat -> 0 <= s < 4 ^ Z.of_nat n ->
  length (digits_msb s n) = n /\
  Forall (fun d => 0 <= d < 4) (digits_msb s n) /\
  digits_value (digits_msb s n) 0 = s.
Proof.
  intros s n Hn Hs. unfold digits_msb. rewrite digits_lsb_lsbs by assumption.
  split; [rewrite rev_length; apply lsbs_length|].
  split; [apply Forall_rev; apply lsbs_digits|].
  rewrite digits_value_rev. apply val_lsb_lsbs. exact Hs.
Qed.

Theorem digits_msb_value :
  forall l, Forall (fun d => 0 <= d < 4) l -> (length l <= 40)%nat ->
  digits_msb (digits_value l 0) (length l) = l.
Proof.
  intros l Hl Hlen. unfold digits_msb.
  pose proof (digits_value_range l Hl) as Hr.
  rewrite digits_lsb_lsbs by assumption.
  assert (digits (rev l)) as Hrl by (apply Forall_rev; exact Hl).
  rewrite <- (rev_involutive l) at 2. rewrite digits_value_rev.
  rewrite <- (rev_length l). rewrite (lsbs_val_lsb (rev l) Hrl). apply rev_involutive.
Qed.

Theorem shift_forward_injective :
  forall pat, is_perm8 pat = true ->
  forall (f0 : flips) (invert_j : bool) (l1 l2 : list Z),
  Forall (fun d => 0 <= d < 4) l1 -> Forall (fun d => 0 <= d < 4) l2 ->
  shift_forward f0 invert_j pat l1 = shift_forward f0 invert_j pat l2 -> l1 = l2.
Proof.
  intros pat Hpat f0 invert_j l1 l2 H1 H2 E.
  destruct (shift_backward_forward_generic pat Hpat f0 invert_j l1 H1) as [_ E1].
  destruct (shift_backward_forward_generic pat Hpat f0 invert_j l2 H2) as [_ E2].
  cbv zeta in E1, E2. rewrite <- E1, <- E2, E. reflexivity.
Qed.

(* the shifted digit strings of length n are exactly the images of digit strings *)
Theorem shift_forward_surjective :
  forall pat, is_perm8 pat = true ->
  forall (f0 : flips) (invert_j : bool) (sh : list Z), Forall (fun d => 0 <= d < 4) sh ->
  exists msb, Forall (fun d => 0 <= d < 4) msb /\ length msb = length sh /\
              shift_forward f0 invert_j pat msb = sh.
Proof.
  intros pat Hpat f0 invert_j sh Hsh.
  eexists. exact (shift_forward_backward_generic pat Hpat f0 invert_j sh Hsh).
Qed.

(* exactly what ij_to_s_internal computes from the located digits when they equal the
   shifted digits of s *)
Theorem unshift_shift_value :
  forall pat, is_perm8 pat = true ->
  forall (invert_j : bool) (s : Z) (n : nat), (n <= 40)%nat -> 0 <= s < 4 ^ Z.of_nat n ->
  let sh := shift_forward NOF invert_j pat (digits_msb s n) in
  digits_value (shift_backward (total sh) invert_j (reverse_pattern pat) [] (rev sh)) 0 = s.
Proof.
  intros pat Hpat invert_j s n Hn Hs sh.
  destruct (digits_msb_spec s n Hn Hs) as [_ [Hd Hv]].
  destruct (shift_backward_forward_generic pat Hpat NOF invert_j _ Hd) as [_ E].
  cbv zeta in E. fold sh in E. rewrite fmul_NOF_l in E. rewrite E. exact Hv.
Qed.

(* and conversely: whatever digit string was located, re-encoding the computed position
   gives back that digit string *)
Theorem shift_unshift_digits :
  forall pat, is_perm8 pat = true ->
  forall (invert_j : bool) (sh : list Z), Forall (fun d => 0 <= d < 4) sh ->
  (length sh <= 40)%nat ->
  let s := digits_value (shift_backward (total sh) invert_j (reverse_pattern pat) [] (rev sh)) 0 in
  0 <= s < 4 ^ Z.of_nat (length sh) /\
  shift_forward NOF invert_j pat (digits_msb s (length sh)) = sh.
Proof.
  intros pat Hpat invert_j sh Hsh Hlen.
  destruct (shift_forward_backward_generic pat Hpat NOF invert_j sh Hsh)
    as [Hd [Hl E]].
  cbv zeta in Hd, Hl, E. rewrite fmul_NOF_l in Hd, Hl, E. cbv zeta.
  split.
  - rewrite <- Hl. apply digits_value_range. exact Hd.
  - rewrite <- Hl. rewrite digits_msb_value by (try assumption; lia). exact E.
Qed.


(* ------------------------------------------------------------------------------------ *)
(** * 5. Anchor facts used by the geometric part *)

Theorem anchor_flips_total :
  forall l f off, snd (anchor_offset f off l) = fmul f (total l).
Proof.
  induction l as [|d r IH]; intros f off; simpl.
  - symmetry; apply fmul_NOF_r.
  - rewrite IH. apply fmul_assoc.
Qed.

Lemma last_digit l : digits l -> digit (last l 0).
Proof.
  induction 1 as [|d r Hd Hr IH]; [unfold digit; simpl; lia|].
  destruct r as [|d' r']; [exact Hd | exact IH].
Qed.

Definition cur_pat (flip_ij : bool) : list Z := if flip_ij then pattern_flipped else pattern.

Lemma cur_pat_perm flip_ij : is_perm8 (cur_pat flip_ij) = true.
Proof. destruct flip_ij; apply pattern_perm. Qed.

Theorem s_to_anchor_internal_spec :
  forall (s : Z) (n : nat) (invert_j flip_ij : bool),
  (n <= 40)%nat -> 0 <= s < 4 ^ Z.of_nat n ->
  let sh := shift_forward NOF invert_j (cur_pat flip_ij) (digits_msb s n) in
  let a := s_to_anchor_internal s n invert_j flip_ij in
  length sh = n /\ Forall (fun d => 0 <= d < 4) sh /\
  a_k a = last sh 0 /\ 0 <= a_k a < 4 /\
  a_flips a = total sh /\ flips_ok (a_flips a) /\
  a_off a = kj_to_ij (fst (anchor_offset NOF (0, 0) sh)).
Proof.
  intros s n invert_j flip_ij Hn Hs sh a.
  destruct (digits_msb_spec s n Hn Hs) as [Hlen [Hd _]].
  destruct (shift_backward_forward_generic _ (cur_pat_perm flip_ij) NOF invert_j _ Hd)
    as [Hsh _].
  cbv zeta in Hsh. fold sh in Hsh.
  assert (a = mkAnchor (last sh 0) (kj_to_ij (fst (anchor_offset NOF (0, 0) sh)))
                       (snd (anchor_offset NOF (0, 0) sh))) as Ea.
  { unfold a, s_to_anchor_internal. fold (cur_pat flip_ij). fold sh.
    destruct (anchor_offset NOF (0, 0) sh) as [off f]. reflexivity. }
  rewrite Ea. cbn [a_k a_flips a_off]. rewrite anchor_flips_total, fmul_NOF_l.
  split; [unfold sh; rewrite shift_forward_length; exact Hlen|].
  split; [exact Hsh|]. split; [reflexivity|].
  split; [apply (last_digit sh Hsh)|]. split; [reflexivity|].
  split; [apply total_ok; exact Hsh | reflexivity].
Qed.

(* the orientation wrapper: the reversed position is again in range ... *)
Theorem s_to_anchor_reverse :
  forall (n : nat) (s : Z), 0 <= s < 4 ^ Z.of_nat n ->
  0 <= 2 ^ (2 * Z.of_nat n) - s - 1 < 4 ^ Z.of_nat n /\
  2 ^ (2 * Z.of_nat n) - (2 ^ (2 * Z.of_nat n) - s - 1) - 1 = s.
Proof.
  intros n s Hs. rewrite Z.pow_mul_r by lia. change (2 ^ 2) with 4. lia.
Qed.

Definition adjusted_s (s : Z) (n : nat) (o : Z) : Z :=
  if o_reverse o then 2 ^ (2 * Z.of_nat n) - s - 1 else s.

Lemma adjusted_s_range s n o :
  0 <= s < 4 ^ Z.of_nat n -> 0 <= adjusted_s s n o < 4 ^ Z.of_nat n.
Proof.
  intros Hs. unfold adjusted_s. destruct (o_reverse o); [|exact Hs].
  apply s_to_anchor_reverse. exact Hs.
Qed.

Lemma adjusted_s_involutive s n o :
  0 <= s < 4 ^ Z.of_nat n -> adjusted_s (adjusted_s s n o) n o = s.
Proof.
  intros Hs. unfold adjusted_s. destruct (o_reverse o); [|reflexivity].
  apply s_to_anchor_reverse. exact Hs.
Qed.

(* ... and the anchor keeps the quaternary digit of the internal anchor at the adjusted
   position; its flips still have +-1 components *)
Theorem s_to_anchor_spec :
  forall (s : Z) (n : nat) (o : Z),
  (n <= 40)%nat -> 0 <= s < 4 ^ Z.of_nat n ->
  let a := s_to_anchor s n o in
  let ai := s_to_anchor_internal (adjusted_s s n o) n (o_invert_j o) (o_flip_ij o) in
  a_k a = a_k ai /\ 0 <= a_k a < 4 /\ flips_ok (a_flips a) /\
  a_flips a = (if o_invert_j o then (- fst (a_flips ai), snd (a_flips ai)) else a_flips ai).
Proof.
  intros s n o Hn Hs a ai.
  pose proof (adjusted_s_range s n o Hs) as Hadj.
  destruct (s_to_anchor_internal_spec (adjusted_s s n o) n (o_invert_j o) (o_flip_ij o)
              Hn Hadj) as [_ [_ [_ [Hk [_ [Hf _]]]]]].
  cbv zeta in Hk, Hf. fold ai in Hk, Hf.
  assert (a_k a = a_k ai /\
          a_flips a = (if o_invert_j o then (- fst (a_flips ai), snd (a_flips ai))
                       else a_flips ai)) as [Ek Ef].
  { unfold a, s_to_anchor. fold (adjusted_s s n o). fold ai.
    destruct (o_flip_ij o).
    - destruct (a_off ai) as [i j]. cbn [a_k a_off a_flips].
      destruct (o_invert_j o).
      + match goal with |- context [let (_, _) := ?X in _] => destruct X as [i2 j2] end.
        cbn [a_k a_flips]. split; reflexivity.
      + cbn [a_k a_flips]. split; reflexivity.
    - destruct (o_invert_j o).
      + destruct (a_off ai) as [i j]. cbn [a_k a_flips]. split; reflexivity.
      + split; reflexivity. }
  split; [exact Ek|]. split; [rewrite Ek; exact Hk|]. split; [|exact Ef].
  rewrite Ef. destruct (o_invert_j o); [|exact Hf].
  destruct Hf as [Hf1 Hf2]. split; cbn [fst snd]; [|exact Hf2].
  destruct Hf1 as [-> | ->]; [right | left]; reflexivity.
Qed.


(* ------------------------------------------------------------------------------------ *)
(** * 6. Interface to ij_to_s_internal (any number instance) *)

Section Located.
  Context {T : Type} (OP : ops T).

  Lemma ij_to_quaternary_digit u v f d : ij_to_quaternary OP u v f = Some d -> digit d.
  Proof.
    unfold ij_to_quaternary, obind, digit. intros H.
    repeat match type of H with
           | context [match ?X with _ => _ end] => destruct X
           end; inversion H; subst; lia.
  Qed.

  (* the located digits are digits, there are [n] of them, and the flips value handed to
     the backward loop is the product over all located digits *)
  Lemma locate_digits_spec :
    forall n x y px py f ds f',
    locate_digits OP n x y px py f = Some (ds, f') ->
    length ds = n /\ digits ds /\ f' = fmul f (total ds).
  Proof.
    induction n as [|i IH]; intros x y px py f ds f' H.
    - simpl in H. inversion H; subst. simpl. rewrite fmul_NOF_r.
      repeat split. constructor.
    - cbn [locate_digits] in H. unfold obind in H.
      destruct (ij_to_quaternary OP _ _ f) as [d|] eqn:Eq; [|discriminate].
      match type of H with
      | context [locate_digits OP i x y ?PX ?PY ?F] =>
          destruct (locate_digits OP i x y PX PY F) as [[ds1 f1]|] eqn:El; [|discriminate]
      end.
      inversion H; subst.
      destruct (IH _ _ _ _ _ _ _ El) as [Hlen [Hds Hf]].
      split; [simpl; rewrite Hlen; reflexivity|].
      split; [constructor; [eapply ij_to_quaternary_digit; exact Eq | exact Hds]|].
      simpl. rewrite Hf. apply fmul_assoc.
  Qed.

  (* if the located digit string is the shifted digit string of s, ij_to_s_internal
     returns s *)
  Theorem ij_to_s_internal_of_located :
    forall x y (invert_j flip_ij : bool) (n : nat) (s : Z) f,
    (n <= 40)%nat -> 0 <= s < 4 ^ Z.of_nat n ->
    locate_digits OP n x y (o_ofZ OP 0) (o_ofZ OP 0) NOF
      = Some (shift_forward NOF invert_j (cur_pat flip_ij) (digits_msb s n), f) ->
    ij_to_s_internal OP x y invert_j flip_ij n = Some s.
  Proof.
    intros x y invert_j flip_ij n s f Hn Hs Hloc.
    destruct (locate_digits_spec _ _ _ _ _ _ _ _ Hloc) as [_ [_ Hf]].
    rewrite fmul_NOF_l in Hf. subst f.
    unfold ij_to_s_internal. rewrite Hloc. unfold obind. fold (cur_pat flip_ij).
    f_equal. apply (unshift_shift_value _ (cur_pat_perm flip_ij) invert_j s n Hn Hs).
  Qed.

  (* whatever was located, the returned position is in range and its shifted digit string
     is the located one *)
  Theorem ij_to_s_internal_located :
    forall x y (invert_j flip_ij : bool) (n : nat) ds f,
    (n <= 40)%nat ->
    locate_digits OP n x y (o_ofZ OP 0) (o_ofZ OP 0) NOF = Some (ds, f) ->
    exists s, ij_to_s_internal OP x y invert_j flip_ij n = Some s /\
              0 <= s < 4 ^ Z.of_nat n /\
              shift_forward NOF invert_j (cur_pat flip_ij) (digits_msb s n) = ds.
  Proof.
    intros x y invert_j flip_ij n ds f Hn Hloc.
    destruct (locate_digits_spec _ _ _ _ _ _ _ _ Hloc) as [Hlen [Hds Hf]].
    rewrite fmul_NOF_l in Hf. subst f.
    unfold ij_to_s_internal. rewrite Hloc. unfold obind. fold (cur_pat flip_ij).
    eexists. split; [reflexivity|].
    assert (length ds <= 40)%nat as Hl by (rewrite Hlen; exact Hn).
    pose proof (shift_unshift_digits _ (cur_pat_perm flip_ij) invert_j ds Hds Hl) as H.
    cbv zeta in H. rewrite Hlen in H. exact H.
  Qed.
End Located.

