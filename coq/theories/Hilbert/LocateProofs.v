(* C17, exact rational model: locating the centre of the pentagon at curve position s returns
   the (shifted) digits of s.  See the summary at the end of the file. *)
From Coq Require Import ZArith QArith Qabs List Bool Lia Lqa Setoid Morphisms.
From A5 Require Import Base.Outcome Base.Word Num.NumOps Num.QInst Hilbert.Hilbert Geo.Tiling.
From A5gen Require Import TablesCur.
Import ListNotations.
Open Scope Z_scope.

(* ------------------------------------------------------------------ Q helpers *)
Global Instance Qstrip2_proper : Proper (Qeq ==> Qeq) Qstrip2.
Proof. intros a b H. now rewrite !Qstrip2_eq. Qed.

Lemma Qltb_true a b : (a < b)%Q -> Qltb a b = true.
Proof. unfold Qltb. intros H. apply Qlt_alt in H. change ((a ?= b)%Q = Lt) in H. now rewrite H. Qed.
Lemma Qltb_false a b : (b <= a)%Q -> Qltb a b = false.
Proof.
  unfold Qltb. intros H. destruct (a ?= b)%Q eqn:E; try reflexivity.
  apply Qlt_alt in E. exfalso. exact (Qlt_not_le _ _ E H).
Qed.

(* name every [Qstrip2 q] as a fresh variable t with t == q (linear reasoning then sees through it) *)
Ltac strip_all :=
  repeat match goal with
  | |- context [Qstrip2 ?q] =>
      let H := fresh "Hs" in let t := fresh "t" in
      pose proof (Qstrip2_eq q) as H; set (t := Qstrip2 q) in *; clearbody t
  | H0 : context [Qstrip2 ?q] |- _ =>
      let H := fresh "Hs" in let t := fresh "t" in
      pose proof (Qstrip2_eq q) as H; set (t := Qstrip2 q) in *; clearbody t
  end.

(* ------------------------------------------------------------------ geometry of the digit regions *)
Definition fok (f : flips) : Prop := (fst f = 1 \/ fst f = -1) /\ (snd f = 1 \/ snd f = -1).
Definition dig (d : Z) : Prop := 0 <= d < 4.

Lemma dig_cases d : dig d -> d = 0 \/ d = 1 \/ d = 2 \/ d = 3.
Proof. unfold dig; lia. Qed.
Lemma fok_cases f : fok f -> f = (1, 1) \/ f = (1, -1) \/ f = (-1, 1) \/ f = (-1, -1).
Proof. destruct f as [x y]; unfold fok; cbn; intros [[->| ->] [->| ->]]; auto. Qed.
Lemma fok_fmul f d : fok f -> dig d -> fok (fmul f (q2flips d)).
Proof.
  intros Hf Hd. apply fok_cases in Hf. apply dig_cases in Hd.
  destruct Hf as [->|[->|[->| ->]]]; destruct Hd as [->|[->|[->| ->]]]; vm_compute; auto.
Qed.
Lemma fok_NOF : fok NOF. Proof. vm_compute; auto. Qed.

(* child offset in lattice (ij) coordinates *)
Definition vij (d : Z) (f : flips) : Z * Z := kj_to_ij (q2kj d f).

Open Scope Q_scope.
(* the three signed coordinates compared by ij_to_quaternary *)
Definition fa (f : flips) (X Y : Q) : Q := if (fst f =? -1)%Z then - (X + Y) else X + Y.
Definition fb (f : flips) (X Y : Q) : Q := if (snd f =? -1)%Z then - X else X.
Definition fc (f : flips) (X Y : Q) : Q := if (fst f =? -1)%Z then - Y else Y.

(* the triangle of side M for flips f, shrunk by the margin e *)
Definition Ueps (e : Q) (f : flips) (M X Y : Q) : Prop :=
  if (fst f + snd f =? 0)%Z then e <= fa f X Y /\ e <= fb f X Y /\ fc f X Y <= M - e
  else e <= fb f X Y /\ e <= fc f X Y /\ fa f X Y <= M - e.

(* the part of the side-2M triangle that ij_to_quaternary (at scale M) labels d, with margin e
   on the strict comparisons *)
Definition dreg (e : Q) (f : flips) (d : Z) (M X Y : Q) : Prop :=
  let a := fa f X Y in let b := fb f X Y in let c := fc f X Y in
  if (fst f + snd f =? 0)%Z then
    match d with
    | 0%Z => c <= M - e
    | 3%Z => M <= c /\ M + e <= b
    | 2%Z => M <= c /\ b <= M /\ M + e <= a
    | _ => M <= c /\ b <= M /\ a <= M
    end
  else
    match d with
    | 0%Z => a <= M - e
    | 3%Z => M <= a /\ M + e <= b
    | 2%Z => M <= a /\ b <= M /\ M + e <= c
    | _ => M <= a /\ b <= M /\ c <= M
    end.

Ltac zred := cbn [fst snd Z.add Z.eqb Z.opp Pos.eqb Z.pos_sub Z.succ_double Z.pred_double Z.double].

Lemma Ueps_compat e f M X Y M' X' Y' : M == M' -> X == X' -> Y == Y' -> Ueps e f M X Y -> Ueps e f M' X' Y'.
Proof.
  intros HM HX HY. unfold Ueps, fa, fb, fc.
  destruct (fst f + snd f =? 0)%Z, (fst f =? -1)%Z, (snd f =? -1)%Z; intros H; lra.
Qed.

(* nesting: the child triangle of digit d sits inside the region labelled d, margins preserved *)
Lemma nest e f d M X Y : 0 <= e -> fok f -> dig d ->
  Ueps e (fmul f (q2flips d)) M (X - M * inject_Z (fst (vij d f))) (Y - M * inject_Z (snd (vij d f))) ->
  Ueps e f (2 * M) X Y /\ dreg e f d M X Y.
Proof.
  intros He Hf Hd. apply fok_cases in Hf. apply dig_cases in Hd.
  destruct Hf as [->|[->|[->| ->]]]; destruct Hd as [->|[->|[->| ->]]];
  match goal with |- Ueps _ ?f' _ (_ - _ * ?vx) (_ - _ * ?vy) -> _ =>
    let f'' := eval vm_compute in f' in let vx' := eval vm_compute in vx in let vy' := eval vm_compute in vy in
    change f' with f''; change vx with vx'; change vy with vy' end;
  unfold Ueps, dreg, fa, fb, fc; zred; intros H; lra.
Qed.

(* the table-dependent content of [nest], as a closed check: for every flips and digit, the three
   corners of the child's unit triangle, translated by the child offset, satisfy the (closed,
   margin-free) inequalities of the digit's region and of the parent triangle *)
Definition all_flips : list flips := [(1, 1); (1, -1); (-1, 1); (-1, -1)]%Z.
Definition corners (f : flips) : list (Q * Q) :=
  let s := inject_Z (fst f) in
  if (fst f + snd f =? 0)%Z then [(0, 0); (0, s); (- s, s)] else [(0, 0); (s, 0); (0, s)].
Definition Ueps_b (f : flips) (M X Y : Q) : bool :=
  if (fst f + snd f =? 0)%Z then Qle_bool 0 (fa f X Y) && Qle_bool 0 (fb f X Y) && Qle_bool (fc f X Y) M
  else Qle_bool 0 (fb f X Y) && Qle_bool 0 (fc f X Y) && Qle_bool (fa f X Y) M.
Definition dreg_b (f : flips) (d : Z) (X Y : Q) : bool :=
  let a := fa f X Y in let b := fb f X Y in let c := fc f X Y in
  if (fst f + snd f =? 0)%Z then
    match d with
    | 0%Z => Qle_bool c 1
    | 3%Z => Qle_bool 1 c && Qle_bool 1 b
    | 2%Z => Qle_bool 1 c && Qle_bool b 1 && Qle_bool 1 a
    | _ => Qle_bool 1 c && Qle_bool b 1 && Qle_bool a 1
    end
  else
    match d with
    | 0%Z => Qle_bool a 1
    | 3%Z => Qle_bool 1 a && Qle_bool 1 b
    | 2%Z => Qle_bool 1 a && Qle_bool b 1 && Qle_bool 1 c
    | _ => Qle_bool 1 a && Qle_bool b 1 && Qle_bool c 1
    end.
Definition nesting_check : bool :=
  forallb (fun f => forallb (fun d =>
    forallb (fun p => let X := fst p + inject_Z (fst (vij d f)) in let Y := snd p + inject_Z (snd (vij d f)) in
                      Ueps_b f 2 X Y && dreg_b f d X Y && Ueps_b (fmul f (q2flips d)) 1 (fst p) (snd p))
            (corners (fmul f (q2flips d)))) [0; 1; 2; 3]%Z) all_flips.
Lemma nesting_ok : nesting_check = true.
Proof. vm_compute. reflexivity. Qed.

(* ------------------------------------------------------------------ ij_to_quaternary *)
Lemma itq_ok e M f d X Y u v : 0 < e -> 0 < M -> fok f -> dig d -> dreg e f d M X Y ->
  u * M == X -> v * M == Y -> ij_to_quaternary QInst u v f = Some d.
Proof.
  intros He HM Hf Hd. apply fok_cases in Hf. apply dig_cases in Hd.
  destruct Hf as [->|[->|[->| ->]]]; destruct Hd as [->|[->|[->| ->]]];
  unfold dreg, fa, fb, fc, ij_to_quaternary; zred; intros H Hu Hv;
  cbn [o_ltb o_neg o_add o_ofZ QInst obind]; unfold inject_Z; strip_all;
  repeat match goal with |- context [Qltb ?a ?b] =>
    first [ rewrite (Qltb_true a b) by nra | rewrite (Qltb_false a b) by nra ] end;
  reflexivity.
Qed.

(* ------------------------------------------------------------------ positions of digit lists *)
Open Scope Z_scope.
Definition total_flips (f : flips) (ds : list Z) : flips := fold_left (fun f d => fmul f (q2flips d)) ds f.

(* lattice position of the cell addressed by the digits ds (most significant first), in units of
   the last digit's cell, starting with flips f *)
Fixpoint pos (f : flips) (ds : list Z) : Z * Z :=
  match ds with
  | [] => (0, 0)
  | d :: r =>
      let v := vij d f in let p := pos (fmul f (q2flips d)) r in
      (2 ^ Z.of_nat (length r) * fst v + fst p, 2 ^ Z.of_nat (length r) * snd v + snd p)
  end.

Lemma total_flips_cons f d r : total_flips f (d :: r) = total_flips (fmul f (q2flips d)) r.
Proof. reflexivity. Qed.

Lemma fok_total f ds : fok f -> Forall dig ds -> fok (total_flips f ds).
Proof.
  revert f; induction ds as [|d r IH]; intros f Hf Hd; [exact Hf|].
  inversion Hd; subst. rewrite total_flips_cons. apply IH; auto using fok_fmul.
Qed.

Lemma pow2_S n : 2 ^ Z.of_nat (S n) = 2 * 2 ^ Z.of_nat n.
Proof. rewrite Nat2Z.inj_succ, Z.pow_succ_r by lia. reflexivity. Qed.

Lemma anchor_offset_pos ds : forall f off,
  anchor_offset f off ds =
    (let p := pos f ds in let M := 2 ^ Z.of_nat (length ds) in
     (M * fst off + (fst p + snd p), M * snd off + snd p), total_flips f ds).
Proof.
  induction ds as [|d r IH]; intros f [k j].
  - cbn [anchor_offset pos length fst snd]. change (2 ^ Z.of_nat 0) with 1. f_equal. f_equal; lia.
  - cbn [anchor_offset]. rewrite IH. rewrite total_flips_cons. cbn [pos length fst snd].
    rewrite pow2_S. unfold vij, kj_to_ij. cbn [fst snd]. f_equal. f_equal; ring.
Qed.

Lemma anchor_offset_ij ds f :
  kj_to_ij (fst (anchor_offset f (0, 0) ds)) = pos f ds /\ snd (anchor_offset f (0, 0) ds) = total_flips f ds.
Proof.
  rewrite anchor_offset_pos. cbn [fst snd]. unfold kj_to_ij. cbn [fst snd]. split; [|reflexivity].
  destruct (pos f ds) as [a b]. cbn [fst snd]. f_equal; ring.
Qed.

Open Scope Q_scope.
Definition pw (n : nat) : Q := inject_Z (2 ^ Z.of_nat n).
Lemma pw_pos n : 0 < pw n.
Proof. unfold pw. change 0 with (inject_Z 0). rewrite <- Zlt_Qlt. apply Z.pow_pos_nonneg; lia. Qed.
Lemma pw_S n : pw (S n) == 2 * pw n.
Proof. unfold pw. rewrite pow2_S, inject_Z_mult. reflexivity. Qed.
Lemma pw_0 : pw 0 == 1. Proof. reflexivity. Qed.

(* (X, Y) lies, with margin e, in the unit cell addressed by ds *)
Definition inside (e : Q) (ds : list Z) (f : flips) (X Y : Q) : Prop :=
  Ueps e (total_flips f ds) 1 (X - inject_Z (fst (pos f ds))) (Y - inject_Z (snd (pos f ds))).

Lemma inside_compat e ds f X Y X' Y' : X == X' -> Y == Y' -> inside e ds f X Y -> inside e ds f X' Y'.
Proof. intros HX HY. unfold inside. apply Ueps_compat; [reflexivity|lra|lra]. Qed.

Lemma inside_step e d r f X Y :
  inside e (d :: r) f X Y ->
  inside e r (fmul f (q2flips d)) (X - pw (length r) * inject_Z (fst (vij d f)))
                                  (Y - pw (length r) * inject_Z (snd (vij d f))).
Proof.
  unfold inside. rewrite total_flips_cons. cbn [pos fst snd]. apply Ueps_compat; [reflexivity| |];
  unfold pw; rewrite inject_Z_plus, inject_Z_mult; ring.
Qed.

Lemma inside_region e ds : forall f X Y, 0 <= e -> fok f -> Forall dig ds ->
  inside e ds f X Y -> Ueps e f (pw (length ds)) X Y.
Proof.
  induction ds as [|d r IH]; intros f X Y He Hf Hd H.
  - unfold inside in H. cbn in H. revert H. apply Ueps_compat; [reflexivity| |]; unfold inject_Z; ring.
  - inversion Hd; subst. apply inside_step in H. apply IH in H; auto using fok_fmul.
    apply nest in H; auto. destruct H as [H _]. revert H.
    apply Ueps_compat; [|reflexivity|reflexivity]. cbn [length]. now rewrite pw_S.
Qed.

Lemma inside_digit e d r f X Y : 0 <= e -> fok f -> Forall dig (d :: r) ->
  inside e (d :: r) f X Y -> dreg e f d (pw (length r)) X Y.
Proof.
  intros He Hf Hd H. inversion Hd; subst. apply inside_step in H.
  apply inside_region in H; auto using fok_fmul. apply nest in H; auto. tauto.
Qed.

(* the first loop of ij_to_s finds the digits of any point that is inside their cell *)
Lemma locate_inv e ds : 0 < e -> forall f x y px py, fok f -> Forall dig ds ->
  inside e ds f (x - px) (y - py) ->
  locate_digits QInst (length ds) x y px py f = Some (ds, total_flips f ds).
Proof.
  intros He. induction ds as [|d r IH]; intros f x y px py Hf Hd H; [reflexivity|].
  cbn [length locate_digits].
  assert (Hreg := inside_digit e d r f _ _ (Qlt_le_weak _ _ He) Hf Hd H).
  inversion Hd; subst.
  rewrite (itq_ok e (pw (length r)) f d (x - px) (y - py)); auto using pw_pos.
  - cbn [obind]. rewrite IH; auto using fok_fmul.
    apply inside_step in H. revert H. apply inside_compat;
    cbn [o_add o_mul o_ofZ QInst]; fold (pw (length r)); fold (vij d f); rewrite !Qstrip2_eq; ring.
  - cbn [o_div o_sub o_ofZ QInst]. fold (pw (length r)). rewrite !Qstrip2_eq. field.
    pose proof (pw_pos (length r)). lra.
  - cbn [o_div o_sub o_ofZ QInst]. fold (pw (length r)). rewrite !Qstrip2_eq. field.
    pose proof (pw_pos (length r)). lra.
Qed.

(* ------------------------------------------------------------------ the pentagon's centre *)
(* the base pentagon after the anchor-dependent rotate / reflect / +-w steps of
   get_pentagon_vertices (same code, closed terms) *)
Definition local_pentagon (k : Z) (f : flips) : list (Q * Q) :=
  let OP := QInst in
  let fx := fst f in
  let fy := snd f in
  let p0 := base_pentagon OP in
  let p1 := if ((fx =? 1) && (fy =? -1))%Z then rotate180 OP p0 else p0 in
  let f := (fx + fy)%Z in
  let p2 := if ((((f =? -2) || (f =? 2)) && (1 <? k)) || ((f =? 0) && ((k =? 0) || (k =? 3))))%Z
            then reflect_y OP p1 else p1 in
  if ((fx =? -1) && (fy =? -1))%Z then rotate180 OP p2
  else if (fx =? -1)%Z then translate OP (o_neg OP (fst (tri_w OP)), o_neg OP (snd (tri_w OP))) p2
  else if (fy =? -1)%Z then translate OP (tri_w OP) p2
  else p2.

Lemma gpv_unfold a :
  get_pentagon_vertices QInst 0 0 a =
  transform_shape QInst (scale QInst (1#1)
     (translate QInst (mat_apply QInst (basis_mat QInst) (inject_Z (fst (a_off a)), inject_Z (snd (a_off a))))
        (local_pentagon (a_k a) (a_flips a)))) (1#1, 0#1, 0#1, 1#1).
Proof. reflexivity. Qed.

Lemma local_pentagon_length k f : length (local_pentagon k f) = 5%nat.
Proof.
  unfold local_pentagon, rotate180, reflect_y, translate.
  repeat match goal with |- context [if ?b then _ else _] => destruct b end;
  repeat (rewrite ?map_length, ?rev_length); reflexivity.
Qed.

Definition cen5 (l : list (Q * Q)) : Q * Q :=
  (fold_right Qplus 0 (map fst l) / 5, fold_right Qplus 0 (map snd l) / 5).

Lemma centre_generic (p0 p1 p2 p3 p4 t : Q * Q) :
  exists l, transform_shape QInst (scale QInst (1#1) (translate QInst t [p0; p1; p2; p3; p4])) (1#1, 0#1, 0#1, 1#1) = Some l /\
    fst (get_center QInst l) == fst (cen5 [p0; p1; p2; p3; p4]) + fst t /\
    snd (get_center QInst l) == snd (cen5 [p0; p1; p2; p3; p4]) + snd t.
Proof.
  unfold transform_shape, shape_new. cbn [o_ltb QInst].
  destruct p0 as [x0 y0], p1 as [x1 y1], p2 as [x2 y2], p3 as [x3 y3], p4 as [x4 y4], t as [tx ty].
  destruct (Qltb _ _); eexists; (split; [reflexivity|]);
  cbn [cen5 fold_right get_center scale translate map rev app fold_left length mat_apply fst snd
       o_add o_mul o_div o_ofZ QInst Z.of_nat Pos.of_succ_nat Pos.succ];
  unfold inject_Z; split; strip_all; unfold Qdiv in *; change (/ 5) with (1#5) in *; lra.
Qed.

(* matrix entries (exact values of the f64 tables) *)
Definition Bm (n : nat) : Q := dy2Q (nth n basis (0, 0)%Z).
Definition Im (n : nat) : Q := dy2Q (nth n basis_inverse (0, 0)%Z).

(* spec-level lattice coordinates of the centre of the pentagon of anchor a (resolution 0, quintant 0) *)
Definition centre_ij (a : anchor) : Q * Q :=
  let c := cen5 (local_pentagon (a_k a) (a_flips a)) in
  let i := inject_Z (fst (a_off a)) in
  let j := inject_Z (snd (a_off a)) in
  let x := fst c + (Bm 0 * i + Bm 1 * j) in
  let y := snd c + (Bm 2 * i + Bm 3 * j) in
  (Im 0 * x + Im 1 * y, Im 2 * x + Im 3 * y).

Lemma gpv_centre_ij a :
  exists l, get_pentagon_vertices QInst 0 0 a = Some l /\
    fst (face_to_ij QInst (get_center QInst l)) == fst (centre_ij a) /\
    snd (face_to_ij QInst (get_center QInst l)) == snd (centre_ij a).
Proof.
  rewrite gpv_unfold. unfold centre_ij.
  pose proof (local_pentagon_length (a_k a) (a_flips a)) as HL.
  destruct (local_pentagon (a_k a) (a_flips a)) as [|p0 [|p1 [|p2 [|p3 [|p4 [|p5 r]]]]]]; try discriminate HL.
  set (t := mat_apply QInst _ _).
  destruct (centre_generic p0 p1 p2 p3 p4 t) as [l [Hl [Hx Hy]]].
  exists l. split; [exact Hl|].
  generalize dependent (cen5 [p0; p1; p2; p3; p4]). intros [cx cy] Hx Hy.
  generalize dependent (get_center QInst l). intros [gx gy]. cbn [fst snd].
  assert (Ht1 : fst t == Bm 0 * inject_Z (fst (a_off a)) + Bm 1 * inject_Z (snd (a_off a))).
  { subst t. unfold basis_mat, mat_of, mat_apply. cbn [fst snd o_add o_mul o_ofdy QInst]. fold (Bm 0) (Bm 1).
    now rewrite !Qstrip2_eq. }
  assert (Ht2 : snd t == Bm 2 * inject_Z (fst (a_off a)) + Bm 3 * inject_Z (snd (a_off a))).
  { subst t. unfold basis_mat, mat_of, mat_apply. cbn [fst snd o_add o_mul o_ofdy QInst]. fold (Bm 2) (Bm 3).
    now rewrite !Qstrip2_eq. }
  clearbody t. intros Hx Hy.
  unfold face_to_ij, basis_inverse_mat, mat_of, mat_apply. cbn [fst snd o_add o_mul o_ofdy QInst].
  fold (Im 0) (Im 1) (Im 2) (Im 3). rewrite !Qstrip2_eq, Hx, Hy, Ht1, Ht2. split; reflexivity.
Qed.

(* rounding defect of the two f64 matrices: E = BASIS_INVERSE * BASIS - I *)
Definition E00 := Im 0 * Bm 0 + Im 1 * Bm 2 - 1.
Definition E01 := Im 0 * Bm 1 + Im 1 * Bm 3.
Definition E10 := Im 2 * Bm 0 + Im 3 * Bm 2.
Definition E11 := Im 2 * Bm 1 + Im 3 * Bm 3 - 1.
(* the local term: BASIS_INVERSE * (centre of the local pentagon) *)
Definition delta (k : Z) (f : flips) : Q * Q :=
  let c := cen5 (local_pentagon k f) in
  (Im 0 * fst c + Im 1 * snd c, Im 2 * fst c + Im 3 * snd c).

Lemma centre_decomp a :
  let i := inject_Z (fst (a_off a)) in let j := inject_Z (snd (a_off a)) in
  fst (centre_ij a) == i + (E00 * i + E01 * j) + fst (delta (a_k a) (a_flips a)) /\
  snd (centre_ij a) == j + (E10 * i + E11 * j) + snd (delta (a_k a) (a_flips a)).
Proof.
  unfold centre_ij, delta, E00, E01, E10, E11. cbn [fst snd].
  generalize (cen5 (local_pentagon (a_k a) (a_flips a))). intros [cx cy]. cbn [fst snd].
  generalize (Im 0) (Im 1) (Im 2) (Im 3) (Bm 0) (Bm 1) (Bm 2) (Bm 3). intros. split; ring.
Qed.

(* |offset| <= 2^30 makes the defect term smaller than eta *)
Definition eta : Q := 1 # 1000.
Definition defect_check : bool :=
  Qle_bool ((Qabs E00 + Qabs E01) * inject_Z (2 ^ 30)) eta && Qle_bool ((Qabs E10 + Qabs E11) * inject_Z (2 ^ 30)) eta.
Lemma basis_defect_small : defect_check = true.
Proof. vm_compute. reflexivity. Qed.

Lemma lin_bound a b x y N : - N <= x <= N -> - N <= y <= N ->
  - ((Qabs a + Qabs b) * N) <= a * x + b * y <= (Qabs a + Qabs b) * N.
Proof.
  intros Hx Hy.
  destruct (Qlt_le_dec a 0) as [Ha|Ha]; destruct (Qlt_le_dec b 0) as [Hb|Hb];
  rewrite ?(Qabs_neg a) by lra; rewrite ?(Qabs_pos a) by lra;
  rewrite ?(Qabs_neg b) by lra; rewrite ?(Qabs_pos b) by lra; nra.
Qed.

Lemma defect_small (i j : Z) : (- 2 ^ 30 <= i <= 2 ^ 30)%Z -> (- 2 ^ 30 <= j <= 2 ^ 30)%Z ->
  - eta <= E00 * inject_Z i + E01 * inject_Z j <= eta /\ - eta <= E10 * inject_Z i + E11 * inject_Z j <= eta.
Proof.
  intros Hi Hj. pose proof basis_defect_small as H. unfold defect_check in H.
  apply andb_true_iff in H. destruct H as [H1 H2]. apply Qle_bool_iff in H1, H2.
  assert (Hi' : - inject_Z (2 ^ 30) <= inject_Z i <= inject_Z (2 ^ 30)).
  { rewrite <- inject_Z_opp, <- !Zle_Qle. lia. }
  assert (Hj' : - inject_Z (2 ^ 30) <= inject_Z j <= inject_Z (2 ^ 30)).
  { rewrite <- inject_Z_opp, <- !Zle_Qle. lia. }
  pose proof (lin_bound E00 E01 _ _ _ Hi' Hj'). pose proof (lin_bound E10 E11 _ _ _ Hi' Hj').
  generalize dependent E00. generalize dependent E01. generalize dependent E10. generalize dependent E11.
  intros. lra.
Qed.

Lemma centre_anchor a :
  (- 2 ^ 30 <= fst (a_off a) <= 2 ^ 30)%Z -> (- 2 ^ 30 <= snd (a_off a) <= 2 ^ 30)%Z ->
  exists l, get_pentagon_vertices QInst 0 0 a = Some l /\
  exists ex ey, (- eta <= ex <= eta) /\ (- eta <= ey <= eta) /\
    fst (face_to_ij QInst (get_center QInst l)) == inject_Z (fst (a_off a)) + ex + fst (delta (a_k a) (a_flips a)) /\
    snd (face_to_ij QInst (get_center QInst l)) == inject_Z (snd (a_off a)) + ey + snd (delta (a_k a) (a_flips a)).
Proof.
  intros Hi Hj. destruct (gpv_centre_ij a) as [l [Hl [Hx Hy]]]. exists l. split; [exact Hl|].
  destruct (centre_decomp a) as [Dx Dy]. destruct (defect_small _ _ Hi Hj) as [Ex Ey].
  eexists. eexists. split; [exact Ex|]. split; [exact Ey|]. rewrite Hx, Hy. split; assumption.
Qed.

(* ------------------------------------------------------------------ the local term lies well inside its cell *)
Definition Ueps_mb (e : Q) (f : flips) (M X Y : Q) : bool :=
  if (fst f + snd f =? 0)%Z then Qle_bool e (fa f X Y) && Qle_bool e (fb f X Y) && Qle_bool (fc f X Y) (M - e)
  else Qle_bool e (fb f X Y) && Qle_bool e (fc f X Y) && Qle_bool (fa f X Y) (M - e).
Lemma Ueps_mb_ok e f M X Y : Ueps_mb e f M X Y = true -> Ueps e f M X Y.
Proof.
  unfold Ueps_mb, Ueps. destruct (fst f + snd f =? 0)%Z; rewrite !andb_true_iff, !Qle_bool_iff; tauto.
Qed.

(* local terms for the three orientation classes (f = flips accumulated by the curve):
   plain (UV, VU), flip_ij (UW, WU), invert_j (VW, WV) *)
Definition d_plain (k : Z) (f : flips) : Q * Q := delta k f.
Definition d_flip (k : Z) (f : flips) : Q * Q :=
  let d := delta k f in
  let a := (if (fst f =? -1)%Z then -1 else 0) + (if (snd f =? -1)%Z then 1 else 0) in
  (snd d - a, fst d + a).
Definition d_inv (k : Z) (f : flips) : Q * Q :=
  let d := delta k ((- fst f)%Z, snd f) in (fst d, - (fst d + snd d)).

Definition delta_pred (f : flips) (k : Z) : bool :=
  Ueps_mb (1#8) f 1 (fst (d_plain k f)) (snd (d_plain k f)) &&
  Ueps_mb (1#8) f 1 (fst (d_flip k f)) (snd (d_flip k f)) &&
  Ueps_mb (1#8) f 1 (fst (d_inv k f)) (snd (d_inv k f)).
Lemma delta_margin_ok :
  forallb (fun f => forallb (fun k => delta_pred f k) [0; 1; 2; 3]%Z) all_flips = true.
Proof. vm_compute. reflexivity. Qed.

Lemma forallb_flips_digits (P : flips -> Z -> bool) :
  forallb (fun f => forallb (fun k => P f k) [0; 1; 2; 3]%Z) all_flips = true ->
  forall k f, dig k -> fok f -> P f k = true.
Proof.
  intros H k f Hk Hf. rewrite forallb_forall in H. specialize (H f).
  assert (Hin : In f all_flips) by (apply fok_cases in Hf; unfold all_flips; cbn; intuition).
  specialize (H Hin). rewrite forallb_forall in H. apply H.
  apply dig_cases in Hk; cbn; intuition.
Qed.

Lemma delta_margin k f : dig k -> fok f ->
  Ueps (1#8) f 1 (fst (d_plain k f)) (snd (d_plain k f)) /\
  Ueps (1#8) f 1 (fst (d_flip k f)) (snd (d_flip k f)) /\
  Ueps (1#8) f 1 (fst (d_inv k f)) (snd (d_inv k f)).
Proof.
  intros Hk Hf. pose proof (forallb_flips_digits delta_pred delta_margin_ok k f Hk Hf) as H.
  unfold delta_pred in H.
  apply andb_true_iff in H. destruct H as [H H3]. apply andb_true_iff in H. destruct H as [H1 H2].
  auto using Ueps_mb_ok.
Qed.

(* ------------------------------------------------------------------ orientation epilogue / prologue *)
Definition epi (n : nat) (flip_ij invert_j : bool) (a : anchor) : anchor :=
  let a1 :=
    if flip_ij then
      let '(i, j) := a_off a in
      let off := (j, i) in
      let off := if (fst (a_flips a) =? -1)%Z then (fst off + (-1), snd off + 1)%Z else off in
      let off := if (snd (a_flips a) =? -1)%Z then (fst off - (-1), snd off - 1)%Z else off in
      mkAnchor (a_k a) off (a_flips a)
    else a in
  if invert_j then
    let '(i, j) := a_off a1 in
    mkAnchor (a_k a1) (i, 2 ^ Z.of_nat n - (i + j))%Z ((- fst (a_flips a1))%Z, snd (a_flips a1))
  else a1.

Definition prologue (n : nat) (flip_ij invert_j : bool) (p : Q * Q) : Q * Q :=
  let '(i, j) := if flip_ij then (snd p, fst p) else (fst p, snd p) in
  if invert_j then (i, o_sub QInst (o_ofZ QInst (2 ^ Z.of_nat n)) (o_add QInst i j)) else (i, j).

Lemma s_to_anchor_epi s n o :
  s_to_anchor s n o =
  epi n (o_flip_ij o) (o_invert_j o)
    (s_to_anchor_internal (if o_reverse o then 2 ^ (2 * Z.of_nat n) - s - 1 else s)%Z n (o_invert_j o) (o_flip_ij o)).
Proof. reflexivity. Qed.

Lemma ij_to_s_prologue x y n o :
  ij_to_s QInst x y n o =
  obind (ij_to_s_internal QInst (fst (prologue n (o_flip_ij o) (o_invert_j o) (x, y)))
                                (snd (prologue n (o_flip_ij o) (o_invert_j o) (x, y))) (o_invert_j o) (o_flip_ij o) n)
        (fun s => Some (if o_reverse o then 2 ^ (2 * Z.of_nat n) - s - 1 else s)%Z).
Proof. unfold ij_to_s, prologue. destruct (o_flip_ij o), (o_invert_j o); reflexivity. Qed.

Lemma pow2_le_30 n : (n <= 29)%nat -> (0 < 2 ^ Z.of_nat n <= 2 ^ 29)%Z.
Proof. intros H. split; [apply Z.pow_pos_nonneg; lia|apply Z.pow_le_mono_r; lia]. Qed.

Ltac push_inj := unfold Z.sub; repeat (rewrite ?inject_Z_plus, ?inject_Z_opp, ?inject_Z_mult).

(* for an internal anchor (k, (i, j), F) with (i, j) in the side-2^n triangle: after the orientation
   epilogue, pentagon construction, centre, face_to_ij and the orientation prologue, the point
   differs from (i, j) by a vector that lies inside the unit triangle of F with margin 1/10 *)
Lemma class_ok n flip inv k i j F :
  flip && inv = false -> (n <= 29)%nat -> fok F -> dig k ->
  (0 <= i)%Z -> (0 <= j)%Z -> (i + j <= 2 ^ Z.of_nat n)%Z ->
  exists l, get_pentagon_vertices QInst 0 0 (epi n flip inv (mkAnchor k (i, j) F)) = Some l /\
    let p := prologue n flip inv (face_to_ij QInst (get_center QInst l)) in
    Ueps (1#10) F 1 (fst p - inject_Z i) (snd p - inject_Z j).
Proof.
  intros Hfi Hn HF Hk Hi Hj Hij. pose proof (pow2_le_30 n Hn) as HN.
  assert (H30 : (2 ^ 30 = 2 * 2 ^ 29)%Z) by reflexivity.
  destruct (delta_margin k F Hk HF) as [M1 [M2 M3]].
  apply fok_cases in HF.
  destruct flip, inv; try discriminate Hfi; unfold epi, prologue; cbn [a_off a_k a_flips fst snd].
  - (* flip_ij *)
    destruct HF as [->|[->|[->| ->]]]; zred;
    match goal with |- context [mkAnchor k ?off ?f] => destruct (centre_anchor (mkAnchor k off f)) as [l [Hl [ex [ey [Ex [Ey [Hx Hy]]]]]]];
      cbn [a_off a_k a_flips fst snd]; try lia end;
    exists l; (split; [exact Hl|]); cbn [a_off a_k a_flips fst snd] in Hx, Hy; cbn zeta;
    revert M2; unfold d_flip, Ueps, fa, fb, fc; zred;
    match goal with |- context [delta k ?f] => generalize dependent (delta k f) end; intros [dx dy]; cbn [fst snd];
    generalize dependent (face_to_ij QInst (get_center QInst l)); intros [cx cy]; cbn [fst snd];
    intros Hx Hy; revert Hx Hy; push_inj; unfold eta in *; unfold inject_Z; intros; lra.
  - (* invert_j *)
    destruct HF as [->|[->|[->| ->]]]; zred;
    match goal with |- context [mkAnchor k ?off ?f] => destruct (centre_anchor (mkAnchor k off f)) as [l [Hl [ex [ey [Ex [Ey [Hx Hy]]]]]]];
      cbn [a_off a_k a_flips fst snd]; try lia end;
    exists l; (split; [exact Hl|]); cbn [a_off a_k a_flips fst snd] in Hx, Hy; cbn zeta;
    revert M3; unfold d_inv, Ueps, fa, fb, fc; zred;
    match goal with |- context [delta k ?f] => generalize dependent (delta k f) end; intros [dx dy]; cbn [fst snd];
    generalize dependent (face_to_ij QInst (get_center QInst l)); intros [cx cy]; cbn [fst snd o_sub o_add o_ofZ QInst];
    intros Hx Hy; revert Hx Hy; push_inj; unfold eta in *;
    generalize dependent (inject_Z (2 ^ Z.of_nat n)); unfold inject_Z; intros; strip_all; lra.
  - (* plain *)
    destruct HF as [->|[->|[->| ->]]]; zred;
    match goal with |- context [mkAnchor k ?off ?f] => destruct (centre_anchor (mkAnchor k off f)) as [l [Hl [ex [ey [Ex [Ey [Hx Hy]]]]]]];
      cbn [a_off a_k a_flips fst snd]; try lia end;
    exists l; (split; [exact Hl|]); cbn [a_off a_k a_flips fst snd] in Hx, Hy; cbn zeta;
    revert M1; unfold d_plain, Ueps, fa, fb, fc; zred;
    match goal with |- context [delta k ?f] => generalize dependent (delta k f) end; intros [dx dy]; cbn [fst snd];
    generalize dependent (face_to_ij QInst (get_center QInst l)); intros [cx cy]; cbn [fst snd];
    intros Hx Hy; revert Hx Hy; unfold eta in *; intros; lra.
Qed.

(* ------------------------------------------------------------------ digit lists *)
Open Scope Z_scope.
Lemma digits_lsb_spec fuel : forall n input, (n <= fuel)%nat -> 0 <= input < 4 ^ Z.of_nat n ->
  length (digits_lsb fuel n input) = n /\ Forall dig (digits_lsb fuel n input).
Proof.
  induction fuel as [|fl IH]; intros n input Hn Hin.
  - assert (n = 0%nat) by lia. subst. cbn. auto.
  - cbn [digits_lsb]. destruct n as [|m].
    + assert (input = 0) by (cbn in Hin; lia). subst. cbn. auto.
    + replace ((0 <? input) || (0 <? Z.of_nat (S m))) with true
        by (symmetry; apply orb_true_iff; right; apply Z.ltb_lt; lia).
      cbn [pred]. rewrite Z.shiftr_div_pow2 by lia. change (2 ^ 2) with 4.
      destruct (IH m (input / 4)) as [IH1 IH2]; [lia| |].
      * rewrite Nat2Z.inj_succ, Z.pow_succ_r in Hin by lia.
        split; [apply Z.div_pos; lia|apply Z.div_lt_upper_bound; lia].
      * split; [cbn [length]; now rewrite IH1|].
        constructor; [|exact IH2]. unfold dig. apply Z.mod_pos_bound. lia.
Qed.

Lemma digits_msb_spec s n : (n <= 40)%nat -> 0 <= s < 4 ^ Z.of_nat n ->
  length (digits_msb s n) = n /\ Forall dig (digits_msb s n).
Proof.
  intros Hn Hs. unfold digits_msb. destruct (digits_lsb_spec 40 n s Hn Hs) as [H1 H2].
  rewrite rev_length. split; [exact H1|]. apply Forall_rev. exact H2.
Qed.

Lemma shift_pair_dig p c f inv pat : dig p -> dig c ->
  dig (fst (shift_pair p c f inv pat)) /\ dig (snd (shift_pair p c f inv pat)).
Proof.
  intros Hp Hc. unfold shift_pair.
  destruct (if negb (eqb inv (fst f + snd f =? 0)) then _ else _) as [ns first].
  destruct (negb ns); cbn [fst snd]; [auto|].
  split; unfold dig; apply Z.mod_pos_bound; lia.
Qed.

Lemma shift_forward_from_spec inv pat rest : forall f p, dig p -> Forall dig rest ->
  length (shift_forward_from f inv pat p rest) = S (length rest) /\
  Forall dig (shift_forward_from f inv pat p rest).
Proof.
  induction rest as [|c r IH]; intros f p Hp Hr.
  - cbn. auto.
  - inversion Hr; subst. cbn [shift_forward_from].
    destruct (shift_pair_dig p c f inv pat Hp H1) as [A B].
    destruct (shift_pair p c f inv pat) as [p' c']. cbn [fst snd] in A, B.
    destruct (IH (fmul f (q2flips p')) c' B H2) as [I1 I2].
    cbn [length]. rewrite I1. auto.
Qed.

Lemma shift_forward_spec f inv pat ds : Forall dig ds ->
  length (shift_forward f inv pat ds) = length ds /\ Forall dig (shift_forward f inv pat ds).
Proof.
  destruct ds as [|p r]; intros H; [cbn; auto|]. inversion H; subst.
  cbn [shift_forward]. apply shift_forward_from_spec; assumption.
Qed.

Lemma last_dig ds : Forall dig ds -> dig (last ds 0).
Proof.
  induction ds as [|d r IH]; intros H; [unfold dig; cbn; lia|].
  inversion H; subst. destruct r as [|d' r']; [exact H2|]. apply IH. exact H3.
Qed.

(* the digits s_to_anchor_internal works with, after the forward shifting pass *)
Definition shifted_digits (n : nat) (o s : Z) : list Z :=
  shift_forward NOF (o_invert_j o) (if o_flip_ij o then pattern_flipped else pattern)
    (digits_msb (if o_reverse o then 2 ^ (2 * Z.of_nat n) - s - 1 else s) n).

Lemma shifted_digits_spec n o s : (n <= 29)%nat -> 0 <= s < 4 ^ Z.of_nat n ->
  length (shifted_digits n o s) = n /\ Forall dig (shifted_digits n o s).
Proof.
  intros Hn Hs. unfold shifted_digits.
  set (s' := if o_reverse o then _ else s).
  assert (Hs' : 0 <= s' < 4 ^ Z.of_nat n).
  { subst s'. destruct (o_reverse o); [|exact Hs].
    replace (2 ^ (2 * Z.of_nat n)) with (4 ^ Z.of_nat n); [lia|].
    rewrite Z.pow_mul_r by lia. reflexivity. }
  destruct (digits_msb_spec s' n) as [L D]; [lia|exact Hs'|].
  destruct (shift_forward_spec NOF (o_invert_j o) (if o_flip_ij o then pattern_flipped else pattern) _ D) as [L' D'].
  split; [congruence|exact D'].
Qed.

Lemma internal_anchor s n inv flip :
  s_to_anchor_internal s n inv flip =
  let ds := shift_forward NOF inv (if flip then pattern_flipped else pattern) (digits_msb s n) in
  mkAnchor (last ds 0) (pos NOF ds) (total_flips NOF ds).
Proof.
  unfold s_to_anchor_internal. cbv zeta.
  set (ds := shift_forward _ _ _ _).
  destruct (anchor_offset_ij ds NOF) as [H1 H2].
  destruct (anchor_offset NOF (0, 0) ds) as [off f]. cbn [fst snd] in H1, H2. now rewrite H1, H2.
Qed.

(* ------------------------------------------------------------------ main theorem *)
Lemma orientation_class o : 0 <= o < 6 -> o_flip_ij o && o_invert_j o = false.
Proof. intros H. assert (o = 0 \/ o = 1 \/ o = 2 \/ o = 3 \/ o = 4 \/ o = 5) by lia. intuition (subst; reflexivity). Qed.

(* the (prologued) lattice point of the centre lies, with margin 1/10, in the unit cell addressed by
   the shifted digits of s *)
Theorem centre_inside (n : nat) (o s : Z) :
  (n <= 29)%nat -> 0 <= o < 6 -> 0 <= s < 4 ^ Z.of_nat n ->
  exists l, get_pentagon_vertices QInst 0 0 (s_to_anchor s n o) = Some l /\
    let p := prologue n (o_flip_ij o) (o_invert_j o) (face_to_ij QInst (get_center QInst l)) in
    inside (1#10) (shifted_digits n o s) NOF (fst p) (snd p).
Proof.
  intros Hn Ho Hs.
  destruct (shifted_digits_spec n o s) as [HL HD]; [lia|exact Hs|].
  rewrite s_to_anchor_epi, internal_anchor. cbv zeta. fold (shifted_digits n o s).
  set (ds := shifted_digits n o s) in *.
  pose proof (fok_total NOF ds fok_NOF HD) as HF.
  (* the lattice offset lies in the closed triangle of side 2^n *)
  assert (HT : Ueps 0 NOF (pw (length ds)) (inject_Z (fst (pos NOF ds))) (inject_Z (snd (pos NOF ds)))).
  { apply inside_region; auto using fok_NOF; [lra|]. unfold inside.
    apply fok_cases in HF. destruct HF as [->|[->|[->| ->]]]; unfold Ueps, fa, fb, fc; zred; lra. }
  rewrite HL in HT. unfold Ueps, fa, fb, fc, pw in HT. cbn [NOF fst snd] in HT.
  cbn [fst snd Z.add Z.eqb Z.opp Pos.eqb Z.pos_sub] in HT.
  destruct (pos NOF ds) as [i j] eqn:Hpos. cbn [fst snd] in HT.
  destruct HT as [Hi [Hj Hij]].
  assert (Hi' : 0 <= i) by (rewrite Zle_Qle; exact Hi).
  assert (Hj' : 0 <= j) by (rewrite Zle_Qle; exact Hj).
  assert (Hij' : i + j <= 2 ^ Z.of_nat n).
  { rewrite Zle_Qle, inject_Z_plus. lra. }
  destruct (class_ok n (o_flip_ij o) (o_invert_j o) (last ds 0) i j (total_flips NOF ds))
    as [l [Hl HU]]; auto using orientation_class, last_dig.
  exists l. split; [exact Hl|]. cbv zeta in HU |- *.
  unfold inside. rewrite Hpos. exact HU.
Qed.

Theorem locate_centre_digits (n : nat) (o s : Z) :
  (1 <= n <= 29)%nat -> 0 <= o < 6 -> 0 <= s < 4 ^ Z.of_nat n ->
  exists l, get_pentagon_vertices QInst 0 0 (s_to_anchor s n o) = Some l /\
    let p := prologue n (o_flip_ij o) (o_invert_j o) (face_to_ij QInst (get_center QInst l)) in
    locate_digits QInst n (fst p) (snd p) (inject_Z 0) (inject_Z 0) NOF =
      Some (shifted_digits n o s, total_flips NOF (shifted_digits n o s)).
Proof.
  intros Hn Ho Hs.
  destruct (shifted_digits_spec n o s) as [HL HD]; [lia|exact Hs|].
  destruct (centre_inside n o s) as [l [Hl HI]]; [lia|exact Ho|exact Hs|].
  exists l. split; [exact Hl|]. cbv zeta in HI |- *.
  rewrite <- HL at 1. apply (locate_inv (1#10)); auto using fok_NOF; [reflexivity|].
  revert HI. apply inside_compat; unfold inject_Z; ring.
Qed.

(* the same statement with every auxiliary definition of this file expanded: only model functions *)
Theorem locate_centre_digits_model (n : nat) (o s : Z) :
  (1 <= n <= 29)%nat -> 0 <= o < 6 -> 0 <= s < 4 ^ Z.of_nat n ->
  exists l, get_pentagon_vertices QInst 0 0 (s_to_anchor s n o) = Some l /\
    let c := get_center QInst l in
    let ij := face_to_ij QInst c in
    let '(i, j) := if o_flip_ij o then (snd ij, fst ij) else (fst ij, snd ij) in
    let '(x, y) := if o_invert_j o
                   then (i, o_sub QInst (o_ofZ QInst (2 ^ Z.of_nat n)) (o_add QInst i j))
                   else (i, j) in
    let ds := shift_forward NOF (o_invert_j o) (if o_flip_ij o then pattern_flipped else pattern)
                (digits_msb (if o_reverse o then 2 ^ (2 * Z.of_nat n) - s - 1 else s) n) in
    locate_digits QInst n x y (inject_Z 0) (inject_Z 0) NOF =
      Some (ds, fold_left (fun f d => fmul f (q2flips d)) ds NOF).
Proof.
  intros Hn Ho Hs. destruct (locate_centre_digits n o s Hn Ho Hs) as [l [Hl H]].
  exists l. split; [exact Hl|]. cbv zeta in H |- *. unfold prologue, shifted_digits, total_flips in H.
  destruct (o_flip_ij o), (o_invert_j o); exact H.
Qed.

(* consequence for ij_to_s itself: what remains is the backward shifting pass on the located digits *)
Theorem ij_to_s_centre (n : nat) (o s : Z) :
  (1 <= n <= 29)%nat -> 0 <= o < 6 -> 0 <= s < 4 ^ Z.of_nat n ->
  exists l, get_pentagon_vertices QInst 0 0 (s_to_anchor s n o) = Some l /\
    let ij := face_to_ij QInst (get_center QInst l) in
    ij_to_s QInst (fst ij) (snd ij) n o =
      let ds := shifted_digits n o s in
      let rpat := reverse_pattern (if o_flip_ij o then pattern_flipped else pattern) in
      let s' := digits_value (shift_backward (total_flips NOF ds) (o_invert_j o) rpat [] (rev ds)) 0 in
      Some (if o_reverse o then 2 ^ (2 * Z.of_nat n) - s' - 1 else s').
Proof.
  intros Hn Ho Hs. destruct (locate_centre_digits n o s Hn Ho Hs) as [l [Hl H]].
  exists l. split; [exact Hl|]. cbv zeta in H |- *.
  rewrite ij_to_s_prologue. rewrite <- surjective_pairing.
  unfold ij_to_s_internal. change (o_ofZ QInst 0) with (inject_Z 0). rewrite H. reflexivity.
Qed.

(* the centre lies strictly inside the quintant's triangle (lattice coordinates, side 2^n),
   at distance >= 1/10 from each side *)
Theorem centre_in_triangle (n : nat) (o s : Z) :
  (1 <= n <= 29)%nat -> 0 <= o < 6 -> 0 <= s < 4 ^ Z.of_nat n ->
  exists l, get_pentagon_vertices QInst 0 0 (s_to_anchor s n o) = Some l /\
    let ij := face_to_ij QInst (get_center QInst l) in
    ((1#10) <= fst ij /\ (1#10) <= snd ij /\ fst ij + snd ij <= inject_Z (2 ^ Z.of_nat n) - (1#10))%Q.
Proof.
  intros Hn Ho Hs.
  destruct (shifted_digits_spec n o s) as [HL HD]; [lia|exact Hs|].
  destruct (centre_inside n o s) as [l [Hl HI]]; [lia|exact Ho|exact Hs|].
  exists l. split; [exact Hl|]. cbv zeta in HI |- *.
  apply inside_region in HI; auto using fok_NOF; [|lra..].
  rewrite HL in HI. unfold Ueps, fa, fb, fc, pw in HI. cbn [NOF fst snd] in HI.
  cbn [fst snd Z.add Z.eqb Z.opp Pos.eqb Z.pos_sub] in HI.
  destruct (face_to_ij QInst (get_center QInst l)) as [cx cy]. unfold prologue in HI. cbn [o_ofZ QInst] in HI.
  generalize dependent (inject_Z (2 ^ Z.of_nat n)). intros N.
  destruct (o_flip_ij o), (o_invert_j o); cbn [fst snd o_sub o_add o_ofZ QInst]; intros HI; strip_all; lra.
Qed.

(* Qeq-compatibility of the two maps between the centre and the located point *)
Lemma face_to_ij_compat (p q : Q * Q) : (fst p == fst q)%Q -> (snd p == snd q)%Q ->
  (fst (face_to_ij QInst p) == fst (face_to_ij QInst q))%Q /\ (snd (face_to_ij QInst p) == snd (face_to_ij QInst q))%Q.
Proof.
  intros H1 H2. unfold face_to_ij, basis_inverse_mat, mat_of, mat_apply. cbn [fst snd o_add o_mul o_ofdy QInst].
  rewrite !Qstrip2_eq, H1, H2. split; reflexivity.
Qed.

Lemma prologue_compat n fl inv (p q : Q * Q) : (fst p == fst q)%Q -> (snd p == snd q)%Q ->
  (fst (prologue n fl inv p) == fst (prologue n fl inv q))%Q /\ (snd (prologue n fl inv p) == snd (prologue n fl inv q))%Q.
Proof.
  intros H1 H2. unfold prologue. destruct fl, inv; cbn [fst snd o_sub o_add o_ofZ QInst];
  rewrite ?Qstrip2_eq, ?H1, ?H2; split; reflexivity.
Qed.

(* two positions whose pentagons have equal centres have the same shifted digits *)
Theorem located_digits_injective (n : nat) (o s1 s2 : Z) (l1 l2 : list (Q * Q)) :
  (1 <= n <= 29)%nat -> 0 <= o < 6 -> 0 <= s1 < 4 ^ Z.of_nat n -> 0 <= s2 < 4 ^ Z.of_nat n ->
  get_pentagon_vertices QInst 0 0 (s_to_anchor s1 n o) = Some l1 ->
  get_pentagon_vertices QInst 0 0 (s_to_anchor s2 n o) = Some l2 ->
  (fst (get_center QInst l1) == fst (get_center QInst l2))%Q ->
  (snd (get_center QInst l1) == snd (get_center QInst l2))%Q ->
  shift_forward NOF (o_invert_j o) (if o_flip_ij o then pattern_flipped else pattern)
    (digits_msb (if o_reverse o then 2 ^ (2 * Z.of_nat n) - s1 - 1 else s1) n) =
  shift_forward NOF (o_invert_j o) (if o_flip_ij o then pattern_flipped else pattern)
    (digits_msb (if o_reverse o then 2 ^ (2 * Z.of_nat n) - s2 - 1 else s2) n).
Proof.
  intros Hn Ho Hs1 Hs2 G1 G2 Cx Cy. fold (shifted_digits n o s1) (shifted_digits n o s2).
  destruct (shifted_digits_spec n o s1) as [HL1 HD1]; [lia|exact Hs1|].
  destruct (shifted_digits_spec n o s2) as [HL2 HD2]; [lia|exact Hs2|].
  destruct (centre_inside n o s1) as [l1' [Hl1 HI1]]; [lia|exact Ho|exact Hs1|].
  destruct (centre_inside n o s2) as [l2' [Hl2 HI2]]; [lia|exact Ho|exact Hs2|].
  rewrite G1 in Hl1. rewrite G2 in Hl2. injection Hl1 as <-. injection Hl2 as <-.
  cbv zeta in HI1, HI2.
  destruct (face_to_ij_compat _ _ Cx Cy) as [Fx Fy].
  destruct (prologue_compat n (o_flip_ij o) (o_invert_j o) _ _ Fx Fy) as [Px Py].
  set (p1 := prologue _ _ _ _) in *. set (p2 := prologue _ _ _ _) in *.
  assert (HI2' : inside (1#10) (shifted_digits n o s2) NOF (fst p1 - 0) (snd p1 - 0)).
  { revert HI2. apply inside_compat; [rewrite Px|rewrite Py]; ring. }
  assert (HI1' : inside (1#10) (shifted_digits n o s1) NOF (fst p1 - 0) (snd p1 - 0)).
  { revert HI1. apply inside_compat; ring. }
  assert (He : (0 < 1#10)%Q) by reflexivity.
  pose proof (locate_inv (1#10) _ He NOF (fst p1) (snd p1) 0%Q 0%Q fok_NOF HD1 HI1') as L1.
  pose proof (locate_inv (1#10) _ He NOF (fst p1) (snd p1) 0%Q 0%Q fok_NOF HD2 HI2') as L2.
  rewrite HL1 in L1. rewrite HL2 in L2. rewrite L1 in L2. congruence.
Qed.

(* distinctness of the pentagons, given injectivity of the forward shifting pass (proved elsewhere) *)
Corollary centres_distinct (n : nat) (o s1 s2 : Z) (l1 l2 : list (Q * Q)) :
  (forall a b, 0 <= a < 4 ^ Z.of_nat n -> 0 <= b < 4 ^ Z.of_nat n ->
     shifted_digits n o a = shifted_digits n o b -> a = b) ->
  (1 <= n <= 29)%nat -> 0 <= o < 6 -> 0 <= s1 < 4 ^ Z.of_nat n -> 0 <= s2 < 4 ^ Z.of_nat n ->
  get_pentagon_vertices QInst 0 0 (s_to_anchor s1 n o) = Some l1 ->
  get_pentagon_vertices QInst 0 0 (s_to_anchor s2 n o) = Some l2 ->
  s1 <> s2 ->
  ~ ((fst (get_center QInst l1) == fst (get_center QInst l2))%Q /\
     (snd (get_center QInst l1) == snd (get_center QInst l2))%Q).
Proof.
  intros Hinj Hn Ho Hs1 Hs2 G1 G2 Hne [Cx Cy]. apply Hne. apply Hinj; [exact Hs1|exact Hs2|].
  exact (located_digits_injective n o s1 s2 l1 l2 Hn Ho Hs1 Hs2 G1 G2 Cx Cy).
Qed.

(* with the backward shifting pass inverting the forward one (hypothesis, proved elsewhere),
   locating the centre returns s *)
Corollary ij_to_s_centre_roundtrip (n : nat) (o s : Z) :
  (1 <= n <= 29)%nat -> 0 <= o < 6 -> 0 <= s < 4 ^ Z.of_nat n ->
  (let ds := shifted_digits n o s in
   digits_value (shift_backward (total_flips NOF ds) (o_invert_j o)
                   (reverse_pattern (if o_flip_ij o then pattern_flipped else pattern)) [] (rev ds)) 0
   = (if o_reverse o then 2 ^ (2 * Z.of_nat n) - s - 1 else s)) ->
  exists l, get_pentagon_vertices QInst 0 0 (s_to_anchor s n o) = Some l /\
    let ij := face_to_ij QInst (get_center QInst l) in
    ij_to_s QInst (fst ij) (snd ij) n o = Some s.
Proof.
  intros Hn Ho Hs Hback. destruct (ij_to_s_centre n o s Hn Ho Hs) as [l [Hl H]].
  exists l. split; [exact Hl|]. cbv zeta in H, Hback |- *. rewrite H, Hback.
  destruct (o_reverse o); f_equal; lia.
Qed.

(* Summary.
   Model: exact rational instance, quintant 0 (identity rotation), resolution 0 (scale 1).
   Covered: all depths n <= 29 and all six orientations (UV VU UW WU VW WV).
   - locate_centre_digits / locate_centre_digits_model : the first loop of ij_to_s, run on the
     centre of the pentagon at position s, returns the forward-shifted digits of s and their flips;
   - ij_to_s_centre : hence ij_to_s = un-shift of these digits (only shift_backward remains);
   - centre_in_triangle : the centre is inside the triangle 0 < i, 0 < j, i + j < 2^n, margin 1/10;
   - located_digits_injective, centres_distinct : equal centres force equal shifted digits;
   - table-dependent closed checks: nesting_ok, delta_margin_ok, basis_defect_small
     (and the proof of [nest], which evaluates q2kj_tab / q2flips_tab). *)
