(* C12, planar half (exact rational model, quintant 0): the four children 4s+t of the cell at
   curve position s overlap their parent and have their centres within 0.8*sqrt(parent area) of
   the parent's centre.  See the summary at the end of the file. *)
From Coq Require Import ZArith QArith Qabs Qround List Bool Lia Lqa Setoid Morphisms.
From A5 Require Import Base.Outcome Base.Word Num.NumOps Num.QInst Hilbert.Hilbert Geo.Tiling
  Hilbert.DigitsProofs Hilbert.LocateProofs Hilbert.CurveBijection Geo.AreaProofs.
From A5gen Require Import TablesCur.
Import ListNotations.
Open Scope Z_scope.

(* ------------------------------------------------------------------ 1. digits of a child *)
Lemma dig_digit d : dig d <-> digit d.
Proof. reflexivity. Qed.

Lemma digits_value_snoc l t acc : digits_value (l ++ [t]) acc = 4 * digits_value l acc + t.
Proof. rewrite digits_value_app. reflexivity. Qed.

(* the base-4 digits of 4a+t are those of a followed by t *)
Lemma digits_msb_child a n t : (n < 40)%nat -> 0 <= a < 4 ^ Z.of_nat n -> 0 <= t < 4 ->
  digits_msb (4 * a + t) (S n) = digits_msb a n ++ [t].
Proof.
  intros Hn Ha Ht.
  destruct (DigitsProofs.digits_msb_spec a n ltac:(lia) Ha) as [HL [HD HV]].
  assert (D : Forall (fun d => 0 <= d < 4) (digits_msb a n ++ [t])).
  { apply Forall_app. split; [exact HD|]. constructor; [exact Ht|constructor]. }
  assert (L : length (digits_msb a n ++ [t]) = S n) by (rewrite app_length, HL; cbn; lia).
  pose proof (digits_msb_value _ D ltac:(lia)) as H.
  rewrite digits_value_snoc, HV, L in H. exact H.
Qed.

(* the forward pass is top-down: appending a digit t to the input leaves all but the last
   output digit unchanged; the last output digit q and t are replaced by shift_pair q t F,
   where F is the product of the flips of the unchanged output digits *)
Lemma sff_nonempty f inv pat p rest : shift_forward_from f inv pat p rest <> [].
Proof. destruct rest as [|c r]; cbn [shift_forward_from]; [discriminate|]. destruct (shift_pair _ _ _ _ _). discriminate. Qed.

Lemma removelast_cons {A} (x : A) l : l <> [] -> removelast (x :: l) = x :: removelast l.
Proof. destruct l; [congruence|reflexivity]. Qed.
Lemma last_cons {A} (x : A) l d : l <> [] -> last (x :: l) d = last l d.
Proof. destruct l; [congruence|reflexivity]. Qed.

Lemma sff_snoc inv pat t rest : forall f p,
  shift_forward_from f inv pat p (rest ++ [t]) =
  let sh := shift_forward_from f inv pat p rest in
  let '(q', c') := shift_pair (last sh 0) t (fmul f (total (removelast sh))) inv pat in
  removelast sh ++ [q'; c'].
Proof.
  induction rest as [|c r IH]; intros f p.
  - cbn [app shift_forward_from last removelast total]. rewrite fmul_NOF_r.
    destruct (shift_pair p t f inv pat) as [q' c']. reflexivity.
  - cbn [app shift_forward_from]. destruct (shift_pair p c f inv pat) as [p' c1].
    rewrite IH. cbv zeta.
    pose proof (sff_nonempty (fmul f (q2flips p')) inv pat c1 r) as NE.
    rewrite (removelast_cons p' _ NE), (last_cons p' _ 0 NE). cbn [total].
    rewrite <- fmul_assoc.
    destruct (shift_pair _ t _ inv pat) as [q' c']. reflexivity.
Qed.

Lemma shift_forward_snoc f inv pat l t : l <> [] ->
  shift_forward f inv pat (l ++ [t]) =
  let sh := shift_forward f inv pat l in
  let '(q', c') := shift_pair (last sh 0) t (fmul f (total (removelast sh))) inv pat in
  removelast sh ++ [q'; c'].
Proof. destruct l as [|p r]; [congruence|]. intros _. cbn [app shift_forward]. apply sff_snoc. Qed.

(* adjusted position of a child: 4 * adjusted(parent) + t', with t' = t or 3 - t *)
Definition adj_t (o t : Z) : Z := if o_reverse o then 3 - t else t.
Lemma adjusted_child s n o t :
  adjusted_s (4 * s + t) (S n) o = 4 * adjusted_s s n o + adj_t o t.
Proof.
  unfold adjusted_s, adj_t. destruct (o_reverse o); [|reflexivity].
  replace (2 * Z.of_nat (S n)) with (2 * Z.of_nat n + 2) by lia.
  rewrite Z.pow_add_r by lia. change (2 ^ 2) with 4. lia.
Qed.
Lemma adj_t_range o t : 0 <= t < 4 -> 0 <= adj_t o t < 4.
Proof. unfold adj_t. destruct (o_reverse o); lia. Qed.

Lemma shifted_digits_adj n o s :
  shifted_digits n o s = shift_forward NOF (o_invert_j o) (cur_pat (o_flip_ij o)) (digits_msb (adjusted_s s n o) n).
Proof. reflexivity. Qed.

(* child_digits_prefix: shifted digits of the child = shifted digits of the parent with the last
   digit q replaced by the pair shift_pair q t' F *)
Theorem child_digits_prefix (n : nat) (o s t : Z) :
  (1 <= n <= 28)%nat -> 0 <= s < 4 ^ Z.of_nat n -> 0 <= t < 4 ->
  let sh := shifted_digits n o s in
  let pre := removelast sh in
  let '(q', c') := shift_pair (last sh 0) (adj_t o t) (total pre) (o_invert_j o) (cur_pat (o_flip_ij o)) in
  shifted_digits (S n) o (4 * s + t) = pre ++ [q'; c'].
Proof.
  intros Hn Hs Ht. cbv zeta. rewrite !shifted_digits_adj, adjusted_child.
  pose proof (adjusted_s_range s n o Hs) as Ha. pose proof (adj_t_range o t Ht) as Ht'.
  rewrite digits_msb_child by (try assumption; lia).
  destruct (DigitsProofs.digits_msb_spec (adjusted_s s n o) n ltac:(lia) Ha) as [HL _].
  rewrite shift_forward_snoc; [|intros E; rewrite E in HL; cbn in HL; lia].
  cbv zeta.
  match goal with |- context [fmul NOF ?x] => pose proof (fmul_NOF_l x) as E; set (F := fmul NOF x) in *; clearbody F; subst F end.
  destruct (shift_pair _ _ _ _ _) as [q' c']. reflexivity.
Qed.

(* consequence in the form "all but the last two places agree" *)
Corollary child_digits_firstn (n : nat) (o s t : Z) :
  (1 <= n <= 28)%nat -> 0 <= s < 4 ^ Z.of_nat n -> 0 <= t < 4 ->
  firstn (n - 1) (shifted_digits (S n) o (4 * s + t)) = firstn (n - 1) (shifted_digits n o s) /\
  length (shifted_digits (S n) o (4 * s + t)) = S n.
Proof.
  intros Hn Hs Ht. pose proof (child_digits_prefix n o s t Hn Hs Ht) as H. cbv zeta in H.
  destruct (shifted_digits_spec n o s ltac:(lia) Hs) as [HL _].
  destruct (shift_pair _ _ _ _ _) as [q' c']. rewrite H.
  assert (NE : shifted_digits n o s <> []) by (intros E; rewrite E in HL; cbn in HL; lia).
  pose proof (app_removelast_last 0 NE) as E.
  assert (L : length (removelast (shifted_digits n o s)) = (n - 1)%nat).
  { rewrite E, app_length in HL. cbn in HL. lia. }
  split.
  - rewrite E at 2. rewrite !firstn_app, L, Nat.sub_diag. cbn [firstn]. reflexivity.
  - rewrite app_length, L. cbn. lia.
Qed.

(* ------------------------------------------------------------------ 2. anchors of parent and child *)
Definition vadd (a b : Z * Z) : Z * Z := (fst a + fst b, snd a + snd b).
Definition vsc (k : Z) (a : Z * Z) : Z * Z := (k * fst a, k * snd a).
Definition shift_anchor (G : Z * Z) (a : anchor) : anchor := mkAnchor (a_k a) (vadd (a_off a) G) (a_flips a).

Lemma total_flips_app f l1 l2 : total_flips f (l1 ++ l2) = total_flips (total_flips f l1) l2.
Proof. unfold total_flips. apply fold_left_app. Qed.

Lemma pos_app l1 : forall f l2,
  pos f (l1 ++ l2) = vadd (vsc (2 ^ Z.of_nat (length l2)) (pos f l1)) (pos (total_flips f l1) l2).
Proof.
  induction l1 as [|d r IH]; intros f l2.
  - cbn [app pos total_flips fold_left]. destruct (pos f l2). unfold vadd, vsc. cbn [fst snd]. f_equal; ring.
  - cbn [app pos]. rewrite IH, total_flips_cons, app_length. unfold vadd, vsc. cbn [fst snd length].
    rewrite Nat2Z.inj_add, Z.pow_add_r by lia. f_equal; ring.
Qed.

(* the finite state: orientation class, flips F before the last parent digit, last shifted parent
   digit q, appended (adjusted) child digit t *)
Record state := mkSt { st_flip : bool; st_inv : bool; st_F : flips; st_q : Z; st_t : Z }.

Definition int_parent (st : state) : anchor :=
  mkAnchor (st_q st) (vij (st_q st) (st_F st)) (fmul (st_F st) (q2flips (st_q st))).
Definition int_child (st : state) : anchor :=
  let '(q', c') := shift_pair (st_q st) (st_t st) (st_F st) (st_inv st) (cur_pat (st_flip st)) in
  let F1 := fmul (st_F st) (q2flips q') in
  mkAnchor c' (vadd (vsc 2 (vij q' (st_F st))) (vij c' F1)) (fmul F1 (q2flips c')).

(* the orientation epilogue with the side length N of the triangle as a parameter *)
Definition epiZ (N : Z) (flip_ij invert_j : bool) (a : anchor) : anchor :=
  let a1 :=
    if flip_ij then
      let '(i, j) := a_off a in
      let off := (j, i) in
      let off := if (fst (a_flips a) =? -1)%Z then (fst off + (-1), snd off + 1)%Z else off in
      let off := if (snd (a_flips a) =? -1)%Z then (fst off - (-1), snd off - 1)%Z else off in
      mkAnchor (a_k a) off (a_flips a)
    else a in
  if invert_j then
    let '(i, j) := a_off a1 in
    mkAnchor (a_k a1) (i, N - (i + j))%Z ((- fst (a_flips a1))%Z, snd (a_flips a1))
  else a1.
Lemma epi_epiZ n flip inv a : epi n flip inv a = epiZ (2 ^ Z.of_nat n) flip inv a.
Proof. reflexivity. Qed.

(* normalised anchors: parent and child for lattice position 0 and N = 0 *)
Definition st_parent (st : state) : anchor := epiZ 0 (st_flip st) (st_inv st) (int_parent st).
Definition st_child (st : state) : anchor := epiZ 0 (st_flip st) (st_inv st) (int_child st).

(* effect of a translation H of the internal offset (and of N) on the final offset *)
Definition Gof (N : Z) (flip inv : bool) (H : Z * Z) : Z * Z :=
  let H1 := if flip then (snd H, fst H) else H in
  if inv then (fst H1, N - (fst H1 + snd H1)) else H1.

Lemma epiZ_shift N flip inv H a :
  epiZ N flip inv (shift_anchor H a) = shift_anchor (Gof N flip inv H) (epiZ 0 flip inv a).
Proof.
  destruct a as [k [i j] [fx fy]], H as [hi hj].
  unfold epiZ, shift_anchor, Gof, vadd. cbn [a_off a_k a_flips fst snd].
  destruct flip, inv; cbn [a_off a_k a_flips fst snd];
  destruct (fx =? -1), (fy =? -1); cbn [a_off a_k a_flips fst snd]; f_equal; f_equal; ring.
Qed.

Lemma Gof_double N flip inv H : Gof (2 * N) flip inv (vsc 2 H) = vsc 2 (Gof N flip inv H).
Proof. destruct H as [hi hj]. unfold Gof, vsc. destruct flip, inv; cbn [fst snd]; f_equal; ring. Qed.

Definition all_states : list state :=
  flat_map (fun fi : bool * bool =>
    flat_map (fun F => flat_map (fun q => map (fun t => mkSt (fst fi) (snd fi) F q t) [0; 1; 2; 3]) [0; 1; 2; 3])
             LocateProofs.all_flips)
    [(false, false); (true, false); (false, true)].

Lemma in_all_states flip inv F q t : flip && inv = false -> fok F -> dig q -> dig t ->
  In (mkSt flip inv F q t) all_states.
Proof.
  intros Hc HF Hq Ht. apply fok_cases in HF. apply dig_cases in Hq. apply dig_cases in Ht.
  unfold all_states. apply in_flat_map. exists (flip, inv). split.
  { destruct flip, inv; try discriminate Hc; cbn; auto. }
  apply in_flat_map. exists F. split.
  { unfold LocateProofs.all_flips. destruct HF as [->|[->|[->| ->]]]; cbn; auto. }
  apply in_flat_map. exists q. split.
  { destruct Hq as [->|[->|[->| ->]]]; cbn; auto. }
  apply in_map_iff. exists t. split; [reflexivity|].
  destruct Ht as [->|[->|[->| ->]]]; cbn; auto.
Qed.

Lemma last_snoc {A} (l : list A) x d : last (l ++ [x]) d = x.
Proof. induction l as [|a r IH]; [reflexivity|]. cbn [app]. rewrite last_cons; [exact IH|]. destruct r; discriminate. Qed.
Lemma last_snoc2 {A} (l : list A) x y d : last (l ++ [x; y]) d = y.
Proof. change [x; y] with ([x] ++ [y]). rewrite app_assoc. apply last_snoc. Qed.

(* child_offset_finite: parent and child anchors are the two normalised anchors of one of the 192
   states, translated by G and 2 G *)
Theorem child_offset_finite (n : nat) (o s t : Z) :
  (1 <= n <= 28)%nat -> 0 <= o < 6 -> 0 <= s < 4 ^ Z.of_nat n -> 0 <= t < 4 ->
  exists G st, In st all_states /\
    s_to_anchor s n o = shift_anchor G (st_parent st) /\
    s_to_anchor (4 * s + t) (S n) o = shift_anchor (vsc 2 G) (st_child st).
Proof.
  intros Hn Ho Hs Ht.
  pose proof (child_digits_prefix n o s t Hn Hs Ht) as HC. cbv zeta in HC.
  destruct (shifted_digits_spec n o s ltac:(lia) Hs) as [HL HD].
  assert (NE : shifted_digits n o s <> []) by (intros E; rewrite E in HL; cbn in HL; lia).
  pose proof (app_removelast_last 0 NE) as E.
  set (pre := removelast (shifted_digits n o s)) in *. set (q := last (shifted_digits n o s) 0) in *.
  assert (Dpre : Forall dig pre /\ dig q).
  { rewrite E in HD. apply Forall_app in HD. destruct HD as [A B]. inversion B; subst. auto. }
  destruct Dpre as [Dpre Dq].
  pose proof (fok_total NOF pre fok_NOF Dpre) as HF.
  pose proof (adj_t_range o t Ht) as Ht'.
  set (F := total_flips NOF pre) in *.
  assert (EF : total pre = F) by (unfold F; rewrite total_flips_total, fmul_NOF_l; reflexivity).
  rewrite EF in HC.
  set (st := mkSt (o_flip_ij o) (o_invert_j o) F q (adj_t o t)).
  exists (Gof (2 ^ Z.of_nat n) (o_flip_ij o) (o_invert_j o) (vsc 2 (pos NOF pre))), st.
  split; [apply in_all_states; auto using orientation_class|].
  split.
  - rewrite s_to_anchor_epi, internal_anchor, epi_epiZ. cbv zeta. fold (shifted_digits n o s).
    unfold st_parent. change (st_flip st) with (o_flip_ij o). change (st_inv st) with (o_invert_j o).
    rewrite <- epiZ_shift. f_equal. rewrite E.
    rewrite last_snoc, pos_app, total_flips_app. fold F.
    unfold shift_anchor, int_parent, st. cbn [st_q st_F a_k a_off a_flips pos total_flips fold_left length].
    change (2 ^ Z.of_nat 1) with 2. f_equal.
    unfold vadd, vsc. cbn [fst snd]. change (2 ^ Z.of_nat 0) with 1. f_equal; ring.
  - rewrite s_to_anchor_epi, internal_anchor, epi_epiZ. cbv zeta. fold (shifted_digits (S n) o (4 * s + t)).
    unfold st_child. change (st_flip st) with (o_flip_ij o). change (st_inv st) with (o_invert_j o).
    rewrite pow2_S, <- Gof_double, <- epiZ_shift. f_equal.
    unfold int_child, st. cbn [st_q st_F st_t st_inv st_flip].
    destruct (shift_pair q (adj_t o t) F (o_invert_j o) (cur_pat (o_flip_ij o))) as [q' c'].
    rewrite HC, last_snoc2, pos_app, total_flips_app. fold F.
    unfold shift_anchor. cbn [a_k a_off a_flips pos total_flips fold_left length].
    change (2 ^ Z.of_nat 2) with 4. change (2 ^ Z.of_nat 1) with 2. change (2 ^ Z.of_nat 0) with 1. f_equal.
    unfold vadd, vsc. cbn [fst snd]. f_equal; ring.
Qed.

(* ------------------------------------------------------------------ 3. vertices of a pentagon, up to Qeq *)
Open Scope Q_scope.
Definition qp : Type := (Q * Q)%type.
Definition peq1 (p q : qp) : Prop := fst p == fst q /\ snd p == snd q.
Definition peq (l l' : list qp) : Prop := Forall2 peq1 l l'.

Lemma peq1_refl p : peq1 p p. Proof. split; reflexivity. Qed.
Lemma peq1_sym p q : peq1 p q -> peq1 q p. Proof. intros [A B]; split; symmetry; assumption. Qed.
Lemma peq1_trans p q r : peq1 p q -> peq1 q r -> peq1 p r.
Proof. intros [A B] [C D]; split; etransitivity; eassumption. Qed.
Lemma peq_refl l : peq l l.
Proof. induction l; constructor; auto using peq1_refl. Qed.
Lemma peq_trans l1 : forall l2 l3, peq l1 l2 -> peq l2 l3 -> peq l1 l3.
Proof.
  induction l1 as [|a r IH]; intros l2 l3 H1 H2; inversion H1; subst; inversion H2; subst; constructor.
  - eapply peq1_trans; eassumption.
  - eapply IH; eassumption.
Qed.
Lemma peq_map (f g : qp -> qp) l : (forall p, peq1 (f p) (g p)) -> peq (map f l) (map g l).
Proof. intros H. induction l; cbn; constructor; auto. Qed.
Lemma peq_length l l' : peq l l' -> length l = length l'.
Proof. induction 1; cbn; congruence. Qed.

(* x |-> (x + t) * k *)
Definition aff (k : Q) (t : qp) (l : list qp) : list qp :=
  map (fun p => ((fst p + fst t) * k, (snd p + snd t) * k)) l.
(* BASIS applied to an integer lattice vector *)
Definition Bz (v : Z * Z) : qp :=
  (Bm 0 * inject_Z (fst v) + Bm 1 * inject_Z (snd v), Bm 2 * inject_Z (fst v) + Bm 3 * inject_Z (snd v)).

Lemma local_area k f : get_area QInst (local_pentagon k f) == A0.
Proof.
  unfold local_pentagon. cbv zeta.
  repeat match goal with
  | |- get_area QInst (if _ then _ else _) == _ => apply area_if
  | |- get_area QInst (translate QInst _ _) == _ => apply area_translate'
  | |- get_area QInst (rotate180 QInst _) == _ => apply area_rotate180'
  | |- get_area QInst (reflect_y QInst _) == _ => apply area_reflect_y'
  end; reflexivity.
Qed.

Lemma pow2Q_pos hr : (0 <= hr)%Z -> 0 < inject_Z (2 ^ hr).
Proof. intros H. apply inject_pow_pos; lia. Qed.

Lemma gpv_shape hr a :
  get_pentagon_vertices QInst hr 0 a =
  shape_new QInst (map (mat_apply QInst (1, 0, 0, 1))
    (scale QInst (o_div QInst (inject_Z 1) (inject_Z (2 ^ hr)))
      (translate QInst (mat_apply QInst (basis_mat QInst) (inject_Z (fst (a_off a)), inject_Z (snd (a_off a))))
         (local_pentagon (a_k a) (a_flips a))))).
Proof. reflexivity. Qed.

(* get_pentagon_vertices at curve depth hr, quintant 0: never re-wound; the vertices are the local
   pentagon translated by BASIS * offset and scaled by 2^-hr *)
Lemma gpv_vertices hr a : (0 <= hr)%Z ->
  exists l, get_pentagon_vertices QInst hr 0 a = Some l /\
    peq l (aff (1 / inject_Z (2 ^ hr)) (Bz (a_off a)) (local_pentagon (a_k a) (a_flips a))).
Proof.
  intros Hhr. rewrite gpv_shape. pose proof (pow2Q_pos hr Hhr) as HP.
  set (k := o_div QInst (inject_Z 1) (inject_Z (2 ^ hr))).
  set (t := mat_apply QInst (basis_mat QInst) _).
  set (L := local_pentagon _ _).
  assert (Hk : k == 1 / inject_Z (2 ^ hr)) by (unfold k; apply qdiv).
  assert (Hkpos : 0 < k).
  { rewrite Hk. apply Qlt_shift_div_l; [exact HP|]. rewrite Qmult_0_l. reflexivity. }
  unfold shape_new. cbn [o_ltb QInst].
  rewrite LocateProofs.Qltb_false.
  2:{ rewrite area_mat, area_scale, area_translate. unfold L. rewrite local_area.
      change (detQ (1, 0, 0, 1)) with (1 * 1 - 0 * 0). change (o_ofZ QInst 0) with 0.
      assert (0 < k * k * A0) by (apply Qmult_lt_0_compat; [apply Qmult_lt_0_compat; exact Hkpos|exact A0_pos]).
      generalize dependent (k * k * A0). intros X HX. lra. }
  eexists. split; [reflexivity|].
  unfold scale, translate, aff. rewrite !map_map. apply peq_map. intros p.
  assert (Ht1 : fst t == fst (Bz (a_off a))).
  { subst t. unfold basis_mat, mat_of, mat_apply, Bz. cbn [fst snd o_add o_mul o_ofdy QInst]. fold (Bm 0) (Bm 1).
    now rewrite !Qstrip2_eq. }
  assert (Ht2 : snd t == snd (Bz (a_off a))).
  { subst t. unfold basis_mat, mat_of, mat_apply, Bz. cbn [fst snd o_add o_mul o_ofdy QInst]. fold (Bm 2) (Bm 3).
    now rewrite !Qstrip2_eq. }
  unfold peq1, mat_apply. cbn [fst snd o_add o_mul QInst]. rewrite !Qstrip2_eq, Ht1, Ht2, Hk. split; ring.
Qed.

(* ---- centre *)
Lemma fold_center_peq (n : Q) l l' : peq l l' -> forall acc acc', peq1 acc acc' ->
  peq1 (fold_left (fun acc v => (o_add QInst (fst acc) (o_div QInst (fst v) n), o_add QInst (snd acc) (o_div QInst (snd v) n))) l acc)
       (fold_left (fun acc v => (o_add QInst (fst acc) (o_div QInst (fst v) n), o_add QInst (snd acc) (o_div QInst (snd v) n))) l' acc').
Proof.
  induction 1 as [|p q r r' Hpq Hr IH]; intros acc acc' Ha; [exact Ha|].
  cbn [fold_left]. apply IH. destruct Hpq as [P1 P2], Ha as [A1 A2].
  split; cbn [fst snd o_add o_div QInst]; rewrite !Qstrip2_eq; [rewrite P1, A1|rewrite P2, A2]; reflexivity.
Qed.

Lemma center_peq l l' : peq l l' -> peq1 (get_center QInst l) (get_center QInst l').
Proof.
  intros H. unfold get_center. pose proof (peq_length _ _ H) as E.
  change (@length (@pt Q) l = @length (@pt Q) l') in E. rewrite E. apply fold_center_peq; [exact H|apply peq1_refl].
Qed.

Lemma center_aff5 k t l : length l = 5%nat ->
  peq1 (get_center QInst (aff k t l)) ((fst (cen5 l) + fst t) * k, (snd (cen5 l) + snd t) * k).
Proof.
  intros HL. destruct l as [|[x0 y0] [|[x1 y1] [|[x2 y2] [|[x3 y3] [|[x4 y4] [|? ?]]]]]]; try discriminate HL.
  destruct t as [tx ty].
  unfold peq1, get_center, aff, cen5.
  cbn [map fold_left fold_right length fst snd o_add o_div o_ofZ QInst Z.of_nat Pos.of_succ_nat Pos.succ].
  rewrite !Qstrip2_eq. unfold inject_Z. split; field.
Qed.

(* ---- cross products *)
Lemma crosses_from_peq l l' : peq l l' -> forall f f' w w', peq1 f f' -> peq1 w w' ->
  Forall2 Qeq (crosses_from QInst f l w) (crosses_from QInst f' l' w').
Proof.
  induction 1 as [|p q r r' Hpq Hr IH]; intros f f' w w' Hf Hw; [constructor|].
  cbn [crosses_from]. constructor; [|apply IH; assumption].
  assert (H2 : peq1 (match r with [] => f | b :: _ => b end) (match r' with [] => f' | b :: _ => b end)).
  { destruct Hr; assumption. }
  destruct Hpq as [P1 P2], Hw as [W1 W2], H2 as [V1 V2].
  cbn [o_sub o_mul QInst]. rewrite !Qstrip2_eq, P1, P2, W1, W2, V1, V2. reflexivity.
Qed.

Lemma crosses_peq l l' w w' : peq l l' -> peq1 w w' -> Forall2 Qeq (crosses QInst l w) (crosses QInst l' w').
Proof.
  intros H Hw. unfold crosses. destruct H as [|p q r r' Hpq Hr]; [constructor|].
  apply crosses_from_peq; [constructor|..]; assumption.
Qed.

Definition affp (k : Q) (t : qp) (p : qp) : qp := ((fst p + fst t) * k, (snd p + snd t) * k).

Lemma crosses_from_aff k t l : forall f w,
  Forall2 (fun a b => a == k * k * b) (crosses_from QInst (affp k t f) (aff k t l) (affp k t w)) (crosses_from QInst f l w).
Proof.
  induction l as [|p r IH]; intros f w; [constructor|].
  cbn [aff map crosses_from]. constructor; [|apply IH].
  destruct r as [|b r']; unfold affp; cbn [map fst snd o_sub o_mul QInst]; rewrite !Qstrip2_eq; ring.
Qed.

Lemma crosses_aff k t l w :
  Forall2 (fun a b => a == k * k * b) (crosses QInst (aff k t l) (affp k t w)) (crosses QInst l w).
Proof. destruct l as [|p r]; [constructor|]. apply (crosses_from_aff k t (p :: r) p w). Qed.

(* strict interior: every edge cross product of Tiling.crosses is positive *)
Definition strictly_inside (l : list qp) (w : qp) : Prop := Forall (fun c => 0 < c) (crosses QInst l w).
Definition inside_b (l : list qp) (w : qp) : bool := forallb (fun c => Qltb 0 c) (crosses QInst l w).

Lemma inside_b_ok l w : inside_b l w = true -> strictly_inside l w.
Proof.
  unfold inside_b, strictly_inside. rewrite forallb_forall, Forall_forall. intros H c Hc.
  apply AreaProofs.Qltb_true. apply H. exact Hc.
Qed.

Lemma strictly_inside_transfer k t l l' w W : 0 < k ->
  peq l' (aff k t l) -> peq1 W (affp k t w) -> strictly_inside l w -> strictly_inside l' W.
Proof.
  intros Hk Hl HW H. unfold strictly_inside in *.
  pose proof (crosses_peq _ _ _ _ Hl HW) as H1. pose proof (crosses_aff k t l w) as H2.
  revert H1 H2 H. generalize (crosses QInst l' W) (crosses QInst (aff k t l) (affp k t w)) (crosses QInst l w).
  intros c1 c2 c3 H1. revert c3. induction H1 as [|a b r r' Hab Hr IH]; intros c3 H2 H; [constructor|].
  inversion H2; subst. inversion H; subst. constructor; [|eapply IH; eassumption].
  rewrite Hab, H3. apply Qmult_lt_0_compat; [apply Qmult_lt_0_compat; exact Hk|assumption].
Qed.

(* a strictly interior point is contained in the sense of contains_point *)
Lemma strictly_inside_contains l w : strictly_inside l w -> contains_point QInst l w = Some true.
Proof.
  unfold strictly_inside, contains_point. induction 1 as [|c r Hc Hr IH]; [reflexivity|].
  cbn [all_nonneg o_ltb QInst]. rewrite LocateProofs.Qltb_false; [exact IH|]. change (o_ofZ QInst 0) with 0. lra.
Qed.

(* ------------------------------------------------------------------ 4. the finite table of configurations *)
(* Normalisation.  By child_offset_finite, parent = shift_anchor G P and child = shift_anchor (2G) C
   for the normalised anchors P = st_parent st, C = st_child st of one of the 192 states.  By
   gpv_vertices the parent pentagon (depth n) is   (cfgp st + BASIS*G) / 2^n   and the child pentagon
   (depth n+1) is   (cfgc st + BASIS*G) / 2^n,   where
     cfgp st = local pentagon of P + BASIS * offset(P)            (parent lattice units)
     cfgc st = (local pentagon of C + BASIS * offset(C)) / 2
   are closed lists of five rational points.  BASIS*G is computed exactly (no BASIS_INVERSE is
   involved in face coordinates), so there is no rounding-defect term to absorb. *)
Definition cfgp (st : state) : list qp :=
  let a := st_parent st in aff 1 (Bz (a_off a)) (local_pentagon (a_k a) (a_flips a)).
Definition cfgc (st : state) : list qp :=
  let a := st_child st in aff (1 # 2) (Bz (a_off a)) (local_pentagon (a_k a) (a_flips a)).

Lemma cfgp_length st : length (cfgp st) = 5%nat.
Proof. unfold cfgp, aff. cbv zeta. rewrite map_length. apply local_pentagon_length. Qed.
Lemma cfgc_length st : length (cfgc st) = 5%nat.
Proof. unfold cfgc, aff. cbv zeta. rewrite map_length. apply local_pentagon_length. Qed.

Lemma pw_nonzero n : ~ pw n == 0.
Proof. pose proof (pw_pos n). lra. Qed.

Lemma Bz_add a b : peq1 (Bz (vadd a b)) (fst (Bz a) + fst (Bz b), snd (Bz a) + snd (Bz b)).
Proof. unfold Bz, vadd, peq1. cbn [fst snd]. rewrite !inject_Z_plus. split; ring. Qed.
Lemma Bz_double a : peq1 (Bz (vsc 2 a)) (2 * fst (Bz a), 2 * snd (Bz a)).
Proof. unfold Bz, vsc, peq1. cbn [fst snd]. rewrite !inject_Z_mult. change (inject_Z 2) with 2. split; ring. Qed.

Lemma state_geometry (n : nat) (G : Z * Z) (st : state) :
  exists lp lc,
    get_pentagon_vertices QInst (Z.of_nat n) 0 (shift_anchor G (st_parent st)) = Some lp /\
    get_pentagon_vertices QInst (Z.of_nat (S n)) 0 (shift_anchor (vsc 2 G) (st_child st)) = Some lc /\
    peq lp (aff (1 / pw n) (Bz G) (cfgp st)) /\ peq lc (aff (1 / pw n) (Bz G) (cfgc st)).
Proof.
  destruct (gpv_vertices (Z.of_nat n) (shift_anchor G (st_parent st)) ltac:(lia)) as [lp [Hp Pp]].
  destruct (gpv_vertices (Z.of_nat (S n)) (shift_anchor (vsc 2 G) (st_child st)) ltac:(lia)) as [lc [Hc Pc]].
  exists lp, lc. split; [exact Hp|]. split; [exact Hc|].
  pose proof (pw_nonzero n) as NZ.
  split.
  - eapply peq_trans; [exact Pp|]. unfold cfgp, aff. cbv zeta. rewrite map_map. apply peq_map. intros p.
    unfold shift_anchor. cbn [a_off a_k a_flips].
    destruct (Bz_add (a_off (st_parent st)) G) as [B1 B2]. cbn [fst snd] in B1, B2.
    fold (pw n). unfold peq1. cbn [fst snd]. rewrite B1, B2. split; field; exact NZ.
  - eapply peq_trans; [exact Pc|]. unfold cfgc, aff. cbv zeta. rewrite map_map. apply peq_map. intros p.
    unfold shift_anchor. cbn [a_off a_k a_flips].
    destruct (Bz_add (a_off (st_child st)) (vsc 2 G)) as [B1 B2]. cbn [fst snd] in B1, B2.
    destruct (Bz_double G) as [D1 D2]. cbn [fst snd] in D1, D2.
    fold (pw (S n)). unfold peq1. cbn [fst snd]. rewrite B1, B2, D1, D2, pw_S. split; field; exact NZ.
Qed.

Definition dist2 (p q : qp) : Q :=
  (fst p - fst q) * (fst p - fst q) + (snd p - snd q) * (snd p - snd q).
Lemma dist2_peq p p' q q' : peq1 p p' -> peq1 q q' -> dist2 p q == dist2 p' q'.
Proof. intros [A B] [C D]. unfold dist2. rewrite A, B, C, D. reflexivity. Qed.
Lemma dist2_affp k t a b : dist2 (affp k t a) (affp k t b) == k * k * dist2 a b.
Proof. unfold dist2, affp. cbn [fst snd]. ring. Qed.

(* radius used for the descendant bound: R0^2 <= 0.64 * A_pent *)
Definition R0 : Q := 7 # 20.

(* closed checks over the 192 states.  (The checks are stated with literal lambdas over generic
   boolean combinators so that using them for a variable state needs beta-reduction only.) *)
Definition state_d2 (st : state) : Q := dist2 (cen5 (cfgc st)) (cen5 (cfgp st)).
Definition Qle2 (a b c d : Q) : bool := Qle_bool a b && Qle_bool c d.
Lemma Qle2_ok a b c d : Qle2 a b c d = true -> a <= b /\ c <= d.
Proof. unfold Qle2. rewrite andb_true_iff, !Qle_bool_iff. tauto. Qed.
Definition is_some {A} (x : option A) : bool := match x with Some _ => true | None => false end.
Lemma is_some_ok {A} (x : option A) : is_some x = true -> exists a, x = Some a.
Proof. destruct x as [a|]; [eauto|discriminate]. Qed.

Lemma reach_table :
  forallb (fun st => Qle2 (25 * state_d2 st) (16 * A_pent) (state_d2 st) (R0 * R0)) all_states = true.
Proof. vm_compute. reflexivity. Qed.
Lemma reach_of_state st : In st all_states -> 25 * state_d2 st <= 16 * A_pent /\ state_d2 st <= R0 * R0.
Proof. intros Hin. apply Qle2_ok. exact (proj1 (forallb_forall _ _) reach_table st Hin). Qed.

(* witness candidates: 3/4 child centre + 1/4 parent centre, then 1/4 child vertex + 3/4 parent vertex *)
Definition comb (lam : Q) (p c : qp) : qp :=
  (Qred (lam * fst c + (1 - lam) * fst p), Qred (lam * snd c + (1 - lam) * snd p)).
Definition candidates (lp lc : list qp) : list qp :=
  comb (3 # 4) (cen5 lp) (cen5 lc) :: flat_map (fun c => map (fun p => comb (1 # 4) p c) lp) lc.
Definition find_common (lp lc : list qp) : option qp :=
  find (fun w => inside_b lp w && inside_b lc w) (candidates lp lc).
Lemma overlap_table : forallb (fun st => is_some (find_common (cfgp st) (cfgc st))) all_states = true.
Proof. vm_compute. reflexivity. Qed.
Lemma overlap_of_state st : In st all_states -> exists w, find_common (cfgp st) (cfgc st) = Some w.
Proof. intros Hin. apply is_some_ok. exact (proj1 (forallb_forall _ _) overlap_table st Hin). Qed.

(* ------------------------------------------------------------------ 5. reach *)
Lemma centres_of_state (n : nat) (G : Z * Z) (st : state) lp lc :
  peq lp (aff (1 / pw n) (Bz G) (cfgp st)) -> peq lc (aff (1 / pw n) (Bz G) (cfgc st)) ->
  dist2 (get_center QInst lc) (get_center QInst lp) == (1 / pw n) * (1 / pw n) * state_d2 st.
Proof.
  intros Pp Pc.
  pose proof (peq1_trans _ _ _ (center_peq _ _ Pp) (center_aff5 _ _ _ (cfgp_length st))) as Cp.
  pose proof (peq1_trans _ _ _ (center_peq _ _ Pc) (center_aff5 _ _ _ (cfgc_length st))) as Cc.
  rewrite (dist2_peq _ _ _ _ Cc Cp). apply (dist2_affp (1 / pw n) (Bz G)).
Qed.

Lemma inv_pw_sq n : (1 / pw n) * (1 / pw n) == 1 / inject_Z (4 ^ Z.of_nat n).
Proof.
  rewrite <- (pow2_sq (Z.of_nat n)). fold (pw n). field. apply pw_nonzero.
Qed.

(* Convention: true face coordinates.  The parent (curve depth n, position s) is
   get_pentagon_vertices QInst n 0 (s_to_anchor s n o), the child (depth n+1, position 4s+t) is
   get_pentagon_vertices QInst (n+1) 0 (s_to_anchor (4s+t) (n+1) o); get_area is twice the planar
   area, so the parent's planar area is get_area lp / 2 (= A_pent / 4^n). *)
Theorem child_centre_reach (n : nat) (o s t : Z) :
  (1 <= n <= 28)%nat -> (0 <= o < 6)%Z -> (0 <= s < 4 ^ Z.of_nat n)%Z -> (0 <= t < 4)%Z ->
  exists lp lc,
    get_pentagon_vertices QInst (Z.of_nat n) 0 (s_to_anchor s n o) = Some lp /\
    get_pentagon_vertices QInst (Z.of_nat (S n)) 0 (s_to_anchor (4 * s + t) (S n) o) = Some lc /\
    get_area QInst lp / 2 == A_pent / inject_Z (4 ^ Z.of_nat n) /\
    25 * dist2 (get_center QInst lc) (get_center QInst lp) <= 16 * (get_area QInst lp / 2) /\
    dist2 (get_center QInst lc) (get_center QInst lp) <= (R0 / pw n) * (R0 / pw n).
Proof.
  intros Hn Ho Hs Ht.
  destruct (child_offset_finite n o s t Hn Ho Hs Ht) as [G [st [Hin [Ep Ec]]]].
  destruct (state_geometry n G st) as [lp [lc [Hp [Hc [Pp Pc]]]]].
  exists lp, lc. rewrite Ep, Ec. split; [exact Hp|]. split; [exact Hc|].
  destruct (pentagon_planar_area (Z.of_nat n) _ lp ltac:(lia) Hp) as [HA _].
  destruct (reach_of_state st Hin) as [H1 H2].
  rewrite (centres_of_state n G st lp lc Pp Pc).
  set (D := state_d2 st) in *. clearbody D.
  pose proof (inject_pow_pos 4 (Z.of_nat n) ltac:(lia) ltac:(lia)) as H4.
  assert (NZ4 : ~ inject_Z (4 ^ Z.of_nat n) == 0) by lra.
  assert (EA : get_area QInst lp / 2 == A_pent / inject_Z (4 ^ Z.of_nat n)).
  { rewrite HA, A_pent_A0. field. exact NZ4. }
  split; [exact EA|]. rewrite EA.
  pose proof (pw_pos n) as HPW. pose proof (pw_nonzero n) as NZ.
  assert (HK : 0 <= 1 / inject_Z (4 ^ Z.of_nat n)).
  { apply Qlt_le_weak. apply Qlt_shift_div_l; [exact H4|]. rewrite Qmult_0_l. reflexivity. }
  split.
  - rewrite inv_pw_sq.
    setoid_replace (25 * (1 / inject_Z (4 ^ Z.of_nat n) * D)) with ((25 * D) * (1 / inject_Z (4 ^ Z.of_nat n))) by ring.
    setoid_replace (16 * (A_pent / inject_Z (4 ^ Z.of_nat n))) with ((16 * A_pent) * (1 / inject_Z (4 ^ Z.of_nat n)))
      by (field; exact NZ4).
    apply Qmult_le_compat_r; assumption.
  - setoid_replace (R0 / pw n * (R0 / pw n)) with ((R0 * R0) * (1 / pw n * (1 / pw n))) by (field; exact NZ).
    rewrite (Qmult_comm (1 / pw n * (1 / pw n)) D).
    apply Qmult_le_compat_r; [exact H2|]. rewrite inv_pw_sq. exact HK.
Qed.

(* ------------------------------------------------------------------ 6. overlap *)
Lemma find_common_sound lp lc w : find_common lp lc = Some w -> strictly_inside lp w /\ strictly_inside lc w.
Proof.
  unfold find_common. intros H. apply find_some in H. destruct H as [_ H].
  apply andb_true_iff in H. destruct H as [H1 H2]. split; apply inside_b_ok; assumption.
Qed.

(* a common point strictly inside the child pentagon and the parent pentagon (face coordinates) *)
Theorem child_overlaps_parent (n : nat) (o s t : Z) :
  (1 <= n <= 28)%nat -> (0 <= o < 6)%Z -> (0 <= s < 4 ^ Z.of_nat n)%Z -> (0 <= t < 4)%Z ->
  exists lp lc w,
    get_pentagon_vertices QInst (Z.of_nat n) 0 (s_to_anchor s n o) = Some lp /\
    get_pentagon_vertices QInst (Z.of_nat (S n)) 0 (s_to_anchor (4 * s + t) (S n) o) = Some lc /\
    Forall (fun c => 0 < c) (crosses QInst lp w) /\ Forall (fun c => 0 < c) (crosses QInst lc w) /\
    contains_point QInst lp w = Some true /\ contains_point QInst lc w = Some true.
Proof.
  intros Hn Ho Hs Ht.
  destruct (child_offset_finite n o s t Hn Ho Hs Ht) as [G [st [Hin [Ep Ec]]]].
  destruct (state_geometry n G st) as [lp [lc [Hp [Hc [Pp Pc]]]]].
  destruct (overlap_of_state st Hin) as [w0 HF].
  apply find_common_sound in HF. destruct HF as [I1 I2].
  exists lp, lc, (affp (1 / pw n) (Bz G) w0). rewrite Ep, Ec. split; [exact Hp|]. split; [exact Hc|].
  assert (Hk : 0 < 1 / pw n).
  { apply Qlt_shift_div_l; [apply pw_pos|]. rewrite Qmult_0_l. reflexivity. }
  assert (S1 : strictly_inside lp (affp (1 / pw n) (Bz G) w0)).
  { eapply strictly_inside_transfer; [exact Hk|exact Pp|apply peq1_refl|exact I1]. }
  assert (S2 : strictly_inside lc (affp (1 / pw n) (Bz G) w0)).
  { eapply strictly_inside_transfer; [exact Hk|exact Pc|apply peq1_refl|exact I2]. }
  split; [exact S1|]. split; [exact S2|]. split; apply strictly_inside_contains; assumption.
Qed.

(* ------------------------------------------------------------------ 7. descendants *)
Lemma dist2_refl p : dist2 p p == 0.
Proof. unfold dist2. generalize (fst p) (snd p). intros x y. ring. Qed.

Lemma dist2_nonneg a b : 0 <= dist2 a b.
Proof.
  unfold dist2. generalize (fst a - fst b) (snd a - snd b). intros x y.
  assert (0 <= x * x) by nra. assert (0 <= y * y) by nra. lra.
Qed.

Lemma sq_nonneg (x : Q) : 0 <= x * x.
Proof. nra. Qed.

(* triangle inequality in squared form *)
Lemma dist2_triangle a b c r r' : 0 <= r -> 0 <= r' ->
  dist2 a b <= r * r -> dist2 b c <= r' * r' -> dist2 a c <= (r + r') * (r + r').
Proof.
  destruct a as [a1 a2], b as [b1 b2], c as [c1 c2]. unfold dist2. cbn [fst snd].
  set (u1 := a1 - b1). set (u2 := a2 - b2). set (v1 := b1 - c1). set (v2 := b2 - c2).
  setoid_replace (a1 - c1) with (u1 + v1) by (unfold u1, v1; ring).
  setoid_replace (a2 - c2) with (u2 + v2) by (unfold u2, v2; ring).
  clearbody u1 u2 v1 v2. intros Hr Hr' HU HV.
  assert (HP : u1 * v1 + u2 * v2 <= r * r').
  { destruct (Qlt_le_dec (r * r') (u1 * v1 + u2 * v2)) as [HL|HL]; [|exact HL]. exfalso.
    assert (L : (u1 * v1 + u2 * v2) * (u1 * v1 + u2 * v2) <= (u1 * u1 + u2 * u2) * (v1 * v1 + v2 * v2)).
    { pose proof (sq_nonneg (u1 * v2 - u2 * v1)) as S.
      assert (I : (u1 * u1 + u2 * u2) * (v1 * v1 + v2 * v2) - (u1 * v1 + u2 * v2) * (u1 * v1 + u2 * v2)
                  == (u1 * v2 - u2 * v1) * (u1 * v2 - u2 * v1)) by ring.
      rewrite <- I in S. lra. }
    assert (M : (u1 * u1 + u2 * u2) * (v1 * v1 + v2 * v2) <= (r * r) * (r' * r')).
    { pose proof (sq_nonneg u1). pose proof (sq_nonneg u2). pose proof (sq_nonneg v1). pose proof (sq_nonneg v2).
      pose proof (sq_nonneg r). pose proof (sq_nonneg r').
      apply Qle_trans with ((r * r) * (v1 * v1 + v2 * v2)).
      - apply Qmult_le_compat_r; [exact HU|lra].
      - rewrite (Qmult_comm (r * r) (v1 * v1 + v2 * v2)), (Qmult_comm (r * r) (r' * r')).
        apply Qmult_le_compat_r; [exact HV|lra]. }
    assert (N : 0 <= r * r') by (apply Qmult_le_0_compat; assumption).
    set (P := u1 * v1 + u2 * v2) in *. set (R := r * r') in *.
    assert (R * R < P * P).
    { apply Qle_lt_trans with (R * P).
      - rewrite (Qmult_comm R P). apply Qmult_le_compat_r; [lra|exact N].
      - apply Qmult_lt_compat_r; [lra|exact HL]. }
    assert (r * r * (r' * r') == R * R) by (unfold R; ring). lra. }
  setoid_replace ((u1 + v1) * (u1 + v1) + (u2 + v2) * (u2 + v2))
    with ((u1 * u1 + u2 * u2) + (v1 * v1 + v2 * v2) + 2 * (u1 * v1 + u2 * v2)) by ring.
  setoid_replace ((r + r') * (r + r')) with (r * r + r' * r' + 2 * (r * r')) by ring.
  lra.
Qed.

Definition centre_at (n : nat) (o s : Z) : qp :=
  match get_pentagon_vertices QInst (Z.of_nat n) 0 (s_to_anchor s n o) with
  | Some l => get_center QInst l
  | None => (0, 0)
  end.

Lemma child_step (n : nat) (o s t : Z) :
  (1 <= n <= 28)%nat -> (0 <= o < 6)%Z -> (0 <= s < 4 ^ Z.of_nat n)%Z -> (0 <= t < 4)%Z ->
  dist2 (centre_at (S n) o (4 * s + t)) (centre_at n o s) <= (R0 / pw n) * (R0 / pw n).
Proof.
  intros Hn Ho Hs Ht. destruct (child_centre_reach n o s t Hn Ho Hs Ht) as [lp [lc [Hp [Hc [_ [_ H]]]]]].
  unfold centre_at. rewrite Hp, Hc. exact H.
Qed.

(* radius after m levels: R0 * (1 + 1/2 + ... + 1/2^(m-1)) / 2^n *)
Definition rad (n m : nat) : Q := R0 * (2 - 2 / pw m) / pw n.

Lemma pw_add n m : pw (n + m) == pw n * pw m.
Proof. unfold pw. rewrite Nat2Z.inj_add, Z.pow_add_r by lia. rewrite inject_Z_mult. reflexivity. Qed.

Lemma rad_S n m : rad n (S m) == R0 / pw (n + m) + rad n m.
Proof.
  unfold rad. rewrite pw_S, pw_add. field. split; apply pw_nonzero.
Qed.
Lemma pw_ge1 m : 1 <= pw m.
Proof.
  unfold pw. change 1 with (inject_Z 1). rewrite <- Zle_Qle.
  pose proof (Z.pow_pos_nonneg 2 (Z.of_nat m)). lia.
Qed.
Lemma rad_bounds n m : 0 <= rad n m /\ rad n m <= 2 * R0 / pw n.
Proof.
  unfold rad. pose proof (pw_pos n) as Hn. pose proof (pw_ge1 m) as Hm.
  assert (H2 : 0 <= 2 / pw m <= 2).
  { split; [apply Qle_shift_div_l; lra|apply Qle_shift_div_r; lra]. }
  assert (HR : 0 < R0) by reflexivity.
  split.
  - apply Qle_shift_div_l; [exact Hn|]. nra.
  - apply Qle_shift_div_l; [exact Hn|].
    setoid_replace (R0 * (2 - 2 / pw m) / pw n * pw n) with (R0 * (2 - 2 / pw m)) by (field; lra). nra.
Qed.

Lemma descendant_aux (n : nat) (o : Z) : (1 <= n)%nat -> (0 <= o < 6)%Z ->
  forall m s u, (n + m <= 29)%nat -> (0 <= s < 4 ^ Z.of_nat n)%Z -> (0 <= u < 4 ^ Z.of_nat m)%Z ->
  dist2 (centre_at (n + m) o (s * 4 ^ Z.of_nat m + u)) (centre_at n o s) <= rad n m * rad n m.
Proof.
  intros Hn Ho. induction m as [|m IH]; intros s u Hm Hs Hu.
  - change (4 ^ Z.of_nat 0)%Z with 1%Z in *. assert (u = 0)%Z by lia. subst u.
    rewrite Nat.add_0_r. replace (s * 1 + 0)%Z with s by lia.
    rewrite dist2_refl. destruct (rad_bounds n 0). nra.
  - rewrite pow4_succ in Hu.
    set (u' := (u / 4)%Z). set (t := (u mod 4)%Z).
    assert (Hu' : (0 <= u' < 4 ^ Z.of_nat m)%Z).
    { unfold u'. split; [apply Z.div_pos; lia|apply Z.div_lt_upper_bound; lia]. }
    assert (Htr : (0 <= t < 4)%Z) by (unfold t; apply Z.mod_pos_bound; lia).
    assert (Eu : (u = 4 * u' + t)%Z) by (unfold u', t; apply Z.div_mod; lia).
    set (s' := (s * 4 ^ Z.of_nat m + u')%Z).
    assert (Hs' : (0 <= s' < 4 ^ Z.of_nat (n + m))%Z).
    { unfold s'. rewrite Nat2Z.inj_add, Z.pow_add_r by lia. nia. }
    replace (s * 4 ^ Z.of_nat (S m) + u)%Z with (4 * s' + t)%Z by (unfold s'; rewrite pow4_succ; lia).
    replace (n + S m)%nat with (S (n + m)) by lia.
    pose proof (child_step (n + m) o s' t ltac:(lia) Ho Hs' Htr) as H1.
    pose proof (IH s u' ltac:(lia) Hs Hu') as H2. fold s' in H2.
    rewrite rad_S.
    apply (dist2_triangle _ (centre_at (n + m) o s')); try assumption.
    + apply Qlt_le_weak. apply Qlt_shift_div_l; [apply pw_pos|]. rewrite Qmult_0_l. reflexivity.
    + apply rad_bounds.
Qed.

Lemma descendant_const : Qle_bool (100 * ((2 * R0) * (2 * R0))) (256 * A_pent) = true.
Proof. vm_compute. reflexivity. Qed.

(* a descendant m levels below (position s*4^m+u, depth n+m) has its centre within
   2*R0/2^n = 0.7/2^n of the centre of the cell, and 0.7/2^n <= 1.6 * sqrt(planar area of the cell) *)
Theorem descendants_bounded (n m : nat) (o s u : Z) :
  (1 <= n)%nat -> (n + m <= 29)%nat -> (0 <= o < 6)%Z ->
  (0 <= s < 4 ^ Z.of_nat n)%Z -> (0 <= u < 4 ^ Z.of_nat m)%Z ->
  exists lp ld,
    get_pentagon_vertices QInst (Z.of_nat n) 0 (s_to_anchor s n o) = Some lp /\
    get_pentagon_vertices QInst (Z.of_nat (n + m)) 0 (s_to_anchor (s * 4 ^ Z.of_nat m + u) (n + m) o) = Some ld /\
    dist2 (get_center QInst ld) (get_center QInst lp) <= (2 * R0 / pw n) * (2 * R0 / pw n) /\
    100 * dist2 (get_center QInst ld) (get_center QInst lp) <= 256 * (get_area QInst lp / 2).
Proof.
  intros Hn Hm Ho Hs Hu.
  pose proof (descendant_aux n o Hn Ho m s u Hm Hs Hu) as H. unfold centre_at in H.
  destruct (pentagon_vertices_total (Z.of_nat n) 0 (s_to_anchor s n o)) as [lp Hp].
  destruct (pentagon_vertices_total (Z.of_nat (n + m)) 0 (s_to_anchor (s * 4 ^ Z.of_nat m + u) (n + m) o)) as [ld Hd].
  rewrite Hp, Hd in H. exists lp, ld. split; [exact Hp|]. split; [exact Hd|].
  destruct (rad_bounds n m) as [R1 R2].
  assert (B : dist2 (get_center QInst ld) (get_center QInst lp) <= (2 * R0 / pw n) * (2 * R0 / pw n)).
  { eapply Qle_trans; [exact H|]. nra. }
  split; [exact B|].
  destruct (pentagon_planar_area (Z.of_nat n) _ lp ltac:(lia) Hp) as [HA _].
  pose proof (inject_pow_pos 4 (Z.of_nat n) ltac:(lia) ltac:(lia)) as H4.
  assert (NZ4 : ~ inject_Z (4 ^ Z.of_nat n) == 0) by lra.
  pose proof (pw_nonzero n) as NZ.
  assert (EA : get_area QInst lp / 2 == A_pent * (1 / pw n * (1 / pw n))).
  { rewrite HA, A_pent_A0, inv_pw_sq. field. exact NZ4. }
  rewrite EA.
  assert (EB : 2 * R0 / pw n * (2 * R0 / pw n) == (2 * R0) * (2 * R0) * (1 / pw n * (1 / pw n))) by (field; exact NZ).
  rewrite EB in B.
  pose proof descendant_const as HC. apply Qle_bool_iff in HC.
  assert (HK : 0 <= 1 / pw n * (1 / pw n)).
  { rewrite inv_pw_sq. apply Qlt_le_weak. apply Qlt_shift_div_l; [exact H4|]. rewrite Qmult_0_l. reflexivity. }
  set (K := 1 / pw n * (1 / pw n)) in *. clearbody K.
  set (D := dist2 (get_center QInst ld) (get_center QInst lp)) in *. clearbody D.
  apply Qle_trans with (100 * (2 * R0 * (2 * R0) * K)); [lra|].
  setoid_replace (100 * (2 * R0 * (2 * R0) * K)) with ((100 * (2 * R0 * (2 * R0))) * K) by ring.
  setoid_replace (256 * (A_pent * K)) with ((256 * A_pent) * K) by ring.
  apply Qmult_le_compat_r; assumption.
Qed.

(* ------------------------------------------------------------------ 8. resolutions 0 -> 1 -> 2 *)
(* face pentagon -> quintant triangle -> the four depth-1 pentagons (quintant 0): closed facts *)
Definition candidates_gen (lp lc : list qp) : list qp :=
  comb (3 # 4) (get_center QInst lp) (get_center QInst lc) :: flat_map (fun c => map (fun p => comb (1 # 4) p c) lp) lc.
Definition find_common_gen (lp lc : list qp) : option qp :=
  find (fun w => inside_b lp w && inside_b lc w) (candidates_gen lp lc).

Definition step_check (olp olc : option (list qp)) : bool :=
  match olp, olc with
  | Some lp, Some lc =>
      Qle_bool (25 * dist2 (get_center QInst lc) (get_center QInst lp)) (16 * (get_area QInst lp / 2)) &&
      is_some (find_common_gen lp lc)
  | _, _ => false
  end.

Lemma step_check_ok olp olc : step_check olp olc = true ->
  exists lp lc w, olp = Some lp /\ olc = Some lc /\
    25 * dist2 (get_center QInst lc) (get_center QInst lp) <= 16 * (get_area QInst lp / 2) /\
    Forall (fun c => 0 < c) (crosses QInst lp w) /\ Forall (fun c => 0 < c) (crosses QInst lc w).
Proof.
  unfold step_check. destruct olp as [lp|]; [|discriminate]. destruct olc as [lc|]; [|discriminate].
  rewrite andb_true_iff, Qle_bool_iff. intros [H1 H2]. apply is_some_ok in H2. destruct H2 as [w Hw].
  unfold find_common_gen in Hw. apply find_some in Hw. destruct Hw as [_ Hw].
  apply andb_true_iff in Hw. destruct Hw as [I1 I2].
  exists lp, lc, w. repeat split; try assumption; apply inside_b_ok; assumption.
Qed.

(* resolution 0 -> 1: the quintant-0 triangle inside the face pentagon *)
Theorem face_to_quintant :
  exists lf lq w, get_face_vertices QInst = Some lf /\ get_quintant_vertices QInst 0 = Some lq /\
    25 * dist2 (get_center QInst lq) (get_center QInst lf) <= 16 * (get_area QInst lf / 2) /\
    Forall (fun c => 0 < c) (crosses QInst lf w) /\ Forall (fun c => 0 < c) (crosses QInst lq w).
Proof. apply step_check_ok. vm_compute. reflexivity. Qed.

(* resolution 1 -> 2: the four depth-1 pentagons of the quintant-0 triangle, six orientations *)
Lemma quintant_to_depth1_table :
  forallb (fun o => forallb (fun s =>
    step_check (get_quintant_vertices QInst 0) (get_pentagon_vertices QInst 1 0 (s_to_anchor s 1 o)))
    (seqZ 0 4)) (seqZ 0 6) = true.
Proof. vm_compute. reflexivity. Qed.

Theorem quintant_to_depth1 (o s : Z) : (0 <= o < 6)%Z -> (0 <= s < 4)%Z ->
  exists lq lc w, get_quintant_vertices QInst 0 = Some lq /\
    get_pentagon_vertices QInst 1 0 (s_to_anchor s 1 o) = Some lc /\
    25 * dist2 (get_center QInst lc) (get_center QInst lq) <= 16 * (get_area QInst lq / 2) /\
    Forall (fun c => 0 < c) (crosses QInst lq w) /\ Forall (fun c => 0 < c) (crosses QInst lc w).
Proof.
  intros Ho Hs. apply step_check_ok.
  pose proof (proj1 (forallb_forall _ _) quintant_to_depth1_table o) as H1. cbv beta in H1.
  assert (Io : In o (seqZ 0 6)) by (apply in_seqZ; lia).
  exact (proj1 (forallb_forall _ _) (H1 Io) s ltac:(apply in_seqZ; lia)).
Qed.

(* ------------------------------------------------------------------ 9. the lattice offsets stay close *)
Definition near2 (c p : Z * Z) : bool :=
  ((Z.abs (fst c - 2 * fst p) <=? 2) && (Z.abs (snd c - 2 * snd p) <=? 2))%Z.
Lemma offset_table : forallb (fun st => near2 (a_off (st_child st)) (a_off (st_parent st))) all_states = true.
Proof. vm_compute. reflexivity. Qed.

(* in lattice coordinates the child's anchor offset is twice the parent's, up to 2 in each coordinate
   (21 distinct difference vectors occur) *)
Theorem child_offset_close (n : nat) (o s t : Z) :
  (1 <= n <= 28)%nat -> (0 <= o < 6)%Z -> (0 <= s < 4 ^ Z.of_nat n)%Z -> (0 <= t < 4)%Z ->
  let p := a_off (s_to_anchor s n o) in let c := a_off (s_to_anchor (4 * s + t) (S n) o) in
  (Z.abs (fst c - 2 * fst p) <= 2 /\ Z.abs (snd c - 2 * snd p) <= 2)%Z.
Proof.
  intros Hn Ho Hs Ht.
  destruct (child_offset_finite n o s t Hn Ho Hs Ht) as [G [st [Hin [Ep Ec]]]].
  cbv zeta. rewrite Ep, Ec.
  pose proof (proj1 (forallb_forall _ _) offset_table st Hin) as H. cbv beta in H.
  unfold near2 in H. apply andb_true_iff in H. destruct H as [H1 H2]. apply Z.leb_le in H1, H2.
  unfold shift_anchor, vadd, vsc. cbn [a_off fst snd]. split; lia.
Qed.

(* Summary.
   Model: exact rational instance QInst, quintant 0 (identity rotation), true face coordinates:
   a cell of curve depth n at position s with orientation o is
   get_pentagon_vertices QInst n 0 (s_to_anchor s n o); its children are the positions 4s+t at depth n+1.
   Covered: 1 <= n <= 28 (children up to depth 29), all six orientations, all s < 4^n, t < 4.
   - child_digits_prefix / child_digits_firstn : the forward-shifted digits of the child are those of the
     parent with the last digit q replaced by shift_pair q t' F (t' = t, or 3 - t for reversed orientations);
   - child_offset_finite : (parent anchor, child anchor) = (P + G, C + 2G) for one of 192 normalised pairs
     (st_parent, st_child over all_states); child_offset_close : offset_child - 2 offset_parent in [-2,2]^2;
   - child_centre_reach : |centre_child - centre_parent|^2 <= 0.64 * (planar area of the parent), and
     <= (0.35 / 2^n)^2;
   - child_overlaps_parent : a point strictly inside both pentagons (all edge cross products > 0);
   - descendants_bounded : a descendant m levels down stays within 0.7 / 2^n <= 1.6 * sqrt(area);
   - face_to_quintant, quintant_to_depth1 : the same two facts for resolutions 0 -> 1 -> 2;
   - closed table checks: reach_table, overlap_table, offset_table, quintant_to_depth1_table, descendant_const.
   Not covered: how much of the parent the children cover, the sphere, quintants 1..4. *)
