(* C03, planar half (exact rational model, quintant 0, unscaled lattice units): the pentagons of one
   curve depth form a periodic tiling by four shapes, one tile per unit lattice triangle, and two
   different tiles have no common point that is more than a rounding sliver inside both.
   See the summary at the end of the file. *)
From Coq Require Import ZArith QArith Qabs Qround List Bool Lia Lqa Setoid Morphisms.
From A5 Require Import Base.Outcome Base.Word Num.NumOps Num.QInst Hilbert.Hilbert Geo.Tiling
  Hilbert.DigitsProofs Hilbert.LocateProofs Hilbert.CurveBijection Geo.AreaProofs Hilbert.ChildProofs.
From A5gen Require Import TablesCur.
Import ListNotations.
Open Scope Z_scope.

(* ------------------------------------------------------------------ 1. the four shapes, canonical tiles *)
(* a unit lattice triangle: ((fi, fj), up); up = the half i' + j' < 1 of the lattice cell at (fi, fj) *)
Definition tri : Type := ((Z * Z) * bool)%type.

Definition base : list qp := base_pentagon QInst.
(* shape par up: the tile of the triangle ((0,0), up) of a cell of parity par (par = true: fi + fj odd),
   in face coordinates relative to BASIS * (fi, fj) *)
Definition shape (par up : bool) : list qp :=
  let b := if par then reflect_y QInst base else base in
  if up then b else aff 1 (Bz (1, 1)) (rotate180 QInst b).
Definition canon_tile (t : tri) : list qp :=
  aff 1 (Bz (fst t)) (shape (Z.odd (fst (fst t) + snd (fst t))) (snd t)).

Lemma shape_length par up : length (shape par up) = 5%nat.
Proof. destruct par, up; reflexivity. Qed.
Lemma canon_tile_length t : length (canon_tile t) = 5%nat.
Proof. unfold canon_tile, aff. rewrite map_length. apply shape_length. Qed.

(* the lattice triangle of an anchor: depends on the flips only *)
Definition tau_of (a : anchor) : tri :=
  let i := fst (a_off a) in let j := snd (a_off a) in
  if fst (a_flips a) =? 1
  then (if snd (a_flips a) =? 1 then ((i, j), true) else ((i - 1, j), false))
  else (if snd (a_flips a) =? 1 then ((i, j - 1), true) else ((i - 1, j - 1), false)).

(* ------------------------------------------------------------------ 2. peq helpers *)
Open Scope Q_scope.
Lemma peq_sym l l' : peq l l' -> peq l' l.
Proof. induction 1; constructor; auto using peq1_sym. Qed.

Fixpoint peq_b (l l' : list qp) : bool :=
  match l, l' with
  | [], [] => true
  | p :: r, q :: r' => Qeq_bool (fst p) (fst q) && Qeq_bool (snd p) (snd q) && peq_b r r'
  | _, _ => false
  end.
Lemma peq_b_ok l : forall l', peq_b l l' = true -> peq l l'.
Proof.
  induction l as [|p r IH]; intros [|q r'] H; try discriminate H; [constructor|].
  cbn [peq_b] in H. apply andb_true_iff in H. destruct H as [H H3]. apply andb_true_iff in H. destruct H as [H1 H2].
  constructor; [split; apply Qeq_bool_iff; assumption|apply IH; exact H3].
Qed.

Lemma aff_aff1 t u l : peq (aff 1 t (aff 1 u l)) (aff 1 (fst u + fst t, snd u + snd t) l).
Proof. unfold aff. rewrite map_map. apply peq_map. intros p. unfold peq1. cbn [fst snd]. split; ring. Qed.
Lemma aff_peq k t t' l l' : peq1 t t' -> peq l l' -> peq (aff k t l) (aff k t' l').
Proof.
  intros [T1 T2]. induction 1 as [|p q r r' [P1 P2] Hr IH]; cbn [aff map]; constructor; [|exact IH].
  unfold peq1. cbn [fst snd]. rewrite T1, T2, P1, P2. split; reflexivity.
Qed.

Lemma Bm_sym : Bm 1 == Bm 0 /\ Bm 3 == - Bm 2.
Proof. split; reflexivity. Qed.

(* translating a canonical tile by an even lattice vector gives the canonical tile of the translated triangle *)
Lemma canon_shift (i j hi hj : Z) (up : bool) : Z.even (hi + hj) = true ->
  peq (canon_tile ((i + hi, j + hj)%Z, up)) (aff 1 (Bz (hi, hj)) (canon_tile ((i, j), up))).
Proof.
  intros He. unfold canon_tile. cbn [fst snd].
  replace (Z.odd (i + hi + (j + hj))) with (Z.odd (i + j)).
  2:{ replace (i + hi + (j + hj))%Z with ((i + j) + (hi + hj))%Z by ring.
      rewrite (Z.odd_add (i + j) (hi + hj)), <- (Z.negb_even (hi + hj)), He. destruct (Z.odd (i + j)); reflexivity. }
  apply peq_sym. eapply peq_trans; [apply aff_aff1|].
  apply aff_peq; [|apply peq_refl].
  destruct (Bz_add (i, j) (hi, hj)) as [B1 B2]. unfold vadd in B1, B2. cbn [fst snd] in B1, B2.
  split; cbn [fst snd]; [rewrite B1|rewrite B2]; reflexivity.
Qed.

(* ------------------------------------------------------------------ 3. anchors: finitely many up to even translations *)
Open Scope Z_scope.
Definition pstates : list state :=
  flat_map (fun fi : bool * bool =>
    flat_map (fun F => map (fun q => mkSt (fst fi) (snd fi) F q 0) [0; 1; 2; 3]) LocateProofs.all_flips)
    [(false, false); (true, false); (false, true)].

Lemma in_pstates flip inv F q : flip && inv = false -> fok F -> dig q -> In (mkSt flip inv F q 0) pstates.
Proof.
  intros Hc HF Hq. apply fok_cases in HF. apply dig_cases in Hq.
  unfold pstates. apply in_flat_map. exists (flip, inv). split.
  { destruct flip, inv; try discriminate Hc; cbn; auto. }
  apply in_flat_map. exists F. split.
  { unfold LocateProofs.all_flips. destruct HF as [->|[->|[->| ->]]]; cbn; auto. }
  apply in_map_iff. exists q. split; [reflexivity|].
  destruct Hq as [->|[->|[->| ->]]]; cbn; auto.
Qed.

(* every anchor of depth n >= 1 is one of 48 normalised anchors translated by an even lattice vector *)
Theorem anchor_finite (n : nat) (o s : Z) :
  (1 <= n <= 29)%nat -> 0 <= o < 6 -> 0 <= s < 4 ^ Z.of_nat n ->
  exists G st, In st pstates /\ s_to_anchor s n o = shift_anchor (vsc 2 G) (st_parent st).
Proof.
  intros Hn Ho Hs.
  destruct (shifted_digits_spec n o s ltac:(lia) Hs) as [HL HD].
  assert (NE : shifted_digits n o s <> []) by (intros E; rewrite E in HL; cbn in HL; lia).
  pose proof (app_removelast_last 0 NE) as E.
  set (pre := removelast (shifted_digits n o s)) in *. set (q := last (shifted_digits n o s) 0) in *.
  assert (Dpre : Forall dig pre /\ dig q).
  { rewrite E in HD. apply Forall_app in HD. destruct HD as [A B]. inversion B; subst. auto. }
  destruct Dpre as [Dpre Dq].
  pose proof (fok_total NOF pre fok_NOF Dpre) as HF.
  set (F := total_flips NOF pre) in *.
  set (st := mkSt (o_flip_ij o) (o_invert_j o) F q 0).
  destruct n as [|m]; [lia|].
  exists (Gof (2 ^ Z.of_nat m) (o_flip_ij o) (o_invert_j o) (pos NOF pre)), st.
  split; [apply in_pstates; auto using orientation_class|].
  rewrite s_to_anchor_epi, internal_anchor, epi_epiZ. cbv zeta. fold (shifted_digits (S m) o s).
  unfold st_parent. change (st_flip st) with (o_flip_ij o). change (st_inv st) with (o_invert_j o).
  rewrite pow2_S, <- Gof_double, <- epiZ_shift. f_equal. rewrite E.
  rewrite last_snoc, pos_app, total_flips_app. fold F.
  unfold shift_anchor, int_parent, st. cbn [st_q st_F a_k a_off a_flips pos total_flips fold_left length].
  change (2 ^ Z.of_nat 1) with 2. f_equal.
  unfold vadd, vsc. cbn [fst snd]. change (2 ^ Z.of_nat 0) with 1. f_equal; ring.
Qed.

(* closed check over the 48 normalised anchors: the pentagon (local pentagon + BASIS * offset) is, vertex
   by vertex, the canonical tile of the anchor's lattice triangle.  This contains the invariant
   "k is determined by the parity of the offset and the flips". *)
Lemma state_table : forallb (fun st => peq_b (cfgp st) (canon_tile (tau_of (st_parent st)))) pstates = true.
Proof. vm_compute. reflexivity. Qed.

Lemma tau_of_shift G a :
  tau_of (shift_anchor (vsc 2 G) a) =
  ((fst (fst (tau_of a)) + 2 * fst G, snd (fst (tau_of a)) + 2 * snd G), snd (tau_of a)).
Proof.
  unfold tau_of, shift_anchor, vadd, vsc. cbn [a_off a_flips a_k fst snd].
  destruct (fst (a_flips a) =? 1), (snd (a_flips a) =? 1); cbn [fst snd]; f_equal; f_equal; ring.
Qed.

(* G1: canonical form.  The pentagon of (s, n, o) is, vertex by vertex (same order, coordinates equal as
   rationals), the canonical tile of the lattice triangle tau_of (s_to_anchor s n o). *)
Theorem canonical_form (n : nat) (o s : Z) :
  (1 <= n <= 29)%nat -> 0 <= o < 6 -> 0 <= s < 4 ^ Z.of_nat n ->
  exists l, get_pentagon_vertices QInst 0 0 (s_to_anchor s n o) = Some l /\
    peq l (canon_tile (tau_of (s_to_anchor s n o))).
Proof.
  intros Hn Ho Hs. destruct (anchor_finite n o s Hn Ho Hs) as [G [st [Hin E]]].
  destruct (gpv_vertices 0 (s_to_anchor s n o) ltac:(lia)) as [l [Hl P]].
  exists l. split; [exact Hl|]. eapply peq_trans; [exact P|]. rewrite E, tau_of_shift.
  pose proof (proj1 (forallb_forall _ _) state_table st Hin) as T. cbv beta in T. apply peq_b_ok in T.
  change (1 / inject_Z (2 ^ 0))%Q with 1%Q.
  destruct (tau_of (st_parent st)) as [[i j] up] eqn:Et. cbn [fst snd].
  assert (Ev : Z.even (2 * fst G + 2 * snd G) = true).
  { rewrite <- Z.mul_add_distr_l, Z.even_mul. reflexivity. }
  apply peq_sym. eapply peq_trans; [apply (canon_shift i j (2 * fst G) (2 * snd G) up Ev)|].
  eapply peq_trans; [apply aff_peq; [apply peq1_refl|apply peq_sym; exact T]|].
  unfold cfgp. cbv zeta. eapply peq_trans; [apply aff_aff1|].
  unfold shift_anchor. cbn [a_off a_k a_flips]. apply aff_peq; [|apply peq_refl].
  destruct (Bz_add (a_off (st_parent st)) (vsc 2 G)) as [B1 B2]. cbn [fst snd] in B1, B2.
  unfold vsc in *. cbn [fst snd] in *.
    split; cbn [fst snd]; [rewrite B1|rewrite B2]; reflexivity.
Qed.

(* ------------------------------------------------------------------ 4. points inside a pentagon lie in the hull of its vertices *)
Open Scope Q_scope.
(* the cross product of Tiling.crosses for the edge v1 -> v2, in plain rational arithmetic *)
Definition ecross (v1 v2 p : qp) : Q :=
  (fst v1 - fst v2) * (snd p - snd v1) - (snd v1 - snd v2) * (fst p - fst v1).

Lemma crosses5 p0 p1 p2 p3 p4 w :
  Forall2 Qeq (crosses QInst [p0; p1; p2; p3; p4] w)
    [ecross p0 p1 w; ecross p1 p2 w; ecross p2 p3 w; ecross p3 p4 w; ecross p4 p0 w].
Proof.
  unfold crosses, ecross. cbn [crosses_from o_sub o_mul QInst].
  repeat constructor; rewrite !Qstrip2_eq; reflexivity.
Qed.

(* every edge cross product exceeds eps: the point is inside, at distance > eps / |edge| from every edge line *)
Definition inside_by (eps : Q) (l : list qp) (w : qp) : Prop := Forall (fun c => eps < c) (crosses QInst l w).

Lemma inside_by_0 l w : inside_by 0 l w <-> strictly_inside l w.
Proof. reflexivity. Qed.

Lemma Forall_gt_Qeq eps l l' : Forall2 Qeq l l' -> Forall (fun c => eps < c) l -> Forall (fun c => eps < c) l'.
Proof.
  induction 1 as [|a b r r' Hab Hr IH]; intros H; [constructor|]. inversion H; subst.
  constructor; [rewrite <- Hab; assumption|auto].
Qed.
Lemma Forall2_Qeq_sym l l' : Forall2 Qeq l l' -> Forall2 Qeq l' l.
Proof. induction 1; constructor; auto. symmetry. assumption. Qed.

Lemma inside_by_weaken eps eps' l w : eps' <= eps -> inside_by eps l w -> inside_by eps' l w.
Proof. intros He. unfold inside_by. apply Forall_impl. intros c Hc. lra. Qed.

Lemma inside_by_peq eps l l' w : peq l l' -> inside_by eps l w -> inside_by eps l' w.
Proof. intros H. apply Forall_gt_Qeq. apply crosses_peq; [exact H|apply peq1_refl]. Qed.

Lemma inside_by5 eps p0 p1 p2 p3 p4 w : inside_by eps [p0; p1; p2; p3; p4] w ->
  eps < ecross p0 p1 w /\ eps < ecross p1 p2 w /\ eps < ecross p2 p3 w /\ eps < ecross p3 p4 w /\ eps < ecross p4 p0 w.
Proof.
  intros H. apply (Forall_gt_Qeq _ _ _ (crosses5 p0 p1 p2 p3 p4 w)) in H.
  inversion H as [|? ? H0 H']; subst. inversion H' as [|? ? H1 H'']; subst. inversion H'' as [|? ? H2 H3']; subst.
  inversion H3' as [|? ? H3 H4']; subst. inversion H4' as [|? ? H4 _]; subst. tauto.
Qed.

(* translation: a point inside a translated pentagon comes from a point inside the pentagon *)
Lemma inside_by_shift eps l l' t W : peq l' (aff 1 t l) -> inside_by eps l' W ->
  inside_by eps l (fst W - fst t, snd W - snd t).
Proof.
  intros Hl H. set (w := (fst W - fst t, snd W - snd t)).
  assert (HW : peq1 W (affp 1 t w)) by (unfold peq1, affp, w; cbn [fst snd]; split; ring).
  unfold inside_by in *.
  pose proof (crosses_peq _ _ _ _ Hl HW) as H1. pose proof (crosses_aff 1 t l w) as H2.
  apply (Forall_gt_Qeq _ _ _ H1) in H. revert H2 H.
  generalize (crosses QInst (aff 1 t l) (affp 1 t w)) (crosses QInst l w).
  intros c1 c2 H2. induction H2 as [|a b r r' Hab Hr IH]; intros H; [constructor|].
  inversion H; subst. constructor; [|auto]. assert (a == b) by (rewrite Hab; ring). lra.
Qed.

Lemma ecross_rev a b w : ecross b a w == - ecross a b w.
Proof. unfold ecross. ring. Qed.

(* barycentric identity for a triangle: the three cross products are the weights *)
Lemma tri_hull (A B C : Q) (a b c w : qp) :
  0 <= ecross a b w -> 0 <= ecross b c w -> 0 <= ecross c a w ->
  0 < ecross a b w + ecross b c w + ecross c a w ->
  A * fst a + B * snd a + C <= 0 -> A * fst b + B * snd b + C <= 0 -> A * fst c + B * snd c + C <= 0 ->
  A * fst w + B * snd w + C <= 0.
Proof.
  intros H1 H2 H3 HS La Lb Lc.
  assert (I : (ecross a b w + ecross b c w + ecross c a w) * (A * fst w + B * snd w + C) ==
              ecross b c w * (A * fst a + B * snd a + C) + ecross c a w * (A * fst b + B * snd b + C)
              + ecross a b w * (A * fst c + B * snd c + C)) by (unfold ecross; ring).
  revert H1 H2 H3 HS La Lb Lc I.
  generalize (ecross a b w) (ecross b c w) (ecross c a w) (A * fst a + B * snd a + C)
             (A * fst b + B * snd b + C) (A * fst c + B * snd c + C) (A * fst w + B * snd w + C).
  intros c1 c2 c3 la lb lc lw H1 H2 H3 HS La Lb Lc I.
  destruct (Qlt_le_dec 0 lw) as [Hp|Hp]; [|exact Hp]. exfalso.
  assert (0 < (c1 + c2 + c3) * lw) by (apply Qmult_lt_0_compat; assumption).
  assert (c2 * la <= 0) by nra. assert (c3 * lb <= 0) by nra. assert (c1 * lc <= 0) by nra. lra.
Qed.

(* fan triangulation from the first vertex: no convexity assumption is needed *)
Lemma hull5 (A B C : Q) (q0 q1 q2 q3 q4 w : qp) :
  0 < ecross q0 q1 w -> 0 < ecross q1 q2 w -> 0 < ecross q2 q3 w -> 0 < ecross q3 q4 w -> 0 < ecross q4 q0 w ->
  A * fst q0 + B * snd q0 + C <= 0 -> A * fst q1 + B * snd q1 + C <= 0 -> A * fst q2 + B * snd q2 + C <= 0 ->
  A * fst q3 + B * snd q3 + C <= 0 -> A * fst q4 + B * snd q4 + C <= 0 ->
  A * fst w + B * snd w + C <= 0.
Proof.
  intros C0 C1 C2 C3 C4 L0 L1 L2 L3 L4.
  destruct (Qlt_le_dec (ecross q2 q0 w) 0) as [D2|D2].
  - pose proof (ecross_rev q2 q0 w) as R2.
    destruct (Qlt_le_dec (ecross q3 q0 w) 0) as [D3|D3].
    + pose proof (ecross_rev q3 q0 w) as R3.
      apply (tri_hull A B C q0 q3 q4 w); try assumption; lra.
    + apply (tri_hull A B C q0 q2 q3 w); try assumption; lra.
  - apply (tri_hull A B C q0 q1 q2 w); try assumption; lra.
Qed.

Lemma hull_list (A B C : Q) (l : list qp) (w : qp) : length l = 5%nat -> strictly_inside l w ->
  Forall (fun p => A * fst p + B * snd p + C <= 0) l -> A * fst w + B * snd w + C <= 0.
Proof.
  intros HL HI HF.
  destruct l as [|q0 [|q1 [|q2 [|q3 [|q4 [|? ?]]]]]]; try discriminate HL.
  apply inside_by_0 in HI. apply inside_by5 in HI. destruct HI as [C0 [C1 [C2 [C3 C4]]]].
  inversion HF as [|? ? L0 F1]; subst. inversion F1 as [|? ? L1 F2]; subst. inversion F2 as [|? ? L2 F3]; subst.
  inversion F3 as [|? ? L3 F4]; subst. inversion F4 as [|? ? L4 _]; subst.
  exact (hull5 A B C q0 q1 q2 q3 q4 w C0 C1 C2 C3 C4 L0 L1 L2 L3 L4).
Qed.

(* ------------------------------------------------------------------ 5. separating edges *)
Definition edges5 (l : list qp) : list (qp * qp) :=
  match l with
  | [p0; p1; p2; p3; p4] => [(p0, p1); (p1, p2); (p2, p3); (p3, p4); (p4, p0)]
  | _ => []
  end.
(* ecross computed with intermediate results in lowest terms *)
Definition ecross_s (v1 v2 p : qp) : Q :=
  o_sub QInst (o_mul QInst (o_sub QInst (fst v1) (fst v2)) (o_sub QInst (snd p) (snd v1)))
              (o_mul QInst (o_sub QInst (snd v1) (snd v2)) (o_sub QInst (fst p) (fst v1))).
Lemma ecross_s_eq v1 v2 p : ecross_s v1 v2 p == ecross v1 v2 p.
Proof. unfold ecross_s, ecross. cbn [o_sub o_mul QInst]. rewrite !Qstrip2_eq. reflexivity. Qed.
(* some edge of P has every vertex of Q on its outer side, up to eps *)
Definition sep1 (eps : Q) (P Qq : list qp) : bool :=
  existsb (fun e => forallb (fun q => Qle_bool (ecross_s (fst e) (snd e) q) eps) Qq) (edges5 P).
Definition sep2 (eps : Q) (P Qq : list qp) : bool := sep1 eps P Qq || sep1 eps Qq P.

Lemma sep1_sound eps P Qq : length Qq = 5%nat -> sep1 eps P Qq = true ->
  forall w, inside_by eps P w -> strictly_inside Qq w -> False.
Proof.
  intros LQ H w HP HQ. unfold sep1 in H. apply existsb_exists in H. destruct H as [[v1 v2] [Hin H]].
  cbn [fst snd] in H. rewrite forallb_forall in H.
  assert (Id : forall p, (- (snd v1 - snd v2)) * fst p + (fst v1 - fst v2) * snd p
                         + ((snd v1 - snd v2) * fst v1 - (fst v1 - fst v2) * snd v1 - eps) == ecross v1 v2 p - eps)
    by (intros p; unfold ecross; ring).
  assert (HL : ecross v1 v2 w <= eps).
  { pose proof (hull_list (- (snd v1 - snd v2)) (fst v1 - fst v2)
                  ((snd v1 - snd v2) * fst v1 - (fst v1 - fst v2) * snd v1 - eps) Qq w LQ HQ) as HH.
    rewrite Id in HH. assert (X : ecross v1 v2 w - eps <= 0); [apply HH|lra].
    apply Forall_forall. intros q Hq. rewrite Id. specialize (H q Hq). apply Qle_bool_iff in H. rewrite ecross_s_eq in H. lra. }
  assert (HG : eps < ecross v1 v2 w).
  { destruct P as [|p0 [|p1 [|p2 [|p3 [|p4 [|? ?]]]]]]; try (cbn in Hin; contradiction).
    apply inside_by5 in HP. cbn [edges5 In] in Hin.
    destruct Hin as [E|[E|[E|[E|[E|[]]]]]]; injection E as <- <-; tauto. }
  lra.
Qed.

Lemma sep2_sound eps P Qq : 0 <= eps -> length P = 5%nat -> length Qq = 5%nat -> sep2 eps P Qq = true ->
  forall w, ~ (inside_by eps P w /\ inside_by eps Qq w).
Proof.
  intros He LP LQ H w [HP HQ]. unfold sep2 in H. apply orb_true_iff in H. destruct H as [H|H].
  - apply (sep1_sound eps P Qq LQ H w HP). apply inside_by_0. revert HQ. apply inside_by_weaken. exact He.
  - apply (sep1_sound eps Qq P LP H w HQ). apply inside_by_0. revert HP. apply inside_by_weaken. exact He.
Qed.

(* ------------------------------------------------------------------ 6. far tiles: bounding boxes *)
(* in face coordinates BASIS * (i, j) = (a (i + j), b (i - j)) with a = Bm 0, b = Bm 2; every shape lies in
   [0, 2a] x [-b, b] *)
Definition bbox_b (l : list qp) : bool :=
  forallb (fun p => Qle_bool 0 (fst p) && Qle_bool (fst p) (2 * Bm 0) && Qle_bool (- Bm 2) (snd p) && Qle_bool (snd p) (Bm 2)) l.
Lemma shape_bbox_table : forallb (fun par => forallb (fun up => bbox_b (shape par up)) [true; false]) [true; false] = true.
Proof. vm_compute. reflexivity. Qed.

Lemma Bm_pos : 0 < Bm 0 /\ 0 < Bm 2.
Proof. split; reflexivity. Qed.

Lemma canon_bbox (i j : Z) (up : bool) :
  Forall (fun p => Bm 0 * inject_Z (i + j) <= fst p <= Bm 0 * inject_Z (i + j + 2) /\
                   Bm 2 * inject_Z (i - j - 1) <= snd p <= Bm 2 * inject_Z (i - j + 1))
         (canon_tile ((i, j), up)).
Proof.
  unfold canon_tile, aff. cbn [fst snd]. apply Forall_map.
  assert (HB : bbox_b (shape (Z.odd (i + j)) up) = true).
  { pose proof shape_bbox_table as T. rewrite forallb_forall in T.
    specialize (T (Z.odd (i + j)) ltac:(destruct (Z.odd (i + j)); cbn; auto)). cbv beta in T.
    rewrite forallb_forall in T. apply (T up). destruct up; cbn; auto. }
  unfold bbox_b in HB. rewrite forallb_forall in HB. apply Forall_forall. intros p Hp.
  specialize (HB p Hp). cbv beta in HB. rewrite !andb_true_iff, !Qle_bool_iff in HB.
  destruct HB as [[[X0 X1] Y0] Y1]. destruct Bm_sym as [S1 S3].
  unfold Bz. cbn [fst snd]. rewrite S1, S3. push_inj.
  change (inject_Z 2) with 2. change (inject_Z 1) with 1. clear S1 S3 Hp. revert X0 X1 Y0 Y1.
  generalize (Bm 0) (Bm 2) (fst p) (snd p) (inject_Z i) (inject_Z j). intros a b x y qi qj X0 X1 Y0 Y1.
  split; split; lra.
Qed.

Lemma far_x (i1 j1 i2 j2 : Z) (u1 u2 : bool) (w : qp) : (i1 + j1 + 3 <= i2 + j2)%Z ->
  strictly_inside (canon_tile ((i1, j1), u1)) w -> strictly_inside (canon_tile ((i2, j2), u2)) w -> False.
Proof.
  intros Hd H1 H2.
  pose proof (hull_list 1 0 (- (Bm 0 * inject_Z (i1 + j1 + 2))) _ w (canon_tile_length _) H1) as A1.
  pose proof (hull_list (-1) 0 (Bm 0 * inject_Z (i2 + j2)) _ w (canon_tile_length _) H2) as A2.
  assert (X1 : fst w <= Bm 0 * inject_Z (i1 + j1 + 2)).
  { assert (X : 1 * fst w + 0 * snd w + - (Bm 0 * inject_Z (i1 + j1 + 2)) <= 0); [apply A1|lra].
    eapply Forall_impl; [|apply canon_bbox]. cbv beta. intros p Hp. lra. }
  assert (X2 : Bm 0 * inject_Z (i2 + j2) <= fst w).
  { assert (X : -1 * fst w + 0 * snd w + Bm 0 * inject_Z (i2 + j2) <= 0); [apply A2|lra].
    eapply Forall_impl; [|apply canon_bbox]. cbv beta. intros p Hp. lra. }
  assert (Hq : inject_Z (i1 + j1 + 2) + 1 <= inject_Z (i2 + j2)).
  { change 1 with (inject_Z 1). rewrite <- inject_Z_plus, <- Zle_Qle. lia. }
  destruct Bm_pos as [Pa _]. generalize dependent (Bm 0). intros a. intros. nra.
Qed.

Lemma far_y (i1 j1 i2 j2 : Z) (u1 u2 : bool) (w : qp) : (i1 - j1 + 3 <= i2 - j2)%Z ->
  strictly_inside (canon_tile ((i1, j1), u1)) w -> strictly_inside (canon_tile ((i2, j2), u2)) w -> False.
Proof.
  intros Hd H1 H2.
  pose proof (hull_list 0 1 (- (Bm 2 * inject_Z (i1 - j1 + 1))) _ w (canon_tile_length _) H1) as A1.
  pose proof (hull_list 0 (-1) (Bm 2 * inject_Z (i2 - j2 - 1)) _ w (canon_tile_length _) H2) as A2.
  assert (X1 : snd w <= Bm 2 * inject_Z (i1 - j1 + 1)).
  { assert (X : 0 * fst w + 1 * snd w + - (Bm 2 * inject_Z (i1 - j1 + 1)) <= 0); [apply A1|lra].
    eapply Forall_impl; [|apply canon_bbox]. cbv beta. intros p Hp. lra. }
  assert (X2 : Bm 2 * inject_Z (i2 - j2 - 1) <= snd w).
  { assert (X : 0 * fst w + -1 * snd w + Bm 2 * inject_Z (i2 - j2 - 1) <= 0); [apply A2|lra].
    eapply Forall_impl; [|apply canon_bbox]. cbv beta. intros p Hp. lra. }
  assert (Hq : inject_Z (i1 - j1 + 1) + 1 <= inject_Z (i2 - j2 - 1)).
  { change 1 with (inject_Z 1). rewrite <- inject_Z_plus, <- Zle_Qle. lia. }
  destruct Bm_pos as [_ Pb]. generalize dependent (Bm 2). intros b. intros. nra.
Qed.

(* ------------------------------------------------------------------ 7. near tiles: table of separating edges *)
(* eps0 = 2^-54.  The table fails for eps = 0: see tiles_exact_disjoint_refuted below. *)
Definition eps0 : Q := 1 # 18014398509481984.
Definition rng : list Z := [-2; -1; 0; 1; 2]%Z.
Definition same_tri (t1 t2 : tri) : bool :=
  ((fst (fst t1) =? fst (fst t2)) && (snd (fst t1) =? snd (fst t2)))%Z && Bool.eqb (snd t1) (snd t2).
Lemma same_tri_ok t1 t2 : same_tri t1 t2 = true -> t1 = t2.
Proof.
  destruct t1 as [[i1 j1] u1], t2 as [[i2 j2] u2]. unfold same_tri. cbn [fst snd].
  rewrite !andb_true_iff, !Z.eqb_eq. intros [[-> ->] H]. apply Bool.eqb_prop in H. now subst.
Qed.

(* coordinates in lowest terms (keeps the table cheap) *)
Definition nrm (l : list qp) : list qp := map (fun p => (Qstrip2 (fst p), Qstrip2 (snd p))) l.
Lemma nrm_peq l : peq l (nrm l).
Proof. induction l as [|p r IH]; cbn [nrm map]; constructor; [|exact IH]. split; cbn [fst snd]; symmetry; apply Qstrip2_eq. Qed.
Lemma nrm_length l : length (nrm l) = length l.
Proof. apply map_length. Qed.

(* first tile: cell (c, 0), c = 0 or 1 (the two parities), up or down; second tile: any triangle of a cell
   with |di + dj| <= 2 and |di - dj| <= 2 (the others are separated by their bounding boxes) *)
Lemma near_table :
  forallb (fun c => forallb (fun u1 => forallb (fun di => forallb (fun dj => forallb (fun u2 =>
    if (2 <? Z.abs (di + dj)) || (2 <? Z.abs (di - dj)) then true else
    same_tri ((c, 0), u1) ((c + di, 0 + dj), u2) ||
    sep2 eps0 (nrm (canon_tile ((c, 0), u1))) (nrm (canon_tile ((c + di, 0 + dj), u2))))%Z
    [true; false]) rng) rng) [true; false]) [0; 1]%Z = true.
Proof. vm_compute. reflexivity. Qed.

Lemma in_bools (b : bool) : In b [true; false].
Proof. destruct b; cbn; auto. Qed.

(* ------------------------------------------------------------------ 8. G2: different canonical tiles are eps0-disjoint *)
Theorem canon_disjoint (t1 t2 : tri) : t1 <> t2 ->
  forall w, ~ (inside_by eps0 (canon_tile t1) w /\ inside_by eps0 (canon_tile t2) w).
Proof.
  destruct t1 as [[i1 j1] u1], t2 as [[i2 j2] u2]. intros Hne w [H1 H2].
  assert (He : 0 <= eps0) by (unfold eps0, Qle; cbn; lia).
  assert (S1 : strictly_inside (canon_tile ((i1, j1), u1)) w) by (apply inside_by_0; revert H1; apply inside_by_weaken; exact He).
  assert (S2 : strictly_inside (canon_tile ((i2, j2), u2)) w) by (apply inside_by_0; revert H2; apply inside_by_weaken; exact He).
  destruct (Z_le_dec (i1 + j1 + 3) (i2 + j2)) as [F1|F1]; [exact (far_x _ _ _ _ _ _ w F1 S1 S2)|].
  destruct (Z_le_dec (i2 + j2 + 3) (i1 + j1)) as [F2|F2]; [exact (far_x _ _ _ _ _ _ w F2 S2 S1)|].
  destruct (Z_le_dec (i1 - j1 + 3) (i2 - j2)) as [F3|F3]; [exact (far_y _ _ _ _ _ _ w F3 S1 S2)|].
  destruct (Z_le_dec (i2 - j2 + 3) (i1 - j1)) as [F4|F4]; [exact (far_y _ _ _ _ _ _ w F4 S2 S1)|].
  (* near: translate tile 1 to the cell (c, 0) by an even lattice vector *)
  set (c := if Z.odd (i1 + j1) then 1%Z else 0%Z).
  set (hi := (i1 - c)%Z). set (hj := j1). set (di := (i2 - i1)%Z). set (dj := (j2 - j1)%Z).
  assert (Ev : Z.even (hi + hj) = true).
  { unfold hi, hj, c. destruct (Z.odd (i1 + j1)) eqn:Eo.
    - replace (i1 - 1 + j1)%Z with (i1 + j1 - 1)%Z by ring. rewrite Z.even_sub, <- Z.negb_odd, Eo. reflexivity.
    - replace (i1 - 0 + j1)%Z with (i1 + j1)%Z by ring. rewrite <- Z.negb_odd, Eo. reflexivity. }
  assert (Hc : In c [0; 1]%Z) by (unfold c; destruct (Z.odd (i1 + j1)); cbn; auto).
  assert (Hdi : In di rng) by (unfold rng, di; assert (-2 <= i2 - i1 <= 2)%Z by lia;
    assert (i2 - i1 = -2 \/ i2 - i1 = -1 \/ i2 - i1 = 0 \/ i2 - i1 = 1 \/ i2 - i1 = 2)%Z by lia; cbn; intuition).
  assert (Hdj : In dj rng) by (unfold rng, dj; assert (-2 <= j2 - j1 <= 2)%Z by lia;
    assert (j2 - j1 = -2 \/ j2 - j1 = -1 \/ j2 - j1 = 0 \/ j2 - j1 = 1 \/ j2 - j1 = 2)%Z by lia; cbn; intuition).
  assert (P1 : peq (canon_tile ((i1, j1), u1)) (aff 1 (Bz (hi, hj)) (canon_tile ((c, 0%Z), u1)))).
  { pose proof (canon_shift c 0 hi hj u1 Ev) as X.
    replace (c + hi)%Z with i1 in X by (unfold hi; ring). replace (0 + hj)%Z with j1 in X by (unfold hj; ring). exact X. }
  assert (P2 : peq (canon_tile ((i2, j2), u2)) (aff 1 (Bz (hi, hj)) (canon_tile ((c + di, 0 + dj)%Z, u2)))).
  { pose proof (canon_shift (c + di) (0 + dj) hi hj u2 Ev) as X.
    replace (c + di + hi)%Z with i2 in X by (unfold hi, di; ring).
    replace (0 + dj + hj)%Z with j2 in X by (unfold hj, dj; ring). exact X. }
  apply (inside_by_shift _ _ _ _ _ P1) in H1. apply (inside_by_shift _ _ _ _ _ P2) in H2.
  pose proof (proj1 (forallb_forall _ _) near_table c Hc) as T1. cbv beta in T1.
  pose proof (proj1 (forallb_forall _ _) T1 u1 (in_bools u1)) as T2. cbv beta in T2.
  pose proof (proj1 (forallb_forall _ _) T2 di Hdi) as T3. cbv beta in T3.
  pose proof (proj1 (forallb_forall _ _) T3 dj Hdj) as T4. cbv beta in T4.
  pose proof (proj1 (forallb_forall _ _) T4 u2 (in_bools u2)) as T5. cbv beta in T5.
  replace ((2 <? Z.abs (di + dj)) || (2 <? Z.abs (di - dj)))%Z with false in T5.
  2:{ symmetry. apply orb_false_iff. split; apply Z.ltb_ge; unfold di, dj; lia. }
  apply orb_true_iff in T5. destruct T5 as [T5|T5].
  - apply same_tri_ok in T5. apply Hne. injection T5 as E1 E2 E3. f_equal; [f_equal|]; unfold di, dj in *; try lia; congruence.
  - apply (inside_by_peq _ _ _ _ (nrm_peq _)) in H1. apply (inside_by_peq _ _ _ _ (nrm_peq _)) in H2.
    refine (sep2_sound eps0 _ _ He _ _ T5 _ (conj H1 H2)); rewrite nrm_length; apply canon_tile_length.
Qed.

(* ------------------------------------------------------------------ 9. G3: the pentagons of one depth *)
Open Scope Z_scope.
Lemma tri_eq_dec (t1 t2 : tri) : {t1 = t2} + {t1 <> t2}.
Proof. repeat decide equality. Qed.

(* distinct positions have distinct lattice triangles (equal triangles give equal pentagons, hence equal
   centres, which positions_injective excludes) *)
Theorem tau_injective (n : nat) (o s1 s2 : Z) :
  (1 <= n <= 29)%nat -> 0 <= o < 6 -> 0 <= s1 < 4 ^ Z.of_nat n -> 0 <= s2 < 4 ^ Z.of_nat n ->
  tau_of (s_to_anchor s1 n o) = tau_of (s_to_anchor s2 n o) -> s1 = s2.
Proof.
  intros Hn Ho Hs1 Hs2 E. destruct (Z.eq_dec s1 s2) as [Heq|Hne]; [exact Heq|exfalso].
  destruct (canonical_form n o s1 Hn Ho Hs1) as [l1 [G1 P1]].
  destruct (canonical_form n o s2 Hn Ho Hs2) as [l2 [G2 P2]].
  rewrite E in P1. pose proof (center_peq _ _ (peq_trans _ _ _ P1 (peq_sym _ _ P2))) as [Cx Cy].
  exact (positions_injective n o s1 s2 l1 l2 Hn Ho Hs1 Hs2 G1 G2 Hne (conj Cx Cy)).
Qed.

(* two different cells of one depth and orientation: no point is more than eps inside both, for every
   eps >= eps0 = 2^-54 (in particular eps = 1e-16) *)
Theorem pentagons_disjoint (n : nat) (o s1 s2 : Z) (l1 l2 : list qp) (eps : Q) :
  (1 <= n <= 29)%nat -> 0 <= o < 6 -> 0 <= s1 < 4 ^ Z.of_nat n -> 0 <= s2 < 4 ^ Z.of_nat n ->
  get_pentagon_vertices QInst 0 0 (s_to_anchor s1 n o) = Some l1 ->
  get_pentagon_vertices QInst 0 0 (s_to_anchor s2 n o) = Some l2 ->
  s1 <> s2 -> (eps0 <= eps)%Q ->
  forall w, ~ (inside_by eps l1 w /\ inside_by eps l2 w).
Proof.
  intros Hn Ho Hs1 Hs2 G1 G2 Hne He w [H1 H2].
  destruct (canonical_form n o s1 Hn Ho Hs1) as [l1' [G1' P1]].
  destruct (canonical_form n o s2 Hn Ho Hs2) as [l2' [G2' P2]].
  rewrite G1 in G1'. rewrite G2 in G2'. injection G1' as <-. injection G2' as <-.
  apply (canon_disjoint (tau_of (s_to_anchor s1 n o)) (tau_of (s_to_anchor s2 n o))) with (w := w).
  - intros E. apply Hne. exact (tau_injective n o s1 s2 Hn Ho Hs1 Hs2 E).
  - split; [apply (inside_by_peq _ _ _ _ P1)|apply (inside_by_peq _ _ _ _ P2)];
    eapply inside_by_weaken; eassumption.
Qed.

(* any two cells of one depth, whatever their orientations: the same pentagon (vertex by vertex), or
   eps-disjoint.  (The six orientations enumerate the same set of tiles in different orders.) *)
Theorem pentagons_equal_or_disjoint (n : nat) (o1 o2 s1 s2 : Z) (l1 l2 : list qp) (eps : Q) :
  (1 <= n <= 29)%nat -> 0 <= o1 < 6 -> 0 <= o2 < 6 -> 0 <= s1 < 4 ^ Z.of_nat n -> 0 <= s2 < 4 ^ Z.of_nat n ->
  get_pentagon_vertices QInst 0 0 (s_to_anchor s1 n o1) = Some l1 ->
  get_pentagon_vertices QInst 0 0 (s_to_anchor s2 n o2) = Some l2 ->
  (eps0 <= eps)%Q ->
  peq l1 l2 \/ forall w, ~ (inside_by eps l1 w /\ inside_by eps l2 w).
Proof.
  intros Hn Ho1 Ho2 Hs1 Hs2 G1 G2 He.
  destruct (canonical_form n o1 s1 Hn Ho1 Hs1) as [l1' [G1' P1]].
  destruct (canonical_form n o2 s2 Hn Ho2 Hs2) as [l2' [G2' P2]].
  rewrite G1 in G1'. rewrite G2 in G2'. injection G1' as <-. injection G2' as <-.
  destruct (tri_eq_dec (tau_of (s_to_anchor s1 n o1)) (tau_of (s_to_anchor s2 n o2))) as [E|E].
  - left. rewrite E in P1. exact (peq_trans _ _ _ P1 (peq_sym _ _ P2)).
  - right. intros w [H1 H2]. apply (canon_disjoint _ _ E w).
    split; [apply (inside_by_peq _ _ _ _ P1)|apply (inside_by_peq _ _ _ _ P2)];
    eapply inside_by_weaken; eassumption.
Qed.

(* eps = 0 is false in the exact rational model: the f64 vertex constants of the pentagon are not exactly
   symmetric (vertex 3 + vertex 4 differs from v + w by (2^-54, 3 * 2^-55)), so neighbouring tiles overlap
   in slivers.  Depth 1, orientation 0, positions 0 and 3: the point w0 is strictly inside both. *)
Definition w0 : qp := (103435060746689023 # 144115188075855872, 4707541810747495 # 18014398509481984)%Q.
Theorem tiles_exact_disjoint_refuted :
  exists l1 l2, get_pentagon_vertices QInst 0 0 (s_to_anchor 0 1 0) = Some l1 /\
    get_pentagon_vertices QInst 0 0 (s_to_anchor 3 1 0) = Some l2 /\
    strictly_inside l1 w0 /\ strictly_inside l2 w0.
Proof.
  eexists. eexists. split; [vm_compute; reflexivity|]. split; [vm_compute; reflexivity|].
  split; apply inside_b_ok; vm_compute; reflexivity.
Qed.

(* size of the slivers.  Upper bound: pentagons_disjoint with eps = eps0 = 2^-54 says that a common point has
   an edge cross product <= 2^-54 in one of the two pentagons.  cross = |edge| * distance to the edge line, and
   every edge has squared length >= 0.18 (length >= 0.424 lattice units; edge_length_table), so a common point
   is within 2^-54 / 0.424 < 1.4e-16 lattice units of the boundary of one of them.  Lower bound: w0 above is
   2^-57 inside both pentagons (inside_by (2^-57)), so slivers of that depth exist. *)
Definition inside_by_b (eps : Q) (l : list qp) (w : qp) : bool := forallb (fun c => Qltb eps c) (crosses QInst l w).
Lemma inside_by_b_ok eps l w : inside_by_b eps l w = true -> inside_by eps l w.
Proof.
  unfold inside_by_b, inside_by. rewrite forallb_forall, Forall_forall. intros H c Hc.
  apply AreaProofs.Qltb_true. apply H. exact Hc.
Qed.
Theorem sliver_depth_example :
  exists l1 l2, get_pentagon_vertices QInst 0 0 (s_to_anchor 0 1 0) = Some l1 /\
    get_pentagon_vertices QInst 0 0 (s_to_anchor 3 1 0) = Some l2 /\
    inside_by (1 # 144115188075855872) l1 w0 /\ inside_by (1 # 144115188075855872) l2 w0.
Proof.
  eexists. eexists. split; [vm_compute; reflexivity|]. split; [vm_compute; reflexivity|].
  split; apply inside_by_b_ok; vm_compute; reflexivity.
Qed.

Lemma edge_length_table :
  forallb (fun par => forallb (fun up => forallb (fun e => Qle_bool (18 # 100) (dist2 (fst e) (snd e)))
    (edges5 (shape par up))) [true; false]) [true; false] = true.
Proof. vm_compute. reflexivity. Qed.

(* ------------------------------------------------------------------ 10. the lattice triangle is the one located for the centre *)
Open Scope Q_scope.
(* (x, y) (lattice coordinates) lies in the triangle t, at distance >= m from its three sides *)
Definition in_tri (m : Q) (t : tri) (x y : Q) : Prop :=
  let X := x - inject_Z (fst (fst t)) in let Y := y - inject_Z (snd (fst t)) in
  if snd t then m <= X /\ m <= Y /\ X + Y <= 1 - m else X <= 1 - m /\ Y <= 1 - m /\ 1 + m <= X + Y.

Lemma centre_in_tau (a : anchor) : dig (a_k a) -> fok (a_flips a) ->
  (- 2 ^ 30 <= fst (a_off a) <= 2 ^ 30)%Z -> (- 2 ^ 30 <= snd (a_off a) <= 2 ^ 30)%Z ->
  exists l, get_pentagon_vertices QInst 0 0 a = Some l /\
    let ij := face_to_ij QInst (get_center QInst l) in in_tri (1 # 10) (tau_of a) (fst ij) (snd ij).
Proof.
  intros Hk Hf Hi Hj. destruct (centre_anchor a Hi Hj) as [l [Hl [ex [ey [Ex [Ey [Hx Hy]]]]]]].
  exists l. split; [exact Hl|]. cbv zeta.
  destruct (delta_margin (a_k a) (a_flips a) Hk Hf) as [M _]. unfold d_plain in M.
  generalize dependent (face_to_ij QInst (get_center QInst l)). intros [cx cy]. cbn [fst snd].
  generalize dependent (delta (a_k a) (a_flips a)). intros [dx dy]. cbn [fst snd].
  destruct a as [k [i j] fl]. cbn [a_k a_off a_flips fst snd] in *. apply fok_cases in Hf.
  unfold eta in *.
  destruct Hf as [->|[->|[->| ->]]]; unfold tau_of, in_tri, Ueps, fa, fb, fc; cbn [a_off a_flips fst snd]; zred;
  cbn [fst snd]; intros M Hx Hy; push_inj; change (inject_Z 1) with 1; lra.
Qed.

Open Scope Z_scope.
Lemma anchor_shape (n : nat) (o s : Z) :
  (n <= 29)%nat -> 0 <= o < 6 -> 0 <= s < 4 ^ Z.of_nat n ->
  exists k i j F, s_to_anchor s n o = epi n (o_flip_ij o) (o_invert_j o) (mkAnchor k (i, j) F) /\
    dig k /\ fok F /\ 0 <= i /\ 0 <= j /\ i + j <= 2 ^ Z.of_nat n.
Proof.
  intros Hn Ho Hs.
  destruct (shifted_digits_spec n o s) as [HL HD]; [lia|exact Hs|].
  rewrite s_to_anchor_epi, internal_anchor. cbv zeta. fold (shifted_digits n o s).
  set (ds := shifted_digits n o s) in *.
  pose proof (fok_total NOF ds fok_NOF HD) as HF.
  assert (HT : Ueps 0 NOF (pw (length ds)) (inject_Z (fst (pos NOF ds))) (inject_Z (snd (pos NOF ds)))).
  { apply inside_region; auto using fok_NOF; [lra|]. unfold inside.
    apply fok_cases in HF. destruct HF as [->|[->|[->| ->]]]; unfold Ueps, fa, fb, fc; zred; lra. }
  rewrite HL in HT. unfold Ueps, fa, fb, fc, pw in HT. cbn [NOF fst snd] in HT.
  cbn [fst snd Z.add Z.eqb Z.opp Pos.eqb Z.pos_sub] in HT.
  destruct (pos NOF ds) as [i j] eqn:Hpos. cbn [fst snd] in HT.
  destruct HT as [Hi [Hj Hij]].
  exists (last ds 0), i, j, (total_flips NOF ds). split; [reflexivity|].
  split; [apply last_dig; exact HD|]. split; [exact HF|].
  split; [rewrite Zle_Qle; exact Hi|]. split; [rewrite Zle_Qle; exact Hj|].
  rewrite Zle_Qle, inject_Z_plus. lra.
Qed.

Lemma epi_bounds (n : nat) (flip inv : bool) (k i j : Z) (F : flips) :
  flip && inv = false -> fok F -> 0 <= i -> 0 <= j -> i + j <= 2 ^ Z.of_nat n ->
  let a := epi n flip inv (mkAnchor k (i, j) F) in
  a_k a = k /\ fok (a_flips a) /\
  (-1 <= fst (a_off a) <= 2 ^ Z.of_nat n + 1) /\ (-1 <= snd (a_off a) <= 2 ^ Z.of_nat n + 1).
Proof.
  intros Hc HF Hi Hj Hij. apply fok_cases in HF.
  destruct flip, inv; try discriminate Hc; destruct HF as [->|[->|[->| ->]]];
  unfold epi, fok; cbn [a_off a_k a_flips fst snd]; zred; cbn [a_off a_k a_flips fst snd]; lia.
Qed.

(* G1, second half: the centre of the pentagon lies in the lattice triangle tau_of (anchor), at distance
   >= 1/10 from its sides, and this triangle lies inside the quintant triangle i, j >= 0, i + j <= 2^n *)
Theorem located_triangle (n : nat) (o s : Z) :
  (1 <= n <= 29)%nat -> 0 <= o < 6 -> 0 <= s < 4 ^ Z.of_nat n ->
  exists l, get_pentagon_vertices QInst 0 0 (s_to_anchor s n o) = Some l /\
    let ij := face_to_ij QInst (get_center QInst l) in
    let t := tau_of (s_to_anchor s n o) in
    in_tri (1 # 10) t (fst ij) (snd ij) /\
    0 <= fst (fst t) /\ 0 <= snd (fst t) /\
    fst (fst t) + snd (fst t) + (if snd t then 1 else 2) <= 2 ^ Z.of_nat n.
Proof.
  intros Hn Ho Hs.
  destruct (anchor_shape n o s ltac:(lia) Ho Hs) as [k [i [j [F [E [Hk [HF [Hi [Hj Hij]]]]]]]]].
  destruct (epi_bounds n (o_flip_ij o) (o_invert_j o) k i j F (orientation_class o Ho) HF Hi Hj Hij) as [Ek [Ef [Bi Bj]]].
  rewrite <- E in Ek, Ef, Bi, Bj.
  pose proof (pow2_le_30 n ltac:(lia)) as HN. assert (H30 : 2 ^ 30 = 2 * 2 ^ 29) by reflexivity.
  destruct (centre_in_tau (s_to_anchor s n o)) as [l [Hl HT]]; [rewrite Ek; exact Hk|exact Ef|lia|lia|].
  destruct (centre_in_triangle n o s Hn Ho Hs) as [l' [Hl' HC]]. rewrite Hl in Hl'. injection Hl' as <-.
  exists l. split; [exact Hl|]. cbv zeta in HT, HC |- *. split; [exact HT|].
  destruct (tau_of (s_to_anchor s n o)) as [[fi fj] up]. unfold in_tri in HT. cbn [fst snd] in HT |- *.
  destruct (face_to_ij QInst (get_center QInst l)) as [cx cy]. cbn [fst snd] in HT, HC.
  destruct HC as [C1 [C2 C3]].
  destruct up; destruct HT as [T1 [T2 T3]].
  - assert (A1 : (inject_Z (-1) < inject_Z fi)%Q) by (change (inject_Z (-1)) with (-1)%Q; lra).
    assert (A2 : (inject_Z (-1) < inject_Z fj)%Q) by (change (inject_Z (-1)) with (-1)%Q; lra).
    assert (A3 : (inject_Z (fi + fj) < inject_Z (2 ^ Z.of_nat n))%Q) by (rewrite inject_Z_plus; lra).
    rewrite <- Zlt_Qlt in A1, A2, A3. lia.
  - assert (A1 : (inject_Z (-1) < inject_Z fi)%Q) by (change (inject_Z (-1)) with (-1)%Q; lra).
    assert (A2 : (inject_Z (-1) < inject_Z fj)%Q) by (change (inject_Z (-1)) with (-1)%Q; lra).
    assert (A3 : (inject_Z (fi + fj + 1) < inject_Z (2 ^ Z.of_nat n))%Q)
      by (rewrite !inject_Z_plus; change (inject_Z 1) with 1%Q; lra).
    rewrite <- Zlt_Qlt in A1, A2, A3. lia.
Qed.

(* ------------------------------------------------------------------ 11. statements with the auxiliary predicates expanded *)
Open Scope Q_scope.
Definition eps16 : Q := 1 # 10000000000000000.
Lemma eps0_le_eps16 : eps0 <= eps16.
Proof. unfold eps0, eps16, Qle. cbn. lia. Qed.

Theorem cells_eps_disjoint (n : nat) (o s1 s2 : Z) (l1 l2 : list (Q * Q)) :
  (1 <= n <= 29)%nat -> (0 <= o < 6)%Z -> (0 <= s1 < 4 ^ Z.of_nat n)%Z -> (0 <= s2 < 4 ^ Z.of_nat n)%Z ->
  get_pentagon_vertices QInst 0 0 (s_to_anchor s1 n o) = Some l1 ->
  get_pentagon_vertices QInst 0 0 (s_to_anchor s2 n o) = Some l2 ->
  s1 <> s2 ->
  forall w : Q * Q,
    ~ (Forall (fun c => (1 # 10000000000000000) < c) (crosses QInst l1 w) /\
       Forall (fun c => (1 # 10000000000000000) < c) (crosses QInst l2 w)).
Proof.
  intros Hn Ho Hs1 Hs2 G1 G2 Hne w.
  exact (pentagons_disjoint n o s1 s2 l1 l2 eps16 Hn Ho Hs1 Hs2 G1 G2 Hne eps0_le_eps16 w).
Qed.

Theorem cells_equal_or_eps_disjoint (n : nat) (o1 o2 s1 s2 : Z) (l1 l2 : list (Q * Q)) :
  (1 <= n <= 29)%nat -> (0 <= o1 < 6)%Z -> (0 <= o2 < 6)%Z ->
  (0 <= s1 < 4 ^ Z.of_nat n)%Z -> (0 <= s2 < 4 ^ Z.of_nat n)%Z ->
  get_pentagon_vertices QInst 0 0 (s_to_anchor s1 n o1) = Some l1 ->
  get_pentagon_vertices QInst 0 0 (s_to_anchor s2 n o2) = Some l2 ->
  Forall2 (fun p q : Q * Q => fst p == fst q /\ snd p == snd q) l1 l2 \/
  forall w : Q * Q,
    ~ (Forall (fun c => (1 # 10000000000000000) < c) (crosses QInst l1 w) /\
       Forall (fun c => (1 # 10000000000000000) < c) (crosses QInst l2 w)).
Proof.
  intros Hn Ho1 Ho2 Hs1 Hs2 G1 G2.
  exact (pentagons_equal_or_disjoint n o1 o2 s1 s2 l1 l2 eps16 Hn Ho1 Ho2 Hs1 Hs2 G1 G2 eps0_le_eps16).
Qed.

(* canonical form and location in one statement *)
Theorem cell_is_canonical_tile (n : nat) (o s : Z) :
  (1 <= n <= 29)%nat -> (0 <= o < 6)%Z -> (0 <= s < 4 ^ Z.of_nat n)%Z ->
  exists l, get_pentagon_vertices QInst 0 0 (s_to_anchor s n o) = Some l /\
    let t := tau_of (s_to_anchor s n o) in
    let ij := face_to_ij QInst (get_center QInst l) in
    Forall2 (fun p q : Q * Q => fst p == fst q /\ snd p == snd q) l (canon_tile t) /\
    in_tri (1 # 10) t (fst ij) (snd ij) /\
    (0 <= fst (fst t) /\ 0 <= snd (fst t) /\ fst (fst t) + snd (fst t) + (if snd t then 1 else 2) <= 2 ^ Z.of_nat n)%Z.
Proof.
  intros Hn Ho Hs. destruct (canonical_form n o s Hn Ho Hs) as [l [Hl P]].
  destruct (located_triangle n o s Hn Ho Hs) as [l' [Hl' H]]. rewrite Hl in Hl'. injection Hl' as <-.
  exists l. split; [exact Hl|]. cbv zeta in H |- *. split; [exact P|exact H].
Qed.

(* ------------------------------------------------------------------ 12. cells <-> lattice triangles of the quintant triangle *)
Open Scope Z_scope.
Definition in_quintant (n : nat) (t : tri) : Prop :=
  0 <= fst (fst t) /\ 0 <= snd (fst t) /\ fst (fst t) + snd (fst t) + (if snd t then 1 else 2) <= 2 ^ Z.of_nat n.

(* numbering of the N^2 triangles of the side-N triangle, row by row (row j has 2 (N - j) - 1 triangles) *)
Definition tidx (N : Z) (t : tri) : Z :=
  N * N - (N - snd (fst t)) * (N - snd (fst t)) + 2 * fst (fst t) + (if snd t then 0 else 1).

Lemma tidx_range N (t : tri) :
  0 <= fst (fst t) -> 0 <= snd (fst t) -> fst (fst t) + snd (fst t) + (if snd t then 1 else 2) <= N ->
  0 <= tidx N t < N * N.
Proof. destruct t as [[i j] u]. unfold tidx. cbn [fst snd]. destruct u; intros; nia. Qed.

Lemma tidx_inj N (t1 t2 : tri) :
  0 <= fst (fst t1) -> 0 <= snd (fst t1) -> fst (fst t1) + snd (fst t1) + (if snd t1 then 1 else 2) <= N ->
  0 <= fst (fst t2) -> 0 <= snd (fst t2) -> fst (fst t2) + snd (fst t2) + (if snd t2 then 1 else 2) <= N ->
  tidx N t1 = tidx N t2 -> t1 = t2.
Proof.
  destruct t1 as [[i1 j1] u1], t2 as [[i2 j2] u2]. unfold tidx. cbn [fst snd]. intros A1 B1 C1 A2 B2 C2 E.
  assert (Hj : j1 = j2).
  { destruct (Z.lt_trichotomy j1 j2) as [H|[H|H]]; [exfalso|exact H|exfalso]; destruct u1, u2; nia. }
  subst j2. assert (Hu : u1 = u2) by (destruct u1, u2; try reflexivity; exfalso; lia).
  subst u2. assert (i1 = i2) by lia. subst. reflexivity.
Qed.

Lemma NoDup_map_inj_on {A B} (f : A -> B) (l : list A) :
  (forall x y, In x l -> In y l -> f x = f y -> x = y) -> NoDup l -> NoDup (map f l).
Proof.
  intros Hinj H. induction H as [|a r Ha Hr IH]; cbn [map]; constructor.
  - intros Hin. apply in_map_iff in Hin. destruct Hin as [x [Hx Hin]].
    apply Ha. rewrite (Hinj a x); [exact Hin|left; reflexivity|right; exact Hin|symmetry; exact Hx].
  - apply IH. intros x y Hx Hy. apply Hinj; right; assumption.
Qed.

(* every lattice triangle of the quintant triangle is the triangle of exactly one position (counting:
   4^n positions, 4^n triangles, tau_injective) *)
Theorem tau_surjective (n : nat) (o : Z) (t : tri) :
  (1 <= n <= 29)%nat -> 0 <= o < 6 -> in_quintant n t ->
  exists s, 0 <= s < 4 ^ Z.of_nat n /\ tau_of (s_to_anchor s n o) = t.
Proof.
  intros Hn Ho [T1 [T2 T3]]. set (N := 2 ^ Z.of_nat n) in *.
  assert (HM : 4 ^ Z.of_nat n = N * N) by (unfold N; rewrite <- Z.pow_mul_l; reflexivity).
  assert (HNpos : 0 < N) by (apply Z.pow_pos_nonneg; lia).
  set (h := fun s => tidx N (tau_of (s_to_anchor s n o))).
  set (L := seqZ 0 (Z.to_nat (N * N))).
  assert (HL : forall s, In s L <-> 0 <= s < 4 ^ Z.of_nat n).
  { intros s. unfold L. rewrite in_seqZ, Z2Nat.id by nia. rewrite HM. lia. }
  assert (Hq : forall s, In s L -> in_quintant n (tau_of (s_to_anchor s n o))).
  { intros s Hs. apply HL in Hs. destruct (located_triangle n o s Hn Ho Hs) as [l [_ H]]. cbv zeta in H. exact (proj2 H). }
  assert (Hinj : forall x y, In x L -> In y L -> h x = h y -> x = y).
  { intros x y Hx Hy E. destruct (Hq x Hx) as [A1 [B1 C1]]. destruct (Hq y Hy) as [A2 [B2 C2]].
    apply (tau_injective n o x y Hn Ho); [apply HL; exact Hx|apply HL; exact Hy|].
    exact (tidx_inj N _ _ A1 B1 C1 A2 B2 C2 E). }
  assert (ND : NoDup (map h L)) by (apply NoDup_map_inj_on; [exact Hinj|apply seqZ_NoDup]).
  assert (Hincl : incl (map h L) L).
  { intros v Hv. apply in_map_iff in Hv. destruct Hv as [s [<- Hs]].
    destruct (Hq s Hs) as [A1 [B1 C1]]. pose proof (tidx_range N _ A1 B1 C1) as R.
    apply HL. rewrite HM. exact R. }
  assert (Hlen : (length L <= length (map h L))%nat) by (rewrite map_length; lia).
  pose proof (NoDup_length_incl ND Hlen Hincl) as Hsur.
  assert (Ht : In (tidx N t) L).
  { apply HL. rewrite HM. apply tidx_range; assumption. }
  apply Hsur in Ht. apply in_map_iff in Ht. destruct Ht as [s [Es Hs]].
  exists s. split; [apply HL; exact Hs|].
  destruct (Hq s Hs) as [A1 [B1 C1]]. exact (tidx_inj N _ _ A1 B1 C1 T1 T2 T3 Es).
Qed.

(* the six orientations enumerate the same tiles: for every cell of orientation o1 there is a position of
   orientation o2 with the same pentagon *)
Theorem orientations_same_tiles (n : nat) (o1 o2 s1 : Z) :
  (1 <= n <= 29)%nat -> 0 <= o1 < 6 -> 0 <= o2 < 6 -> 0 <= s1 < 4 ^ Z.of_nat n ->
  exists s2 l1 l2, 0 <= s2 < 4 ^ Z.of_nat n /\
    get_pentagon_vertices QInst 0 0 (s_to_anchor s1 n o1) = Some l1 /\
    get_pentagon_vertices QInst 0 0 (s_to_anchor s2 n o2) = Some l2 /\ peq l1 l2.
Proof.
  intros Hn Ho1 Ho2 Hs1.
  destruct (located_triangle n o1 s1 Hn Ho1 Hs1) as [l1 [G1 H]]. cbv zeta in H. destruct H as [_ Hq].
  destruct (tau_surjective n o2 (tau_of (s_to_anchor s1 n o1)) Hn Ho2 Hq) as [s2 [Hs2 E]].
  destruct (canonical_form n o1 s1 Hn Ho1 Hs1) as [l1' [G1' P1]]. rewrite G1 in G1'. injection G1' as <-.
  destruct (canonical_form n o2 s2 Hn Ho2 Hs2) as [l2 [G2 P2]].
  exists s2, l1, l2. split; [exact Hs2|]. split; [exact G1|]. split; [exact G2|].
  rewrite E in P2. exact (peq_trans _ _ _ P1 (peq_sym _ _ P2)).
Qed.

(* Summary.
   Model: exact rational instance QInst, quintant 0 (identity rotation), resolution argument 0 (unscaled:
   lattice units; the cell of curve depth n at position s with orientation o is
   get_pentagon_vertices QInst 0 0 (s_to_anchor s n o); the true cell is this divided by 2^n).
   Covered: all depths 1 <= n <= 29, all six orientations, all positions.
   - shape / canon_tile: four pentagon shapes (base pentagon, its mirror image, and their half-turns moved by
     v + w); canon_tile ((fi, fj), up) = shape (parity of fi + fj) up + BASIS * (fi, fj): a periodic tiling with
     one tile per unit lattice triangle;
   - canonical_form (G1): the pentagon of (s, n, o) is, vertex by vertex and in the same order, the canonical
     tile of tau_of (anchor) (the triangle depends on the anchor's offset and flips only; that k is determined
     by offset parity and flips is part of the closed check state_table over 48 normalised anchors,
     anchor_finite);  located_triangle: the pentagon's centre lies in that triangle (margin 1/10) and the
     triangle lies in the quintant triangle;  tau_injective: distinct positions, distinct triangles;
   - canon_disjoint (G2): two different canonical tiles have no point that is more than eps0 = 2^-54 inside
     both (every edge cross product > eps0).  Far tiles: bounding boxes (canon_bbox, far_x, far_y) and the
     hull lemma (hull5: a point with positive cross products lies in the hull of the vertices, by fan
     triangulation, no convexity assumption);  near tiles: closed table of separating edges (near_table);
   - pentagons_disjoint (G3), pentagons_equal_or_disjoint (two orientations): as stated; cells_eps_disjoint
     etc. are the same with eps = 1e-16 and all auxiliary predicates expanded;
   - tau_surjective: every lattice triangle of the quintant triangle (in_quintant) is the triangle of exactly
     one position, for each orientation (counting); orientations_same_tiles: the six orientations enumerate the
     same 4^n pentagons;
   - tiles_exact_disjoint_refuted: eps = 0 is FALSE in the exact model (the f64 pentagon constants are not
     exactly symmetric): depth 1, orientation 0, positions 0 and 3 share a strictly interior point;
     sliver_depth_example: that point is 2^-57 inside both.  In distance: common points are within
     1.4e-16 lattice units of the boundary (edge_length_table).
   Absence of gaps (up to the same slivers): Hilbert/TilingCover.v.  Not covered: quintants 1..4, the sphere. *)
