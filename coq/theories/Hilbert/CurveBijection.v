(* C17: composition of the digit part (DigitsProofs: the backward digit pass undoes the forward
   pass, for every length) and the geometric part (LocateProofs: the digits located for a
   pentagon's centre are the shifted digits of its position). *)
From Coq Require Import ZArith QArith List Bool Lia.
From A5 Require Import Num.NumOps Num.QInst Hilbert.Hilbert Hilbert.DigitsProofs Hilbert.LocateProofs Geo.Tiling.
From A5gen Require Import TablesCur.
Import ListNotations.
Open Scope Z_scope.

Lemma total_flips_total l f : total_flips f l = fmul f (total l).
Proof.
  revert f; induction l as [|d l IH]; intros f; unfold total_flips in *; cbn [fold_left total].
  - symmetry. apply fmul_NOF_r.
  - rewrite IH. apply fmul_assoc.
Qed.

Theorem locate_centre (n : nat) (o s : Z) :
  (1 <= n <= 29)%nat -> 0 <= o < 6 -> 0 <= s < 4 ^ Z.of_nat n ->
  exists l, get_pentagon_vertices QInst 0 0 (s_to_anchor s n o) = Some l /\
    let ij := face_to_ij QInst (get_center QInst l) in
    ij_to_s QInst (fst ij) (snd ij) n o = Some s.
Proof.
  intros Hn Ho Hs. apply ij_to_s_centre_roundtrip; try assumption.
  cbv zeta. unfold shifted_digits. rewrite total_flips_total, fmul_NOF_l.
  pose proof (unshift_shift_value (cur_pat (o_flip_ij o)) (cur_pat_perm _) (o_invert_j o)
                (adjusted_s s n o) n ltac:(lia) (adjusted_s_range s n o Hs)) as H.
  cbv zeta in H. unfold cur_pat, adjusted_s in H. exact H.
Qed.

Theorem positions_injective (n : nat) (o s1 s2 : Z) (l1 l2 : list (Q * Q)) :
  (1 <= n <= 29)%nat -> 0 <= o < 6 -> 0 <= s1 < 4 ^ Z.of_nat n -> 0 <= s2 < 4 ^ Z.of_nat n ->
  get_pentagon_vertices QInst 0 0 (s_to_anchor s1 n o) = Some l1 ->
  get_pentagon_vertices QInst 0 0 (s_to_anchor s2 n o) = Some l2 ->
  s1 <> s2 ->
  ~ ((fst (get_center QInst l1) == fst (get_center QInst l2))%Q /\
     (snd (get_center QInst l1) == snd (get_center QInst l2))%Q).
Proof.
  intros Hn Ho H1 H2 E1 E2 Hne.
  apply (centres_distinct n o s1 s2 l1 l2); try assumption.
  intros a b Ha Hb Hab. unfold shifted_digits in Hab.
  fold (adjusted_s a n o) in Hab. fold (adjusted_s b n o) in Hab. fold (cur_pat (o_flip_ij o)) in Hab.
  destruct (DigitsProofs.digits_msb_spec (adjusted_s a n o) n ltac:(lia) (adjusted_s_range a n o Ha)) as [_ [Da Va]].
  destruct (DigitsProofs.digits_msb_spec (adjusted_s b n o) n ltac:(lia) (adjusted_s_range b n o Hb)) as [_ [Db Vb]].
  pose proof (shift_forward_injective (cur_pat (o_flip_ij o)) (cur_pat_perm _) NOF (o_invert_j o) _ _ Da Db Hab) as Hd.
  assert (E : adjusted_s a n o = adjusted_s b n o) by congruence.
  rewrite <- (adjusted_s_involutive a n o Ha), <- (adjusted_s_involutive b n o Hb), E. reflexivity.
Qed.
