(* Correspondence cases for the memo tables (C13): a history of projection calls, each with the
   slots the implementation newly filled (observed through the verif_memo_slots hook). *)
From Coq Require Import ZArith List Bool.
From A5 Require Import Base.Outcome Base.Word Geo.Cache.
From A5 Require Export Corr.Lit.
Import ListNotations.
Open Scope Z_scope.

(* dummy geometry: the slot behaviour does not depend on it *)
Definition d_base (i : Z) : Z := i.
Definition d_refl (i : Z) (q : bool) : Z := 100 + i + (if q then 50 else 0).
Definition d_st (i g : Z) (r : bool) (t : Z) : Z := 1000 * g + 10 * i + t.

Inductive kcase :=
| KHistory (calls : list (Z * Z * bool * bool * list Z * list Z)).
   (* idx, origin, reflect, returned Ok?, newly filled face-triangle slots, newly filled spherical slots *)

Fixpoint newly (k : Z) (before after : list bool) : list Z :=
  match before, after with
  | b :: bs, a :: as_ => if negb b && a then k :: newly (k + 1) bs as_ else newly (k + 1) bs as_
  | _, _ => []
  end.

Fixpoint zlist_eqb (a b : list Z) : bool :=
  match a, b with
  | [], [] => true
  | x :: xs, y :: ys => (x =? y) && zlist_eqb xs ys
  | _, _ => false
  end.

Fixpoint run_check (s : state Z Z) (calls : list (Z * Z * bool * bool * list Z * list Z)) : bool :=
  match calls with
  | [] => true
  | (i, g, r, ok, nf, ns) :: rest =>
      match step Z Z d_base d_refl d_st s (mkCall i g r) with
      | Ok (_, s') =>
          ok && zlist_eqb (newly 0 (filled (ft Z Z s)) (filled (ft Z Z s'))) nf
             && zlist_eqb (newly 0 (filled (st Z Z s)) (filled (st Z Z s'))) ns
             && run_check s' rest
      | Err => negb ok && zlist_eqb nf [] && zlist_eqb ns [] && run_check s rest
      | _ => false
      end
  end.

Definition kcheck (c : kcase) : bool :=
  match c with KHistory calls => run_check (init Z Z) calls end.

Fixpoint kmismatches_from (k : Z) (l : list kcase) : list Z :=
  match l with
  | [] => []
  | c :: cs => if kcheck c then kmismatches_from (k + 1) cs else k :: kmismatches_from (k + 1) cs
  end.
Definition mismatches (l : list kcase) : list Z := kmismatches_from 0 l.
Definition case := kcase.
