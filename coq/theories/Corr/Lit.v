(* 64-bit inputs of correspondence cases are written as two primitive-integer halves
   (parsing 19-digit decimal Z numerals costs ~1.5 ms each); U hi lo = hi * 2^32 + lo *)
From Coq Require Import ZArith Uint63.
Definition U (hi lo : int) : Z := (Uint63.to_Z hi * 4294967296 + Uint63.to_Z lo)%Z.
Arguments U (hi lo)%uint63_scope.
