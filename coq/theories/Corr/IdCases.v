(* Correspondence cases for the ID layer: each case carries an input and the outcome the
   implementation produced; [check] runs the model's own definition on the same input and
   compares.  The harness writes lists of these; `Eval vm_compute in (mismatches cases)`
   prints the indices where model and implementation differ. *)
From Coq Require Import ZArith List Bool Uint63.
From A5 Require Import Base.Outcome Base.Word Id.Codec Id.Tree Id.Compact Id.Hex.
From A5 Require Export Corr.Lit.
Import ListNotations.
Open Scope Z_scope.

(* implementation outcome *)
Inductive res (A : Type) := ROk (a : A) | RErr | RPanic.
Arguments ROk {A} a. Arguments RErr {A}. Arguments RPanic {A}.

Definition same {A} (eqb : A -> A -> bool) (m : out A) (r : res A) : bool :=
  match m, r with
  | Ok a, ROk b => eqb a b
  | Err, RErr => true
  | Panic, RPanic => true
  | _, _ => false
  end.

Fixpoint list_eqb {A} (eqb : A -> A -> bool) (a b : list A) : bool :=
  match a, b with
  | [], [] => true
  | x :: xs, y :: ys => eqb x y && list_eqb eqb xs ys
  | _, _ => false
  end.

Definition cell_eqb (a b : cell) : bool :=
  (origin_id a =? origin_id b) && (segment a =? segment b) && (s a =? s b)
  && (resolution a =? resolution b).

Inductive case :=
| CSerialize (o sg sv r : Z) (e : res Z)
| CDeserialize (i : Z) (e : res (Z * Z * Z * Z))
| CResolution (i : Z) (e : Z)
| CToHex (v : Z) (e : list Z)
| CFromHex (s : list Z) (e : res Z)
| CChildren (i : Z) (r : option Z) (e : res (list Z))
| CParent (i : Z) (r : option Z) (e : res Z)
| CRes0 (e : res (list Z))
| CFirstChild (i r : Z) (e : res bool)
| CStride (r : Z) (e : res Z)
| CNumCells (r : Z) (e : Z)
| CCompact (l : list Z) (e : res (list Z))
| CUncompact (l : list Z) (t : Z) (e : res (list Z)).

Definition check (c : case) : bool :=
  match c with
  | CSerialize o sg sv r e => same Z.eqb (serialize (mkCell o sg sv r)) e
  | CDeserialize i e =>
      same cell_eqb (deserialize i)
           (match e with ROk (o, sg, sv, r) => ROk (mkCell o sg sv r) | RErr => RErr | RPanic => RPanic end)
  | CResolution i e => get_resolution i =? e
  | CToHex v e => list_eqb Z.eqb (u64_to_hex v) e
  | CFromHex s e => same Z.eqb (hex_to_u64 s) e
  | CChildren i r e => same (list_eqb Z.eqb) (cell_to_children i r) e
  | CParent i r e => same Z.eqb (cell_to_parent i r) e
  | CRes0 e => same (list_eqb Z.eqb) get_res0_cells e
  | CFirstChild i r e => same Bool.eqb (is_first_child i r) e
  | CStride r e => same Z.eqb (get_stride r) e
  | CNumCells r e => get_num_cells r =? e
  | CCompact l e => same (list_eqb Z.eqb) (compact l) e
  | CUncompact l t e => same (list_eqb Z.eqb) (uncompact l t) e
  end.

Fixpoint mismatches_from (k : Z) (l : list case) : list Z :=
  match l with
  | [] => []
  | c :: cs => if check c then mismatches_from (k + 1) cs else k :: mismatches_from (k + 1) cs
  end.

Definition mismatches (l : list case) : list Z := mismatches_from 0 l.
