(* Correspondence cases for the spherical layer, evaluated with the interval instance:
   the implementation's f64 result must lie in the model's rigorous enclosure widened by the
   case's tolerance; decisions that the enclosure cannot settle are reported as ambiguous. *)
From Coq Require Import ZArith List Bool.
From A5 Require Import Base.Outcome Num.NumOps Num.IvInst Num.Derived Id.Codec Geo.Authalic Geo.Sphere Geo.Tiling Geo.Projection Geo.Cell.
From A5 Require Export Corr.Lit.
Import ListNotations.
Open Scope Z_scope.

Definition dyv := (Z * Z)%type.

Inductive gcase :=
| GAuthFwd (x e tol : dyv)
| GAuthInv (x e tol : dyv)
| GFromLonLat (lon lat theta phi tol : dyv)
| GToLonLat (theta phi lon lat tol : dyv)
| GHaversine (t p t2 p2 e tol : dyv)
| GNearest (theta phi : dyv) (e : Z)
(* DodecahedronProjection::forward(theta, phi, origin) -> face point *)
| GDodecFwd (theta phi : dyv) (origin : Z) (ex ey tol : dyv)
(* DodecahedronProjection::inverse(x, y, origin) -> unit vector of the result *)
| GDodecInv (x y : dyv) (origin : Z) (cx cy cz tol : dyv)
(* lonlat_to_cell(lon, lat, res) -> Ok id (e >= 0) or Err (e = -1) *)
| GLookup (lon lat : dyv) (res : Z) (e : Z)
(* cell_to_lonlat(id) -> (lon, lat) *)
| GCentre (id : Z) (lon lat tol : dyv)
(* cell_to_boundary(id, segments): the implementation's ring with the closing point removed and the
   order reversed back to pentagon order; longitudes are compared modulo 360 *)
| GBoundary (id : Z) (segments : option Z) (pts : list (dyv * dyv)) (tol : dyv)
(* cell_to_boundary(id, {segments, closed_ring}) as returned: order, closing point and unwrapped longitudes *)
| GRing (id : Z) (segments : option Z) (closed : bool) (pts : list (dyv * dyv)) (tol : dyv)
(* a5cell_contains_point(cell of id, lon, lat) > 0 ? *)
| GContains (id : Z) (lon lat : dyv) (e : bool).

(* inputs of lookups are widened by a few ulps (2^-43 degrees = 2e-15 rad): a decision that flips under
   such a perturbation is within the rounding noise of the f64 implementation and is reported as
   ambiguous instead of being compared *)
Definition widen (a : iv) : iv :=
  let w := F.scale2 (F.fromZ 1) (F.ZtoS (-43)) in
  I.add prec a (I.bnd (F.neg w) w).

Definition lon_close (m : iv) (e tol : dyv) : bool :=
  existsb (fun k => iv_contains_dy (I.add prec m (iv_ofZ (360 * k))) e tol) [0; 1; -1; 2; -2]%Z.

Fixpoint pts_equal (l : list (iv * iv)) (e : list (dyv * dyv)) (tol : dyv) : bool :=
  match l, e with
  | [], [] => true
  | (lo, la) :: ls, (elo, ela) :: es => iv_contains_dy lo elo tol && iv_contains_dy la ela tol && pts_equal ls es tol
  | _, _ => false
  end.

Fixpoint pts_close (l : list (iv * iv)) (e : list (dyv * dyv)) (tol : dyv) : bool :=
  match l, e with
  | [], [] => true
  | (lo, la) :: ls, (elo, ela) :: es => lon_close lo elo tol && iv_contains_dy la ela tol && pts_close ls es tol
  | _, _ => false
  end.

(* verdict: 0 = agree, 1 = mismatch, 2 = ambiguous (enclosure straddles a decision) *)
Definition gcheck (c : gcase) : Z :=
  let D := iv_ofdy in
  match c with
  | GAuthFwd x e tol => if iv_contains_dy (authalic_forward IvInst (D x)) e tol then 0 else 1
  | GAuthInv x e tol => if iv_contains_dy (authalic_inverse IvInst (D x)) e tol then 0 else 1
  | GFromLonLat lon lat theta phi tol =>
      let '(t, p) := from_lon_lat IvInst (D lon) (D lat) in
      if iv_contains_dy t theta tol && iv_contains_dy p phi tol then 0 else 1
  | GToLonLat theta phi lon lat tol =>
      let '(lo, la) := to_lon_lat IvInst (D theta) (D phi) in
      if iv_contains_dy lo lon tol && iv_contains_dy la lat tol then 0 else 1
  | GHaversine t p t2 p2 e tol =>
      if iv_contains_dy (haversine IvInst (D t) (D p) (D t2) (D p2)) e tol then 0 else 1
  | GNearest theta phi e =>
      match find_nearest_origin IvInst (D theta) (D phi) with
      | Some i => if i =? e then 0 else 1
      | None => 2
      end
  | GDodecFwd theta phi origin ex ey tol =>
      match dodec_forward IvInst (D theta) (D phi) origin with
      | Some (x, y) => if iv_contains_dy x ex tol && iv_contains_dy y ey tol then 0 else 1
      | None => 2
      end
  | GDodecInv x y origin cx cy cz tol =>
      match dodec_inverse IvInst (D x, D y) origin with
      | Some (t, p) =>
          let '(vx, vy, vz) := to_cartesian IvInst t p in
          if iv_contains_dy vx cx tol && iv_contains_dy vy cy tol && iv_contains_dy vz cz tol then 0 else 1
      | None => 2
      end
  | GLookup lon lat res e =>
      match lonlat_to_cell IvInst (widen (D lon)) (widen (D lat)) res with
      | Some (Ok id) => if id =? e then 0 else 1
      | Some Err => if e =? -1 then 0 else 1
      | Some _ => 1
      | None => 2
      end
  | GCentre id lon lat tol =>
      match cell_to_lonlat IvInst id with
      | Some (Ok (lo, la)) => if lon_close lo lon tol && iv_contains_dy la lat tol then 0 else 1
      | Some _ => 1
      | None => 2
      end
  | GBoundary id segments pts tol =>
      match cell_boundary_raw IvInst id segments with
      | Some (Ok l) => if pts_close l pts tol then 0 else 1
      | Some _ => 1
      | None => 2
      end
  | GRing id segments closed pts tol =>
      match cell_to_boundary IvInst id segments closed with
      | Some (Ok l) => if pts_equal l pts tol then 0 else 1
      | Some _ => 1
      | None => 2
      end
  | GContains id lon lat e =>
      match deserialize id with
      | Ok c =>
          match cell_contains_point IvInst c (widen (D lon)) (widen (D lat)) with
          | Some d =>
              match iv_ltb (iv_ofZ 0) d with
              | Some b => if Bool.eqb b e then 0 else 1
              | None => 2
              end
          | None => 2
          end
      | _ => 1
      end
  end.

(* one traversal: (indices of mismatches, indices of ambiguous cases) *)
Fixpoint verdicts_from (k : Z) (l : list gcase) : list Z * list Z :=
  match l with
  | [] => ([], [])
  | c :: cs =>
      let '(m, a) := verdicts_from (k + 1) cs in
      let v := gcheck c in
      if v =? 1 then (k :: m, a) else if v =? 2 then (m, k :: a) else (m, a)
  end.
Definition verdicts (l : list gcase) : list Z * list Z := verdicts_from 0 l.
Definition case := gcase.
