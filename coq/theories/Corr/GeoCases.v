(* Correspondence cases for the spherical layer, evaluated with the interval instance:
   the implementation's f64 result must lie in the model's rigorous enclosure widened by the
   case's tolerance; decisions that the enclosure cannot settle are reported as ambiguous. *)
From Coq Require Import ZArith List Bool.
From A5 Require Import Num.NumOps Num.IvInst Num.Derived Geo.Authalic Geo.Sphere Geo.Tiling Geo.Projection.
From A5 Require Export Corr.Lit.
Import ListNotations.
Open Scope Z_scope.

Definition dyv := (Z * Z)%type.

Inductive gcase :=
| GAuthFwd (x e tol : dyv)
| GAuthInv (x e tol : dyv)
| GFromLonLat (lon lat theta phi tol : dyv)
| GToLonLat (theta phi lon lat tol : dyv)
| GHaversine (t p t2 p2 e tol : dyv)
| GNearest (theta phi : dyv) (e : Z)
(* DodecahedronProjection::forward(theta, phi, origin) -> face point *)
| GDodecFwd (theta phi : dyv) (origin : Z) (ex ey tol : dyv)
(* DodecahedronProjection::inverse(x, y, origin) -> unit vector of the result *)
| GDodecInv (x y : dyv) (origin : Z) (cx cy cz tol : dyv).

(* verdict: 0 = agree, 1 = mismatch, 2 = ambiguous (enclosure straddles a decision) *)
Definition gcheck (c : gcase) : Z :=
  let D := iv_ofdy in
  match c with
  | GAuthFwd x e tol => if iv_contains_dy (authalic_forward IvInst (D x)) e tol then 0 else 1
  | GAuthInv x e tol => if iv_contains_dy (authalic_inverse IvInst (D x)) e tol then 0 else 1
  | GFromLonLat lon lat theta phi tol =>
      let '(t, p) := from_lon_lat IvInst (D lon) (D lat) in
      if iv_contains_dy t theta tol && iv_contains_dy p phi tol then 0 else 1
  | GToLonLat theta phi lon lat tol =>
      let '(lo, la) := to_lon_lat IvInst (D theta) (D phi) in
      if iv_contains_dy lo lon tol && iv_contains_dy la lat tol then 0 else 1
  | GHaversine t p t2 p2 e tol =>
      if iv_contains_dy (haversine IvInst (D t) (D p) (D t2) (D p2)) e tol then 0 else 1
  | GNearest theta phi e =>
      match find_nearest_origin IvInst (D theta) (D phi) with
      | Some i => if i =? e then 0 else 1
      | None => 2
      end
  | GDodecFwd theta phi origin ex ey tol =>
      match dodec_forward IvInst (D theta) (D phi) origin with
      | Some (x, y) => if iv_contains_dy x ex tol && iv_contains_dy y ey tol then 0 else 1
      | None => 2
      end
  | GDodecInv x y origin cx cy cz tol =>
      match dodec_inverse IvInst (D x, D y) origin with
      | Some (t, p) =>
          let '(vx, vy, vz) := to_cartesian IvInst t p in
          if iv_contains_dy vx cx tol && iv_contains_dy vy cy tol && iv_contains_dy vz cz tol then 0 else 1
      | None => 2
      end
  end.

(* one traversal: (indices of mismatches, indices of ambiguous cases) *)
Fixpoint verdicts_from (k : Z) (l : list gcase) : list Z * list Z :=
  match l with
  | [] => ([], [])
  | c :: cs =>
      let '(m, a) := verdicts_from (k + 1) cs in
      let v := gcheck c in
      if v =? 1 then (k :: m, a) else if v =? 2 then (m, k :: a) else (m, a)
  end.
Definition verdicts (l : list gcase) : list Z * list Z := verdicts_from 0 l.
Definition case := gcase.
