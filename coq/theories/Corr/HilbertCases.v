(* Correspondence cases for the curve layer (s_to_anchor, ij_to_s on exact dyadic points). *)
From Coq Require Import ZArith QArith List Bool Uint63.
From A5 Require Import Base.Outcome Base.Word Num.NumOps Num.QInst Hilbert.Hilbert Geo.Tiling.
From A5 Require Export Corr.Lit.
Import ListNotations.
Open Scope Z_scope.

Inductive hcase :=
| HAnchor (s : Z) (n : Z) (o : Z) (k i j fx fy : Z)
| HIjToS (x y : Z * Z) (n : Z) (o : Z) (e : Z)
(* get_pentagon_vertices(resolution, quintant, anchor) -> vertices (and their centre), within 1e-13 *)
| HPentagon (n q k i j fx fy : Z) (verts : list ((Z * Z) * (Z * Z))) (centre : (Z * Z) * (Z * Z))
| HQuintant (q : Z) (verts : list ((Z * Z) * (Z * Z)))
| HFace (verts : list ((Z * Z) * (Z * Z))).

Definition tol : Q := (1 # 10000000000000)%Q.
Definition qclose (a : Q) (b : Z * Z) : bool := Qle_bool (Qabs.Qabs (a - dy2Q b)) tol.
Definition ptclose (p : Q * Q) (e : (Z * Z) * (Z * Z)) : bool := qclose (fst p) (fst e) && qclose (snd p) (snd e).
Fixpoint ptsclose (l : list (Q * Q)) (e : list ((Z * Z) * (Z * Z))) : bool :=
  match l, e with
  | [], [] => true
  | p :: ps, x :: xs => ptclose p x && ptsclose ps xs
  | _, _ => false
  end.

Definition hcheck (c : hcase) : bool :=
  match c with
  | HAnchor s n o k i j fx fy =>
      let a := s_to_anchor s (Z.to_nat n) o in
      (a_k a =? k) && (fst (a_off a) =? i) && (snd (a_off a) =? j)
      && (fst (a_flips a) =? fx) && (snd (a_flips a) =? fy)
  | HIjToS x y n o e =>
      match ij_to_s QInst (dy2Q x) (dy2Q y) (Z.to_nat n) o with
      | Some v => v =? e
      | None => false
      end
  | HPentagon n q k i j fx fy verts centre =>
      match get_pentagon_vertices QInst n q (mkAnchor k (i, j) (fx, fy)) with
      | Some l => ptsclose l verts && ptclose (get_center QInst l) centre
      | None => false
      end
  | HQuintant q verts =>
      match get_quintant_vertices QInst q with Some l => ptsclose l verts | None => false end
  | HFace verts =>
      match get_face_vertices QInst with Some l => ptsclose l verts | None => false end
  end.

Fixpoint hmismatches_from (k : Z) (l : list hcase) : list Z :=
  match l with
  | [] => []
  | c :: cs => if hcheck c then hmismatches_from (k + 1) cs else k :: hmismatches_from (k + 1) cs
  end.
Definition mismatches (l : list hcase) : list Z := hmismatches_from 0 l.
Definition case := hcase.
