#!/bin/sh
# Build the framework from files on disk only (offline): harness (debug + release) from /repo's
# working tree, regenerated tables, the whole Coq development (full .vo build).
set -e
cd "$(dirname "$0")"
export CARGO_NET_OFFLINE=true CARGO_TARGET_DIR="$PWD/.build/cargo"
mkdir -p .build coq/gen
[ -f harness/Cargo.lock ] || cp /repo/Cargo.lock harness/Cargo.lock
(cd harness && cargo build --offline --quiet && cargo build --offline --quiet --release)
.build/cargo/debug/a5h tables > coq/gen/TablesCur.v.new
if cmp -s coq/gen/TablesCur.v.new coq/gen/TablesCur.v; then rm coq/gen/TablesCur.v.new; else mv coq/gen/TablesCur.v.new coq/gen/TablesCur.v; fi
cd coq
FILES="$(find theories -name '*.v' | sort) gen/TablesCur.v"
printf '%s\n' $FILES > .filelist.tmp
coq_makefile -f _CoqProject -o Makefile $FILES
timeout 7200 make -j"$(nproc)" > ../.build/coq_build.log 2>&1 || { tail -40 ../.build/coq_build.log; exit 1; }
cd ..
python3 tools/check.py warm-audit
echo "setup ok"
